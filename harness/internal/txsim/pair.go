package txsim

// Property C02 relates two histories that establish the same facts. This
// file holds the lease-aware Go twin of the Coq facts (spec_step of
// coq/Tx/Hist.v including Lease / Release / Tick / Sweep and the lease
// removal of a confirmed spend) and the constructions of the second history:
//
//	direct     confirmed transactions block by block in id order, then the
//	           unconfirmed ones, then the leases (the construction used before)
//	shuffled   the same final chain reached another way: blocks delivered in
//	           another parents-first order, unmined versions first, repeated
//	           deliveries, detours through blocks of other forks that are
//	           disconnected again, top blocks disconnected and reconnected
//	perturbed  history A itself with facts-preserving insertions (detours,
//	           disconnect + reconnect of the same blocks in another order,
//	           repeated and stale deliveries) - its lease events stay in place
//
// Every candidate is validated here (every event admissible, final facts
// equal INCLUDING the raw leases and the clock) and again by the Coq
// predicate inside the cases file.

import (
	"sort"

	"verifharness/internal/gen"
)

// LFacts = Facts + raw leases + clock (ms).
type LFacts struct {
	*Facts
	Leases map[[2]int64][2]int64 // outpoint -> (lock id, expiry ms)
	Now    int64
}

// NewLFacts returns empty facts at time 0.
func NewLFacts() *LFacts { return &LFacts{Facts: NewFacts(), Leases: map[[2]int64][2]int64{}} }

func (f *LFacts) knownOutput(u *Universe, op [2]int64) bool {
	if !f.Known(op[0]) {
		return false
	}
	t := u.Get(op[0])
	if t == nil {
		return false
	}
	cred := false
	for _, c := range t.Creds {
		if c[0] == op[1] {
			cred = true
		}
	}
	if !cred {
		return false
	}
	for c := range f.Conf {
		for _, in := range u.Get(c).Ins {
			if in == op {
				return false
			}
		}
	}
	return true
}

func truncSec(ms int64) int64 {
	q := ms / 1000
	if ms%1000 != 0 && ms < 0 {
		q--
	}
	return q * 1000
}

// OK is event_ok including the lease events.
func (f *LFacts) OK(u *Universe, e Event) bool {
	switch e.K {
	case "lease":
		return e.Dur >= 0
	case "tick":
		return e.Dt >= 0
	case "release", "sweep":
		return true
	}
	return f.EventOK(u, e)
}

// Apply is spec_step.
func (f *LFacts) Apply(u *Universe, e Event) {
	switch e.K {
	case "lease":
		if !f.knownOutput(u, e.Op) {
			return
		}
		if l, ok := f.Leases[e.Op]; ok && f.Now < l[1] && l[0] != e.ID {
			return
		}
		f.Leases[e.Op] = [2]int64{e.ID, truncSec(f.Now + e.Dur)}
	case "release":
		if !f.knownOutput(u, e.Op) {
			return
		}
		if l, ok := f.Leases[e.Op]; ok && f.Now < l[1] && l[0] == e.ID {
			delete(f.Leases, e.Op)
		}
	case "tick":
		f.Now += e.Dt
	case "sweep":
		for op, l := range f.Leases {
			if !(f.Now < l[1]) {
				delete(f.Leases, op)
			}
		}
	case "confirm":
		if _, ok := f.Conf[e.T]; !ok {
			for _, in := range u.Get(e.T).Ins {
				delete(f.Leases, in)
			}
		}
		f.Facts.Apply(u, e)
	default:
		f.Facts.Apply(u, e)
	}
}

// Equal compares confirmed, unconfirmed, raw leases and the clock.
func (f *LFacts) Equal(g *LFacts) bool {
	if len(f.Conf) != len(g.Conf) || len(f.Unconf) != len(g.Unconf) || len(f.Leases) != len(g.Leases) || f.Now != g.Now {
		return false
	}
	for t, b := range f.Conf {
		if g.Conf[t] != b {
			return false
		}
	}
	for t := range f.Unconf {
		if !g.Unconf[t] {
			return false
		}
	}
	for op, l := range f.Leases {
		if g.Leases[op] != l {
			return false
		}
	}
	return true
}

// RunFacts applies a history; ok = every event admissible.
func RunFacts(u *Universe, evs []Event) (*LFacts, bool) {
	f := NewLFacts()
	ok := true
	for _, e := range evs {
		if !f.OK(u, e) {
			ok = false
		}
		f.Apply(u, e)
	}
	return f, ok
}

// SamePair reports whether a and b are admissible and establish equal facts.
func SamePair(u *Universe, a, b []Event) bool {
	fa, oka := RunFacts(u, a)
	fb, okb := RunFacts(u, b)
	return oka && okb && fa.Equal(fb)
}

type blockRef struct {
	h, id, bt int64
	txs       []int64
}

func finalBlocks(u *Universe, evs []Event, f *LFacts) []blockRef {
	times := map[int64]int64{}
	for _, e := range evs {
		if e.K == "confirm" {
			times[e.B] = e.BT
		}
	}
	byID := map[int64]*blockRef{}
	for t, b := range f.Conf {
		br := byID[b[1]]
		if br == nil {
			br = &blockRef{h: b[0], id: b[1], bt: times[b[1]]}
			byID[b[1]] = br
		}
		br.txs = append(br.txs, t)
	}
	var out []blockRef
	for _, br := range byID {
		sort.Slice(br.txs, func(i, j int) bool { return br.txs[i] < br.txs[j] })
		out = append(out, *br)
	}
	sort.Slice(out, func(i, j int) bool { return out[i].h < out[j].h })
	return out
}

// leaseTail re-creates the raw leases of f at clock 0 and then advances the
// clock to f.Now (possible whenever every leased outpoint is still a known
// output in the final facts; validated by the caller).
func leaseTail(f *LFacts) []Event {
	var ops [][2]int64
	for op := range f.Leases {
		ops = append(ops, op)
	}
	sort.Slice(ops, func(i, j int) bool { return lessOp(ops[i], ops[j]) })
	var out []Event
	for _, op := range ops {
		l := f.Leases[op]
		out = append(out, Event{K: "lease", ID: l[0], Op: op, Dur: l[1]})
	}
	if f.Now > 0 {
		out = append(out, Event{K: "tick", Dt: f.Now})
	}
	return out
}

// DirectB is the sorted direct construction of the final facts of evs.
func DirectB(u *Universe, evs []Event) []Event {
	f, _ := RunFacts(u, evs)
	var out []Event
	for _, b := range finalBlocks(u, evs, f) {
		for _, t := range b.txs {
			out = append(out, Event{K: "confirm", T: t, H: b.h, B: b.id, BT: b.bt})
		}
	}
	var us []int64
	for t := range f.Unconf {
		us = append(us, t)
	}
	sort.Slice(us, func(i, j int) bool { return us[i] < us[j] })
	for _, t := range us {
		out = append(out, Event{K: "seen", T: t})
	}
	return append(out, leaseTail(f)...)
}

func topoOrder(u *Universe, r *gen.R, txs []int64) []int64 {
	left := append([]int64{}, txs...)
	var out []int64
	for len(left) > 0 {
		var ready []int
		for i, c := range left {
			ok := true
			for _, p := range left {
				if p != c && spendsOutputOf(u, c, p) {
					ok = false
				}
			}
			if ok {
				ready = append(ready, i)
			}
		}
		if len(ready) == 0 {
			ready = []int{0}
		}
		i := ready[r.Intn(len(ready))]
		out = append(out, left[i])
		left = append(left[:i], left[i+1:]...)
	}
	return out
}

// builder appends events while tracking the facts, so that optional
// decorations are only added when they are admissible.
type builder struct {
	u    *Universe
	f    *LFacts
	out  []Event
	tags map[string]bool
}

func (b *builder) try(e Event) bool {
	if !b.f.OK(b.u, e) {
		return false
	}
	b.f.Apply(b.u, e)
	b.out = append(b.out, e)
	return true
}

// ShuffledB reaches the final chain of evs another way.
func ShuffledB(u *Universe, evs []Event, r *gen.R) ([]Event, []string) {
	f, _ := RunFacts(u, evs)
	blocks := finalBlocks(u, evs, f)
	b := &builder{u: u, f: NewLFacts(), tags: map[string]bool{}}
	fork := int64(FillerBase / 2) // block ids of the other forks
	var pendingUnconf []int64
	for t := range f.Unconf {
		pendingUnconf = append(pendingUnconf, t)
	}
	sort.Slice(pendingUnconf, func(i, j int) bool { return pendingUnconf[i] < pendingUnconf[j] })
	deliver := func(blk blockRef) {
		for _, t := range topoOrder(u, r, blk.txs) {
			if !u.Get(t).Coinbase && r.Chance(1, 3) {
				if b.try(Event{K: "seen", T: t}) {
					b.tags["b_unmined_version_first"] = true
				}
			}
			b.try(Event{K: "confirm", T: t, H: blk.h, B: blk.id, BT: blk.bt})
			if r.Chance(1, 6) {
				b.try(Event{K: "confirm", T: t, H: blk.h, B: blk.id, BT: blk.bt})
				b.tags["b_repeated_delivery"] = true
			}
		}
	}
	for i, blk := range blocks {
		// a detour: a block of another fork at this height holding some of
		// the transactions still to come, disconnected again
		if r.Chance(1, 3) {
			fork++
			var cand []int64
			for _, later := range blocks[i:] {
				cand = append(cand, later.txs...)
			}
			cand = append(cand, pendingUnconf...)
			n := 0
			for _, t := range topoOrder(u, r, cand) {
				if u.Get(t).Coinbase && !r.Chance(1, 2) {
					continue
				}
				if r.Chance(1, 2) && b.try(Event{K: "confirm", T: t, H: blk.h, B: fork, BT: blk.bt + 7}) {
					n++
				}
			}
			if n > 0 {
				b.try(Event{K: "disconnect", H: blk.h})
				b.tags["b_detour_through_other_fork"] = true
			}
		}
		deliver(blk)
		// disconnect the last one or two blocks and connect them once more
		if r.Chance(1, 4) {
			k := i
			if i > 0 && r.Chance(1, 2) {
				k = i - 1
			}
			b.try(Event{K: "disconnect", H: blocks[k].h})
			for _, again := range blocks[k : i+1] {
				deliver(again)
			}
			b.tags["b_reconnect_same_blocks"] = true
		}
	}
	for _, t := range pendingUnconf {
		b.try(Event{K: "seen", T: t})
	}
	b.out = append(b.out, leaseTail(f)...)
	var tags []string
	for t := range b.tags {
		tags = append(tags, t)
	}
	sort.Strings(tags)
	return b.out, tags
}

// PerturbedB is history A with facts-preserving insertions; an insertion is
// kept only if the facts after it equal the facts before it.
func PerturbedB(u *Universe, evs []Event, r *gen.R) ([]Event, []string) {
	b := &builder{u: u, f: NewLFacts(), tags: map[string]bool{}}
	fork := int64(FillerBase/2 + 100000)
	snapshot := func() *LFacts {
		g, _ := RunFacts(u, b.out)
		return g
	}
	for _, e := range evs {
		if !b.try(e) {
			return nil, nil
		}
		if !r.Chance(1, 3) {
			continue
		}
		before := snapshot()
		mark := len(b.out)
		kind := ""
		switch r.Pick(3, 3, 2, 2) {
		case 0: // the top block(s) disconnected and connected again in another order
			blocks := finalBlocks(u, b.out, b.f)
			if len(blocks) == 0 {
				break
			}
			k := len(blocks) - 1
			if k > 0 && r.Chance(1, 2) {
				k--
			}
			b.try(Event{K: "disconnect", H: blocks[k].h})
			for _, blk := range blocks[k:] {
				for _, t := range topoOrder(u, r, blk.txs) {
					if !u.Get(t).Coinbase && r.Chance(1, 4) {
						b.try(Event{K: "seen", T: t})
					}
					b.try(Event{K: "confirm", T: t, H: blk.h, B: blk.id, BT: blk.bt})
				}
			}
			kind = "b_reconnect_same_blocks"
		case 1: // a detour: unconfirmed transactions confirmed in a block of another fork, then disconnected
			tip := int64(0)
			for _, c := range b.f.Conf {
				if c[0] > tip {
					tip = c[0]
				}
			}
			var us []int64
			for t := range b.f.Unconf {
				us = append(us, t)
			}
			sort.Slice(us, func(i, j int) bool { return us[i] < us[j] })
			fork++
			n := 0
			for _, t := range topoOrder(u, r, us) {
				if r.Chance(2, 3) && b.try(Event{K: "confirm", T: t, H: tip + 1, B: fork, BT: 1600000000 + (tip+1)*600 + 7}) {
					n++
				}
			}
			if n > 0 {
				b.try(Event{K: "disconnect", H: tip + 1})
				kind = "b_detour_through_other_fork"
			}
		case 2: // repeated / stale deliveries
			var cs, us []int64
			for t := range b.f.Conf {
				cs = append(cs, t)
			}
			for t := range b.f.Unconf {
				us = append(us, t)
			}
			sort.Slice(cs, func(i, j int) bool { return cs[i] < cs[j] })
			sort.Slice(us, func(i, j int) bool { return us[i] < us[j] })
			for _, t := range cs {
				if r.Chance(1, 3) {
					c := b.f.Conf[t]
					b.try(Event{K: "confirm", T: t, H: c[0], B: c[1], BT: blockTime(b.out, c[1])})
					kind = "b_repeated_delivery"
				}
			}
			for _, t := range us {
				if r.Chance(1, 3) {
					b.try(Event{K: "seen", T: t})
					kind = "b_repeated_delivery"
				}
			}
		case 3: // a rollback above the tip, a rollback of nothing
			tip := int64(0)
			for _, c := range b.f.Conf {
				if c[0] > tip {
					tip = c[0]
				}
			}
			b.try(Event{K: "disconnect", H: tip + int64(r.Range(1, 3))})
			kind = "b_rollback_above_tip"
		}
		if len(b.out) > mark {
			if after := snapshot(); !after.Equal(before) {
				// not facts-preserving here (e.g. the detour removed a conflicting
				// transaction or a lease): drop the insertion
				b.out = b.out[:mark]
				b.f = before
			} else if kind != "" {
				b.tags[kind] = true
			}
		}
	}
	var tags []string
	for t := range b.tags {
		tags = append(tags, t)
	}
	sort.Strings(tags)
	return b.out, tags
}

func blockTime(evs []Event, id int64) int64 {
	for _, e := range evs {
		if e.K == "confirm" && e.B == id {
			return e.BT
		}
	}
	return 0
}
