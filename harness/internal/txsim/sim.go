package txsim

import (
	"fmt"
	"sort"

	"verifharness/internal/gen"
)

// GenConfig tunes the history generator.
type GenConfig struct {
	MaxTxs    int
	MaxEvents int
	Leases    bool // interleave lease / release / tick / sweep events

	// The options below are opt-in; with all of them off the generator draws
	// exactly the random stream it drew before they existed.
	Reconnect     bool // detached blocks are connected again (same id/hash/height/time/txs)
	MaxReorg      int  // deepest reorganisation in blocks (0 = 3)
	WideAmounts   bool // amounts around 2^31, 2^32, 2^53 and up to the money supply
	ZeroValue     bool // zero-value outputs (outside wf_universe: a separate stream)
	MoreConflicts bool // conflicting spends twice as often
	Restarts      bool // C12: "restart" events (close and reopen), often right after a lease
}

type simBlock struct {
	height int64
	id     int64
	time   int64
	txs    []int64
}

// Sim is a small validating-node simulator: a best chain, a mempool, and the
// wallet's view (facts). It emits only events a node could emit.
type Sim struct {
	r       *gen.R
	U       *Universe
	F       *Facts
	chain   []simBlock
	mempool map[int64]bool
	nextBlk int64
	tipH    int64 // node tip height (>= heights of all blocks with wallet txs)
	now     int64 // ms
	leases  map[[2]int64]int64
	Events  []Event
	Tags    map[string]int
	dropped int

	cfg      GenConfig
	detached []simBlock // the blocks removed by the last reorganisation, ascending (Reconnect only)
	detBase  int64      // the height that reorganisation rolled back to (the fork point is detBase-1)

	leasedOps [][2]int64 // outpoints of earlier lease events (Restarts only: contention)
}

// NewSim returns a simulator drawing from r.
func NewSim(r *gen.R) *Sim {
	return &Sim{r: r, U: NewUniverse(), F: NewFacts(), mempool: map[int64]bool{}, nextBlk: 1,
		tipH: int64(r.Range(0, 50)), Tags: map[string]int{}, leases: map[[2]int64]int64{}}
}

func (s *Sim) inChain(t int64) (int64, bool) {
	for _, b := range s.chain {
		for _, x := range b.txs {
			if x == t {
				return b.height, true
			}
		}
	}
	return 0, false
}

func (s *Sim) spentInChain(op [2]int64) bool {
	for _, b := range s.chain {
		for _, x := range b.txs {
			for _, in := range s.U.Get(x).Ins {
				if in == op {
					return true
				}
			}
		}
	}
	return false
}

func (s *Sim) mempoolSpenders(op [2]int64) []int64 {
	var out []int64
	for m := range s.mempool {
		for _, in := range s.U.Get(m).Ins {
			if in == op {
				out = append(out, m)
			}
		}
	}
	sort.Slice(out, func(i, j int) bool { return out[i] < out[j] })
	return out
}

func (s *Sim) emit(e Event) bool {
	if !s.F.EventOK(s.U, e) {
		s.dropped++
		return false
	}
	if e.K == "confirm" {
		if _, ok := s.F.Conf[e.T]; !ok {
			for c := range s.F.Unconf {
				if sharesInput(s.U, e.T, c) {
					// the wallet's view: an unconfirmed transaction it still holds
					// conflicts with the one being confirmed (removed with its descendants)
					s.Tags["unconfirmed_conflict_removed_by_confirmation"]++
					break
				}
			}
		}
	}
	s.F.Apply(s.U, e)
	s.Events = append(s.Events, e)
	s.Tags["ev_"+e.K]++
	return true
}

// evictFromMempool removes t and its mempool descendants from the node mempool.
func (s *Sim) evictFromMempool(t int64) {
	if !s.mempool[t] {
		return
	}
	delete(s.mempool, t)
	for m := range s.mempool {
		if spendsOutputOf(s.U, m, t) {
			s.evictFromMempool(m)
		}
	}
}

// candidate outputs a new transaction may spend in the node's view.
func (s *Sim) spendable(forBlock bool) [][2]int64 {
	var out [][2]int64
	for _, t := range s.U.Txs {
		h, inCh := s.inChain(t.ID)
		if !inCh && !s.mempool[t.ID] {
			continue
		}
		if t.Coinbase && (!inCh || s.tipH+1-h < 100) {
			continue
		}
		for i := range t.Outs {
			op := [2]int64{t.ID, int64(i)}
			if s.spentInChain(op) {
				continue
			}
			out = append(out, op)
		}
	}
	return out
}

// newTx creates a transaction spending node-valid outputs (possibly
// conflicting with mempool transactions) and/or external outpoints.
func (s *Sim) newTx(coinbase bool) *Tx {
	id := s.U.NextID()
	t := &Tx{ID: id, Coinbase: coinbase, Ins: [][2]int64{}, Creds: [][2]int64{}}
	if !coinbase {
		cands := s.spendable(false)
		nIn := s.r.Pick(1, 6, 3, 1) // 0..3 universe inputs
		used := map[[2]int64]bool{}
		for i := 0; i < nIn && len(cands) > 0; i++ {
			op := cands[s.r.Intn(len(cands))]
			if used[op] {
				continue
			}
			// prefer unspent-in-mempool outputs; sometimes conflict on purpose
			if len(s.mempoolSpenders(op)) > 0 {
				if s.cfg.MoreConflicts {
					if !s.r.Chance(2, 3) {
						continue
					}
				} else if !s.r.Chance(1, 3) {
					continue
				}
			}
			// avoid spending an output of a tx that conflicts in the mempool with another chosen parent
			used[op] = true
			t.Ins = append(t.Ins, op)
		}
		if len(t.Ins) == 0 || s.r.Chance(1, 4) {
			t.Ins = append(t.Ins, [2]int64{id - 1, int64(s.r.Range(0, 2))}) // external parent
		}
	}
	nOut := s.r.Range(1, 4)
	for i := 0; i < nOut; i++ {
		t.Outs = append(t.Outs, s.amount())
	}
	// credits: 0..3 of the outputs
	for i := 0; i < nOut; i++ {
		if s.r.Chance(3, 5) {
			chg := int64(0)
			if s.r.Chance(1, 3) {
				chg = 1
			}
			t.Creds = append(t.Creds, [2]int64{int64(i), chg})
		}
	}
	s.U.Add(t)
	return t
}

// wideAmounts are the boundary values of the amount encodings (4-byte and
// float64 truncations), up to and beyond the money supply. 240 outputs of the
// largest one still sum below 2^63.
var wideAmounts = []int64{1<<31 - 1, 1 << 31, 1<<32 - 1, 1 << 32, 1<<32 + 1, 1<<33 + 7, 1<<40 + 12345,
	2100000000000000, 2099999999999999, 1<<53 - 1, 1 << 53, 1<<53 + 1, 1 << 54}

func (s *Sim) amount() int64 {
	if s.cfg.ZeroValue && s.r.Chance(1, 3) {
		s.Tags["zero_value_output"]++
		return 0
	}
	if s.cfg.WideAmounts && s.r.Chance(1, 2) {
		a := wideAmounts[s.r.Intn(len(wideAmounts))]
		switch {
		case a > 1<<53:
			s.Tags["amount_above_2^53"]++
		case a >= 1<<32:
			s.Tags["amount_above_2^32"]++
		default:
			s.Tags["amount_near_2^31"]++
		}
		return a
	}
	return int64(s.r.Range(1, 50))*1000 + int64(s.r.Range(0, 9))
}

func (s *Sim) acceptToMempool(t *Tx) bool {
	// parents must be in chain or mempool; inputs unspent in chain
	for _, in := range t.Ins {
		if p := s.U.Get(in[0]); p != nil {
			if _, ok := s.inChain(p.ID); !ok && !s.mempool[p.ID] {
				return false
			}
		}
		if s.spentInChain(in) {
			return false
		}
	}
	// replace conflicting mempool transactions (and their descendants)
	for _, in := range t.Ins {
		for _, m := range s.mempoolSpenders(in) {
			if m != t.ID {
				s.evictFromMempool(m)
				s.Tags["mempool_replacement"]++
			}
		}
	}
	// a parent may have been evicted by the replacement just done
	for _, in := range t.Ins {
		if p := s.U.Get(in[0]); p != nil {
			if _, ok := s.inChain(p.ID); !ok && !s.mempool[p.ID] {
				return false
			}
		}
	}
	s.mempool[t.ID] = true
	return true
}

func (s *Sim) mineBlock() {
	gap := int64(1)
	switch s.r.Pick(6, 2, 1) {
	case 1:
		gap = int64(s.r.Range(2, 5))
	case 2:
		gap = int64(s.r.Range(99, 101))
		s.Tags["maturity_gap"]++
	}
	h := s.tipH + gap
	blk := simBlock{height: h, id: s.nextBlk, time: 1600000000 + h*600}
	s.nextBlk++
	// coinbase
	if s.r.Chance(1, 4) && len(s.U.Txs) < 60 {
		cb := s.newTx(true)
		if len(cb.Creds) == 0 {
			cb.Creds = append(cb.Creds, [2]int64{0, 0})
		}
		blk.txs = append(blk.txs, cb.ID)
		s.Tags["coinbase"]++
	}
	// mempool subset closed under parents, in id order (ids are topological)
	var ms []int64
	for m := range s.mempool {
		ms = append(ms, m)
	}
	sort.Slice(ms, func(i, j int) bool { return ms[i] < ms[j] })
	included := map[int64]bool{}
	for _, m := range ms {
		if !s.r.Chance(2, 3) {
			continue
		}
		ok := true
		for _, in := range s.U.Get(m).Ins {
			if p := s.U.Get(in[0]); p != nil {
				if _, inCh := s.inChain(p.ID); !inCh && !included[p.ID] {
					ok = false
				}
			}
		}
		if ok {
			included[m] = true
			blk.txs = append(blk.txs, m)
		}
	}
	// a transaction that goes straight into the block (never announced)
	if s.r.Chance(1, 5) && len(s.U.Txs) < 60 {
		s.tipH = h - 1
		t := s.newTx(false)
		ok := true
		for _, in := range t.Ins {
			if p := s.U.Get(in[0]); p != nil {
				if _, inCh := s.inChain(p.ID); !inCh && !included[p.ID] {
					ok = false
				}
			}
			if s.spentInChain(in) {
				ok = false
			}
			for _, x := range blk.txs {
				for _, in2 := range s.U.Get(x).Ins {
					if in2 == in {
						ok = false
					}
				}
			}
		}
		if ok {
			blk.txs = append(blk.txs, t.ID)
			s.Tags["direct_to_block"]++
		}
	}
	s.tipH = h
	if len(blk.txs) == 0 {
		return
	}
	if len(blk.txs) > 1 {
		for _, c := range blk.txs {
			for _, p := range blk.txs {
				if spendsOutputOf(s.U, c, p) {
					s.Tags["same_block_parent_child"]++
				}
			}
		}
	}
	s.chain = append(s.chain, blk)
	for _, x := range blk.txs {
		delete(s.mempool, x)
		// mempool conflicts of a mined tx are evicted by the node
		for _, in := range s.U.Get(x).Ins {
			for _, m := range s.mempoolSpenders(in) {
				s.evictFromMempool(m)
				s.Tags["conflict_confirmed"]++
			}
		}
		e := Event{K: "confirm", T: x, H: blk.height, B: blk.id, BT: blk.time}
		s.emit(e)
		if s.r.Chance(1, 10) {
			s.emit(e) // repeated delivery
			s.Tags["redelivery"]++
		}
	}
}

// redeliverKnown re-applies the notification of a known transaction through
// the store API (InsertTx + AddCredit for every credit), as confirmed in its
// current block or as unconfirmed (a stale mempool notification).
func (s *Sim) redeliverKnown() {
	var known []int64
	for t := range s.F.Conf {
		known = append(known, t)
	}
	for t := range s.F.Unconf {
		known = append(known, t)
	}
	if len(known) == 0 {
		return
	}
	sort.Slice(known, func(i, j int) bool { return known[i] < known[j] })
	t := known[s.r.Intn(len(known))]
	e := Event{K: "redeliver", T: t, H: -1}
	if b, ok := s.F.Conf[t]; ok && s.r.Chance(2, 3) {
		e.H, e.B = b[0], b[1]
		for _, blk := range s.chain {
			if blk.id == b[1] {
				e.BT = blk.time
			}
		}
	}
	if s.emit(e) {
		s.Tags["redeliver_with_credits"]++
	}
}

func (s *Sim) reorg() {
	if len(s.chain) == 0 {
		return
	}
	d := 0
	if s.cfg.MaxReorg > 3 {
		d = 1 + s.r.Pick(6, 5, 4, 3, 2, 2, 1, 1, 1, 2)
		if d > s.cfg.MaxReorg {
			d = s.cfg.MaxReorg
		}
	} else {
		d = s.r.Range(1, 3)
	}
	if d > len(s.chain) {
		d = len(s.chain)
	}
	removed := append([]simBlock{}, s.chain[len(s.chain)-d:]...)
	s.chain = s.chain[:len(s.chain)-d]
	if s.cfg.Reconnect {
		s.detached = removed
	}
	defer func() { s.detBase = s.tipH + 1 }()
	low := removed[0].height
	// the node's chain also holds blocks without wallet transactions: the
	// rollback height may be any height above the last surviving block
	floor := int64(0)
	if len(s.chain) > 0 {
		floor = s.chain[len(s.chain)-1].height + 1
	}
	if floor < low && s.r.Chance(1, 2) {
		low = int64(s.r.Range(int(floor), int(low)))
		s.Tags["rollback_at_height_without_wallet_tx"]++
	}
	// wallet notifications: one rollback at the lowest height, or tip-down
	switch s.r.Pick(2, 2, 1) {
	case 0:
		s.emit(Event{K: "disconnect", H: low})
	case 1:
		for i := len(removed) - 1; i >= 0; i-- {
			h := removed[i].height
			if i == 0 {
				h = low
			}
			s.emit(Event{K: "disconnect", H: h})
		}
	case 2:
		s.emit(Event{K: "disconnect", H: low})
		s.emit(Event{K: "disconnect", H: low}) // stale repeat
		s.Tags["redelivery"]++
	}
	s.Tags[fmt.Sprintf("reorg_depth_%d", d)]++
	s.afterDetach(removed, low)
}

// afterDetach is the node's side of a reorganisation (no random draws).
func (s *Sim) afterDetach(removed []simBlock, low int64) {
	// node: transactions return to the mempool, coinbases vanish with descendants
	for _, b := range removed {
		for _, x := range b.txs {
			if !s.U.Get(x).Coinbase {
				s.mempool[x] = true
			}
		}
	}
	for _, b := range removed {
		for _, x := range b.txs {
			if s.U.Get(x).Coinbase {
				for m := range s.mempool {
					if spendsOutputOf(s.U, m, x) {
						s.evictFromMempool(m)
						s.Tags["coinbase_descendant_dropped"]++
					}
				}
			}
		}
	}
	s.tipH = low - 1
	if s.tipH < 0 {
		s.tipH = 0
	}
	// detect: rollback detaches a spender together with / below its credit
	for _, b := range removed {
		for _, x := range b.txs {
			for _, in := range s.U.Get(x).Ins {
				if p := s.U.Get(in[0]); p != nil {
					for _, c := range p.Creds {
						if c[0] == in[1] {
							s.Tags["rollback_detaches_spender_of_credit"]++
						}
					}
				}
			}
		}
	}
}

// rollbackTo makes the node abandon every block at or above height h (one
// rollback notification); nothing is kept for a later reconnection.
func (s *Sim) rollbackTo(h int64) {
	var removed []simBlock
	for len(s.chain) > 0 && s.chain[len(s.chain)-1].height >= h {
		removed = append([]simBlock{s.chain[len(s.chain)-1]}, removed...)
		s.chain = s.chain[:len(s.chain)-1]
	}
	s.emit(Event{K: "disconnect", H: h})
	s.afterDetach(removed, h)
}

// validNow reports whether the node could connect blk (again) on top of its
// current chain: no input spent in the chain, parents in the chain or earlier
// in the block.
func (s *Sim) validNow(blk simBlock) bool {
	in := map[int64]bool{}
	spent := map[[2]int64]bool{}
	for _, x := range blk.txs {
		if _, ok := s.inChain(x); ok {
			return false
		}
		for _, i := range s.U.Get(x).Ins {
			if s.spentInChain(i) || spent[i] {
				return false
			}
			spent[i] = true
			if p := s.U.Get(i[0]); p != nil {
				if _, ok := s.inChain(p.ID); !ok && !in[p.ID] {
					return false
				}
			}
		}
		in[x] = true
	}
	return true
}

// topoShuffle returns the transactions of a block in a random order that
// still delivers parents before children.
func (s *Sim) topoShuffle(txs []int64) []int64 {
	left := append([]int64{}, txs...)
	var out []int64
	for len(left) > 0 {
		var ready []int
		for i, c := range left {
			ok := true
			for _, p := range left {
				if p != c && spendsOutputOf(s.U, c, p) {
					ok = false
				}
			}
			if ok {
				ready = append(ready, i)
			}
		}
		if len(ready) == 0 { // cannot happen (ids are topological)
			ready = []int{0}
		}
		i := ready[s.r.Intn(len(ready))]
		out = append(out, left[i])
		left = append(left[:i], left[i+1:]...)
	}
	return out
}

// connectAgain re-delivers a block the wallet was told about before: same
// id (= hash), height, time and transactions, in any parents-first order,
// interleaved with stale deliveries of the unmined versions.
func (s *Sim) connectAgain(blk simBlock) {
	s.chain = append(s.chain, blk)
	s.tipH = blk.height
	order := s.topoShuffle(blk.txs)
	for i := range order {
		if order[i] != blk.txs[i] {
			s.Tags["reconnect_in_other_order"]++
			break
		}
	}
	for _, x := range order {
		delete(s.mempool, x)
		for _, in := range s.U.Get(x).Ins {
			for _, m := range s.mempoolSpenders(in) {
				s.evictFromMempool(m)
				s.Tags["conflict_confirmed"]++
			}
		}
		if !s.U.Get(x).Coinbase && s.r.Chance(1, 4) {
			// the unmined version arrives (again) just before the block
			if s.r.Chance(1, 2) {
				s.emit(Event{K: "seen", T: x})
			} else if s.emit(Event{K: "redeliver", T: x, H: -1}) {
				s.Tags["redeliver_with_credits"]++
			}
			s.Tags["unmined_redelivery_inside_reconnect"]++
		}
		e := Event{K: "confirm", T: x, H: blk.height, B: blk.id, BT: blk.time}
		if s.emit(e) {
			if s.U.Get(x).Coinbase {
				s.Tags["coinbase_reconnected"]++
			}
		}
		if s.r.Chance(1, 8) {
			s.emit(e)
			s.Tags["redelivery"]++
		}
		if !s.U.Get(x).Coinbase && s.r.Chance(1, 8) {
			s.emit(Event{K: "seen", T: x}) // stale mempool notification after the block
			s.Tags["redelivery"]++
		}
	}
}

// reconnect returns the node to the branch it left by the last
// reorganisation (reorg back; or the start-up rollback of the wallet followed
// by a rescan that delivers the same blocks once more).
func (s *Sim) reconnect() {
	if len(s.detached) == 0 {
		return
	}
	if s.tipH >= s.detBase {
		// a block hash commits to its parent: whatever was connected above
		// the fork point in the meantime goes first (a deeper reorganisation)
		if len(s.chain) > 0 && s.chain[len(s.chain)-1].height >= s.detBase {
			s.Tags["reconnect_after_deeper_reorg"]++
		}
		s.rollbackTo(s.detBase)
	}
	if s.r.Chance(1, 3) && len(s.chain) > 0 {
		// a rescan starts below the rollback point: the surviving top block is delivered again
		b := s.chain[len(s.chain)-1]
		for _, x := range b.txs {
			s.emit(Event{K: "confirm", T: x, H: b.height, B: b.id, BT: b.time})
		}
		s.Tags["rescan_overlap"]++
	}
	n := len(s.detached)
	if n > 1 && s.r.Chance(1, 4) {
		n = s.r.Range(1, n-1)
		s.Tags["reconnect_partial"]++
	}
	done := 0
	for _, b := range s.detached[:n] {
		if !s.validNow(b) {
			s.Tags["reconnect_impossible"]++
			break
		}
		s.connectAgain(b)
		s.Tags["reconnect_same_block"]++
		done++
	}
	// a partly reconnected branch can be completed later unless something else is mined first
	s.detached = append([]simBlock{}, s.detached[done:]...)
	if done < n {
		s.detached = nil
	}
}

func (s *Sim) leaseEvent() {
	// pick an outpoint: mostly credited outputs of known txs, sometimes unknown
	var cands [][2]int64
	for _, t := range s.U.Txs {
		for _, c := range t.Creds {
			cands = append(cands, [2]int64{t.ID, c[0]})
		}
	}
	op := [2]int64{int64(s.r.Range(1, 9)), 0}
	if len(cands) > 0 && !s.r.Chance(1, 10) {
		op = cands[s.r.Intn(len(cands))]
	}
	if s.cfg.Restarts && len(s.leasedOps) > 0 && s.r.Chance(1, 2) {
		// contention: an outpoint somebody asked a lease for before
		op = s.leasedOps[s.r.Intn(len(s.leasedOps))]
	}
	switch s.r.Pick(5, 3, 4, 1) {
	case 0:
		dur := []int64{500, 1000, 1500, 2000, 60000}[s.r.Intn(5)]
		id := int64(s.r.Range(1, 3))
		s.emit(Event{K: "lease", ID: id, Op: op, Dur: dur})
		if s.cfg.Restarts {
			s.leasedOps = append(s.leasedOps, op)
		}
		if s.cfg.Restarts && s.r.Chance(1, 5) {
			s.emit(Event{K: "restart"}) // in the middle of a lease
		}
	case 1:
		s.emit(Event{K: "release", ID: int64(s.r.Range(1, 3)), Op: op})
	case 2:
		// advance the clock, often to just before / at / after an expiry
		dt := []int64{1, 250, 499, 500, 501, 999, 1000, 1001, 1500, 2000, 59000}[s.r.Intn(11)]
		s.emit(Event{K: "tick", Dt: dt})
	case 3:
		s.emit(Event{K: "sweep"})
	}
}

// Run generates a history.
func (s *Sim) Run(cfg GenConfig) {
	s.cfg = cfg
	for len(s.Events) < cfg.MaxEvents {
		w := []int{6, 4, 2, 1, 0, 1, 1, 0}
		if cfg.Leases {
			w[4] = 5
		}
		if cfg.Reconnect && len(s.detached) > 0 {
			w[7] = 4
		}
		if len(s.U.Txs) >= cfg.MaxTxs {
			w[0] = 0
		}
		before := len(s.Events)
		switch s.r.Pick(w...) {
		case 0: // new tx to the mempool
			t := s.newTx(false)
			if s.acceptToMempool(t) {
				if s.r.Chance(9, 10) {
					s.emit(Event{K: "seen", T: t.ID})
				} else {
					s.Tags["not_announced"]++
				}
			}
		case 1:
			s.mineBlock()
		case 2:
			s.reorg()
			if cfg.Reconnect && s.r.Chance(2, 5) {
				s.reconnect() // rollback + rescan / immediate reorg back
				s.Tags["reconnect_immediately"]++
			}
		case 7:
			s.reconnect()
		case 3: // abandon an unconfirmed wallet transaction
			var uc []int64
			for t := range s.F.Unconf {
				uc = append(uc, t)
			}
			if len(uc) > 0 {
				sort.Slice(uc, func(i, j int) bool { return uc[i] < uc[j] })
				t := uc[s.r.Intn(len(uc))]
				nBefore := len(s.F.Unconf)
				if s.emit(Event{K: "abandon", T: t}) && nBefore-len(s.F.Unconf) > 1 {
					s.Tags["abandon_with_descendants"]++
				}
			}
		case 4:
			s.leaseEvent()
		case 6:
			s.redeliverKnown()
		case 5: // re-announce a mempool transaction (possibly unknown to the wallet again)
			var ms []int64
			for m := range s.mempool {
				ms = append(ms, m)
			}
			if len(ms) > 0 {
				sort.Slice(ms, func(i, j int) bool { return ms[i] < ms[j] })
				s.emit(Event{K: "seen", T: ms[s.r.Intn(len(ms))]})
				s.Tags["redelivery"]++
			}
		}
		if cfg.Restarts && s.r.Chance(1, 25) {
			s.emit(Event{K: "restart"}) // after any event
		}
		if len(s.Events) == before && s.r.Chance(1, 50) {
			break
		}
	}
	s.Tags["dropped_by_event_ok"] = s.dropped
}
