// Package txsim generates transaction universes and chain-consistent event
// histories (a small validating-node simulator), drives the real wtxmgr.Store
// with them and records API-level observations after every event.
package txsim

import (
	"crypto/sha256"
	"encoding/binary"
	"fmt"

	"github.com/btcsuite/btcd/chaincfg/chainhash"
	"github.com/btcsuite/btcd/wire"
)

// Tx is one transaction of the universe in model terms.
type Tx struct {
	ID       int64      `json:"id"`
	Ins      [][2]int64 `json:"ins"`   // (txid, output index); odd txids are outside the universe
	Outs     []int64    `json:"outs"`  // amounts, > 0
	Creds    [][2]int64 `json:"creds"` // (output index, change flag 0/1)
	Coinbase bool       `json:"coinbase"`

	msg  *wire.MsgTx
	hash chainhash.Hash
}

// Universe maps model ids to transactions and real hashes back to ids.
type Universe struct {
	Txs    []*Tx
	byID   map[int64]*Tx
	byHash map[chainhash.Hash]int64
}

// NewUniverse returns an empty universe.
func NewUniverse() *Universe {
	return &Universe{byID: map[int64]*Tx{}, byHash: map[chainhash.Hash]int64{}}
}

// Get returns the transaction with the given id or nil.
func (u *Universe) Get(id int64) *Tx { return u.byID[id] }

// IDOf maps a real hash to the model id (0 if unknown).
func (u *Universe) IDOf(h chainhash.Hash) int64 { return u.byHash[h] }

// NextID returns the id the next added transaction gets (even numbers).
func (u *Universe) NextID() int64 { return int64(2 * (len(u.Txs) + 1)) }

func extHash(id int64) chainhash.Hash {
	return chainhash.Hash(sha256.Sum256([]byte(fmt.Sprintf("external-parent-%d", id))))
}

// HashOf returns the real hash standing for a model txid (universe tx or
// external parent).
func (u *Universe) HashOf(id int64) chainhash.Hash {
	if t := u.byID[id]; t != nil {
		return t.hash
	}
	return extHash(id)
}

// Add builds the real wire.MsgTx for t and registers it.
func (u *Universe) Add(t *Tx) {
	m := wire.NewMsgTx(2)
	if t.Coinbase {
		var sc [9]byte
		sc[0] = 8
		binary.LittleEndian.PutUint64(sc[1:], uint64(t.ID))
		m.AddTxIn(wire.NewTxIn(wire.NewOutPoint(&chainhash.Hash{}, 0xffffffff), sc[:], nil))
	}
	for _, in := range t.Ins {
		h := u.HashOf(in[0])
		m.AddTxIn(wire.NewTxIn(wire.NewOutPoint(&h, uint32(in[1])), nil, nil))
	}
	for i, a := range t.Outs {
		// distinct 22-byte witness-program-like scripts; the store does
		// not interpret them
		pk := make([]byte, 22)
		pk[1] = 20
		binary.LittleEndian.PutUint64(pk[2:], uint64(t.ID))
		binary.LittleEndian.PutUint32(pk[10:], uint32(i))
		m.AddTxOut(wire.NewTxOut(a, pk))
	}
	m.LockTime = uint32(t.ID)
	t.msg = m
	t.hash = m.TxHash()
	u.Txs = append(u.Txs, t)
	u.byID[t.ID] = t
	u.byHash[t.hash] = t.ID
}

// Msg returns the real transaction.
func (t *Tx) Msg() *wire.MsgTx { return t.msg }

// Hash returns the real txid.
func (t *Tx) Hash() chainhash.Hash { return t.hash }

// Rebuild re-creates a universe from model-level transactions (replay).
func Rebuild(txs []*Tx) *Universe {
	u := NewUniverse()
	for _, t := range txs {
		u.Add(&Tx{ID: t.ID, Ins: t.Ins, Outs: t.Outs, Creds: t.Creds, Coinbase: t.Coinbase})
	}
	return u
}

// BlockHash returns the real block hash standing for block id n.
func BlockHash(n int64) chainhash.Hash {
	return chainhash.Hash(sha256.Sum256([]byte(fmt.Sprintf("block-%d", n))))
}
