package txsim

import (
	"errors"
	"fmt"
	"os"
	"path/filepath"
	"sort"
	"time"

	"github.com/btcsuite/btcd/blockchain"
	"github.com/btcsuite/btcd/chaincfg"
	"github.com/btcsuite/btcd/chaincfg/chainhash"
	"github.com/btcsuite/btcd/wire"
	"github.com/btcsuite/btcwallet/walletdb"
	_ "github.com/btcsuite/btcwallet/walletdb/bdb" // driver
	"github.com/btcsuite/btcwallet/wtxmgr"
	"github.com/lightningnetwork/lnd/clock"

	"verifharness/internal/walletenv"
)

var nsKey = []byte("wtxmgr")

// Epoch is model time 0.
var Epoch = time.Unix(1700000000, 0)

// Driver owns a real wtxmgr.Store over a bbolt file.
type Driver struct {
	dir   string
	path  string
	DB    walletdb.DB
	Store *wtxmgr.Store
	Clock *clock.TestClock
	U     *Universe
	NowMs int64

	// only set by NewWalletDriver (queries.go): the store is a real wallet's
	env  *walletenv.Env
	bk   *backends
	past map[int64][][2]int64 // txid -> every (height, block id) it was confirmed in

	// C12 (lease.go), opt-in: full-width lock ids named by the case (model id
	// -> 32 bytes; nil = the legacy one-byte ids), and lease / release / list
	// through the wallet-level API of a wallet-backed driver.
	LockIDs   map[int64]wtxmgr.LockID
	WalletAPI bool
}

// NewDriver creates a fresh store.
func NewDriver(u *Universe) (*Driver, error) {
	dir, err := os.MkdirTemp("", "vh-txstore-")
	if err != nil {
		return nil, err
	}
	d := &Driver{dir: dir, path: filepath.Join(dir, "tx.db"), U: u, Clock: clock.NewTestClock(Epoch)}
	d.DB, err = walletdb.Create("bdb", d.path, true, time.Minute, false)
	if err != nil {
		os.RemoveAll(dir)
		return nil, err
	}
	err = walletdb.Update(d.DB, func(tx walletdb.ReadWriteTx) error {
		ns, err := tx.CreateTopLevelBucket(nsKey)
		if err != nil {
			return err
		}
		if err := wtxmgr.Create(ns); err != nil {
			return err
		}
		d.Store, err = wtxmgr.Open(ns, &chaincfg.MainNetParams)
		return err
	})
	if err != nil {
		d.Close()
		return nil, err
	}
	d.Store.VerifSetClock(d.Clock)
	return d, nil
}

// Reopen closes and reopens the database file and the store (restart).
func (d *Driver) Reopen() error {
	if d.env != nil {
		if d.bk != nil {
			return errors.New("reopen is not supported on a wallet-backed driver")
		}
		return d.reopenWallet()
	}
	if err := d.DB.Close(); err != nil {
		return err
	}
	var err error
	d.DB, err = walletdb.Open("bdb", d.path, true, time.Minute, false)
	if err != nil {
		return err
	}
	err = walletdb.View(d.DB, func(tx walletdb.ReadTx) error {
		var err error
		d.Store, err = wtxmgr.Open(tx.ReadBucket(nsKey), &chaincfg.MainNetParams)
		return err
	})
	if err != nil {
		return err
	}
	d.Store.VerifSetClock(d.Clock)
	return nil
}

// Close removes everything.
func (d *Driver) Close() {
	if d.env != nil {
		// the chain backends are shared by all cases of the process:
		// detach them so that Wallet.Stop does not stop them
		d.env.W.VerifSetChainClient(nil)
		d.env.Close()
		return
	}
	if d.DB != nil {
		d.DB.Close()
	}
	os.RemoveAll(d.dir)
}

func lockID(id int64) wtxmgr.LockID {
	var l wtxmgr.LockID
	l[0] = byte(id)
	l[31] = 0xaa
	return l
}

func (d *Driver) outPoint(op [2]int64) wire.OutPoint {
	return wire.OutPoint{Hash: d.U.HashOf(op[0]), Index: uint32(op[1])}
}

// StepOut is what an event returned.
type StepOut struct {
	Err    string `json:"err"`              // "" or error class
	Lock   string `json:"lock,omitempty"`   // ok | unknown | already | notallowed
	Expiry int64  `json:"expiry,omitempty"` // ms since Epoch, as returned by LockOutput
	// Refused: a re-delivery (InsertTx + AddCredit of an already recorded
	// transaction) was answered with an error and rolled back. The property
	// fixes the observable state only, so "no-op" is as good as the
	// idempotent re-application; the error text is kept for the record.
	Refused string `json:"refused,omitempty"`
}

func blockMeta(e Event) *wtxmgr.BlockMeta {
	return &wtxmgr.BlockMeta{
		Block: wtxmgr.Block{Hash: BlockHash(e.B), Height: int32(e.H)},
		Time:  time.Unix(e.BT, 0),
	}
}

// relevantTx mirrors wallet.addRelevantTx on the store: insert, return early
// when the transaction already exists, otherwise add every credit.
func (d *Driver) relevantTx(ns walletdb.ReadWriteBucket, t *Tx, bm *wtxmgr.BlockMeta) error {
	rec, err := wtxmgr.NewTxRecordFromMsgTx(t.msg, Epoch)
	if err != nil {
		return err
	}
	exists, err := d.Store.InsertTxCheckIfExists(ns, rec, bm)
	if err != nil {
		return err
	}
	if exists {
		return nil
	}
	for _, c := range t.Creds {
		if err := d.Store.AddCredit(ns, rec, bm, uint32(c[0]), c[1] != 0); err != nil {
			return err
		}
	}
	return nil
}

// Apply runs one event inside one database transaction, as the wallet does.
func (d *Driver) Apply(e Event) StepOut {
	var out StepOut
	d.notePast(e)
	if e.K == "tick" {
		d.NowMs += e.Dt
		d.Clock.SetTime(Epoch.Add(time.Duration(d.NowMs) * time.Millisecond))
		return out
	}
	if e.K == "restart" || (d.WalletAPI && (e.K == "lease" || e.K == "release")) {
		return d.applyLeaseLayer(e) // lease.go
	}
	err := walletdb.Update(d.DB, func(tx walletdb.ReadWriteTx) error {
		ns := tx.ReadWriteBucket(nsKey)
		switch e.K {
		case "seen":
			return d.relevantTx(ns, d.U.Get(e.T), nil)
		case "confirm":
			return d.relevantTx(ns, d.U.Get(e.T), blockMeta(e))
		case "redeliver":
			// the notification applied again through the store API
			// without the wallet's early return
			t := d.U.Get(e.T)
			var bm *wtxmgr.BlockMeta
			if e.H >= 0 {
				bm = blockMeta(e)
			}
			rec, err := wtxmgr.NewTxRecordFromMsgTx(t.msg, Epoch)
			if err != nil {
				return err
			}
			if err := d.Store.InsertTx(ns, rec, bm); err != nil {
				return err
			}
			for _, c := range t.Creds {
				if err := d.Store.AddCredit(ns, rec, bm, uint32(c[0]), c[1] != 0); err != nil {
					return err
				}
			}
			return nil
		case "disconnect":
			return d.Store.Rollback(ns, int32(e.H))
		case "abandon":
			rec, err := wtxmgr.NewTxRecordFromMsgTx(d.U.Get(e.T).msg, Epoch)
			if err != nil {
				return err
			}
			return d.Store.RemoveUnminedTx(ns, rec)
		case "lease":
			exp, err := d.Store.LockOutput(ns, d.lockIDOf(e.ID), d.outPoint(e.Op), time.Duration(e.Dur)*time.Millisecond)
			switch {
			case err == nil:
				out.Lock = "ok"
				out.Expiry = exp.Sub(Epoch).Milliseconds()
			case errors.Is(err, wtxmgr.ErrUnknownOutput):
				out.Lock = "unknown"
			case errors.Is(err, wtxmgr.ErrOutputAlreadyLocked):
				out.Lock = "already"
			default:
				return err
			}
			return nil
		case "release":
			err := d.Store.UnlockOutput(ns, d.lockIDOf(e.ID), d.outPoint(e.Op))
			switch {
			case err == nil:
				out.Lock = "ok"
			case errors.Is(err, wtxmgr.ErrUnknownOutput):
				out.Lock = "unknown"
			case errors.Is(err, wtxmgr.ErrOutputUnlockNotAllowed):
				out.Lock = "notallowed"
			default:
				return err
			}
			return nil
		case "sweep":
			return d.Store.DeleteExpiredLockedOutputs(ns)
		}
		return fmt.Errorf("unknown event %q", e.K)
	})
	if err != nil {
		if e.K == "redeliver" {
			out.Refused = err.Error()
		} else {
			out.Err = err.Error()
		}
	}
	return out
}

// Utxo is a spendable output as reported by UnspentOutputs.
type Utxo struct {
	Op       [2]int64 `json:"op"`
	Amt      int64    `json:"amt"`
	Height   int64    `json:"h"`
	Block    int64    `json:"b"` // block id (0 unmined, -1 unknown hash)
	Coinbase bool     `json:"cb"`
}

// CreditRec / Details mirror wtxmgr.TxDetails in model terms.
type CreditRec struct {
	Index  int64 `json:"i"`
	Amt    int64 `json:"amt"`
	Spent  bool  `json:"spent"`
	Change bool  `json:"chg"`
}

// Details of one transaction.
type Details struct {
	T       int64       `json:"t"`
	Found   bool        `json:"found"`
	Mined   bool        `json:"mined"`
	H       int64       `json:"h"`
	B       int64       `json:"b"`
	BT      int64       `json:"bt,omitempty"` // block time as recorded (compared between two histories only)
	Credits []CreditRec `json:"credits"`
	Debits  [][2]int64  `json:"debits"` // (input index, amount)
}

// Obs is everything observed after one event.
type Obs struct {
	Out     StepOut     `json:"out"`
	Tip     int64       `json:"tip"`
	Bal     []int64     `json:"bal"` // row-major over minconfs x syncoffs
	Utxos   []Utxo      `json:"utxos"`
	Watch   [][2]int64  `json:"watch"`
	Unmined []int64     `json:"unmined"`
	Sorted  []int64     `json:"sorted,omitempty"` // UnminedTxs order
	Locked  [][4]int64  `json:"locked"`           // txid, idx, lock id, expiry ms
	Details []Details   `json:"details,omitempty"`
	Ranges  [][][]int64 `json:"ranges,omitempty"` // per query: groups of txids
	RangeQ  [][2]int64  `json:"rangeq,omitempty"`
	Unique  []Details   `json:"unique,omitempty"`
	Q       *QObs       `json:"q,omitempty"`       // extra queries (queries.go), only when the case opts in
	WLeased [][5]int64  `json:"wleased,omitempty"` // Wallet.ListLeasedOutputs (lease.go): txid, idx, lock id, expiry ms, value
}

// BlockIDs resolves real block hashes back to block ids.
type BlockIDs map[chainhash.Hash]int64

func (d *Driver) details(det *wtxmgr.TxDetails, t int64, bids BlockIDs) Details {
	out := Details{T: t, Credits: []CreditRec{}, Debits: [][2]int64{}}
	if det == nil {
		return out
	}
	out.Found = true
	if det.Block.Height >= 0 {
		out.Mined = true
		out.H = int64(det.Block.Height)
		out.BT = det.Block.Time.Unix()
		if id, ok := bids[det.Block.Hash]; ok {
			out.B = id
		} else {
			out.B = -1
		}
	}
	for _, c := range det.Credits {
		out.Credits = append(out.Credits, CreditRec{int64(c.Index), int64(c.Amount), c.Spent, c.Change})
	}
	for _, db := range det.Debits {
		out.Debits = append(out.Debits, [2]int64{int64(db.Index), int64(db.Amount)})
	}
	return out
}

// ObserveOpts selects what to observe.
type ObserveOpts struct {
	MinConfs []int64
	SyncOffs []int64
	Details  bool
	Ranges   bool
	Blocks   BlockIDs
}

// Observe queries the store.
func (d *Driver) Observe(tipModel int64, o ObserveOpts) (Obs, error) {
	obs := Obs{Utxos: []Utxo{}, Watch: [][2]int64{}, Unmined: []int64{}, Locked: [][4]int64{}, Tip: tipModel}
	err := walletdb.View(d.DB, func(tx walletdb.ReadTx) error {
		ns := tx.ReadBucket(nsKey)
		base := tipModel
		if base < 0 {
			base = 0
		}
		for _, mc := range o.MinConfs {
			for _, so := range o.SyncOffs {
				b, err := d.Store.Balance(ns, int32(mc), int32(base+so))
				if err != nil {
					return fmt.Errorf("Balance: %w", err)
				}
				obs.Bal = append(obs.Bal, int64(b))
			}
		}
		us, err := d.Store.UnspentOutputs(ns)
		if err != nil {
			return fmt.Errorf("UnspentOutputs: %w", err)
		}
		for _, c := range us {
			u := Utxo{Op: [2]int64{d.U.IDOf(c.OutPoint.Hash), int64(c.OutPoint.Index)}, Amt: int64(c.Amount),
				Height: int64(c.Height), Coinbase: c.FromCoinBase}
			if c.Height >= 0 {
				if id, ok := o.Blocks[c.Block.Hash]; ok {
					u.Block = id
				} else {
					u.Block = -1
				}
			}
			obs.Utxos = append(obs.Utxos, u)
		}
		sort.Slice(obs.Utxos, func(i, j int) bool { return lessOp(obs.Utxos[i].Op, obs.Utxos[j].Op) })
		ws, err := d.Store.OutputsToWatch(ns)
		if err != nil {
			return fmt.Errorf("OutputsToWatch: %w", err)
		}
		for _, c := range ws {
			obs.Watch = append(obs.Watch, [2]int64{d.U.IDOf(c.OutPoint.Hash), int64(c.OutPoint.Index)})
		}
		sort.Slice(obs.Watch, func(i, j int) bool { return lessOp(obs.Watch[i], obs.Watch[j]) })
		hs, err := d.Store.UnminedTxHashes(ns)
		if err != nil {
			return err
		}
		for _, h := range hs {
			obs.Unmined = append(obs.Unmined, d.U.IDOf(*h))
		}
		sort.Slice(obs.Unmined, func(i, j int) bool { return obs.Unmined[i] < obs.Unmined[j] })
		txs, err := d.Store.UnminedTxs(ns)
		if err != nil {
			return err
		}
		for _, m := range txs {
			obs.Sorted = append(obs.Sorted, d.U.IDOf(m.TxHash()))
		}
		ls, err := d.Store.ListLockedOutputs(ns)
		if err != nil {
			return err
		}
		for _, l := range ls {
			obs.Locked = append(obs.Locked, [4]int64{d.U.IDOf(l.Outpoint.Hash), int64(l.Outpoint.Index),
				d.idOfLock(l.LockID), l.Expiration.Sub(Epoch).Milliseconds()})
		}
		sort.Slice(obs.Locked, func(i, j int) bool {
			return lessOp([2]int64{obs.Locked[i][0], obs.Locked[i][1]}, [2]int64{obs.Locked[j][0], obs.Locked[j][1]})
		})
		if o.Details {
			for _, t := range d.U.Txs {
				h := t.hash
				det, err := d.Store.TxDetails(ns, &h)
				if err != nil {
					return fmt.Errorf("TxDetails: %w", err)
				}
				obs.Details = append(obs.Details, d.details(det, t.ID, o.Blocks))
				// UniqueTxDetails for the unmined incidence
				ud, err := d.Store.UniqueTxDetails(ns, &h, nil)
				if err != nil {
					return fmt.Errorf("UniqueTxDetails: %w", err)
				}
				obs.Unique = append(obs.Unique, d.details(ud, t.ID, o.Blocks))
			}
		}
		if o.Ranges {
			tip := int64(tipModel)
			qs := [][2]int64{{0, -1}, {-1, 0}, {0, tip}, {tip, 0}, {-1, -1}, {tip, tip}, {tip + 1, -1}, {1, tip - 1}, {tip - 1, 1}}
			for _, q := range qs {
				if q[0] < -1 || q[1] < -1 {
					continue
				}
				var groups [][]int64
				err := d.Store.RangeTransactions(ns, int32(q[0]), int32(q[1]), func(ds []wtxmgr.TxDetails) (bool, error) {
					var g []int64
					unm := len(ds) > 0 && ds[0].Block.Height < 0
					for i := range ds {
						g = append(g, d.U.IDOf(ds[i].Hash))
					}
					if unm {
						sort.Slice(g, func(i, j int) bool { return g[i] < g[j] })
						g = append([]int64{-1}, g...)
					} else if len(ds) > 0 {
						g = append([]int64{int64(ds[0].Block.Height)}, g...)
					}
					groups = append(groups, g)
					return false, nil
				})
				if err != nil {
					return fmt.Errorf("RangeTransactions: %w", err)
				}
				if groups == nil {
					groups = [][]int64{}
				}
				obs.Ranges = append(obs.Ranges, groups)
				obs.RangeQ = append(obs.RangeQ, q)
			}
		}
		return nil
	})
	if err == nil && d.WalletAPI {
		err = d.observeWalletLeases(&obs) // lease.go
	}
	return obs, err
}

func lessOp(a, b [2]int64) bool {
	if a[0] != b[0] {
		return a[0] < b[0]
	}
	return a[1] < b[1]
}

// IsCoinbase double-checks the generator's coinbase encoding against btcd.
func IsCoinbase(t *Tx) bool { return blockchain.IsCoinBaseTx(t.msg) }
