package txsim

// Event is one wallet-level event in model terms.
//
//	K: seen | confirm | disconnect | abandon | lease | release | tick | sweep |
//	   redeliver (H < 0: as unconfirmed; else the confirming block H,B,BT) |
//	   restart (C12 only: close and reopen; no effect on the facts)
type Event struct {
	K     string   `json:"k"`
	T     int64    `json:"t,omitempty"`     // txid
	H     int64    `json:"h,omitempty"`     // height
	B     int64    `json:"b,omitempty"`     // block hash id
	BT    int64    `json:"bt,omitempty"`    // block time (seconds)
	Op    [2]int64 `json:"op,omitempty"`    // outpoint
	ID    int64    `json:"id,omitempty"`    // lock id
	Dur   int64    `json:"dur,omitempty"`   // lease duration ms
	Dt    int64    `json:"dt,omitempty"`    // clock advance ms
	Label string   `json:"label,omitempty"` // why the generator emitted it (not used by model)
}

// Facts is the Go twin of the Coq record [facts] (confirmed, unconfirmed);
// used by the generator to emit only events that satisfy event_ok, which the
// Coq side re-validates on every case.
type Facts struct {
	Conf   map[int64][2]int64 // txid -> (height, block id)
	Unconf map[int64]bool
}

// NewFacts returns empty facts.
func NewFacts() *Facts { return &Facts{Conf: map[int64][2]int64{}, Unconf: map[int64]bool{}} }

// Known reports whether t is confirmed or unconfirmed.
func (f *Facts) Known(t int64) bool {
	if _, ok := f.Conf[t]; ok {
		return true
	}
	return f.Unconf[t]
}

func sharesInput(u *Universe, a, b int64) bool {
	if a == b {
		return false
	}
	ta, tb := u.Get(a), u.Get(b)
	if ta == nil || tb == nil {
		return false
	}
	for _, x := range ta.Ins {
		for _, y := range tb.Ins {
			if x == y {
				return true
			}
		}
	}
	return false
}

func spendsOutputOf(u *Universe, c, p int64) bool {
	tc := u.Get(c)
	if tc == nil {
		return false
	}
	for _, x := range tc.Ins {
		if x[0] == p {
			return true
		}
	}
	return false
}

// EventOK is the Go twin of Coq's event_ok for chain events.
func (f *Facts) EventOK(u *Universe, e Event) bool {
	switch e.K {
	case "seen":
		t := u.Get(e.T)
		if t == nil || t.Coinbase {
			return false
		}
		if f.Known(e.T) {
			return true
		}
		for c := range f.Conf {
			if sharesInput(u, e.T, c) || spendsOutputOf(u, c, e.T) {
				return false
			}
		}
		return true
	case "confirm":
		t := u.Get(e.T)
		if t == nil || e.H < 0 {
			return false
		}
		for _, b := range f.Conf {
			if b[0] == e.H && b[1] != e.B {
				return false
			}
		}
		if b, ok := f.Conf[e.T]; ok {
			return b == [2]int64{e.H, e.B}
		}
		for c := range f.Conf {
			if sharesInput(u, e.T, c) || spendsOutputOf(u, c, e.T) {
				return false
			}
		}
		for _, in := range t.Ins {
			if !f.Known(in[0]) {
				continue
			}
			b, ok := f.Conf[in[0]]
			if !ok || b[0] > e.H {
				return false
			}
		}
		return true
	case "disconnect":
		return e.H >= 0
	case "abandon":
		return f.Unconf[e.T]
	case "redeliver":
		if u.Get(e.T) == nil {
			return false
		}
		if e.H < 0 {
			return f.Known(e.T)
		}
		b, ok := f.Conf[e.T]
		return ok && b == [2]int64{e.H, e.B}
	}
	return true
}

func (f *Facts) removeWithDescendants(u *Universe, roots []int64) {
	dead := map[int64]bool{}
	for _, r := range roots {
		dead[r] = true
	}
	for changed := true; changed; {
		changed = false
		for c := range f.Unconf {
			if dead[c] {
				continue
			}
			for p := range dead {
				if spendsOutputOf(u, c, p) {
					dead[c] = true
					changed = true
					break
				}
			}
		}
	}
	for d := range dead {
		delete(f.Unconf, d)
	}
}

// Apply is the Go twin of spec_step for chain events.
func (f *Facts) Apply(u *Universe, e Event) {
	switch e.K {
	case "seen":
		if !f.Known(e.T) {
			f.Unconf[e.T] = true
		}
	case "confirm":
		if _, ok := f.Conf[e.T]; ok {
			return
		}
		f.Conf[e.T] = [2]int64{e.H, e.B}
		delete(f.Unconf, e.T)
		var cf []int64
		for c := range f.Unconf {
			if sharesInput(u, e.T, c) {
				cf = append(cf, c)
			}
		}
		f.removeWithDescendants(u, cf)
	case "disconnect":
		var cb []int64
		for t, b := range f.Conf {
			if b[0] >= e.H {
				delete(f.Conf, t)
				if u.Get(t).Coinbase {
					cb = append(cb, t)
				} else {
					f.Unconf[t] = true
				}
			}
		}
		f.removeWithDescendants(u, cb)
	case "abandon":
		f.removeWithDescendants(u, []int64{e.T})
	}
}
