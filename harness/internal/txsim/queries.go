package txsim

// Query surface of property C13 beyond TxDetails / UniqueTxDetails(nil) /
// txid-only ranges: block-qualified lookups (current, stale and foreign
// blocks), RangeTransactions with FULL details and an early-exit callback,
// PreviousPkScripts, and Wallet.GetTransactions (height and hash identifiers
// resolved through a chain backend). Only used when the case opts in
// ("queries": true); the driver then runs on a real wallet's database so
// that the wallet-level API sees the same store.

import (
	"encoding/json"
	"fmt"
	"sort"
	"time"

	"github.com/btcsuite/btcd/chaincfg/chainhash"
	"github.com/btcsuite/btcwallet/wallet"
	"github.com/btcsuite/btcwallet/walletdb"
	"github.com/btcsuite/btcwallet/wtxmgr"
	"github.com/lightningnetwork/lnd/clock"

	"verifharness/internal/gen"
	"verifharness/internal/walletenv"
)

// QRange is one RangeTransactions call: the callback answers "stop" on its
// K-th invocation (0 = never); Groups hold indices into QObs.Tab.
type QRange struct {
	B      int64     `json:"b"`
	E      int64     `json:"e"`
	K      int64     `json:"k"`
	Err    string    `json:"err,omitempty"`
	Groups [][]int64 `json:"groups"`
}

// QPrev is one PreviousPkScripts call (H < 0: nil block); Ops are the
// outpoints whose scripts were returned, in order.
type QPrev struct {
	T   int64      `json:"t"`
	H   int64      `json:"h"`
	B   int64      `json:"b"`
	Err string     `json:"err,omitempty"`
	Ops [][2]int64 `json:"ops"`
}

// QSum mirrors wallet.TransactionSummary (hash, MyInputs, MyOutputs, Fee).
type QSum struct {
	T    int64      `json:"t"`
	Ins  [][2]int64 `json:"ins"`  // input index, previous amount
	Outs []int64    `json:"outs"` // output indices
	Fee  int64      `json:"fee"`
}

// QBlock mirrors wallet.Block.
type QBlock struct {
	H   int64  `json:"h"`
	B   int64  `json:"b"`
	Txs []QSum `json:"txs"`
}

// QGT is one Wallet.GetTransactions call. An identifier is (kind, value):
// 0 nil, 1 height, 2 hash the backend resolved to height value, 3 hash the
// backend does not know.
type QGT struct {
	Backend int64    `json:"backend"` // index into BackendNames
	Start   [2]int64 `json:"start"`
	End     [2]int64 `json:"end"`
	Cancel  bool     `json:"cancel"`
	Err     string   `json:"err,omitempty"`
	Mined   []QBlock `json:"mined"`
	Unmined []QSum   `json:"unmined"`
}

// FixedGT is a GetTransactions call named by the case itself (corpus
// entries), run after event Ev in addition to the drawn ones. Identifiers are
// (kind, value): 0 nil, 1 height, 2 hash of the block with id value.
type FixedGT struct {
	Ev      int      `json:"ev"`
	Backend int64    `json:"backend"`
	Start   [2]int64 `json:"start"`
	End     [2]int64 `json:"end"`
	Cancel  bool     `json:"cancel,omitempty"`
}

// QObs is what the extra queries reported after one event.
type QObs struct {
	Tab   []Details  `json:"tab"`  // distinct (txid, details) values referenced below
	Uniq  [][4]int64 `json:"uniq"` // txid, height, block id, -1 (nil) | index into Tab
	Range []QRange   `json:"range"`
	Prev  []QPrev    `json:"prev"`
	GT    []QGT      `json:"gt"`
}

// NewWalletDriver creates a real wallet and drives ITS transaction store, so
// that Wallet.GetTransactions can be observed next to the store's own API.
func NewWalletDriver(u *Universe) (*Driver, error) {
	env, err := walletenv.New([]byte("verif-c13-seed-0123456789abcdef!"), time.Unix(1600000000, 0), 0, nil)
	if err != nil {
		return nil, err
	}
	d := &Driver{dir: env.Dir, path: env.Path, U: u, Clock: clock.NewTestClock(Epoch), DB: env.DB,
		Store: env.W.TxStore, env: env, past: map[int64][][2]int64{}}
	if d.bk, err = getBackends(); err != nil {
		env.Close()
		return nil, err
	}
	d.Store.VerifSetClock(d.Clock)
	return d, nil
}

// notePast remembers every block a transaction was ever confirmed in.
func (d *Driver) notePast(e Event) {
	if d.past == nil || e.K != "confirm" {
		return
	}
	b := [2]int64{e.H, e.B}
	for _, x := range d.past[e.T] {
		if x == b {
			return
		}
	}
	d.past[e.T] = append(d.past[e.T], b)
}

type qtab struct {
	tab []Details
	idx map[string]int64
}

func (q *qtab) add(dt Details) int64 {
	k, _ := json.Marshal(dt)
	if i, ok := q.idx[string(k)]; ok {
		return i
	}
	i := int64(len(q.tab))
	q.tab = append(q.tab, dt)
	q.idx[string(k)] = i
	return i
}

func errStr(err error) string {
	if err == nil {
		return ""
	}
	return err.Error()
}

// freshBlock is a block id no generated history uses.
func freshBlock(t int64) int64 { return 1000000 + t }

// ObserveQueries runs the extra queries after event number ev. f = the
// ledger facts after that event (used only to CHOOSE inputs: current blocks,
// interesting heights), seed = the case's query seed.
func (d *Driver) ObserveQueries(tip int64, f *Facts, ev int, seed int64, blocks BlockIDs, fixed []FixedGT) (*QObs, error) {
	r := gen.New(seed, int64(7000+ev))
	q := &QObs{Uniq: [][4]int64{}, Range: []QRange{}, Prev: []QPrev{}, GT: []QGT{}}
	tab := &qtab{idx: map[string]int64{}}
	bids := BlockIDs{}
	for k, v := range blocks {
		bids[k] = v
	}
	for _, t := range d.U.Txs {
		bids[BlockHash(freshBlock(t.ID))] = freshBlock(t.ID)
	}
	// current blocks in a fixed order
	var cur [][2]int64
	seen := map[[2]int64]bool{}
	for _, t := range d.U.Txs {
		if b, ok := f.Conf[t.ID]; ok && !seen[b] {
			seen[b] = true
			cur = append(cur, b)
		}
	}
	sort.Slice(cur, func(i, j int) bool { return cur[i][0] < cur[j][0] })
	scripts := map[string][2]int64{}
	for _, t := range d.U.Txs {
		for i, o := range t.msg.TxOut {
			scripts[string(o.PkScript)] = [2]int64{t.ID, int64(i)}
		}
	}

	// heights worth asking for
	pool := []int64{-1, 0, 1, tip - 1, tip, tip + 1}
	if len(cur) > 0 {
		pool = append(pool, cur[r.Intn(len(cur))][0], cur[r.Intn(len(cur))][0]+1)
	}
	pick := func() int64 {
		for {
			v := pool[r.Intn(len(pool))]
			if v >= -1 {
				return v
			}
		}
	}

	err := walletdb.View(d.DB, func(tx walletdb.ReadTx) error {
		ns := tx.ReadBucket(nsKey)

		// 1. UniqueTxDetails(hash, block) for the current block, every block
		// the transaction was ever in, a block it never was in, and the
		// current height under a hash that never existed
		for _, t := range d.U.Txs {
			var cands [][2]int64
			add := func(b [2]int64) {
				for _, x := range cands {
					if x == b {
						return
					}
				}
				cands = append(cands, b)
			}
			if b, ok := f.Conf[t.ID]; ok {
				add(b)
				add([2]int64{b[0], freshBlock(t.ID)})
			}
			for _, b := range d.past[t.ID] {
				add(b)
			}
			for _, b := range cur {
				if cb, ok := f.Conf[t.ID]; !ok || cb != b {
					add(b)
					break
				}
			}
			if len(cands) == 0 {
				add([2]int64{tip + 1, freshBlock(t.ID)})
			}
			h := t.hash
			for _, b := range cands {
				blk := &wtxmgr.Block{Hash: BlockHash(b[1]), Height: int32(b[0])}
				det, err := d.Store.UniqueTxDetails(ns, &h, blk)
				if err != nil {
					return fmt.Errorf("UniqueTxDetails(block): %w", err)
				}
				res := int64(-1)
				if det != nil {
					res = tab.add(d.details(det, d.U.IDOf(det.Hash), bids))
				}
				q.Uniq = append(q.Uniq, [4]int64{t.ID, b[0], b[1], res})
			}
		}

		// 2. RangeTransactions with full details and early exit
		type rq struct{ b, e, k int64 }
		var rqs []rq
		if ev%2 == 0 {
			rqs = append(rqs, rq{0, -1, 0})
		} else {
			rqs = append(rqs, rq{-1, 0, 0})
		}
		for i := 0; i < 4; i++ {
			rqs = append(rqs, rq{pick(), pick(), []int64{0, 0, 1, 1, 2, 3}[r.Intn(6)]})
		}
		for _, x := range rqs {
			qr := QRange{B: x.b, E: x.e, K: x.k, Groups: [][]int64{}}
			calls := int64(0)
			err := d.Store.RangeTransactions(ns, int32(x.b), int32(x.e), func(ds []wtxmgr.TxDetails) (bool, error) {
				g := []int64{}
				for i := range ds {
					g = append(g, tab.add(d.details(&ds[i], d.U.IDOf(ds[i].Hash), bids)))
				}
				qr.Groups = append(qr.Groups, g)
				calls++
				return calls == x.k, nil
			})
			qr.Err = errStr(err)
			q.Range = append(q.Range, qr)
		}

		// 3. PreviousPkScripts: as unmined for every transaction, under the
		// confirming block for confirmed ones, under a stale block sometimes
		for _, t := range d.U.Txs {
			rec, err := wtxmgr.NewTxRecordFromMsgTx(t.msg, Epoch)
			if err != nil {
				return err
			}
			if !f.Known(t.ID) && !r.Chance(1, 3) {
				continue // removed / never seen: sampled
			}
			blks := [][2]int64{{-1, 0}}
			if b, ok := f.Conf[t.ID]; ok {
				blks = append(blks, b)
			}
			if p := d.past[t.ID]; len(p) > 0 && r.Chance(1, 2) {
				if b := p[r.Intn(len(p))]; len(blks) < 2 || blks[1] != b {
					blks = append(blks, b)
				}
			}
			for _, b := range blks {
				var blk *wtxmgr.Block
				if b[0] >= 0 {
					blk = &wtxmgr.Block{Hash: BlockHash(b[1]), Height: int32(b[0])}
				}
				qp := QPrev{T: t.ID, H: b[0], B: b[1], Ops: [][2]int64{}}
				pks, err := d.Store.PreviousPkScripts(ns, rec, blk)
				qp.Err = errStr(err)
				for _, pk := range pks {
					op, ok := scripts[string(pk)]
					if !ok {
						op = [2]int64{0, 0}
					}
					qp.Ops = append(qp.Ops, op)
				}
				q.Prev = append(q.Prev, qp)
			}
		}
		return nil
	})
	if err != nil {
		return q, err
	}

	// 4. Wallet.GetTransactions (its own database transaction) through each
	// of the three backends its type switch knows
	if d.env != nil {
		hs := map[chainhash.Hash]int32{}
		curID := map[int64]int64{} // block id -> height on the current chain
		for _, b := range cur {
			hs[BlockHash(b[1])] = int32(b[0])
			curID[b[1]] = b[0]
		}
		d.bk.setHeights(hs)
		var stale []int64
		for _, t := range d.U.Txs {
			for _, b := range d.past[t.ID] {
				if !seen[b] {
					stale = append(stale, b[1])
				}
			}
		}
		// mk turns an input identifier (0 nil / 1 height / 2 hash of block
		// id) into the observed form (2 = resolved height, 3 = unknown)
		mk := func(in [2]int64) ([2]int64, *wallet.BlockIdentifier) {
			switch in[0] {
			case 1:
				return [2]int64{1, in[1]}, wallet.NewBlockIdentifierFromHeight(int32(in[1]))
			case 2:
				hsh := BlockHash(in[1])
				if h, ok := curID[in[1]]; ok {
					return [2]int64{2, h}, wallet.NewBlockIdentifierFromHash(&hsh)
				}
				return [2]int64{3, 0}, wallet.NewBlockIdentifierFromHash(&hsh)
			}
			return [2]int64{0, 0}, nil
		}
		ident := func() [2]int64 {
			switch r.Pick(2, 5, 3, 1) {
			case 0:
				return [2]int64{0, 0}
			case 1:
				return [2]int64{1, pick()}
			case 2:
				if len(cur) > 0 {
					return [2]int64{2, cur[r.Intn(len(cur))][1]}
				}
			}
			if len(stale) > 0 {
				return [2]int64{2, stale[r.Intn(len(stale))]}
			}
			return [2]int64{2, freshBlock(0)}
		}
		var calls []FixedGT
		for i := 0; i < 2; i++ {
			c := FixedGT{Ev: ev, Backend: int64(r.Intn(len(BackendNames)))}
			if !(i == 0 && ev%3 == 0) {
				c.Start, c.End = ident(), ident()
			}
			c.Cancel = r.Chance(1, 6)
			calls = append(calls, c)
		}
		for _, c := range fixed {
			if c.Ev == ev && c.Backend >= 0 && c.Backend < int64(len(BackendNames)) {
				calls = append(calls, c)
			}
		}
		for _, c := range calls {
			g := QGT{Backend: c.Backend, Cancel: c.Cancel}
			var sb, eb *wallet.BlockIdentifier
			g.Start, sb = mk(c.Start)
			g.End, eb = mk(c.End)
			d.env.W.VerifSetChainClient(d.bk.clients[c.Backend])
			cancel := make(chan struct{})
			if g.Cancel {
				close(cancel)
			}
			res, err := d.env.W.GetTransactions(sb, eb, "", cancel)
			g.Err = errStr(err)
			g.Mined, g.Unmined = []QBlock{}, []QSum{}
			if err == nil && res != nil {
				for _, b := range res.MinedTransactions {
					qb := QBlock{H: int64(b.Height), B: -1}
					if b.Hash != nil {
						if id, ok := bids[*b.Hash]; ok {
							qb.B = id
						}
					}
					qb.Txs = d.summaries(b.Transactions)
					g.Mined = append(g.Mined, qb)
				}
				g.Unmined = d.summaries(res.UnminedTransactions)
			}
			q.GT = append(q.GT, g)
		}
	}
	q.Tab = tab.tab
	if q.Tab == nil {
		q.Tab = []Details{}
	}
	return q, nil
}

func (d *Driver) summaries(txs []wallet.TransactionSummary) []QSum {
	out := []QSum{}
	for _, s := range txs {
		qs := QSum{Ins: [][2]int64{}, Outs: []int64{}, Fee: int64(s.Fee)}
		if s.Hash != nil {
			qs.T = d.U.IDOf(*s.Hash)
		}
		for _, in := range s.MyInputs {
			qs.Ins = append(qs.Ins, [2]int64{int64(in.Index), int64(in.PreviousAmount)})
		}
		for _, o := range s.MyOutputs {
			qs.Outs = append(qs.Outs, int64(o.Index))
		}
		out = append(out, qs)
	}
	return out
}
