package txsim

// The WALLET layer of properties C01 / C02: the same generated histories are
// delivered to a real wallet.Wallet through its own notification handlers
// (connectBlock, disconnectBlock, addRelevantTx and the atomic
// filtered-block handler, reached through wallet/verif_hooks.go), and what
// Wallet.CalculateBalance, Wallet.ListUnspent and Wallet.UnspentOutputs
// report is recorded. Nothing here re-implements addRelevantTx: which outputs
// are credits is decided by the wallet from its own addresses.
//
// A model event is translated into the notifications a chain backend sends
// (Translate): every height up to a block is connected (blocks without wallet
// transactions are "filler" blocks), a rollback becomes the tip-down sequence
// of BlockDisconnected notifications, stale and future disconnects are mixed
// in, and the relevant transactions of a block arrive after the
// BlockConnected notification (btcd order), before it (bitcoind order) or in
// one FilteredBlockConnected notification (neutrino / btcd rescan).

import (
	"errors"
	"fmt"
	"math"
	"os"
	"sort"
	"sync"
	"time"

	"github.com/btcsuite/btcd/btcutil"
	"github.com/btcsuite/btcd/chaincfg/chainhash"
	"github.com/btcsuite/btcd/txscript"
	"github.com/btcsuite/btcd/wire"
	"github.com/btcsuite/btcwallet/chain"
	"github.com/btcsuite/btcwallet/waddrmgr"
	"github.com/btcsuite/btcwallet/wallet"
	"github.com/btcsuite/btcwallet/wtxmgr"
	"github.com/lightningnetwork/lnd/clock"

	"verifharness/internal/gen"
	"verifharness/internal/walletenv"
)

// WNotif is one notification (or direct store call) in model terms.
//
//	K: connect | disconnect | relevant | filtered | store
type WNotif struct {
	K     string  `json:"k"`
	H     int64   `json:"h,omitempty"`
	B     int64   `json:"b,omitempty"`  // block id (0 = genesis); fillers have ids >= FillerBase
	BT    int64   `json:"bt,omitempty"` // block time (seconds)
	T     int64   `json:"t,omitempty"`  // relevant: the transaction
	Mined bool    `json:"mined,omitempty"`
	Ts    []int64 `json:"ts,omitempty"` // filtered: the relevant transactions of the block
	E     *Event  `json:"e,omitempty"`  // store: a call on the wallet's TxStore (lease, abandon, redeliver, ...)
	Err   string  `json:"err,omitempty"`
}

// FillerBase is the first block id used for blocks without wallet
// transactions (and for blocks the wallet is never told to connect).
const FillerBase = 1000000

// WListQ is one ListUnspent(minconf, maxconf, "") call.
type WListQ struct {
	Min int64      `json:"min"`
	Max int64      `json:"max"`
	Out [][4]int64 `json:"out"` // txid, index, amount (sat), confirmations; sorted by outpoint
}

// WUnspQ is one UnspentOutputs({account 0, minconf}) call.
type WUnspQ struct {
	Min int64  `json:"min"`
	Out []Utxo `json:"out"`
}

// WObs is what the wallet reports after the notifications of one step.
type WObs struct {
	Tip  int64    `json:"tip"`  // Manager.SyncedTo().Height
	TipB int64    `json:"tipb"` // ... and its hash as a block id (-1 unknown)
	Bal  []int64  `json:"bal"`  // CalculateBalance(minconf) per MinConfs
	List []WListQ `json:"list"`
	Unsp []WUnspQ `json:"unsp"`
	Err  string   `json:"err,omitempty"`
}

// WStep is the wallet-level image of one model event (Ev = index into the
// history, -1 for the extra steps appended by the translation).
type WStep struct {
	Ev     int      `json:"ev"`
	Notifs []WNotif `json:"notifs"`
	Obs    *WObs    `json:"obs,omitempty"`
}

// WalletRun is the wallet part of a case.
type WalletRun struct {
	MinConfs []int64    `json:"minconfs"`
	ListQ    [][2]int64 `json:"listq"`
	Steps    []WStep    `json:"steps"`
	Skipped  string     `json:"skipped,omitempty"` // why the history has no wallet-level image
	Final    *Obs       `json:"final,omitempty"`   // the store API on the wallet's own store after the last event
	Tags     []string   `json:"-"`
}

// ---------------------------------------------------------------- translation

// Translate maps a model history to notification steps. It is a pure
// function of (events, wseed), so a replay reproduces it.
func Translate(u *Universe, evs []Event, wseed int64) ([]WStep, []string, string) {
	r := gen.New(wseed, 77)
	tagset := map[string]bool{"wallet_driven": true}
	chainAt := map[int64]int64{0: 0}
	times := map[int64]int64{}
	tip := int64(0)
	filler := int64(FillerBase)
	var steps []WStep
	connect := func(st *WStep, h, b, bt int64) {
		st.Notifs = append(st.Notifs, WNotif{K: "connect", H: h, B: b, BT: bt})
		chainAt[h] = b
		times[b] = bt
		tip = h
	}
	fillTo := func(st *WStep, h int64) { // connect filler blocks so that the tip becomes h
		for tip < h {
			filler++
			connect(st, tip+1, filler, 1600000000+(tip+1)*600)
		}
	}
	order := 0
	pending := int64(0) // block id whose BlockConnected is still to come (bitcoind order)
	var pendingEv Event
	for i := 0; i < len(evs); i++ {
		e := evs[i]
		st := WStep{Ev: i, Notifs: []WNotif{}}
		switch e.K {
		case "seen":
			st.Notifs = append(st.Notifs, WNotif{K: "relevant", T: e.T})
		case "confirm":
			switch {
			case e.H <= tip && chainAt[e.H] == e.B, pending == e.B && pending != 0:
				st.Notifs = append(st.Notifs, WNotif{K: "relevant", T: e.T, Mined: true, H: e.H, B: e.B, BT: e.BT})
			case e.H <= tip:
				return nil, nil, fmt.Sprintf("event %d confirms at height %d below the wallet tip %d in a block never connected", i, e.H, tip)
			default:
				fillTo(&st, e.H-1)
				order = r.Pick(3, 2, 2)
				// the run of consecutive confirmations in this block
				j := i
				for j+1 < len(evs) && evs[j+1].K == "confirm" && evs[j+1].H == e.H && evs[j+1].B == e.B {
					j++
				}
				tagset[[]string{"wallet_block_connected_first", "wallet_relevant_txs_first", "wallet_filtered_block_connected"}[order]] = true
				switch order {
				case 0: // BlockConnected first
					connect(&st, e.H, e.B, e.BT)
					st.Notifs = append(st.Notifs, WNotif{K: "relevant", T: e.T, Mined: true, H: e.H, B: e.B, BT: e.BT})
				case 1: // relevant transactions first
					st.Notifs = append(st.Notifs, WNotif{K: "relevant", T: e.T, Mined: true, H: e.H, B: e.B, BT: e.BT})
					pending, pendingEv = e.B, e
				case 2: // one atomic notification for the whole run, then BlockConnected
					for k := i; k < j; k++ {
						steps = append(steps, WStep{Ev: k, Notifs: []WNotif{}})
					}
					var ts []int64
					for k := i; k <= j; k++ {
						ts = append(ts, evs[k].T)
					}
					st.Ev = j
					st.Notifs = append(st.Notifs, WNotif{K: "filtered", H: e.H, B: e.B, BT: e.BT, Ts: ts})
					connect(&st, e.H, e.B, e.BT)
					i = j
				}
			}
		case "disconnect":
			if r.Chance(1, 6) && tip >= 1 {
				// a stale notification: the right height, another block
				filler++
				st.Notifs = append(st.Notifs, WNotif{K: "disconnect", H: tip, B: filler})
				tagset["wallet_stale_disconnect"] = true
			}
			if e.H > tip {
				// a block the wallet never connected
				filler++
				st.Notifs = append(st.Notifs, WNotif{K: "disconnect", H: e.H, B: filler})
				tagset["wallet_future_disconnect"] = true
			}
			low := e.H
			if low < 1 {
				low = 1
			}
			if tip >= low {
				tagset["wallet_disconnect_block"] = true
			}
			if tip > low && r.Chance(1, 5) {
				// the whole rollback as ONE notification naming the lowest
				// detached block (disconnectBlock: "the removed block and all
				// blocks after it")
				st.Notifs = append(st.Notifs, WNotif{K: "disconnect", H: low, B: chainAt[low]})
				tagset["wallet_disconnect_below_tip"] = true
				for tip >= low {
					delete(chainAt, tip)
					tip--
				}
			}
			for tip >= low {
				st.Notifs = append(st.Notifs, WNotif{K: "disconnect", H: tip, B: chainAt[tip]})
				if r.Chance(1, 8) {
					st.Notifs = append(st.Notifs, WNotif{K: "disconnect", H: tip, B: chainAt[tip]}) // repeated
				}
				delete(chainAt, tip)
				tip--
			}
		default:
			ev := e
			st.Notifs = append(st.Notifs, WNotif{K: "store", E: &ev})
		}
		// bitcoind order: BlockConnected once the run of this block's transactions is over
		if pending != 0 {
			next := i + 1
			if !(next < len(evs) && evs[next].K == "confirm" && evs[next].B == pending && evs[next].H == pendingEv.H) {
				connect(&st, pendingEv.H, pendingEv.B, pendingEv.BT)
				pending = 0
			}
		}
		steps = append(steps, st)
	}
	// the chain grows by 100 more blocks: coinbase maturity at the wallet level
	last := WStep{Ev: -1, Notifs: []WNotif{}}
	fillTo(&last, tip+100)
	steps = append(steps, last)
	var tags []string
	for t := range tagset {
		tags = append(tags, t)
	}
	sort.Strings(tags)
	return steps, tags, ""
}

// ---------------------------------------------------------------- driver

// headerChain is the only part of a chain backend the handlers use:
// disconnectBlock asks for the header of the new tip.
type headerChain struct {
	chain.Interface
	mu    sync.Mutex
	times map[chainhash.Hash]time.Time
}

func (c *headerChain) GetBlockHeader(h *chainhash.Hash) (*wire.BlockHeader, error) {
	c.mu.Lock()
	defer c.mu.Unlock()
	t, ok := c.times[*h]
	if !ok {
		return nil, fmt.Errorf("header %v not found", h)
	}
	return &wire.BlockHeader{Timestamp: t}, nil
}
func (c *headerChain) NotifyReceived([]btcutil.Address) error { return nil }
func (c *headerChain) BackEnd() string                        { return "verif-headers" }
func (c *headerChain) Stop()                                  {}
func (c *headerChain) WaitForShutdown()                       {}

// WalletDriver delivers notifications to a real wallet.
type WalletDriver struct {
	*Driver
	W      *wallet.Wallet
	hc     *headerChain
	blocks map[chainhash.Hash]int64
}

var shmOnce sync.Once

// fastTemp puts the wallet files on a memory file system when there is one
// (hundreds of one-block database transactions per history).
func fastTemp() {
	shmOnce.Do(func() {
		if os.Getenv("TMPDIR") != "" {
			return
		}
		if st, err := os.Stat("/dev/shm"); err == nil && st.IsDir() {
			if f, err := os.CreateTemp("/dev/shm", "vh-probe-"); err == nil {
				f.Close()
				os.Remove(f.Name())
				os.Setenv("TMPDIR", "/dev/shm")
			}
		}
	})
}

func walletBlockHash(id int64) chainhash.Hash {
	if id == 0 {
		return *walletenvGenesis
	}
	return BlockHash(id)
}

var walletenvGenesis *chainhash.Hash

// NewWalletLayerDriver creates a wallet, derives the addresses that stand for
// "credited" (external branch) and "credited, change" (internal branch)
// outputs, and rebuilds the universe with these scripts: the returned
// driver's universe has the model's ids but the wallet's own transactions.
func NewWalletLayerDriver(txs []*Tx) (*WalletDriver, error) {
	fastTemp()
	env, err := walletenv.New([]byte("verif-c01-wallet-layer-seed-0001"), time.Unix(1600000000, 0), 0, nil)
	if err != nil {
		return nil, err
	}
	walletenvGenesis = env.Params.GenesisHash
	hc := &headerChain{times: map[chainhash.Hash]time.Time{*env.Params.GenesisHash: env.Params.GenesisBlock.Header.Timestamp}}
	env.W.VerifSetChainClient(hc)
	env.W.SetChainSynced(true)
	var ext, chg [][]byte
	for i := 0; i < 3; i++ {
		a, err := env.W.NewAddress(0, waddrmgr.KeyScopeBIP0084)
		if err != nil {
			env.Close()
			return nil, fmt.Errorf("NewAddress: %w", err)
		}
		c, err := env.W.NewChangeAddress(0, waddrmgr.KeyScopeBIP0084)
		if err != nil {
			env.Close()
			return nil, fmt.Errorf("NewChangeAddress: %w", err)
		}
		sa, _ := txscript.PayToAddrScript(a)
		sc, _ := txscript.PayToAddrScript(c)
		ext, chg = append(ext, sa), append(chg, sc)
	}
	u := NewUniverse()
	for _, t := range txs {
		nt := &Tx{ID: t.ID, Ins: t.Ins, Outs: t.Outs, Creds: t.Creds, Coinbase: t.Coinbase}
		u.AddWithScripts(nt, func(i int) []byte {
			for _, c := range nt.Creds {
				if c[0] == int64(i) {
					if c[1] != 0 {
						return chg[(int(nt.ID)+i)%len(chg)]
					}
					return ext[(int(nt.ID)+i)%len(ext)]
				}
			}
			return nil
		})
	}
	d := &Driver{dir: env.Dir, path: env.Path, U: u, Clock: clock.NewTestClock(Epoch), DB: env.DB,
		Store: env.W.TxStore, env: env}
	d.Store.VerifSetClock(d.Clock)
	return &WalletDriver{Driver: d, W: env.W, hc: hc, blocks: map[chainhash.Hash]int64{*env.Params.GenesisHash: 0}}, nil
}

// AddWithScripts is Add with the output scripts chosen by the caller (nil =
// the default foreign script).
func (u *Universe) AddWithScripts(t *Tx, script func(i int) []byte) {
	u.Add(t)
	changed := false
	for i := range t.msg.TxOut {
		if s := script(i); s != nil {
			t.msg.TxOut[i].PkScript = s
			changed = true
		}
	}
	// inputs refer to parents by hash: parents were added (and re-hashed)
	// before, so only this transaction's own hash changes
	if changed {
		delete(u.byHash, t.hash)
		t.hash = t.msg.TxHash()
		u.byHash[t.hash] = t.ID
	}
}

func (d *WalletDriver) meta(n WNotif) wtxmgr.BlockMeta {
	h := walletBlockHash(n.B)
	t := time.Unix(n.BT, 0)
	d.blocks[h] = n.B
	d.hc.mu.Lock()
	if _, ok := d.hc.times[h]; !ok {
		d.hc.times[h] = t
	}
	d.hc.mu.Unlock()
	return wtxmgr.BlockMeta{Block: wtxmgr.Block{Hash: h, Height: int32(n.H)}, Time: t}
}

func (d *WalletDriver) rec(t int64, received time.Time) (*wtxmgr.TxRecord, error) {
	return wtxmgr.NewTxRecordFromMsgTx(d.U.Get(t).msg, received)
}

// Deliver hands one notification to the wallet's handler.
func (d *WalletDriver) Deliver(n *WNotif) {
	var err error
	switch n.K {
	case "connect":
		err = d.W.VerifConnectBlock(d.meta(*n))
	case "disconnect":
		err = d.W.VerifDisconnectBlock(d.meta(*n))
	case "relevant":
		var rec *wtxmgr.TxRecord
		if n.Mined {
			m := d.meta(*n)
			if rec, err = d.rec(n.T, m.Time); err == nil {
				err = d.W.VerifAddRelevantTx(rec, &m)
			}
		} else if rec, err = d.rec(n.T, Epoch); err == nil {
			err = d.W.VerifAddRelevantTx(rec, nil)
		}
	case "filtered":
		m := d.meta(*n)
		var recs []*wtxmgr.TxRecord
		for _, t := range n.Ts {
			rec, e := d.rec(t, m.Time)
			if e != nil {
				err = e
				break
			}
			recs = append(recs, rec)
		}
		if err == nil {
			err = d.W.VerifFilteredBlockConnected(&m, recs)
		}
	case "store":
		out := d.Driver.Apply(*n.E)
		if out.Err != "" {
			err = errors.New(out.Err)
		}
	default:
		err = fmt.Errorf("unknown notification %q", n.K)
	}
	if err != nil {
		n.Err = err.Error()
	}
}

// ObserveWallet queries the wallet-level API.
func (d *WalletDriver) ObserveWallet(minconfs []int64, listq [][2]int64) *WObs {
	o := &WObs{Bal: []int64{}, List: []WListQ{}, Unsp: []WUnspQ{}}
	fail := func(what string, err error) *WObs {
		o.Err = what + ": " + err.Error()
		return o
	}
	bs := d.W.Manager.SyncedTo()
	o.Tip = int64(bs.Height)
	if id, ok := d.blocks[bs.Hash]; ok {
		o.TipB = id
	} else {
		o.TipB = -1
	}
	for _, mc := range minconfs {
		b, err := d.W.CalculateBalance(int32(mc))
		if err != nil {
			return fail("CalculateBalance", err)
		}
		o.Bal = append(o.Bal, int64(b))
	}
	for _, q := range listq {
		rs, err := d.W.ListUnspent(int32(q[0]), int32(q[1]), "")
		if err != nil {
			return fail("ListUnspent", err)
		}
		lq := WListQ{Min: q[0], Max: q[1], Out: [][4]int64{}}
		for _, r := range rs {
			h, err := chainhash.NewHashFromStr(r.TxID)
			if err != nil {
				return fail("ListUnspent txid", err)
			}
			// the result carries the amount as a float64 number of BTC: it is
			// right when it is Amount.ToBTC() of the true amount
			id := d.U.IDOf(*h)
			amt := int64(math.Round(r.Amount * 1e8))
			if t := d.U.Get(id); t != nil && int(r.Vout) < len(t.Outs) && btcutil.Amount(t.Outs[r.Vout]).ToBTC() == r.Amount {
				amt = t.Outs[r.Vout]
			}
			lq.Out = append(lq.Out, [4]int64{id, int64(r.Vout), amt, r.Confirmations})
		}
		sort.Slice(lq.Out, func(i, j int) bool {
			return lessOp([2]int64{lq.Out[i][0], lq.Out[i][1]}, [2]int64{lq.Out[j][0], lq.Out[j][1]})
		})
		o.List = append(o.List, lq)
	}
	for _, mc := range minconfs {
		outs, err := d.W.UnspentOutputs(wallet.OutputSelectionPolicy{Account: 0, RequiredConfirmations: int32(mc)})
		if err != nil {
			return fail("UnspentOutputs", err)
		}
		uq := WUnspQ{Min: mc, Out: []Utxo{}}
		for _, c := range outs {
			x := Utxo{Op: [2]int64{d.U.IDOf(c.OutPoint.Hash), int64(c.OutPoint.Index)}, Amt: c.Output.Value,
				Height: int64(c.ContainingBlock.Height), Coinbase: c.OutputKind == wallet.OutputKindCoinbase}
			if c.ContainingBlock.Height >= 0 {
				if id, ok := d.blocks[c.ContainingBlock.Hash]; ok {
					x.Block = id
				} else {
					x.Block = -1
				}
			}
			uq.Out = append(uq.Out, x)
		}
		sort.Slice(uq.Out, func(i, j int) bool { return lessOp(uq.Out[i].Op, uq.Out[j].Op) })
		o.Unsp = append(o.Unsp, uq)
	}
	return o
}

// RunWallet delivers a whole history and observes after every step that has
// notifications.
func RunWallet(txs []*Tx, evs []Event, wseed int64, minconfs []int64, listq [][2]int64, final ObserveOpts) (*WalletRun, error) {
	run := &WalletRun{MinConfs: minconfs, ListQ: listq, Steps: []WStep{}}
	u := Rebuild(txs)
	steps, tags, why := Translate(u, evs, wseed)
	if why != "" {
		run.Skipped = why
		return run, nil
	}
	run.Tags = tags
	f := NewFacts()
	for _, e := range evs {
		f.Apply(u, e)
	}
	tipModel := int64(-1)
	for _, b := range f.Conf {
		if b[0] > tipModel {
			tipModel = b[0]
		}
	}
	d, err := NewWalletLayerDriver(txs)
	if err != nil {
		return nil, err
	}
	defer d.Close()
	for _, st := range steps {
		if st.Ev == -1 {
			o, err := d.Observe(tipModel, final)
			if err != nil {
				o.Out.Err = "observe: " + err.Error()
			}
			run.Final = &o
		}
		for i := range st.Notifs {
			d.Deliver(&st.Notifs[i])
		}
		if len(st.Notifs) > 0 {
			st.Obs = d.ObserveWallet(minconfs, listq)
		}
		run.Steps = append(run.Steps, st)
	}
	return run, nil
}
