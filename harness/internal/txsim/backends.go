package txsim

// The three chain backends Wallet.GetTransactions distinguishes in its type
// switch, each REAL and attached to an in-process stand-in that only knows
// block heights:
//
//   - neutrino: &chain.NeutrinoClient{CS: stub} (CS is an exported interface);
//   - bitcoind: chain.NewBitcoindConn + NewBitcoindClient against a minimal
//     JSON-RPC-over-HTTP server on the loopback interface (getblockhash 0,
//     getblockchaininfo, getnetworkinfo, getblockheader);
//   - btcd: chain.NewRPCClient + Start against a minimal websocket JSON-RPC
//     endpoint on the same listener (getcurrentnet, getbestblock,
//     getblockheader) - the approach of harness/cmd/c18/slice.go.
//
// One set per process; the height table is replaced before every query.

import (
	"encoding/json"
	"errors"
	"fmt"
	"io"
	"net"
	"net/http"
	"sync"
	"time"

	"github.com/btcsuite/btcd/chaincfg"
	"github.com/btcsuite/btcd/chaincfg/chainhash"
	"github.com/btcsuite/btcwallet/chain"
	"github.com/btcsuite/websocket"
)

// BackendNames in the order of their code numbers (QGT.Backend).
var BackendNames = []string{"neutrino", "bitcoind", "btcd"}

// fakeCS is the only part of a neutrino chain service GetTransactions uses.
type fakeCS struct {
	chain.NeutrinoChainService
	b *backends
}

func (f *fakeCS) GetBlockHeight(h *chainhash.Hash) (int32, error) {
	if v, ok := f.b.height(h.String()); ok {
		return v, nil
	}
	return 0, errors.New("block not found in the best chain")
}

type backends struct {
	mu      sync.Mutex
	heights map[string]int32
	clients [3]chain.Interface
}

func (b *backends) height(h string) (int32, bool) {
	b.mu.Lock()
	defer b.mu.Unlock()
	v, ok := b.heights[h]
	return v, ok
}

func (b *backends) setHeights(m map[chainhash.Hash]int32) {
	b.mu.Lock()
	defer b.mu.Unlock()
	b.heights = map[string]int32{}
	for k, v := range m {
		b.heights[k.String()] = v
	}
}

// answer computes the JSON result (or error object) of one request.
func (b *backends) answer(method string, params []json.RawMessage) (result, rpcErr interface{}) {
	genesis := chaincfg.RegressionNetParams.GenesisHash.String()
	switch method {
	case "getblockhash":
		return genesis, nil
	case "getblockchaininfo":
		return map[string]interface{}{"chain": "regtest", "blocks": 0, "headers": 0, "bestblockhash": genesis, "pruned": false}, nil
	case "getnetworkinfo":
		return map[string]interface{}{"version": 250000}, nil
	case "getcurrentnet":
		return uint32(chaincfg.RegressionNetParams.Net), nil
	case "getbestblock":
		return map[string]interface{}{"hash": genesis, "height": 0}, nil
	case "getblockheader":
		var h string
		if len(params) > 0 {
			_ = json.Unmarshal(params[0], &h)
		}
		if ht, ok := b.height(h); ok {
			return map[string]interface{}{"hash": h, "confirmations": 1, "height": ht, "version": 1,
				"versionHex": "00000001", "merkleroot": h, "time": 1600000000, "nonce": 0, "bits": "207fffff",
				"difficulty": 1.0, "previousblockhash": genesis}, nil
		}
		return nil, map[string]interface{}{"code": -5, "message": "Block not found"}
	}
	return nil, nil
}

type rpcReq struct {
	ID     json.RawMessage   `json:"id"`
	Method string            `json:"method"`
	Params []json.RawMessage `json:"params"`
}

func (b *backends) reply(raw []byte) []byte {
	var req rpcReq
	_ = json.Unmarshal(raw, &req)
	if len(req.ID) == 0 {
		req.ID = json.RawMessage("null")
	}
	res, e := b.answer(req.Method, req.Params)
	out, _ := json.Marshal(map[string]interface{}{"result": res, "error": e, "id": req.ID})
	return out
}

func (b *backends) serveHTTP(w http.ResponseWriter, r *http.Request) {
	body, _ := io.ReadAll(r.Body)
	w.Header().Set("Content-Type", "application/json")
	_, _ = w.Write(b.reply(body))
}

func (b *backends) serveWS(w http.ResponseWriter, r *http.Request) {
	conn, err := websocket.Upgrade(w, r, nil, 0, 0)
	if err != nil {
		http.Error(w, "400 Bad Request.", http.StatusBadRequest)
		return
	}
	defer conn.Close()
	for {
		_, msg, err := conn.ReadMessage()
		if err != nil {
			return
		}
		if conn.WriteMessage(websocket.TextMessage, b.reply(msg)) != nil {
			return
		}
	}
}

var (
	theBackends    *backends
	theBackendsErr error
	backendsOnce   sync.Once
)

func getBackends() (*backends, error) {
	backendsOnce.Do(func() {
		b := &backends{heights: map[string]int32{}}
		ln, err := net.Listen("tcp", "127.0.0.1:0")
		if err != nil {
			theBackendsErr = fmt.Errorf("cannot listen on loopback: %w", err)
			return
		}
		mux := http.NewServeMux()
		mux.HandleFunc("/ws", b.serveWS)
		mux.HandleFunc("/", b.serveHTTP)
		go http.Serve(ln, mux)

		b.clients[0] = &chain.NeutrinoClient{CS: &fakeCS{b: b}}

		conn, err := chain.NewBitcoindConn(&chain.BitcoindConfig{
			ChainParams: &chaincfg.RegressionNetParams, Host: ln.Addr().String(), User: "u", Pass: "p",
			PollingConfig: &chain.PollingConfig{BlockPollingInterval: time.Hour, TxPollingInterval: time.Hour},
		})
		if err != nil {
			theBackendsErr = fmt.Errorf("NewBitcoindConn: %w", err)
			return
		}
		b.clients[1] = conn.NewBitcoindClient()

		rc, err := chain.NewRPCClient(&chaincfg.RegressionNetParams, ln.Addr().String(), "u", "p", nil, true, 3)
		if err != nil {
			theBackendsErr = fmt.Errorf("NewRPCClient: %w", err)
			return
		}
		if err := rc.Start(); err != nil {
			theBackendsErr = fmt.Errorf("RPCClient.Start: %w", err)
			return
		}
		b.clients[2] = rc
		theBackends = b
	})
	return theBackends, theBackendsErr
}
