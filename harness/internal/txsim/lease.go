package txsim

// Lease layer of property C12, all opt-in (a case asks for it through its
// input; without it the driver behaves exactly as before):
//
//   - full-width lock ids: the case names the 32 bytes that stand for each
//     model lock id (ids that share long prefixes / suffixes or differ in one
//     byte or one bit), so that an identifier comparison on a prefix or on a
//     single byte is visible;
//   - the wallet-level API: Wallet.LeaseOutput / ReleaseOutput /
//     ListLeasedOutputs on a real wallet whose transaction store receives the
//     history;
//   - the "restart" event: the database file is closed and reopened (store
//     driver) or the whole wallet is stopped, its file closed, reopened and
//     the wallet started again (wallet driver). The model step of a restart
//     is the identity.

import (
	"errors"
	"fmt"
	"sort"
	"time"

	"github.com/btcsuite/btcwallet/wtxmgr"
	"github.com/lightningnetwork/lnd/clock"

	"verifharness/internal/gen"
	"verifharness/internal/walletenv"
)

// NewLeaseWalletDriver runs the history on the transaction store of a real
// wallet; lease, release and the lease list go through the wallet's API.
func NewLeaseWalletDriver(u *Universe) (*Driver, error) {
	fastTemp()
	env, err := walletenv.New([]byte("verif-c12-wallet-lease-seed-0001"), time.Unix(1600000000, 0), 0, nil)
	if err != nil {
		return nil, err
	}
	d := &Driver{dir: env.Dir, path: env.Path, U: u, Clock: clock.NewTestClock(Epoch), DB: env.DB,
		Store: env.W.TxStore, env: env, WalletAPI: true}
	d.Store.VerifSetClock(d.Clock)
	return d, nil
}

// reopenWallet stops the wallet, closes and reopens its file, starts it again.
func (d *Driver) reopenWallet() error {
	if err := d.env.Reopen(0, nil); err != nil {
		return err
	}
	d.DB, d.Store = d.env.DB, d.env.W.TxStore
	d.Store.VerifSetClock(d.Clock)
	return nil
}

func (d *Driver) lockIDOf(id int64) wtxmgr.LockID {
	if l, ok := d.LockIDs[id]; ok {
		return l
	}
	return lockID(id)
}

// idOfLock maps a stored identifier back to the model id: the whole 32 bytes
// must match (-1: an identifier nobody used).
func (d *Driver) idOfLock(l wtxmgr.LockID) int64 {
	if d.LockIDs == nil {
		return int64(l[0])
	}
	for id, x := range d.LockIDs {
		if x == l {
			return id
		}
	}
	if l == lockID(int64(l[0])) {
		return int64(l[0])
	}
	return -1
}

// applyLeaseLayer: restart, and lease / release through the wallet.
func (d *Driver) applyLeaseLayer(e Event) StepOut {
	var out StepOut
	switch e.K {
	case "restart":
		if err := d.Reopen(); err != nil {
			out.Err = "restart: " + err.Error()
		}
	case "lease":
		exp, err := d.env.W.LeaseOutput(d.lockIDOf(e.ID), d.outPoint(e.Op), time.Duration(e.Dur)*time.Millisecond)
		switch {
		case err == nil:
			out.Lock = "ok"
			out.Expiry = exp.Sub(Epoch).Milliseconds()
		case errors.Is(err, wtxmgr.ErrUnknownOutput):
			out.Lock = "unknown"
		case errors.Is(err, wtxmgr.ErrOutputAlreadyLocked):
			out.Lock = "already"
		default:
			out.Err = err.Error()
		}
	case "release":
		err := d.env.W.ReleaseOutput(d.lockIDOf(e.ID), d.outPoint(e.Op))
		switch {
		case err == nil:
			out.Lock = "ok"
		case errors.Is(err, wtxmgr.ErrUnknownOutput):
			out.Lock = "unknown"
		case errors.Is(err, wtxmgr.ErrOutputUnlockNotAllowed):
			out.Lock = "notallowed"
		default:
			out.Err = err.Error()
		}
	}
	return out
}

func (d *Driver) observeWalletLeases(obs *Obs) error {
	ls, err := d.env.W.ListLeasedOutputs()
	if err != nil {
		return fmt.Errorf("ListLeasedOutputs: %w", err)
	}
	obs.WLeased = [][5]int64{}
	for _, l := range ls {
		obs.WLeased = append(obs.WLeased, [5]int64{d.U.IDOf(l.Outpoint.Hash), int64(l.Outpoint.Index),
			d.idOfLock(l.LockID), l.Expiration.Sub(Epoch).Milliseconds(), l.Value})
	}
	sort.Slice(obs.WLeased, func(i, j int) bool {
		return lessOp([2]int64{obs.WLeased[i][0], obs.WLeased[i][1]}, [2]int64{obs.WLeased[j][0], obs.WLeased[j][1]})
	})
	return nil
}

// WalletLeaseListOK states what Wallet.ListLeasedOutputs must report, given
// the store's own list (judged against the ledger by the Coq side): every
// live lease whose transaction the wallet still knows (the wallet skips a
// lease whose transaction record is gone), with the output's value.
func WalletLeaseListOK(u *Universe, f *Facts, o *Obs) bool {
	var want [][5]int64
	for _, l := range o.Locked {
		if !f.Known(l[0]) {
			continue
		}
		t := u.Get(l[0])
		if t == nil || int(l[1]) >= len(t.Outs) {
			return false
		}
		want = append(want, [5]int64{l[0], l[1], l[2], l[3], t.Outs[l[1]]})
	}
	if len(want) != len(o.WLeased) {
		return false
	}
	for i := range want {
		if want[i] != o.WLeased[i] {
			return false
		}
	}
	return true
}

// LockIDSet draws the 32-byte identifiers standing for model ids 1..n.
// pattern: 0 independent; 1 the others share a prefix (id 2) / a suffix
// (id 3) of k bytes with id 1; 2 the others differ from id 1 in one byte /
// one bit; 3 the others differ from id 1 in the last / the first byte only.
func LockIDSet(r *gen.R, n int) (map[int64]wtxmgr.LockID, []string) {
	ids := map[int64]wtxmgr.LockID{}
	var base wtxmgr.LockID
	copy(base[:], r.Bytes(32))
	ids[1] = base
	pattern := r.Pick(2, 4, 3, 2)
	k := []int{1, 4, 8, 8, 16, 24, 31}[r.Intn(7)]
	tags := []string{[]string{"lockids_independent", "lockids_shared_prefix_suffix", "lockids_one_byte_or_bit", "lockids_end_bytes"}[pattern]}
	if pattern == 1 && k >= 8 {
		tags = append(tags, "lockids_share_ge8_bytes")
	}
	for i := 2; i <= n; i++ {
		for {
			l := base
			switch pattern {
			case 0:
				copy(l[:], r.Bytes(32))
			case 1:
				if i%2 == 0 { // shares the first k bytes; the byte after them differs
					copy(l[k:], r.Bytes(32-k))
					if l[k] == base[k] {
						l[k] ^= 0x01
					}
				} else { // shares the last k bytes
					copy(l[:32-k], r.Bytes(32-k))
					if l[31-k] == base[31-k] {
						l[31-k] ^= 0x80
					}
				}
			case 2:
				p := r.Range(0, 31)
				if i%2 == 0 {
					l[p] ^= byte(r.Range(1, 255))
				} else {
					l[p] ^= 1 << uint(r.Range(0, 7))
				}
			case 3:
				if i%2 == 0 {
					l[31] ^= byte(r.Range(1, 255))
				} else {
					l[0] ^= byte(r.Range(1, 255))
				}
			}
			dup := false
			for _, x := range ids {
				if x == l {
					dup = true
				}
			}
			if !dup {
				ids[int64(i)] = l
				break
			}
		}
	}
	return ids, tags
}
