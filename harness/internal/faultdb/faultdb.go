// Package faultdb wraps a walletdb.DB (the real bdb backend) so that a harness
// can count the mutating calls made inside a read/write transaction and make
// the k-th one fail with a sentinel error, without touching the code under
// test (property C10).
//
// Mutating calls: Put, Delete, CreateBucket, CreateBucketIfNotExists,
// DeleteNestedBucket, SetSequence, NextSequence on buckets (at every nesting
// depth), Delete on read/write cursors, CreateTopLevelBucket and
// DeleteTopLevelBucket on transactions.  A failed call does not reach the
// backend.  Buckets handed out by a wrapped transaction are wrappers too, and
// bucket.Tx() is the wrapped transaction (waddrmgr registers its OnCommit
// handlers through it); OnCommit is forwarded to the backend.
//
// The counter is per read/write transaction (reset at Begin / Update).
package faultdb

import (
	"encoding/hex"
	"errors"
	"regexp"
	"runtime"
	"strings"

	"github.com/btcsuite/btcwallet/walletdb"
)

// ErrInjected is returned by the mutating call selected to fail.
var ErrInjected = errors.New("faultdb: injected write failure")

// ErrForcedRollback is returned by Update when the transaction body succeeded
// but the DB was told to roll every transaction back (probe mode).
var ErrForcedRollback = errors.New("faultdb: transaction rolled back on request")

// Call describes one mutating call.
type Call struct {
	N      int    `json:"n"`      // 1, 2, ... within the transaction
	Op     string `json:"op"`     // Put, Delete, ...
	Key    string `json:"key"`    // hex, first 12 bytes
	Callee string `json:"callee"` // innermost function of the code under test on the stack
	API    string `json:"api"`    // outermost function of the code under test on the stack
	Failed bool   `json:"failed,omitempty"`
	// Sites (failed call only): the call sites of the code under test above the
	// failing write, outermost first, named as harness/cmd/extract-c10 names
	// them: "<pkg>:<caller>><callee>", the last one "<pkg>:<function>>db.<Op>".
	// A callback invoked through the database layer (ForEach) appears as
	// "<pkg>:<function>>(callback)".
	Sites []string `json:"sites,omitempty"`
}

// DB is the wrapper.
type DB struct {
	walletdb.DB
	// FailAt selects the mutating call (1-based) that fails in every
	// following read/write transaction; 0 disables.
	FailAt int
	// RollbackAll makes Update roll back even when the body succeeded.
	RollbackAll bool
	// Packages whose functions are looked for on the stack (path suffixes).
	Packages []string
	// Calls of the most recent read/write transaction.
	Calls []Call
	// Fired reports whether the selected call was reached.
	Fired bool
}

// Wrap wraps db; stack attribution looks for functions of wtxmgr and waddrmgr.
func Wrap(db walletdb.DB) *DB {
	return &DB{DB: db, Packages: []string{"btcwallet/wtxmgr.", "btcwallet/waddrmgr."}}
}

// Writes is the number of mutating calls attempted in the last transaction.
func (d *DB) Writes() int { return len(d.Calls) }

// FailedCall returns the call that was made to fail in the last transaction.
func (d *DB) FailedCall() *Call {
	for i := range d.Calls {
		if d.Calls[i].Failed {
			return &d.Calls[i]
		}
	}
	return nil
}

func (d *DB) reset() {
	d.Calls = nil
	d.Fired = false
}

func (d *DB) attribute() (callee, api string) {
	var pcs [48]uintptr
	n := runtime.Callers(3, pcs[:])
	frames := runtime.CallersFrames(pcs[:n])
	for {
		fr, more := frames.Next()
		for _, p := range d.Packages {
			if i := strings.Index(fr.Function, p); i >= 0 {
				name := fr.Function[i+len(p):]
				name = strings.TrimPrefix(name, "(*")
				name = strings.Replace(name, ").", ".", 1)
				if callee == "" {
					callee = name
				}
				api = name
			}
		}
		if !more {
			break
		}
	}
	return
}

var closureRE = regexp.MustCompile(`\.func(\d+)((?:\.\d+)*)$`)

// siteName turns a runtime function name into (package, name as the extractor
// prints it): "…/wtxmgr.(*Store).insertMinedTx" -> ("wtxmgr", "(*Store).insertMinedTx"),
// "…/waddrmgr.deletePrivateKeys.func1.2" -> ("waddrmgr", "deletePrivateKeys$1$2").
func siteName(fn string) (pkg, name string) {
	if i := strings.LastIndex(fn, "/"); i >= 0 {
		fn = fn[i+1:]
	}
	i := strings.Index(fn, ".")
	if i < 0 {
		return "", fn
	}
	pkg, name = fn[:i], fn[i+1:]
	name = strings.TrimSuffix(name, "-fm")
	for {
		m := closureRE.FindStringSubmatchIndex(name)
		if m == nil {
			break
		}
		suffix := "$" + name[m[2]:m[3]] + strings.ReplaceAll(name[m[4]:m[5]], ".", "$")
		name = name[:m[0]] + suffix
	}
	return pkg, name
}

func (d *DB) siteChain(op string) []string {
	var pcs [64]uintptr
	n := runtime.Callers(3, pcs[:])
	frames := runtime.CallersFrames(pcs[:n])
	type fr struct{ pkg, name string }
	var chain []fr // innermost first
	for {
		f, more := frames.Next()
		for _, p := range d.Packages {
			if strings.Contains(f.Function, p) {
				pkg, name := siteName(f.Function)
				chain = append(chain, fr{pkg, name})
				break
			}
		}
		if !more {
			break
		}
	}
	if len(chain) == 0 {
		return nil
	}
	if op == "Cursor.Delete" {
		op = "Delete"
	}
	var out []string
	for i := len(chain) - 1; i >= 1; i-- {
		caller, callee := chain[i], chain[i-1]
		if caller.pkg == callee.pkg && strings.HasPrefix(callee.name, caller.name+"$") {
			out = append(out, caller.pkg+":"+caller.name+">(callback)")
			continue
		}
		out = append(out, caller.pkg+":"+caller.name+">"+callee.name)
	}
	out = append(out, chain[0].pkg+":"+chain[0].name+">db."+op)
	return out
}

// before registers a mutating call and decides whether it fails.
func (d *DB) before(op string, key []byte) error {
	c := Call{N: len(d.Calls) + 1, Op: op}
	if len(key) > 12 {
		c.Key = hex.EncodeToString(key[:12])
	} else {
		c.Key = hex.EncodeToString(key)
	}
	c.Callee, c.API = d.attribute()
	if d.FailAt > 0 && c.N == d.FailAt {
		c.Failed = true
		c.Sites = d.siteChain(op)
		d.Fired = true
		d.Calls = append(d.Calls, c)
		return ErrInjected
	}
	d.Calls = append(d.Calls, c)
	return nil
}

// BeginReadWriteTx opens a wrapped read/write transaction.
func (d *DB) BeginReadWriteTx() (walletdb.ReadWriteTx, error) {
	tx, err := d.DB.BeginReadWriteTx()
	if err != nil {
		return nil, err
	}
	d.reset()
	return &rwTx{ReadWriteTx: tx, d: d}, nil
}

// Update runs f in a wrapped read/write transaction; it commits when f
// returns nil (unless RollbackAll) and rolls back otherwise, like bdb does.
func (d *DB) Update(f func(tx walletdb.ReadWriteTx) error, reset func()) error {
	reset()
	tx, err := d.BeginReadWriteTx()
	if err != nil {
		return err
	}
	done := false
	defer func() {
		if !done {
			_ = tx.Rollback() // panic in f: release the writer
		}
	}()
	err = f(tx)
	if err != nil {
		done = true
		_ = tx.Rollback()
		return err
	}
	if d.RollbackAll {
		done = true
		if err := tx.Rollback(); err != nil {
			return err
		}
		return ErrForcedRollback
	}
	done = true
	return tx.Commit()
}

type rwTx struct {
	walletdb.ReadWriteTx
	d *DB
}

func (t *rwTx) wrap(b walletdb.ReadWriteBucket) walletdb.ReadWriteBucket {
	if b == nil {
		return nil
	}
	return &rwBucket{ReadWriteBucket: b, t: t}
}

func (t *rwTx) ReadBucket(key []byte) walletdb.ReadBucket {
	b := t.ReadWriteTx.ReadWriteBucket(key)
	if b == nil {
		return nil
	}
	return &rwBucket{ReadWriteBucket: b, t: t}
}

func (t *rwTx) ReadWriteBucket(key []byte) walletdb.ReadWriteBucket {
	return t.wrap(t.ReadWriteTx.ReadWriteBucket(key))
}

func (t *rwTx) CreateTopLevelBucket(key []byte) (walletdb.ReadWriteBucket, error) {
	if err := t.d.before("CreateTopLevelBucket", key); err != nil {
		return nil, err
	}
	b, err := t.ReadWriteTx.CreateTopLevelBucket(key)
	if err != nil {
		return nil, err
	}
	return t.wrap(b), nil
}

func (t *rwTx) DeleteTopLevelBucket(key []byte) error {
	if err := t.d.before("DeleteTopLevelBucket", key); err != nil {
		return err
	}
	return t.ReadWriteTx.DeleteTopLevelBucket(key)
}

type rwBucket struct {
	walletdb.ReadWriteBucket
	t *rwTx
}

func (b *rwBucket) NestedReadBucket(key []byte) walletdb.ReadBucket {
	n := b.ReadWriteBucket.NestedReadWriteBucket(key)
	if n == nil {
		return nil
	}
	return &rwBucket{ReadWriteBucket: n, t: b.t}
}

func (b *rwBucket) NestedReadWriteBucket(key []byte) walletdb.ReadWriteBucket {
	return b.t.wrap(b.ReadWriteBucket.NestedReadWriteBucket(key))
}

func (b *rwBucket) CreateBucket(key []byte) (walletdb.ReadWriteBucket, error) {
	if err := b.t.d.before("CreateBucket", key); err != nil {
		return nil, err
	}
	n, err := b.ReadWriteBucket.CreateBucket(key)
	if err != nil {
		return nil, err
	}
	return b.t.wrap(n), nil
}

func (b *rwBucket) CreateBucketIfNotExists(key []byte) (walletdb.ReadWriteBucket, error) {
	if err := b.t.d.before("CreateBucketIfNotExists", key); err != nil {
		return nil, err
	}
	n, err := b.ReadWriteBucket.CreateBucketIfNotExists(key)
	if err != nil {
		return nil, err
	}
	return b.t.wrap(n), nil
}

func (b *rwBucket) DeleteNestedBucket(key []byte) error {
	if err := b.t.d.before("DeleteNestedBucket", key); err != nil {
		return err
	}
	return b.ReadWriteBucket.DeleteNestedBucket(key)
}

func (b *rwBucket) Put(key, value []byte) error {
	if err := b.t.d.before("Put", key); err != nil {
		return err
	}
	return b.ReadWriteBucket.Put(key, value)
}

func (b *rwBucket) Delete(key []byte) error {
	if err := b.t.d.before("Delete", key); err != nil {
		return err
	}
	return b.ReadWriteBucket.Delete(key)
}

func (b *rwBucket) NextSequence() (uint64, error) {
	if err := b.t.d.before("NextSequence", nil); err != nil {
		return 0, err
	}
	return b.ReadWriteBucket.NextSequence()
}

func (b *rwBucket) SetSequence(v uint64) error {
	if err := b.t.d.before("SetSequence", nil); err != nil {
		return err
	}
	return b.ReadWriteBucket.SetSequence(v)
}

func (b *rwBucket) ReadWriteCursor() walletdb.ReadWriteCursor {
	return &rwCursor{ReadWriteCursor: b.ReadWriteBucket.ReadWriteCursor(), t: b.t}
}

func (b *rwBucket) Tx() walletdb.ReadWriteTx { return b.t }

type rwCursor struct {
	walletdb.ReadWriteCursor
	t *rwTx
}

func (c *rwCursor) Delete() error {
	if err := c.t.d.before("Cursor.Delete", nil); err != nil {
		return err
	}
	return c.ReadWriteCursor.Delete()
}

// Dump returns the whole bucket tree of db as sorted "path/key=value" lines
// (hex), nested buckets as "path/key/" lines with their sequence number.
func Dump(db walletdb.DB) ([]string, error) {
	var out []string
	err := walletdb.View(db, func(tx walletdb.ReadTx) error {
		return tx.ForEachBucket(func(name []byte) error {
			b := tx.ReadBucket(name)
			if b == nil {
				return errors.New("top-level bucket vanished")
			}
			return dumpBucket(b, hex.EncodeToString(name), &out)
		})
	})
	return out, err
}

func dumpBucket(b walletdb.ReadBucket, path string, out *[]string) error {
	*out = append(*out, path+"/ seq="+itoa(b.Sequence()))
	return b.ForEach(func(k, v []byte) error {
		if v == nil {
			n := b.NestedReadBucket(k)
			if n == nil {
				return errors.New("nested bucket vanished")
			}
			return dumpBucket(n, path+"/"+hex.EncodeToString(k), out)
		}
		*out = append(*out, path+"/"+hex.EncodeToString(k)+"="+hex.EncodeToString(v))
		return nil
	})
}

func itoa(u uint64) string {
	if u == 0 {
		return "0"
	}
	var b [20]byte
	i := len(b)
	for u > 0 {
		i--
		b[i] = byte('0' + u%10)
		u /= 10
	}
	return string(b[i:])
}

// DiffDump returns up to max lines present in only one of the two dumps.
func DiffDump(a, b []string, max int) []string {
	in := func(xs []string) map[string]bool {
		m := make(map[string]bool, len(xs))
		for _, x := range xs {
			m[x] = true
		}
		return m
	}
	ma, mb := in(a), in(b)
	var out []string
	for _, x := range a {
		if !mb[x] && len(out) < max {
			out = append(out, "-"+short(x))
		}
	}
	for _, x := range b {
		if !ma[x] && len(out) < max {
			out = append(out, "+"+short(x))
		}
	}
	return out
}

func short(s string) string {
	if len(s) > 120 {
		return s[:120] + "..."
	}
	return s
}
