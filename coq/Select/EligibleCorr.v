(** Executable comparison for the correspondence check of C06: what the
    wallet did on one request (harness/cmd/c06) against the selection model.

    The harness dumps, immediately before every request, the wallet's
    candidate outputs (wtxmgr [UnspentOutputs] with the attributes the wallet
    derives from each script through its address manager), the request and
    the in-memory lock set; and afterwards the inputs of the created
    transaction or the class of the error. *)
From stdpp Require Import gmap list numbers sorting.
From Coq Require Import ZArith NArith.
From Verif Require Import Tx.Store Select.Eligible.
Local Open Scope Z_scope.

Inductive outcome :=
| ROk (ins : list outpoint)        (* inputs of the created transaction, in order *)
| RRefusedSelection                (* error raised by the explicit selection loop *)
| ROtherError.                     (* any other error (insufficient funds, dust output, ...) *)

Record creq := {
  q_cands : list cand;
  q_ctx : wctx;
  q_acct : N;
  q_scope : option N;
  q_minconf : Z;
  q_rate : Z;
  q_strategy : strategy;
  q_explicit : list outpoint;
  q_allow : option (list outpoint);  (* WithUtxoFilter: only these outpoints; None = no filter *)
  q_dry : bool;
  q_sorted : bool;                   (* the API re-orders the inputs (FundPsbt sorts by BIP 69) *)
  q_outcome : outcome;
  q_signed : bool;                   (* every input of the result carries a script or witness *)
}.

Definition request_of (q : creq) : request :=
  {| r_acct := q_acct q; r_scope := q_scope q; r_minconf := q_minconf q; r_rate := q_rate q;
     r_strategy := q_strategy q; r_explicit := q_explicit q;
     r_allow := fun u => match q_allow q with
                         | None => true
                         | Some l => bool_decide (u_op u ∈ l)
                         end;
     r_dry := q_dry q |}.

Definition op_le (a b : outpoint) : Prop := (a.1 < b.1)%N ∨ (a.1 = b.1 ∧ (a.2 <= b.2)%N).
Global Instance op_le_dec a b : Decision (op_le a b).
Proof. unfold op_le. apply _. Defined.

Definition Z_ge' (a b : Z) : Prop := b <= a.
Global Instance Z_ge'_dec a b : Decision (Z_ge' a b).
Proof. unfold Z_ge'. apply _. Defined.

Definition amount_of (cs : list cand) (op : outpoint) : Z :=
  match List.find (fun c => bool_decide (c_op c = op)) cs with
  | Some c => c_amt c
  | None => -1
  end.

Definition same_ops (sorted : bool) (a b : list outpoint) : bool :=
  if sorted then bool_decide (merge_sort op_le a = merge_sort op_le b)
  else bool_decide (a = b).

(** Failure codes of one request (what the property is about):
     1 an input is outside the model's eligible set
     2 an input occurs twice
     5 explicit selection: inputs differ from the model's selection result
     6 signed / unsigned differs from [negb dry && negb watch_only]
     7 the selection loop refused, the model's does not (or no selection was given)
     8 another error, but the model's selection loop refuses *)
Definition req_fail (q : creq) : list nat :=
  let r := request_of q in
  let x := q_ctx q in
  let elig := eligible x r (q_cands q) in
  let elig_ops := map c_op elig in
  let flag (ok : bool) (code : nat) : list nat := if ok then [] else [code] in
  match q_outcome q with
  | ROk ins =>
    flag (bool_decide (q_signed q = negb (q_dry q) && negb (x_watch_only x))) 6%nat ++
    match q_explicit q with
    | [] =>
      flag (forallb (fun op => bool_decide (op ∈ elig_ops)) ins) 1%nat ++
      flag (bool_decide (NoDup ins)) 2%nat
    | sel =>
      match explicit_select elig sel with
      | Some l => flag (same_ops (q_sorted q) (map c_op l) ins) 5%nat
      | None => [5%nat]
      end
    end
  | RRefusedSelection =>
    match q_explicit q with
    | [] => [7%nat]
    | sel => match explicit_select elig sel with None => [] | Some _ => [7%nat] end
    end
  | ROtherError =>
    match q_explicit q with
    | [] => []
    | sel => match explicit_select elig sel with None => [8%nat] | Some _ => [] end
    end
  end.

(** Differences in the ARRANGEMENT of an automatic selection.  Which eligible
    outputs a strategy prefers is not part of the property (any choice among
    eligible outputs satisfies it), so these are counted in the evidence and
    are not correspondence failures:
     3 largest-first: the inputs are not the largest |inputs| eligible amounts
     4 random: an input does not yield positively at the requested fee rate *)
Definition req_soft (q : creq) : list nat :=
  let r := request_of q in
  let elig := eligible (q_ctx q) r (q_cands q) in
  let flag (ok : bool) (code : nat) : list nat := if ok then [] else [code] in
  match q_outcome q, q_explicit q with
  | ROk ins, [] =>
    match q_strategy q with
    | Largest =>
      let arranged := arrange Largest (q_rate q) (fun l => l) elig in
      flag (bool_decide (merge_sort Z_ge' (map (amount_of (q_cands q)) ins)
                         = map c_amt (take (length ins) arranged))) 3%nat
    | Random =>
      let yielding := map c_op (List.filter (yields (q_rate q)) elig) in
      flag (forallb (fun op => bool_decide (op ∈ yielding)) ins) 4%nat
    end
  | _, _ => []
  end.

Definition req_ok (q : creq) : bool := match req_fail q with [] => true | _ => false end.

(** One case = the requests of one wallet history. *)
Definition case_ok (c : list creq) : bool := forallb req_ok c.

Fixpoint mismatches_from {A} (f : A -> bool) (i : nat) (l : list A) : list nat :=
  match l with
  | [] => []
  | c :: l' => if f c then mismatches_from f (S i) l' else i :: mismatches_from f (S i) l'
  end.

Definition mismatches : list (list creq) -> list nat := mismatches_from case_ok 0.

(** (case index, request index, codes) for the log. *)
Fixpoint details_from (i : nat) (l : list (list creq)) : list (nat * nat * list nat) :=
  match l with
  | [] => []
  | c :: l' =>
    omap (fun '(j, q) => match req_fail q with [] => None | f => Some (i, j, f) end)
         (zip (seq 0 (length c)) c) ++ details_from (S i) l'
  end.

Definition details : list (list creq) -> list (nat * nat * list nat) := details_from 0.

(** number of requests whose arrangement differs from the model's *)
Definition soft_count (l : list (list creq)) : nat :=
  length (List.filter (fun q => match req_soft q with [] => false | _ => true end) (concat l)).

(** number of automatic largest-first / random results compared *)
Definition soft_compared (l : list (list creq)) : nat :=
  length (List.filter (fun q => match q_outcome q, q_explicit q with ROk _, [] => true | _, _ => false end) (concat l)).
