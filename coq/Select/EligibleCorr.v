(** Executable comparison for the correspondence check of C06: what the
    wallet did on one request (harness/cmd/c06) against the selection model.

    The harness dumps, immediately before every request, the wallet's
    candidate outputs (wtxmgr [UnspentOutputs] with the attributes the wallet
    derives from each script through its address manager: key scope as the
    pair (purpose, coin type), account), the request, the in-memory lock set
    and the wallet's own [IsWatchOnlyAccount] answer for the selection scope;
    and afterwards the inputs of the created transaction, or that the call
    returned an error and created nothing.  Errors are not classified by their
    text: the property only says which requests must NOT succeed. *)
From stdpp Require Import gmap list numbers sorting.
From Coq Require Import ZArith NArith.
From Verif Require Import Tx.Store Select.Eligible.
Local Open Scope Z_scope.

Inductive outcome :=
| ROk (ins : list outpoint)        (* inputs of the created transaction, in order *)
| RError.                          (* an error, and no transaction created, recorded or sent *)

Record creq := {
  q_cands : list cand;
  q_ctx : wctx;
  q_acct : N;
  q_scope : option kscope;
  q_change_scope : option kscope;    (* WithCustomChangeScope / FundPsbt's change scope; None = not given *)
  q_minconf : Z;
  q_rate : Z;
  q_strategy : strategy;
  q_explicit : list outpoint;
  q_allow : option (list outpoint);  (* WithUtxoFilter: only these outpoints; None = no filter *)
  q_dry : bool;
  q_outcome : outcome;
  q_signed : option bool;            (* every input of the result carries a script or witness; None = not
                                        observable (FundPsbt strips the scripts of its inner creation) *)
}.

Definition request_of (q : creq) : request :=
  {| r_acct := q_acct q; r_scope := q_scope q;
     r_change_scope := match q_change_scope q with Some c => Some c | None => q_scope q end;
     r_minconf := q_minconf q; r_rate := q_rate q;
     r_strategy := q_strategy q; r_explicit := q_explicit q;
     r_allow := fun u => match q_allow q with
                         | None => true
                         | Some l => bool_decide (u_op u ∈ l)
                         end;
     r_dry := q_dry q |}.

Definition op_le (a b : outpoint) : Prop := (a.1 < b.1)%N ∨ (a.1 = b.1 ∧ (a.2 <= b.2)%N).
Global Instance op_le_dec a b : Decision (op_le a b).
Proof. unfold op_le. apply _. Defined.

Definition Z_ge' (a b : Z) : Prop := b <= a.
Global Instance Z_ge'_dec a b : Decision (Z_ge' a b).
Proof. unfold Z_ge'. apply _. Defined.

Definition amount_of (cs : list cand) (op : outpoint) : Z :=
  match List.find (fun c => bool_decide (c_op c = op)) cs with
  | Some c => c_amt c
  | None => -1
  end.

(** The inputs of an explicit selection are compared as multisets: their
    order is not part of the property (FundPsbt re-orders by BIP 69; the
    order of the other APIs is counted as a soft difference below). *)
Definition same_ops (a b : list outpoint) : bool :=
  bool_decide (merge_sort op_le a = merge_sort op_le b).

(** Failure codes of one request (what the property is about):
     1 an input is outside the model's eligible set
     2 an input occurs twice
     5 explicit selection: the inputs differ (as a multiset) from the model's
       selection result, or the model's selection loop refuses
     6 signed / unsigned differs from the model's sign / skip decision
       [negb dry && negb (skip_signing ctx request inputs)]
    An error of the implementation is never a failure here: refusing more
    than the model does (insufficient funds, a dust output, ...) is not
    against the property. *)
Definition req_fail (q : creq) : list nat :=
  let r := request_of q in
  let x := q_ctx q in
  let elig := eligible x r (q_cands q) in
  let elig_ops := map c_op elig in
  let flag (ok : bool) (code : nat) : list nat := if ok then [] else [code] in
  match q_outcome q with
  | ROk ins =>
    (* the model's inputs for the decision: the candidates named by the result *)
    let chosen := omap (fun op => List.find (fun c => bool_decide (c_op c = op)) (q_cands q)) ins in
    match q_signed q with
    | Some sg => flag (bool_decide (sg = negb (q_dry q) && negb (skip_signing x r chosen))) 6%nat
    | None => []
    end ++
    match q_explicit q with
    | [] =>
      flag (forallb (fun op => bool_decide (op ∈ elig_ops)) ins) 1%nat ++
      flag (bool_decide (NoDup ins)) 2%nat
    | sel =>
      match explicit_select elig sel with
      | Some l => flag (same_ops (map c_op l) ins) 5%nat
      | None => [5%nat]
      end
    end
  | RError => []
  end.

(** Differences in the ARRANGEMENT of an automatic selection.  Which eligible
    outputs a strategy prefers is not part of the property (any choice among
    eligible outputs satisfies it), so these are counted in the evidence and
    are not correspondence failures:
     3 largest-first: the inputs are not the largest |inputs| eligible amounts
     4 random: an input does not yield positively at the requested fee rate
     9 an error although the model's explicit selection accepts (the error
       may come from the authoring step, which is outside this model)
    10 explicit selection: same inputs, another order *)
Definition req_soft (q : creq) : list nat :=
  let r := request_of q in
  let elig := eligible (q_ctx q) r (q_cands q) in
  let flag (ok : bool) (code : nat) : list nat := if ok then [] else [code] in
  match q_outcome q, q_explicit q with
  | ROk ins, [] =>
    match q_strategy q with
    | Largest =>
      let arranged := arrange Largest (q_rate q) (fun l => l) elig in
      flag (bool_decide (merge_sort Z_ge' (map (amount_of (q_cands q)) ins)
                         = map c_amt (take (length ins) arranged))) 3%nat
    | Random =>
      let yielding := map c_op (List.filter (yields (q_rate q)) elig) in
      flag (forallb (fun op => bool_decide (op ∈ yielding)) ins) 4%nat
    end
  | ROk ins, sel =>
    match explicit_select elig sel with
    | Some l => flag (bool_decide (map c_op l = ins) || negb (same_ops (map c_op l) ins)) 10%nat
    | None => []
    end
  | RError, [] => []
  | RError, sel => match explicit_select elig sel with Some _ => [9%nat] | None => [] end
  end.

Definition req_ok (q : creq) : bool := match req_fail q with [] => true | _ => false end.

(** One case = the requests of one wallet history. *)
Definition case_ok (c : list creq) : bool := forallb req_ok c.

Fixpoint mismatches_from {A} (f : A -> bool) (i : nat) (l : list A) : list nat :=
  match l with
  | [] => []
  | c :: l' => if f c then mismatches_from f (S i) l' else i :: mismatches_from f (S i) l'
  end.

Definition mismatches : list (list creq) -> list nat := mismatches_from case_ok 0.

(** (case index, request index, codes) for the log. *)
Fixpoint details_from (i : nat) (l : list (list creq)) : list (nat * nat * list nat) :=
  match l with
  | [] => []
  | c :: l' =>
    omap (fun '(j, q) => match req_fail q with [] => None | f => Some (i, j, f) end)
         (zip (seq 0 (length c)) c) ++ details_from (S i) l'
  end.

Definition details : list (list creq) -> list (nat * nat * list nat) := details_from 0.

(** number of requests with the given soft code *)
Definition soft_count_code (code : nat) (l : list (list creq)) : nat :=
  length (List.filter (fun q => bool_decide (code ∈ req_soft q)) (concat l)).

(** number of requests whose arrangement differs from the model's *)
Definition soft_count (l : list (list creq)) : nat :=
  (soft_count_code 3 l + soft_count_code 4 l)%nat.

(** number of automatic largest-first / random results compared *)
Definition soft_compared (l : list (list creq)) : nat :=
  length (List.filter (fun q => match q_outcome q, q_explicit q with ROk _, [] => true | _, _ => false end) (concat l)).
