(** Proofs about the input selection model (Select/Eligible.v). *)
From stdpp Require Import gmap list numbers sorting.
From Coq Require Import ZArith NArith Lia.
From Verif Require Import Tx.Store Tx.Ledger Tx.Hist Tx.Inv Tx.Refine Tx.InvObs Tx.RefineAll
  Generated.SelectFacts Select.Eligible.
Local Open Scope Z_scope.

(** * The eligibility filter *)

(** What passing the filter means, test by test. *)
Record eligible_P (x : wctx) (r : request) (c : cand) : Prop := {
  el_allowed : r_allow r (c_utxo c) = true;
  el_minconf : r_minconf r <= confirms (u_height (c_utxo c)) (x_height x);
  el_mature : u_coinbase (c_utxo c) = true →
              x_maturity x <= confirms (u_height (c_utxo c)) (x_height x);
  el_unlocked : c_op c ∉ x_locked x;
  el_owner : ∃ o, c_owner c = Some o ∧ o_acct o = r_acct r ∧
                  ∀ sc, r_scope r = Some sc → o_scope o = sc;
}.

Lemma owner_test_spec (r : request) (o : owner) :
  (if match r_scope r with
      | Some sc => negb (bool_decide (o_scope o = sc))
      | None => false
      end then false
   else N.eqb (o_acct o) (r_acct r)) = true ↔
  o_acct o = r_acct r ∧ ∀ sc, r_scope r = Some sc → o_scope o = sc.
Proof.
  destruct (r_scope r) as [sc|].
  - case_bool_decide as He; simpl.
    + rewrite N.eqb_eq. split.
      * intros Ha. split; [done|]. by intros ? [= <-].
      * by intros [Ha _].
    + split; [done|]. intros [_ Hs]. by specialize (Hs sc eq_refl).
  - rewrite N.eqb_eq. split; [|by intros [? _]]. intros Ha. split; [done|]. by intros ? [=].
Qed.

Lemma eligible_one_spec x r c : eligible_one x r c = true ↔ eligible_P x r c.
Proof.
  unfold eligible_one, confirmed, c_op. split.
  - intros H.
    destruct (r_allow r (c_utxo c)) eqn:Ha; simpl in H; [|done].
    case_bool_decide as Hm; simpl in H; [|done].
    assert (u_coinbase (c_utxo c) = true →
            x_maturity x <= confirms (u_height (c_utxo c)) (x_height x)) as Hmat'.
    { intros Hcb. rewrite Hcb in H. simpl in H. by case_bool_decide. }
    destruct (u_coinbase (c_utxo c) && _); [done|].
    case_bool_decide as Hl; [done|].
    destruct (c_owner c) as [o|] eqn:Ho; [|done].
    apply owner_test_spec in H as [Hacct Hsc].
    split; [done|done|done|done|]. by exists o.
  - intros [Ha Hm Hmat Hl (o & Ho & Hacct & Hsc)]. unfold c_op in Hl.
    rewrite Ha. simpl. rewrite (bool_decide_eq_true_2 _ Hm). simpl.
    assert ((u_coinbase (c_utxo c) &&
             negb (bool_decide (x_maturity x <= confirms (u_height (c_utxo c)) (x_height x)))) = false) as ->.
    { destruct (u_coinbase (c_utxo c)); [|done]. simpl.
      by rewrite (bool_decide_eq_true_2 _ (Hmat eq_refl)). }
    rewrite (bool_decide_eq_false_2 _ Hl), Ho.
    by apply owner_test_spec.
Qed.

Lemma elem_of_list_filter_bool {A} (f : A → bool) (l : list A) x :
  x ∈ List.filter f l ↔ x ∈ l ∧ f x = true.
Proof. rewrite !elem_of_list_In. apply filter_In. Qed.

Lemma elem_of_eligible x r cs c :
  c ∈ eligible x r cs ↔ c ∈ cs ∧ eligible_P x r c.
Proof. unfold eligible. rewrite elem_of_list_filter_bool, eligible_one_spec. done. Qed.

Lemma filter_bool_sublist {A} (f : A → bool) (l : list A) : List.filter f l `sublist_of` l.
Proof.
  induction l as [|a l IH]; simpl; [constructor|].
  destruct (f a); by constructor.
Qed.

Lemma prefix_sublist' {A} (l1 l2 : list A) : l1 `prefix_of` l2 → l1 `sublist_of` l2.
Proof. intros [k ->]. by apply sublist_inserts_r. Qed.

Lemma sublist_NoDup' {A} (l1 l2 : list A) : l1 `sublist_of` l2 → NoDup l2 → NoDup l1.
Proof.
  induction 1 as [|x l1 l2 Hs IH|x l1 l2 Hs IH]; intros Hnd; [done| |].
  - apply NoDup_cons in Hnd as [Hn Hnd]. constructor; [|by apply IH].
    intros Hin. apply Hn. eapply elem_of_submseteq; [exact Hin|]. by apply sublist_submseteq.
  - apply NoDup_cons in Hnd as [_ Hnd]. by apply IH.
Qed.

Lemma submseteq_NoDup' {A} (k l : list A) : k ⊆+ l → NoDup l → NoDup k.
Proof.
  intros Hsub Hnd. apply submseteq_sublist_l in Hsub as (l2 & Hs & Hp).
  eapply sublist_NoDup'; [exact Hs|]. by rewrite Hp.
Qed.

Lemma eligible_sublist x r cs : eligible x r cs `sublist_of` cs.
Proof. apply filter_bool_sublist. Qed.

(** * Arrangement and the input source *)

Definition is_shuffle (shuffle : list cand → list cand) : Prop := ∀ l, shuffle l ≡ₚ l.

Lemma arrange_submseteq st rate shuffle elig :
  is_shuffle shuffle → arrange st rate shuffle elig ⊆+ elig.
Proof.
  intros Hs. destruct st; simpl.
  - rewrite merge_sort_Permutation. done.
  - rewrite (Hs _). apply sublist_submseteq, filter_bool_sublist.
Qed.

Lemma arrange_largest_perm rate shuffle elig : arrange Largest rate shuffle elig ≡ₚ elig.
Proof. simpl. apply merge_sort_Permutation. Qed.

Lemma arrange_largest_sorted rate shuffle elig : Sorted amt_ge (arrange Largest rate shuffle elig).
Proof.
  simpl. apply Sorted_merge_sort.
  intros a b. unfold amt_ge. lia.
Qed.

Lemma arrange_random_perm rate shuffle elig :
  is_shuffle shuffle → arrange Random rate shuffle elig ≡ₚ List.filter (yields rate) elig.
Proof. intros Hs. simpl. apply Hs. Qed.

(** One call keeps [taken ++ rest]: coins only move from the rest to the end
    of the taken list. *)
Lemma pull_app target total taken rest :
  s_taken (pull target total taken rest) ++ s_rest (pull target total taken rest) = taken ++ rest.
Proof.
  revert total taken. induction rest as [|c rest IH]; intros total taken; simpl; [done|].
  case_bool_decide; simpl; [|done].
  rewrite IH. by rewrite <-app_assoc.
Qed.

(** ... and stops only when the target is met or nothing is left. *)
Lemma pull_reaches target total taken rest :
  target <= s_total (pull target total taken rest) ∨ s_rest (pull target total taken rest) = [].
Proof.
  revert total taken. induction rest as [|c rest IH]; intros total taken; simpl; [by right|].
  case_bool_decide; simpl; [apply IH|left; lia].
Qed.

Lemma src_call_app s target :
  s_taken (src_call s target) ++ s_rest (src_call s target) = s_taken s ++ s_rest s.
Proof. apply pull_app. Qed.

Lemma foldl_src_call_app targets s :
  s_taken (foldl src_call s targets) ++ s_rest (foldl src_call s targets) = s_taken s ++ s_rest s.
Proof.
  revert s. induction targets as [|t targets IH]; intros s; simpl; [done|].
  rewrite IH. apply src_call_app.
Qed.

(** The inputs handed out are a prefix of the arrangement, whatever targets
    are asked for. *)
Lemma inputs_after_prefix targets coins : inputs_after targets coins `prefix_of` coins.
Proof.
  unfold inputs_after. exists (s_rest (foldl src_call (src_init coins) targets)).
  by rewrite foldl_src_call_app.
Qed.

Lemma inputs_after_submseteq targets coins : inputs_after targets coins ⊆+ coins.
Proof. apply sublist_submseteq, prefix_sublist', inputs_after_prefix. Qed.

(** * Explicit selection *)

Lemma foldl_insert_lookup (l : list cand) (m : gmap outpoint cand) op e :
  foldl (λ m c, <[c_op c := c]> m) m l !! op = Some e →
  (e ∈ l ∧ c_op e = op) ∨ m !! op = Some e.
Proof.
  revert m. induction l as [|c l IH]; intros m; simpl; [by right|].
  intros H. apply IH in H as [[Hin Hop]|H].
  - left. split; [by right|done].
  - destruct (decide (c_op c = op)) as [<-|Hne].
    + rewrite lookup_insert in H. injection H as <-. left. split; [by left|done].
    + rewrite lookup_insert_ne in H by done. by right.
Qed.

Lemma by_outpoint_lookup elig op e :
  by_outpoint elig !! op = Some e → e ∈ elig ∧ c_op e = op.
Proof.
  intros H. apply foldl_insert_lookup in H as [H|H]; [done|].
  by rewrite lookup_empty in H.
Qed.

Lemma foldl_insert_is_Some (l : list cand) (m : gmap outpoint cand) op :
  (op ∈ map c_op l ∨ is_Some (m !! op)) →
  is_Some (foldl (λ m c, <[c_op c := c]> m) m l !! op).
Proof.
  revert m. induction l as [|c l IH]; intros m; simpl.
  - intros [H|H]; [by apply elem_of_nil in H|done].
  - intros [H|H]; apply IH.
    + apply elem_of_cons in H as [->|H]; [right|by left].
      rewrite lookup_insert. by eexists.
    + right. destruct (decide (c_op c = op)) as [<-|Hne].
      * rewrite lookup_insert. by eexists.
      * by rewrite lookup_insert_ne.
Qed.

Lemma by_outpoint_is_Some elig op : op ∈ map c_op elig → is_Some (by_outpoint elig !! op).
Proof. intros H. apply foldl_insert_is_Some. by left. Qed.

Lemma by_outpoint_None elig op : op ∉ map c_op elig → by_outpoint elig !! op = None.
Proof.
  intros Hn. destruct (by_outpoint elig !! op) as [e|] eqn:H; [|done].
  apply by_outpoint_lookup in H as [Hin <-]. exfalso. apply Hn.
  rewrite map_fmap. apply elem_of_list_fmap. by exists e.
Qed.

(** A successful loop returns one map entry per selected outpoint that is a
    key of the map, in order (with the miss test: per selected outpoint); with
    the duplicate test the selection is duplicate free. *)
Lemma select_loop_Some (b q : bool) (m : gmap outpoint cand) seen sel acc l :
  (∀ op e, m !! op = Some e → c_op e = op) →
  select_loop b q m seen sel acc = Some l →
  ∃ l', l = acc ++ l' ∧ map c_op l' `sublist_of` sel ∧ (q = true → map c_op l' = sel) ∧
        (∀ e, e ∈ l' → m !! c_op e = Some e) ∧
        (b = true → NoDup sel ∧ ∀ op, op ∈ sel → op ∉ seen).
Proof.
  intros Hm. revert seen acc. induction sel as [|op sel IH]; intros seen acc; simpl.
  - intros [= <-]. exists []. rewrite app_nil_r. split_and!; try done.
    + intros e He. by apply elem_of_nil in He.
    + intros _. split; [constructor|]. intros op Hop. by apply elem_of_nil in Hop.
  - destruct (b && bool_decide (op ∈ seen)) eqn:Hd; [done|].
    assert (b = true → op ∉ seen) as Hns.
    { intros ->. simpl in Hd. by apply bool_decide_eq_false in Hd. }
    destruct (m !! op) as [e|] eqn:He.
    + intros H. apply IH in H as (l' & -> & Hsub & Hq & Hall & Hb).
      exists (e :: l'). split_and!.
      * by rewrite <-app_assoc.
      * simpl. rewrite (Hm _ _ He). by constructor.
      * intros Hqt. simpl. by rewrite (Hm _ _ He), (Hq Hqt).
      * intros e' He'. apply elem_of_cons in He' as [->|He']; [|by apply Hall].
        by rewrite (Hm _ _ He).
      * intros Hbt. destruct (Hb Hbt) as [Hnd Hseen]. split.
        -- constructor; [|done]. intros Hin. apply (Hseen _ Hin). by left.
        -- intros op' Hop'. apply elem_of_cons in Hop' as [->|Hop']; [by apply Hns|].
           intros Hin. apply (Hseen _ Hop'). by right.
    + destruct q; [done|].
      intros H. apply IH in H as (l' & -> & Hsub & Hq & Hall & Hb).
      exists l'. split_and!; [done|by constructor|done|done|].
      intros Hbt. destruct (Hb Hbt) as [Hnd Hseen]. split.
      * constructor; [|done]. intros Hin. apply (Hseen _ Hin). by left.
      * intros op' Hop'. apply elem_of_cons in Hop' as [->|Hop']; [by apply Hns|].
        intros Hin. apply (Hseen _ Hop'). by right.
Qed.

Lemma select_loop_miss (b : bool) (m : gmap outpoint cand) seen sel acc op :
  op ∈ sel → m !! op = None → select_loop b true m seen sel acc = None.
Proof.
  revert seen acc. induction sel as [|op' sel IH]; intros seen acc Hin Hnone; simpl.
  - by apply elem_of_nil in Hin.
  - destruct (b && bool_decide (op' ∈ seen)); [done|].
    destruct (decide (op' = op)) as [->|Hne].
    + by rewrite Hnone.
    + destruct (m !! op'); [|done]. apply IH; [|done].
      apply elem_of_cons in Hin as [->|Hin]; done.
Qed.

(** Completeness (used for non-vacuity): a duplicate-free selection of
    eligible outpoints is accepted. *)
Lemma select_loop_complete (b q : bool) (m : gmap outpoint cand) seen sel acc :
  (∀ op, op ∈ sel → is_Some (m !! op)) → NoDup sel → (∀ op, op ∈ sel → op ∉ seen) →
  is_Some (select_loop b q m seen sel acc).
Proof.
  revert seen acc. induction sel as [|op sel IH]; intros seen acc Hall Hnd Hseen; simpl; [by eexists|].
  assert (bool_decide (op ∈ seen) = false) as ->.
  { apply bool_decide_eq_false. apply Hseen. by left. }
  rewrite andb_false_r.
  destruct (Hall op) as [e ->]; [by left|].
  apply NoDup_cons in Hnd as [Hnotin Hnd].
  apply IH; [|done|].
  - intros op' Hop'. apply Hall. by right.
  - intros op' Hop' Hin. apply elem_of_cons in Hin as [->|Hin]; [done|].
    apply (Hseen op'); [by right|done].
Qed.

Lemma explicit_select_gen_Some b q elig sel l :
  explicit_select_gen b q elig sel = Some l →
  map c_op l `sublist_of` sel ∧ (q = true → map c_op l = sel) ∧
  (∀ e, e ∈ l → e ∈ elig) ∧ (b = true → NoDup sel).
Proof.
  unfold explicit_select_gen. intros H.
  apply select_loop_Some in H as (l' & -> & Hsub & Hmap & Hall & Hb).
  - simpl. split_and!; [done|done| |].
    + intros e He. by apply Hall, by_outpoint_lookup in He as [He _].
    + intros Hbt. by destruct (Hb Hbt).
  - intros op e He. by apply by_outpoint_lookup in He as [_ He].
Qed.

Lemma explicit_select_gen_refuses b elig sel op :
  op ∈ sel → op ∉ map c_op elig → explicit_select_gen b true elig sel = None.
Proof.
  intros Hin Hn. unfold explicit_select_gen.
  eapply select_loop_miss; [done|]. by apply by_outpoint_None.
Qed.

Lemma explicit_select_gen_accepts b q elig sel :
  NoDup sel → (∀ op, op ∈ sel → op ∈ map c_op elig) → is_Some (explicit_select_gen b q elig sel).
Proof.
  intros Hnd Hall. unfold explicit_select_gen. apply select_loop_complete; [|done|].
  - intros op Hop. by apply by_outpoint_is_Some, Hall.
  - intros op _ Hin. by apply elem_of_nil in Hin.
Qed.

(** Without the duplicate test, a selection that names an eligible outpoint
    twice is accepted and spends it twice. *)
Lemma explicit_select_gen_duplicate q elig c :
  c ∈ elig → NoDup (map c_op elig) →
  explicit_select_gen false q elig [c_op c; c_op c] = Some [c; c].
Proof.
  intros Hin Hnd. unfold explicit_select_gen.
  destruct (by_outpoint_is_Some elig (c_op c)) as [e He].
  { rewrite map_fmap. apply elem_of_list_fmap. by exists c. }
  cbn [select_loop andb]. rewrite He. cbn [app].
  apply by_outpoint_lookup in He as [Hein Heop].
  assert (e = c) as ->; [|done].
  rewrite map_fmap in Hnd.
  apply elem_of_list_lookup in Hin as [i Hi]. apply elem_of_list_lookup in Hein as [j Hj].
  assert (i = j) as ->; [|congruence].
  eapply NoDup_lookup; [exact Hnd| |].
  - by rewrite list_lookup_fmap, Hi.
  - by rewrite list_lookup_fmap, Hj, <-Heop.
Qed.

(** Without the miss test, a selection naming an outpoint outside the
    eligible set is NOT refused: the outpoint is passed over and the rest of
    the selection is used. *)
Lemma explicit_select_gen_passes_over b elig sel op :
  op ∉ map c_op elig → op ∉ sel → NoDup sel → (∀ o, o ∈ sel → o ∈ map c_op elig) →
  is_Some (explicit_select_gen b false elig (op :: sel)).
Proof.
  intros Hn Hns Hnd Hall. unfold explicit_select_gen. cbn [select_loop].
  rewrite bool_decide_eq_false_2 by (intros H; by apply elem_of_nil in H). rewrite andb_false_r.
  rewrite (by_outpoint_None _ _ Hn).
  apply select_loop_complete; [|done|].
  - intros o Ho. by apply by_outpoint_is_Some, Hall.
  - intros o Ho Hin. apply elem_of_cons in Hin as [->|Hin]; [done|]. by apply elem_of_nil in Hin.
Qed.

(** * Created transactions *)

Lemma create_auto x r shuffle targets cs cr :
  r_explicit r = [] → create x r shuffle targets cs = Some cr →
  cr_inputs cr = inputs_after targets (arrange (r_strategy r) (r_rate r) shuffle (eligible x r cs)).
Proof. unfold create. intros ->. by intros [= <-]. Qed.

Lemma create_explicit x r shuffle targets cs cr :
  r_explicit r ≠ [] → create x r shuffle targets cs = Some cr →
  explicit_select (eligible x r cs) (r_explicit r) = Some (cr_inputs cr).
Proof.
  unfold create. destruct (r_explicit r) as [|op sel] eqn:Hs; [done|]. intros _.
  destruct (explicit_select _ _) as [l|]; [|done]. by intros [= <-].
Qed.

(** Every input of a created transaction passed the eligibility filter. *)
Lemma create_inputs_eligible x r shuffle targets cs cr c :
  is_shuffle shuffle → create x r shuffle targets cs = Some cr → c ∈ cr_inputs cr →
  c ∈ cs ∧ eligible_P x r c.
Proof.
  intros Hs Hc Hin. apply elem_of_eligible.
  destruct (r_explicit r) as [|op sel] eqn:Hsel.
  - rewrite (create_auto _ _ _ _ _ _ Hsel Hc) in Hin.
    eapply elem_of_submseteq; [exact Hin|].
    etrans; [apply inputs_after_submseteq|]. by apply arrange_submseteq.
  - assert (r_explicit r ≠ []) as Hne by (by rewrite Hsel).
    pose proof (create_explicit _ _ _ _ _ _ Hne Hc) as He.
    apply explicit_select_gen_Some in He as (_ & _ & Hall & _). by apply Hall.
Qed.

Lemma submseteq_fmap_NoDup {A B} (f : A → B) (k l : list A) :
  k ⊆+ l → NoDup (f <$> l) → NoDup (f <$> k).
Proof. intros Hsub Hnd. eapply submseteq_NoDup'; [|exact Hnd]. by apply fmap_submseteq. Qed.

(** Automatic selection never uses an output twice. *)
Lemma create_auto_NoDup x r shuffle targets cs cr :
  is_shuffle shuffle → r_explicit r = [] → NoDup (map c_op cs) →
  create x r shuffle targets cs = Some cr → NoDup (map c_op (cr_inputs cr)).
Proof.
  intros Hs Hsel Hnd Hc. rewrite (create_auto _ _ _ _ _ _ Hsel Hc).
  rewrite map_fmap in *. eapply submseteq_fmap_NoDup; [|exact Hnd].
  etrans; [apply inputs_after_submseteq|].
  etrans; [by apply arrange_submseteq|].
  apply sublist_submseteq, eligible_sublist.
Qed.

(** Explicit selection: the inputs are exactly the selection, in order (this
    needs the miss test); with the duplicate test no output is used twice. *)
Lemma create_explicit_exact x r shuffle targets cs cr :
  explicit_selection_requires_eligible = true →
  r_explicit r ≠ [] → create x r shuffle targets cs = Some cr →
  map c_op (cr_inputs cr) = r_explicit r.
Proof.
  intros Hfact Hne Hc. pose proof (create_explicit _ _ _ _ _ _ Hne Hc) as He.
  apply explicit_select_gen_Some in He as (_ & Hmap & _ & _). by apply Hmap.
Qed.

Lemma create_explicit_NoDup x r shuffle targets cs cr :
  explicit_selection_rejects_duplicates = true →
  r_explicit r ≠ [] → create x r shuffle targets cs = Some cr →
  NoDup (map c_op (cr_inputs cr)).
Proof.
  intros Hfact Hne Hc. pose proof (create_explicit _ _ _ _ _ _ Hne Hc) as He.
  apply explicit_select_gen_Some in He as (Hsub & _ & _ & Hb).
  eapply sublist_NoDup'; [exact Hsub|]. by apply Hb.
Qed.

(** An explicit selection that names an outpoint outside the eligible set is
    refused (this is what the miss test is for). *)
Lemma create_explicit_refused x r shuffle targets cs op :
  explicit_selection_requires_eligible = true →
  op ∈ r_explicit r → op ∉ map c_op (eligible x r cs) →
  create x r shuffle targets cs = None.
Proof.
  intros Hfact Hin Hn. unfold create.
  destruct (r_explicit r) as [|op' sel] eqn:Hsel; [by apply elem_of_nil in Hin|].
  unfold explicit_select. rewrite Hfact. by rewrite (explicit_select_gen_refuses _ _ _ op Hin Hn).
Qed.

(** ... in particular when the reason is any single failed test. *)
Lemma not_eligible_not_in x r cs op :
  (∀ c, c ∈ cs → c_op c = op → ¬ eligible_P x r c) → op ∉ map c_op (eligible x r cs).
Proof.
  intros H Hin. rewrite map_fmap in Hin. apply elem_of_list_fmap in Hin as (c & -> & Hc).
  apply elem_of_eligible in Hc as [Hc He]. by eapply H.
Qed.

Lemma create_signed x r shuffle targets cs cr :
  create x r shuffle targets cs = Some cr →
  cr_signed cr = negb (r_dry r) && negb (skip_signing x r (cr_inputs cr)).
Proof.
  unfold create. destruct (r_explicit r); [by intros [= <-]|].
  destruct (explicit_select _ _); [by intros [= <-]|done].
Qed.

(** The decision spelled out: a result is signed iff it is not a dry run and
    either the account is not reported watch-only, or it is the imported
    account of a wallet with private keys and every input's key is held. *)
Lemma create_signed_iff x r shuffle targets cs cr :
  create x r shuffle targets cs = Some cr →
  cr_signed cr = true ↔
  r_dry r = false ∧
  (x_watch_only x = false ∨
   (r_acct r = imported_account ∧ x_wallet_wo x = false ∧ ∀ c, c ∈ cr_inputs cr → has_priv c = true)).
Proof.
  intros Hc. rewrite (create_signed _ _ _ _ _ _ Hc). unfold skip_signing.
  rewrite andb_true_iff, !negb_true_iff. split.
  - intros [Hd Hs]. split; [done|].
    apply andb_false_iff in Hs as [Hs|Hs]; [by left|right].
    apply negb_false_iff in Hs. apply andb_true_iff in Hs as [Hs Hall].
    apply andb_true_iff in Hs as [Ha Hw]. apply N.eqb_eq in Ha. apply negb_true_iff in Hw.
    split_and!; [done|done|]. intros c Hin. rewrite forallb_forall in Hall. apply Hall. by apply elem_of_list_In.
  - intros [Hd [Hw|(Ha & Hw & Hall)]]; (split; [done|]).
    + by rewrite Hw.
    + apply andb_false_iff. right. apply negb_false_iff.
      rewrite Ha, N.eqb_refl, Hw. simpl. apply forallb_forall. intros c Hin. apply Hall. by apply elem_of_list_In.
Qed.

(** * The candidates against the ledger *)

(** An output the ledger regards as spendable at [now]: a credited output
    ([ls_credited]) of a known transaction [t], which no known transaction
    spends and which is not leased. *)
Record ledger_spendable_at (U : universe) (F : facts) (now : Z) (u : utxo) (t : tx) (chg : bool) : Prop := {
  ls_in_universe : U !! (u_op u).1 = Some t;
  ls_known : known F (u_op u).1 = true;
  ls_credited : ((u_op u).2, chg) ∈ t_creds t;
  ls_amount : u_amt u = out_amount t (u_op u).2;
  ls_coinbase : u_coinbase u = t_coinbase t;
  ls_height : u_height u = match f_conf F !! (u_op u).1 with Some (h, _) => h | None => -1 end;
  ls_unspent : spent_by_known U F (u_op u) = false;
  ls_unleased : leased F (u_op u) now = false;
}.

Definition ledger_spendable (U : universe) (F : facts) (now : Z) (u : utxo) : Prop :=
  ∃ t chg, ledger_spendable_at U F now u t chg.

(** Confirmations of a transaction in ledger terms. *)
Definition ledger_confs (F : facts) (t : txid) (cur : Z) : Z :=
  match f_conf F !! t with
  | Some (h, _) => if bool_decide (cur < h) then 0 else cur - h + 1
  | None => 0
  end.

Section ledger.
  Context (U : universe) (s : store) (F : facts).
  Context (Hwf : wf_universe U = true) (HI : Inv U s F).

  Lemma unspent_outputs_ledger now u :
    u ∈ unspent_outputs U s now → ledger_spendable U F now u.
  Proof.
    intros Hu. apply (elem_of_unspent_outputs U s F Hwf HI) in Hu
      as (t & i & chg & Hin & Hsp & Hl & ->).
    apply (elem_of_credited_outputs U F Hwf) in Hin as (Hk & Ht & Hc).
    exists t, chg. unfold mk_utxo.
    destruct (f_conf F !! t_id t) as [[h bh]|] eqn:Hconf; split; simpl; try done.
    - apply (known_true F). by rewrite Hconf.
    - by rewrite Hconf.
    - apply (known_true F). by rewrite Hconf.
    - by rewrite Hconf.
  Qed.

  Lemma ledger_spendable_confirms now u cur :
    ledger_spendable U F now u → confirms (u_height u) cur = ledger_confs F (u_op u).1 cur.
  Proof.
    intros (t & chg & Hls). unfold confirms, ledger_confs. rewrite (ls_height _ _ _ _ _ _ Hls).
    destruct (f_conf F !! (u_op u).1) as [[h bh]|] eqn:Hc; [|done].
    pose proof (fw_heights_nonneg U F (inv_wf U s F HI) _ _ _ Hc) as Hh.
    rewrite (bool_decide_eq_false_2 (h = -1)) by lia. simpl. done.
  Qed.

  (** [UnspentOutputs] lists every outpoint once. *)
  Lemma unspent_outputs_ops_NoDup now : NoDup (map u_op (unspent_outputs U s now)).
  Proof.
    rewrite map_fmap. apply NoDup_fmap_2_strong; [|by eapply NoDup_unspent_outputs].
    intros u1 u2 H1 H2 Heq.
    apply (elem_of_unspent_outputs U s F Hwf HI) in H1 as (t1 & i1 & c1 & Hin1 & _ & _ & ->).
    apply (elem_of_unspent_outputs U s F Hwf HI) in H2 as (t2 & i2 & c2 & Hin2 & _ & _ & ->).
    rewrite !(mk_utxo_op F) in Heq. injection Heq as Hid ->.
    apply (elem_of_credited_outputs U F Hwf) in Hin1 as (_ & Ht1 & _).
    apply (elem_of_credited_outputs U F Hwf) in Hin2 as (_ & Ht2 & _).
    rewrite Hid, Ht2 in Ht1. by injection Ht1 as <-.
  Qed.

  Lemma cands_of_ops own aty vsz us : map c_op (cands_of own aty vsz us) = map u_op us.
  Proof. unfold cands_of. rewrite map_map. done. Qed.

  Lemma elem_of_cands_of own aty vsz us c :
    c ∈ cands_of own aty vsz us → c_utxo c ∈ us ∧ c_owner c = own (c_op c).
  Proof.
    unfold cands_of. rewrite map_fmap. intros H. apply elem_of_list_fmap in H as (u & -> & Hu). done.
  Qed.

  (** An outpoint spent by a known transaction is not a candidate. *)
  Lemma spent_by_known_not_candidate now own aty vsz t op :
    known F t = true → op ∈ tx_ins U t →
    op ∉ map c_op (cands_of own aty vsz (unspent_outputs U s now)).
  Proof.
    intros Hk Hop Hin. rewrite cands_of_ops, map_fmap in Hin.
    apply elem_of_list_fmap in Hin as (u & -> & Hu).
    apply unspent_outputs_ledger in Hu as (t0 & chg0 & Hu). pose proof (ls_unspent _ _ _ _ _ _ Hu) as Hsp.
    unfold spent_by_known in Hsp.
    assert (existsb (λ t0, spends U t0 (u_op u)) (known_list F) = true) as Hex; [|congruence].
    apply existsb_exists. exists t. split.
    - apply elem_of_list_In. apply (elem_of_known_list F). by apply (known_true F).
    - unfold spends. by apply bool_decide_eq_true.
  Qed.
End ledger.

(** * Whole histories *)

(** Inputs of a created transaction, in a state reached by a chain-consistent
    history, against the ledger facts of that history. *)
Theorem created_inputs_ledger U h x r shuffle targets own aty vsz cr c :
  wf_universe U = true → chain_consistent U h = true → is_shuffle shuffle →
  let m := run U h in let F := fs (spec_run U h) in let now := clock m in
  create x r shuffle targets (wallet_cands U m own aty vsz) = Some cr → c ∈ cr_inputs cr →
  ledger_spendable U F now (c_utxo c) ∧
  own (c_op c) = c_owner c ∧
  eligible_P x r c ∧
  confirms (u_height (c_utxo c)) (x_height x) = ledger_confs F (c_op c).1 (x_height x).
Proof.
  intros Hwf Hcons Hs m F now Hc Hin.
  destruct (refinement U h Hwf Hcons) as [HI _].
  apply (create_inputs_eligible _ _ _ _ _ _ _ Hs Hc) in Hin as [Hin He].
  apply elem_of_cands_of in Hin as [Hu Hown].
  pose proof (unspent_outputs_ledger U _ _ Hwf HI _ _ Hu) as Hls.
  split_and!; [done|done|done|].
  by eapply ledger_spendable_confirms.
Qed.

(** No output is used twice by an automatic selection. *)
Theorem created_auto_inputs_NoDup U h x r shuffle targets own aty vsz cr :
  wf_universe U = true → chain_consistent U h = true → is_shuffle shuffle →
  r_explicit r = [] →
  create x r shuffle targets (wallet_cands U (run U h) own aty vsz) = Some cr →
  NoDup (map c_op (cr_inputs cr)).
Proof.
  intros Hwf Hcons Hs Hsel Hc.
  destruct (refinement U h Hwf Hcons) as [HI _].
  eapply create_auto_NoDup; [done|done| |exact Hc].
  unfold wallet_cands. rewrite cands_of_ops.
  by eapply unspent_outputs_ops_NoDup.
Qed.

(** While a transaction is known (confirmed or unconfirmed), no created
    transaction spends one of its inputs. *)
Theorem known_spender_excludes U h x r shuffle targets own aty vsz cr t op :
  wf_universe U = true → chain_consistent U h = true → is_shuffle shuffle →
  known (fs (spec_run U h)) t = true → op ∈ tx_ins U t →
  create x r shuffle targets (wallet_cands U (run U h) own aty vsz) = Some cr →
  op ∉ map c_op (cr_inputs cr).
Proof.
  intros Hwf Hcons Hs Hk Hop Hc Hin.
  destruct (refinement U h Hwf Hcons) as [HI _].
  rewrite map_fmap in Hin. apply elem_of_list_fmap in Hin as (c & -> & Hcin).
  apply (create_inputs_eligible _ _ _ _ _ _ _ Hs Hc) in Hcin as [Hcin _].
  eapply (spent_by_known_not_candidate U _ _ Hwf HI); [exact Hk|exact Hop|].
  unfold wallet_cands in Hcin. rewrite map_fmap. apply elem_of_list_fmap. by exists c.
Qed.

(** * Publishing: which events make the ledger forget a transaction *)

Lemma descendants_roots U fuel uc roots t : t ∈ roots → t ∈ descendants U fuel uc roots.
Proof.
  revert roots. induction fuel as [|f IH]; intros roots Hin; simpl; [done|].
  destruct (filter _ uc) as [|n new]; [done|].
  apply IH. apply elem_of_app. by left.
Qed.

Lemma known_conf F t : is_Some (f_conf F !! t) → known F t = true.
Proof. intros H. unfold known. apply orb_true_iff. left. by apply bool_decide_eq_true. Qed.

Lemma known_unconf F t : t ∈ f_unconf F → known F t = true.
Proof. intros H. unfold known. apply orb_true_iff. right. by apply bool_decide_eq_true. Qed.

Lemma known_inv F t : known F t = true → is_Some (f_conf F !! t) ∨ t ∈ f_unconf F.
Proof.
  unfold known. intros H. apply orb_true_iff in H as [H|H]; apply bool_decide_eq_true in H; auto.
Qed.

Lemma filter_none {A} (P : A → Prop) `{Hdec : !∀ x, Decision (P x)} (l : list A) :
  (∀ x, x ∈ l → ¬ P x) → filter P l = [].
Proof.
  induction l as [|a l IH]; intros Hall; [done|].
  rewrite filter_cons. destruct (decide (P a)) as [Hp|_].
  - exfalso. apply (Hall a); [by left|done].
  - apply IH. intros x Hx. apply Hall. by right.
Qed.

Lemma descendants_childless U fuel uc t :
  (∀ u, u ∈ uc → u ≠ t → spends_output_of U u t = false) →
  descendants U fuel uc [t] = [t].
Proof.
  intros Hno. destruct fuel as [|f]; simpl; [done|].
  rewrite filter_none; [done|].
  intros u Hu [Hnin Hsp]. apply bool_decide_unpack in Hnin.
  assert (u ≠ t) as Hne by (intros ->; apply Hnin; by left).
  simpl in Hsp. rewrite (Hno u Hu Hne) in Hsp. done.
Qed.

Local Arguments descendants : simpl never.

(** An event forgets only the transactions in [displaced]. *)
Lemma known_step_preserved U sm e t :
  known (fs sm) t = true → t ∉ displaced U (fs sm) e → known (fs (spec_step U sm e)) t = true.
Proof.
  intros Hk Hnd. destruct e as [t'|c h bhash bt|h|a|id op dur|id op|dt| |t' ob]; simpl.
  - (* Seen *)
    unfold spec_seen. destruct (known (fs sm) t') eqn:Hk'; [done|].
    apply known_inv in Hk as [Hk|Hk]; [by apply known_conf|].
    apply known_unconf. simpl. set_solver.
  - (* Confirm *)
    unfold spec_confirm. simpl in Hnd.
    destruct (f_conf (fs sm) !! c) as [b0|] eqn:Hc; [done|].
    unfold remove_unconf_with_descendants. simpl.
    apply known_inv in Hk as [Hk|Hk].
    + apply known_conf. simpl. destruct (decide (c = t)) as [->|Hne].
      * rewrite lookup_insert. by eexists.
      * by rewrite lookup_insert_ne.
    + destruct (decide (c = t)) as [->|Hne].
      * apply known_conf. simpl. rewrite lookup_insert. by eexists.
      * apply known_unconf. simpl. apply elem_of_filter. split; [exact Hnd|]. set_solver.
  - (* Disconnect *)
    unfold spec_disconnect. simpl in Hnd. simpl.
    apply known_inv in Hk as [[[ht bh] Hk]|Hk].
    + destruct (decide (h <= ht)) as [Hle|Hgt].
      * (* detached *)
        assert (t ∈ map fst (filter (λ kv : txid * blockid, h <= kv.2.1) (map_to_list (f_conf (fs sm))))) as Hgone.
        { rewrite map_fmap. apply elem_of_list_fmap. exists (t, (ht, bh)). split; [done|].
          apply elem_of_list_filter. split; [done|]. by apply elem_of_map_to_list. }
        destruct (is_coinbase U t) eqn:Hcb.
        -- exfalso. apply Hnd. apply descendants_roots.
           apply elem_of_list_filter. split; [by rewrite Hcb|done].
        -- apply known_unconf. simpl. apply elem_of_filter. split; [exact Hnd|].
           apply elem_of_union. right. apply elem_of_list_to_set.
           apply elem_of_list_filter. split; [by rewrite Hcb|done].
      * apply known_conf. simpl. exists (ht, bh).
        apply map_filter_lookup_Some. split; [done|]. simpl. lia.
    + apply known_unconf. simpl. apply elem_of_filter. split; [exact Hnd|]. set_solver.
  - (* Abandon *)
    unfold spec_abandon, remove_unconf_with_descendants. simpl in Hnd. simpl.
    apply known_inv in Hk as [Hk|Hk]; [by apply known_conf|].
    apply known_unconf. simpl. apply elem_of_filter. by split.
  - (* Lease *)
    unfold spec_lease. destruct (negb _); [done|].
    match goal with |- context [f_leases (fs sm) !! ?op] => destruct (f_leases (fs sm) !! op) as [l|] end;
      [destruct (_ && _)|]; done.
  - (* Release *)
    unfold spec_release. destruct (negb _); [done|].
    match goal with |- context [f_leases (fs sm) !! ?op] => destruct (f_leases (fs sm) !! op) as [l|] end;
      [destruct (_ && _)|]; done.
  - done.
  - done.
  - done.
Qed.

Lemma known_run_preserved U sm evs t :
  known (fs sm) t = true → never_displaced U sm t evs = true →
  known (fs (spec_run_from U sm evs)) t = true.
Proof.
  revert sm. induction evs as [|e evs IH]; intros sm Hk Hnd; simpl; [done|].
  simpl in Hnd. apply andb_true_iff in Hnd as [He Hevs].
  apply negb_true_iff, bool_decide_eq_false in He.
  apply IH; [|done]. by apply known_step_preserved.
Qed.

(** Wallet-side events displace nothing. *)
Lemma wallet_side_never_displaced U sm t evs :
  forallb wallet_side evs = true → never_displaced U sm t evs = true.
Proof.
  revert sm. induction evs as [|e evs IH]; intros sm; simpl; [done|].
  rewrite andb_true_iff. intros [He Hevs]. apply andb_true_iff. split; [|by apply IH].
  apply negb_true_iff, bool_decide_eq_false.
  destruct e; simpl in He; try discriminate He; simpl; apply not_elem_of_nil.
Qed.

Lemma spec_seen_known U F t : known (spec_seen U F t) t = true.
Proof.
  unfold spec_seen. destruct (known F t) eqn:Hk; [done|].
  unfold known. simpl. apply orb_true_iff. right. apply bool_decide_eq_true. set_solver.
Qed.

Lemma spec_run_app U h1 h2 :
  spec_run U (h1 ++ h2) = spec_run_from U (spec_run U h1) h2.
Proof. unfold spec_run, spec_run_from. by rewrite foldl_app. Qed.

(** Once a transaction [t] has been published (recorded: [Seen t]), then after
    ANY later events - the wallet's own, the chain's and other wallets'
    (receipts, spends, confirmations, reorganisations, removals, leases,
    rejected publications of other transactions) - that do not make the
    ledger forget [t] ([never_displaced]: no conflicting transaction is
    confirmed, no coinbase it descends from is detached, neither it nor an
    ancestor is abandoned), no created transaction - whatever the request,
    strategy, shuffle, targets, locks - spends an input of [t]. *)
Theorem published_inputs_never_reused_gen U h0 t later x r shuffle targets own aty vsz cr op :
  wf_universe U = true → is_shuffle shuffle →
  chain_consistent U (h0 ++ publish_accepted t ++ later) = true →
  never_displaced U (spec_run U (h0 ++ publish_accepted t)) t later = true →
  op ∈ tx_ins U t →
  create x r shuffle targets (wallet_cands U (run U (h0 ++ publish_accepted t ++ later)) own aty vsz) = Some cr →
  op ∉ map c_op (cr_inputs cr).
Proof.
  intros Hwf Hs Hcons Hnd Hop Hc.
  eapply known_spender_excludes; [done|exact Hcons|done| |exact Hop|exact Hc].
  rewrite app_assoc, spec_run_app. apply known_run_preserved; [|done].
  rewrite spec_run_app. simpl. apply spec_seen_known.
Qed.

(** The same with the publication tied to a creation: [t] is the transaction
    whose inputs an earlier request selected ([is_tx_of]); none of THOSE
    inputs is selected again. *)
Theorem created_then_published_never_reused U h0 t later x0 r0 sh0 tg0 cr0 x r shuffle targets own aty vsz cr c0 :
  wf_universe U = true → is_shuffle shuffle →
  create x0 r0 sh0 tg0 (wallet_cands U (run U h0) own aty vsz) = Some cr0 →
  is_tx_of U t cr0 = true →
  chain_consistent U (h0 ++ publish_accepted t ++ later) = true →
  never_displaced U (spec_run U (h0 ++ publish_accepted t)) t later = true →
  create x r shuffle targets (wallet_cands U (run U (h0 ++ publish_accepted t ++ later)) own aty vsz) = Some cr →
  c0 ∈ cr_inputs cr0 → c_op c0 ∉ map c_op (cr_inputs cr).
Proof.
  intros Hwf Hs Hc0 Ht Hcons Hnd Hc Hin.
  eapply published_inputs_never_reused_gen; [done|done|exact Hcons|exact Hnd| |exact Hc].
  apply bool_decide_eq_true in Ht. rewrite Ht, map_fmap. apply elem_of_list_fmap. by exists c0.
Qed.

(** The special case of wallet-side later events (further publications,
    leases, releases, clock advances, sweeps). *)
Theorem published_inputs_never_reused U h0 t later x r shuffle targets own aty vsz cr op :
  wf_universe U = true → is_shuffle shuffle →
  chain_consistent U (h0 ++ Seen t :: later) = true →
  forallb wallet_side later = true →
  op ∈ tx_ins U t →
  create x r shuffle targets (wallet_cands U (run U (h0 ++ Seen t :: later)) own aty vsz) = Some cr →
  op ∉ map c_op (cr_inputs cr).
Proof.
  intros Hwf Hs Hcons Hlater Hop Hc.
  eapply (published_inputs_never_reused_gen U h0 t later); [done|done|exact Hcons| |exact Hop|exact Hc].
  by apply wallet_side_never_displaced.
Qed.

(** * A publication that the backend refuses leaves no trace *)

(** Ledger facts: recording a not yet known transaction that nobody spends
    and removing it again gives back the facts. *)
Lemma spec_reject_restores U F t :
  known F t = false →
  (∀ u, u ∈ f_unconf F → spends_output_of U u t = false) →
  spec_abandon U (spec_seen U F t) t = F.
Proof.
  intros Hk Hno. unfold spec_seen. rewrite Hk.
  unfold spec_abandon, remove_unconf_with_descendants. simpl.
  assert (t ∉ f_unconf F) as Hnu.
  { intros Hin. by rewrite (known_unconf _ _ Hin) in Hk. }
  rewrite descendants_childless.
  - destruct F as [cf uc ls]. simpl in *. f_equal.
    apply set_eq. intros u. rewrite elem_of_filter. split.
    + intros [Hn Hu]. apply elem_of_union in Hu as [Hu|Hu]; [|done].
      apply elem_of_singleton in Hu as ->. exfalso. apply Hn. by left.
    + intros Hu. split; [|set_solver]. intros Hin. apply elem_of_list_singleton in Hin as ->. done.
  - intros u Hu Hne. apply Hno. apply elem_of_elements in Hu. set_solver.
Qed.

(** The wallet's candidates after a publication of a fresh transaction [t]
    that the backend refused ([Seen t], [Abandon t]) are the candidates before
    it: the inputs are spendable again, nothing else changed.  "Fresh": the
    ledger does not know [t] and no unconfirmed transaction spends an output
    of it (it has just been created). *)
Theorem rejected_publish_restores_candidates U h t own aty vsz :
  wf_universe U = true →
  chain_consistent U (h ++ publish_rejected t) = true →
  known (fs (spec_run U h)) t = false →
  (∀ u, u ∈ f_unconf (fs (spec_run U h)) → spends_output_of U u t = false) →
  wallet_cands U (run U (h ++ publish_rejected t)) own aty vsz ≡ₚ wallet_cands U (run U h) own aty vsz.
Proof.
  intros Hwf Hcons Hk Hno.
  destruct (refinement U _ Hwf Hcons) as [HI2 Hc2].
  destruct (refinement_prefix U _ h Hwf Hcons) as [HI1 Hc1]; [by apply prefix_app_r|].
  unfold wallet_cands, cands_of. rewrite !map_fmap. apply fmap_Permutation.
  rewrite (utxos_correct U _ _ _ Hwf HI2), (utxos_correct U _ _ _ Hwf HI1).
  rewrite Hc2, Hc1. rewrite spec_run_app. unfold publish_rejected, spec_run_from. simpl.
  by rewrite (spec_reject_restores U _ t Hk Hno).
Qed.

(** An explicit selection naming an output that a known transaction spends,
    or that is leased, is refused (such outputs are not even candidates). *)
Lemma not_candidate_not_eligible x r cs op :
  op ∉ map c_op cs → op ∉ map c_op (eligible x r cs).
Proof.
  intros Hn H. apply Hn. eapply elem_of_submseteq; [exact H|].
  rewrite !map_fmap. apply fmap_submseteq, sublist_submseteq, eligible_sublist.
Qed.

Theorem explicit_spent_refused U h x r shuffle targets own aty vsz t op :
  explicit_selection_requires_eligible = true →
  wf_universe U = true → chain_consistent U h = true →
  known (fs (spec_run U h)) t = true → op ∈ tx_ins U t → op ∈ r_explicit r →
  create x r shuffle targets (wallet_cands U (run U h) own aty vsz) = None.
Proof.
  intros Hfact Hwf Hcons Hk Hop Hsel.
  destruct (refinement U h Hwf Hcons) as [HI _].
  apply (create_explicit_refused _ _ _ _ _ op Hfact Hsel).
  apply not_candidate_not_eligible. unfold wallet_cands.
  by eapply (spent_by_known_not_candidate U _ _ Hwf HI).
Qed.

Theorem explicit_leased_refused U h x r shuffle targets own aty vsz op :
  explicit_selection_requires_eligible = true →
  wf_universe U = true → chain_consistent U h = true →
  leased (fs (spec_run U h)) op (clock (run U h)) = true → op ∈ r_explicit r →
  create x r shuffle targets (wallet_cands U (run U h) own aty vsz) = None.
Proof.
  intros Hfact Hwf Hcons Hl Hsel.
  destruct (refinement U h Hwf Hcons) as [HI _].
  apply (create_explicit_refused _ _ _ _ _ op Hfact Hsel).
  apply not_candidate_not_eligible. unfold wallet_cands.
  rewrite cands_of_ops, map_fmap. intros Hin.
  apply elem_of_list_fmap in Hin as (u & -> & Hu).
  apply (unspent_outputs_ledger U _ _ Hwf HI) in Hu as (t0 & chg0 & Hu).
  pose proof (ls_unleased _ _ _ _ _ _ Hu). congruence.
Qed.
