(** Proofs about the input selection model (Select/Eligible.v). *)
From stdpp Require Import gmap list numbers sorting.
From Coq Require Import ZArith NArith Lia.
From Verif Require Import Tx.Store Tx.Ledger Tx.Hist Tx.Inv Tx.Refine Tx.InvObs Tx.RefineAll
  Generated.SelectFacts Select.Eligible.
Local Open Scope Z_scope.

(** * The eligibility filter *)

(** What passing the filter means, test by test. *)
Record eligible_P (x : wctx) (r : request) (c : cand) : Prop := {
  el_allowed : r_allow r (c_utxo c) = true;
  el_minconf : r_minconf r <= confirms (u_height (c_utxo c)) (x_height x);
  el_mature : u_coinbase (c_utxo c) = true →
              x_maturity x <= confirms (u_height (c_utxo c)) (x_height x);
  el_unlocked : c_op c ∉ x_locked x;
  el_owner : ∃ o, c_owner c = Some o ∧ o_acct o = r_acct r ∧
                  ∀ sc, r_scope r = Some sc → o_scope o = sc;
}.

Lemma owner_test_spec (r : request) (o : owner) :
  (if match r_scope r with
      | Some sc => negb (N.eqb (o_scope o) sc)
      | None => false
      end then false
   else N.eqb (o_acct o) (r_acct r)) = true ↔
  o_acct o = r_acct r ∧ ∀ sc, r_scope r = Some sc → o_scope o = sc.
Proof.
  destruct (r_scope r) as [sc|].
  - destruct (N.eqb (o_scope o) sc) eqn:He; simpl.
    + apply N.eqb_eq in He. rewrite N.eqb_eq. split.
      * intros Ha. split; [done|]. by intros ? [= <-].
      * by intros [Ha _].
    + apply N.eqb_neq in He. split; [done|]. intros [_ Hs]. by specialize (Hs sc eq_refl).
  - rewrite N.eqb_eq. split; [|by intros [? _]]. intros Ha. split; [done|]. by intros ? [=].
Qed.

Lemma eligible_one_spec x r c : eligible_one x r c = true ↔ eligible_P x r c.
Proof.
  unfold eligible_one, confirmed, c_op. split.
  - intros H.
    destruct (r_allow r (c_utxo c)) eqn:Ha; simpl in H; [|done].
    case_bool_decide as Hm; simpl in H; [|done].
    assert (u_coinbase (c_utxo c) = true →
            x_maturity x <= confirms (u_height (c_utxo c)) (x_height x)) as Hmat'.
    { intros Hcb. rewrite Hcb in H. simpl in H. by case_bool_decide. }
    destruct (u_coinbase (c_utxo c) && _); [done|].
    case_bool_decide as Hl; [done|].
    destruct (c_owner c) as [o|] eqn:Ho; [|done].
    apply owner_test_spec in H as [Hacct Hsc].
    split; [done|done|done|done|]. by exists o.
  - intros [Ha Hm Hmat Hl (o & Ho & Hacct & Hsc)]. unfold c_op in Hl.
    rewrite Ha. simpl. rewrite (bool_decide_eq_true_2 _ Hm). simpl.
    assert ((u_coinbase (c_utxo c) &&
             negb (bool_decide (x_maturity x <= confirms (u_height (c_utxo c)) (x_height x)))) = false) as ->.
    { destruct (u_coinbase (c_utxo c)); [|done]. simpl.
      by rewrite (bool_decide_eq_true_2 _ (Hmat eq_refl)). }
    rewrite (bool_decide_eq_false_2 _ Hl), Ho.
    by apply owner_test_spec.
Qed.

Lemma elem_of_list_filter_bool {A} (f : A → bool) (l : list A) x :
  x ∈ List.filter f l ↔ x ∈ l ∧ f x = true.
Proof. rewrite !elem_of_list_In. apply filter_In. Qed.

Lemma elem_of_eligible x r cs c :
  c ∈ eligible x r cs ↔ c ∈ cs ∧ eligible_P x r c.
Proof. unfold eligible. rewrite elem_of_list_filter_bool, eligible_one_spec. done. Qed.

Lemma filter_bool_sublist {A} (f : A → bool) (l : list A) : List.filter f l `sublist_of` l.
Proof.
  induction l as [|a l IH]; simpl; [constructor|].
  destruct (f a); by constructor.
Qed.

Lemma prefix_sublist' {A} (l1 l2 : list A) : l1 `prefix_of` l2 → l1 `sublist_of` l2.
Proof. intros [k ->]. by apply sublist_inserts_r. Qed.

Lemma sublist_NoDup' {A} (l1 l2 : list A) : l1 `sublist_of` l2 → NoDup l2 → NoDup l1.
Proof.
  induction 1 as [|x l1 l2 Hs IH|x l1 l2 Hs IH]; intros Hnd; [done| |].
  - apply NoDup_cons in Hnd as [Hn Hnd]. constructor; [|by apply IH].
    intros Hin. apply Hn. eapply elem_of_submseteq; [exact Hin|]. by apply sublist_submseteq.
  - apply NoDup_cons in Hnd as [_ Hnd]. by apply IH.
Qed.

Lemma submseteq_NoDup' {A} (k l : list A) : k ⊆+ l → NoDup l → NoDup k.
Proof.
  intros Hsub Hnd. apply submseteq_sublist_l in Hsub as (l2 & Hs & Hp).
  eapply sublist_NoDup'; [exact Hs|]. by rewrite Hp.
Qed.

Lemma eligible_sublist x r cs : eligible x r cs `sublist_of` cs.
Proof. apply filter_bool_sublist. Qed.

(** * Arrangement and the input source *)

Definition is_shuffle (shuffle : list cand → list cand) : Prop := ∀ l, shuffle l ≡ₚ l.

Lemma arrange_submseteq st rate shuffle elig :
  is_shuffle shuffle → arrange st rate shuffle elig ⊆+ elig.
Proof.
  intros Hs. destruct st; simpl.
  - rewrite merge_sort_Permutation. done.
  - rewrite (Hs _). apply sublist_submseteq, filter_bool_sublist.
Qed.

Lemma arrange_largest_perm rate shuffle elig : arrange Largest rate shuffle elig ≡ₚ elig.
Proof. simpl. apply merge_sort_Permutation. Qed.

Lemma arrange_largest_sorted rate shuffle elig : Sorted amt_ge (arrange Largest rate shuffle elig).
Proof.
  simpl. apply Sorted_merge_sort.
  intros a b. unfold amt_ge. lia.
Qed.

Lemma arrange_random_perm rate shuffle elig :
  is_shuffle shuffle → arrange Random rate shuffle elig ≡ₚ List.filter (yields rate) elig.
Proof. intros Hs. simpl. apply Hs. Qed.

(** One call keeps [taken ++ rest]: coins only move from the rest to the end
    of the taken list. *)
Lemma pull_app target total taken rest :
  s_taken (pull target total taken rest) ++ s_rest (pull target total taken rest) = taken ++ rest.
Proof.
  revert total taken. induction rest as [|c rest IH]; intros total taken; simpl; [done|].
  case_bool_decide; simpl; [|done].
  rewrite IH. by rewrite <-app_assoc.
Qed.

(** ... and stops only when the target is met or nothing is left. *)
Lemma pull_reaches target total taken rest :
  target <= s_total (pull target total taken rest) ∨ s_rest (pull target total taken rest) = [].
Proof.
  revert total taken. induction rest as [|c rest IH]; intros total taken; simpl; [by right|].
  case_bool_decide; simpl; [apply IH|left; lia].
Qed.

Lemma src_call_app s target :
  s_taken (src_call s target) ++ s_rest (src_call s target) = s_taken s ++ s_rest s.
Proof. apply pull_app. Qed.

Lemma foldl_src_call_app targets s :
  s_taken (foldl src_call s targets) ++ s_rest (foldl src_call s targets) = s_taken s ++ s_rest s.
Proof.
  revert s. induction targets as [|t targets IH]; intros s; simpl; [done|].
  rewrite IH. apply src_call_app.
Qed.

(** The inputs handed out are a prefix of the arrangement, whatever targets
    are asked for. *)
Lemma inputs_after_prefix targets coins : inputs_after targets coins `prefix_of` coins.
Proof.
  unfold inputs_after. exists (s_rest (foldl src_call (src_init coins) targets)).
  by rewrite foldl_src_call_app.
Qed.

Lemma inputs_after_submseteq targets coins : inputs_after targets coins ⊆+ coins.
Proof. apply sublist_submseteq, prefix_sublist', inputs_after_prefix. Qed.

(** * Explicit selection *)

Lemma foldl_insert_lookup (l : list cand) (m : gmap outpoint cand) op e :
  foldl (λ m c, <[c_op c := c]> m) m l !! op = Some e →
  (e ∈ l ∧ c_op e = op) ∨ m !! op = Some e.
Proof.
  revert m. induction l as [|c l IH]; intros m; simpl; [by right|].
  intros H. apply IH in H as [[Hin Hop]|H].
  - left. split; [by right|done].
  - destruct (decide (c_op c = op)) as [<-|Hne].
    + rewrite lookup_insert in H. injection H as <-. left. split; [by left|done].
    + rewrite lookup_insert_ne in H by done. by right.
Qed.

Lemma by_outpoint_lookup elig op e :
  by_outpoint elig !! op = Some e → e ∈ elig ∧ c_op e = op.
Proof.
  intros H. apply foldl_insert_lookup in H as [H|H]; [done|].
  by rewrite lookup_empty in H.
Qed.

Lemma foldl_insert_is_Some (l : list cand) (m : gmap outpoint cand) op :
  (op ∈ map c_op l ∨ is_Some (m !! op)) →
  is_Some (foldl (λ m c, <[c_op c := c]> m) m l !! op).
Proof.
  revert m. induction l as [|c l IH]; intros m; simpl.
  - intros [H|H]; [by apply elem_of_nil in H|done].
  - intros [H|H]; apply IH.
    + apply elem_of_cons in H as [->|H]; [right|by left].
      rewrite lookup_insert. by eexists.
    + right. destruct (decide (c_op c = op)) as [<-|Hne].
      * rewrite lookup_insert. by eexists.
      * by rewrite lookup_insert_ne.
Qed.

Lemma by_outpoint_is_Some elig op : op ∈ map c_op elig → is_Some (by_outpoint elig !! op).
Proof. intros H. apply foldl_insert_is_Some. by left. Qed.

Lemma by_outpoint_None elig op : op ∉ map c_op elig → by_outpoint elig !! op = None.
Proof.
  intros Hn. destruct (by_outpoint elig !! op) as [e|] eqn:H; [|done].
  apply by_outpoint_lookup in H as [Hin <-]. exfalso. apply Hn.
  rewrite map_fmap. apply elem_of_list_fmap. by exists e.
Qed.

(** A successful loop returns, in order, one map entry per selected
    outpoint; with the duplicate test the selection is duplicate free. *)
Lemma select_loop_Some (b : bool) (m : gmap outpoint cand) seen sel acc l :
  (∀ op e, m !! op = Some e → c_op e = op) →
  select_loop b m seen sel acc = Some l →
  ∃ l', l = acc ++ l' ∧ map c_op l' = sel ∧
        (∀ e, e ∈ l' → m !! c_op e = Some e) ∧
        (b = true → NoDup sel ∧ ∀ op, op ∈ sel → op ∉ seen).
Proof.
  intros Hm. revert seen acc. induction sel as [|op sel IH]; intros seen acc; simpl.
  - intros [= <-]. exists []. rewrite app_nil_r. split_and!; try done.
    + intros e He. by apply elem_of_nil in He.
    + intros _. split; [constructor|]. intros op Hop. by apply elem_of_nil in Hop.
  - destruct (b && bool_decide (op ∈ seen)) eqn:Hd; [done|].
    destruct (m !! op) as [e|] eqn:He; [|done].
    intros H. apply IH in H as (l' & -> & Hmap & Hall & Hb).
    exists (e :: l'). split_and!.
    + by rewrite <-app_assoc.
    + simpl. by rewrite (Hm _ _ He), Hmap.
    + intros e' He'. apply elem_of_cons in He' as [->|He']; [|by apply Hall].
      by rewrite (Hm _ _ He).
    + intros ->. destruct (Hb eq_refl) as [Hnd Hseen]. simpl in Hd.
      apply bool_decide_eq_false in Hd. split.
      * constructor; [|done]. intros Hin. apply (Hseen _ Hin). by left.
      * intros op' Hop'. apply elem_of_cons in Hop' as [->|Hop']; [done|].
        intros Hin. apply (Hseen _ Hop'). by right.
Qed.

Lemma select_loop_miss (b : bool) (m : gmap outpoint cand) seen sel acc op :
  op ∈ sel → m !! op = None → select_loop b m seen sel acc = None.
Proof.
  revert seen acc. induction sel as [|op' sel IH]; intros seen acc Hin Hnone; simpl.
  - by apply elem_of_nil in Hin.
  - destruct (b && bool_decide (op' ∈ seen)); [done|].
    destruct (decide (op' = op)) as [->|Hne].
    + by rewrite Hnone.
    + destruct (m !! op'); [|done]. apply IH; [|done].
      apply elem_of_cons in Hin as [->|Hin]; done.
Qed.

(** Completeness (used for non-vacuity): a duplicate-free selection of
    eligible outpoints is accepted. *)
Lemma select_loop_complete (b : bool) (m : gmap outpoint cand) seen sel acc :
  (∀ op, op ∈ sel → is_Some (m !! op)) → NoDup sel → (∀ op, op ∈ sel → op ∉ seen) →
  is_Some (select_loop b m seen sel acc).
Proof.
  revert seen acc. induction sel as [|op sel IH]; intros seen acc Hall Hnd Hseen; simpl; [by eexists|].
  assert (bool_decide (op ∈ seen) = false) as ->.
  { apply bool_decide_eq_false. apply Hseen. by left. }
  rewrite andb_false_r.
  destruct (Hall op) as [e ->]; [by left|].
  apply NoDup_cons in Hnd as [Hnotin Hnd].
  apply IH; [|done|].
  - intros op' Hop'. apply Hall. by right.
  - intros op' Hop' Hin. apply elem_of_cons in Hin as [->|Hin]; [done|].
    apply (Hseen op'); [by right|done].
Qed.

Lemma explicit_select_gen_Some b elig sel l :
  explicit_select_gen b elig sel = Some l →
  map c_op l = sel ∧ (∀ e, e ∈ l → e ∈ elig) ∧ (b = true → NoDup sel).
Proof.
  unfold explicit_select_gen. intros H.
  apply select_loop_Some in H as (l' & -> & Hmap & Hall & Hb).
  - simpl. split_and!; [done| |].
    + intros e He. by apply Hall, by_outpoint_lookup in He as [He _].
    + intros Hbt. by destruct (Hb Hbt).
  - intros op e He. by apply by_outpoint_lookup in He as [_ He].
Qed.

Lemma explicit_select_gen_refuses b elig sel op :
  op ∈ sel → op ∉ map c_op elig → explicit_select_gen b elig sel = None.
Proof.
  intros Hin Hn. unfold explicit_select_gen.
  eapply select_loop_miss; [done|]. by apply by_outpoint_None.
Qed.

Lemma explicit_select_gen_accepts b elig sel :
  NoDup sel → (∀ op, op ∈ sel → op ∈ map c_op elig) → is_Some (explicit_select_gen b elig sel).
Proof.
  intros Hnd Hall. unfold explicit_select_gen. apply select_loop_complete; [|done|].
  - intros op Hop. by apply by_outpoint_is_Some, Hall.
  - intros op _ Hin. by apply elem_of_nil in Hin.
Qed.

(** Without the duplicate test, a selection that names an eligible outpoint
    twice is accepted and spends it twice. *)
Lemma explicit_select_gen_duplicate elig c :
  c ∈ elig → NoDup (map c_op elig) →
  explicit_select_gen false elig [c_op c; c_op c] = Some [c; c].
Proof.
  intros Hin Hnd. unfold explicit_select_gen.
  destruct (by_outpoint_is_Some elig (c_op c)) as [e He].
  { rewrite map_fmap. apply elem_of_list_fmap. by exists c. }
  cbn [select_loop andb]. rewrite He. cbn [app].
  apply by_outpoint_lookup in He as [Hein Heop].
  assert (e = c) as ->; [|done].
  rewrite map_fmap in Hnd.
  apply elem_of_list_lookup in Hin as [i Hi]. apply elem_of_list_lookup in Hein as [j Hj].
  assert (i = j) as ->; [|congruence].
  eapply NoDup_lookup; [exact Hnd| |].
  - by rewrite list_lookup_fmap, Hi.
  - by rewrite list_lookup_fmap, Hj, <-Heop.
Qed.

(** * Created transactions *)

Lemma create_auto x r shuffle targets cs cr :
  r_explicit r = [] → create x r shuffle targets cs = Some cr →
  cr_inputs cr = inputs_after targets (arrange (r_strategy r) (r_rate r) shuffle (eligible x r cs)).
Proof. unfold create. intros ->. by intros [= <-]. Qed.

Lemma create_explicit x r shuffle targets cs cr :
  r_explicit r ≠ [] → create x r shuffle targets cs = Some cr →
  explicit_select (eligible x r cs) (r_explicit r) = Some (cr_inputs cr).
Proof.
  unfold create. destruct (r_explicit r) as [|op sel] eqn:Hs; [done|]. intros _.
  destruct (explicit_select _ _) as [l|]; [|done]. by intros [= <-].
Qed.

(** Every input of a created transaction passed the eligibility filter. *)
Lemma create_inputs_eligible x r shuffle targets cs cr c :
  is_shuffle shuffle → create x r shuffle targets cs = Some cr → c ∈ cr_inputs cr →
  c ∈ cs ∧ eligible_P x r c.
Proof.
  intros Hs Hc Hin. apply elem_of_eligible.
  destruct (r_explicit r) as [|op sel] eqn:Hsel.
  - rewrite (create_auto _ _ _ _ _ _ Hsel Hc) in Hin.
    eapply elem_of_submseteq; [exact Hin|].
    etrans; [apply inputs_after_submseteq|]. by apply arrange_submseteq.
  - assert (r_explicit r ≠ []) as Hne by (by rewrite Hsel).
    pose proof (create_explicit _ _ _ _ _ _ Hne Hc) as He.
    apply explicit_select_gen_Some in He as (_ & Hall & _). by apply Hall.
Qed.

Lemma submseteq_fmap_NoDup {A B} (f : A → B) (k l : list A) :
  k ⊆+ l → NoDup (f <$> l) → NoDup (f <$> k).
Proof. intros Hsub Hnd. eapply submseteq_NoDup'; [|exact Hnd]. by apply fmap_submseteq. Qed.

(** Automatic selection never uses an output twice. *)
Lemma create_auto_NoDup x r shuffle targets cs cr :
  is_shuffle shuffle → r_explicit r = [] → NoDup (map c_op cs) →
  create x r shuffle targets cs = Some cr → NoDup (map c_op (cr_inputs cr)).
Proof.
  intros Hs Hsel Hnd Hc. rewrite (create_auto _ _ _ _ _ _ Hsel Hc).
  rewrite map_fmap in *. eapply submseteq_fmap_NoDup; [|exact Hnd].
  etrans; [apply inputs_after_submseteq|].
  etrans; [by apply arrange_submseteq|].
  apply sublist_submseteq, eligible_sublist.
Qed.

(** Explicit selection: the inputs are exactly the selection, in order; with
    the duplicate test no output is used twice. *)
Lemma create_explicit_exact x r shuffle targets cs cr :
  r_explicit r ≠ [] → create x r shuffle targets cs = Some cr →
  map c_op (cr_inputs cr) = r_explicit r.
Proof.
  intros Hne Hc. pose proof (create_explicit _ _ _ _ _ _ Hne Hc) as He.
  by apply explicit_select_gen_Some in He as (Hmap & _ & _).
Qed.

Lemma create_explicit_NoDup x r shuffle targets cs cr :
  explicit_selection_rejects_duplicates = true →
  r_explicit r ≠ [] → create x r shuffle targets cs = Some cr →
  NoDup (map c_op (cr_inputs cr)).
Proof.
  intros Hfact Hne Hc. pose proof (create_explicit _ _ _ _ _ _ Hne Hc) as He.
  apply explicit_select_gen_Some in He as (Hmap & _ & Hb).
  rewrite Hmap. by apply Hb.
Qed.

(** An explicit selection that names an outpoint outside the eligible set is
    refused. *)
Lemma create_explicit_refused x r shuffle targets cs op :
  op ∈ r_explicit r → op ∉ map c_op (eligible x r cs) →
  create x r shuffle targets cs = None.
Proof.
  intros Hin Hn. unfold create.
  destruct (r_explicit r) as [|op' sel] eqn:Hsel; [by apply elem_of_nil in Hin|].
  unfold explicit_select. by rewrite (explicit_select_gen_refuses _ _ _ op Hin Hn).
Qed.

(** ... in particular when the reason is any single failed test. *)
Lemma not_eligible_not_in x r cs op :
  (∀ c, c ∈ cs → c_op c = op → ¬ eligible_P x r c) → op ∉ map c_op (eligible x r cs).
Proof.
  intros H Hin. rewrite map_fmap in Hin. apply elem_of_list_fmap in Hin as (c & -> & Hc).
  apply elem_of_eligible in Hc as [Hc He]. by eapply H.
Qed.

Lemma create_signed x r shuffle targets cs cr :
  create x r shuffle targets cs = Some cr →
  cr_signed cr = negb (r_dry r) && negb (x_watch_only x).
Proof.
  unfold create. destruct (r_explicit r); [by intros [= <-]|].
  destruct (explicit_select _ _); [by intros [= <-]|done].
Qed.

(** * The candidates against the ledger *)

(** An output the ledger regards as spendable at [now]: a credited output
    ([ls_credited]) of a known transaction [t], which no known transaction
    spends and which is not leased. *)
Record ledger_spendable_at (U : universe) (F : facts) (now : Z) (u : utxo) (t : tx) (chg : bool) : Prop := {
  ls_in_universe : U !! (u_op u).1 = Some t;
  ls_known : known F (u_op u).1 = true;
  ls_credited : ((u_op u).2, chg) ∈ t_creds t;
  ls_amount : u_amt u = out_amount t (u_op u).2;
  ls_coinbase : u_coinbase u = t_coinbase t;
  ls_height : u_height u = match f_conf F !! (u_op u).1 with Some (h, _) => h | None => -1 end;
  ls_unspent : spent_by_known U F (u_op u) = false;
  ls_unleased : leased F (u_op u) now = false;
}.

Definition ledger_spendable (U : universe) (F : facts) (now : Z) (u : utxo) : Prop :=
  ∃ t chg, ledger_spendable_at U F now u t chg.

(** Confirmations of a transaction in ledger terms. *)
Definition ledger_confs (F : facts) (t : txid) (cur : Z) : Z :=
  match f_conf F !! t with
  | Some (h, _) => if bool_decide (cur < h) then 0 else cur - h + 1
  | None => 0
  end.

Section ledger.
  Context (U : universe) (s : store) (F : facts).
  Context (Hwf : wf_universe U = true) (HI : Inv U s F).

  Lemma unspent_outputs_ledger now u :
    u ∈ unspent_outputs U s now → ledger_spendable U F now u.
  Proof.
    intros Hu. apply (elem_of_unspent_outputs U s F Hwf HI) in Hu
      as (t & i & chg & Hin & Hsp & Hl & ->).
    apply (elem_of_credited_outputs U F Hwf) in Hin as (Hk & Ht & Hc).
    exists t, chg. unfold mk_utxo.
    destruct (f_conf F !! t_id t) as [[h bh]|] eqn:Hconf; split; simpl; try done.
    - apply (known_true F). by rewrite Hconf.
    - by rewrite Hconf.
    - apply (known_true F). by rewrite Hconf.
    - by rewrite Hconf.
  Qed.

  Lemma ledger_spendable_confirms now u cur :
    ledger_spendable U F now u → confirms (u_height u) cur = ledger_confs F (u_op u).1 cur.
  Proof.
    intros (t & chg & Hls). unfold confirms, ledger_confs. rewrite (ls_height _ _ _ _ _ _ Hls).
    destruct (f_conf F !! (u_op u).1) as [[h bh]|] eqn:Hc; [|done].
    pose proof (fw_heights_nonneg U F (inv_wf U s F HI) _ _ _ Hc) as Hh.
    rewrite (bool_decide_eq_false_2 (h = -1)) by lia. simpl. done.
  Qed.

  (** [UnspentOutputs] lists every outpoint once. *)
  Lemma unspent_outputs_ops_NoDup now : NoDup (map u_op (unspent_outputs U s now)).
  Proof.
    rewrite map_fmap. apply NoDup_fmap_2_strong; [|by eapply NoDup_unspent_outputs].
    intros u1 u2 H1 H2 Heq.
    apply (elem_of_unspent_outputs U s F Hwf HI) in H1 as (t1 & i1 & c1 & Hin1 & _ & _ & ->).
    apply (elem_of_unspent_outputs U s F Hwf HI) in H2 as (t2 & i2 & c2 & Hin2 & _ & _ & ->).
    rewrite !(mk_utxo_op F) in Heq. injection Heq as Hid ->.
    apply (elem_of_credited_outputs U F Hwf) in Hin1 as (_ & Ht1 & _).
    apply (elem_of_credited_outputs U F Hwf) in Hin2 as (_ & Ht2 & _).
    rewrite Hid, Ht2 in Ht1. by injection Ht1 as <-.
  Qed.

  Lemma cands_of_ops own aty vsz us : map c_op (cands_of own aty vsz us) = map u_op us.
  Proof. unfold cands_of. rewrite map_map. done. Qed.

  Lemma elem_of_cands_of own aty vsz us c :
    c ∈ cands_of own aty vsz us → c_utxo c ∈ us ∧ c_owner c = own (c_op c).
  Proof.
    unfold cands_of. rewrite map_fmap. intros H. apply elem_of_list_fmap in H as (u & -> & Hu). done.
  Qed.

  (** An outpoint spent by a known transaction is not a candidate. *)
  Lemma spent_by_known_not_candidate now own aty vsz t op :
    known F t = true → op ∈ tx_ins U t →
    op ∉ map c_op (cands_of own aty vsz (unspent_outputs U s now)).
  Proof.
    intros Hk Hop Hin. rewrite cands_of_ops, map_fmap in Hin.
    apply elem_of_list_fmap in Hin as (u & -> & Hu).
    apply unspent_outputs_ledger in Hu as (t0 & chg0 & Hu). pose proof (ls_unspent _ _ _ _ _ _ Hu) as Hsp.
    unfold spent_by_known in Hsp.
    assert (existsb (λ t0, spends U t0 (u_op u)) (known_list F) = true) as Hex; [|congruence].
    apply existsb_exists. exists t. split.
    - apply elem_of_list_In. apply (elem_of_known_list F). by apply (known_true F).
    - unfold spends. by apply bool_decide_eq_true.
  Qed.
End ledger.

(** * Whole histories *)

(** Inputs of a created transaction, in a state reached by a chain-consistent
    history, against the ledger facts of that history. *)
Theorem created_inputs_ledger U h x r shuffle targets own aty vsz cr c :
  wf_universe U = true → chain_consistent U h = true → is_shuffle shuffle →
  let m := run U h in let F := fs (spec_run U h) in let now := clock m in
  create x r shuffle targets (wallet_cands U m own aty vsz) = Some cr → c ∈ cr_inputs cr →
  ledger_spendable U F now (c_utxo c) ∧
  own (c_op c) = c_owner c ∧
  eligible_P x r c ∧
  confirms (u_height (c_utxo c)) (x_height x) = ledger_confs F (c_op c).1 (x_height x).
Proof.
  intros Hwf Hcons Hs m F now Hc Hin.
  destruct (refinement U h Hwf Hcons) as [HI _].
  apply (create_inputs_eligible _ _ _ _ _ _ _ Hs Hc) in Hin as [Hin He].
  apply elem_of_cands_of in Hin as [Hu Hown].
  pose proof (unspent_outputs_ledger U _ _ Hwf HI _ _ Hu) as Hls.
  split_and!; [done|done|done|].
  by eapply ledger_spendable_confirms.
Qed.

(** No output is used twice by an automatic selection. *)
Theorem created_auto_inputs_NoDup U h x r shuffle targets own aty vsz cr :
  wf_universe U = true → chain_consistent U h = true → is_shuffle shuffle →
  r_explicit r = [] →
  create x r shuffle targets (wallet_cands U (run U h) own aty vsz) = Some cr →
  NoDup (map c_op (cr_inputs cr)).
Proof.
  intros Hwf Hcons Hs Hsel Hc.
  destruct (refinement U h Hwf Hcons) as [HI _].
  eapply create_auto_NoDup; [done|done| |exact Hc].
  unfold wallet_cands. rewrite cands_of_ops.
  by eapply unspent_outputs_ops_NoDup.
Qed.

(** While a transaction is known (confirmed or unconfirmed), no created
    transaction spends one of its inputs. *)
Theorem known_spender_excludes U h x r shuffle targets own aty vsz cr t op :
  wf_universe U = true → chain_consistent U h = true → is_shuffle shuffle →
  known (fs (spec_run U h)) t = true → op ∈ tx_ins U t →
  create x r shuffle targets (wallet_cands U (run U h) own aty vsz) = Some cr →
  op ∉ map c_op (cr_inputs cr).
Proof.
  intros Hwf Hcons Hs Hk Hop Hc Hin.
  destruct (refinement U h Hwf Hcons) as [HI _].
  rewrite map_fmap in Hin. apply elem_of_list_fmap in Hin as (c & -> & Hcin).
  apply (create_inputs_eligible _ _ _ _ _ _ _ Hs Hc) in Hcin as [Hcin _].
  eapply (spent_by_known_not_candidate U _ _ Hwf HI); [exact Hk|exact Hop|].
  unfold wallet_cands in Hcin. rewrite map_fmap. apply elem_of_list_fmap. by exists c.
Qed.

(** Wallet-side events never forget a transaction. *)
Lemma spec_step_known_wallet_side U sm e t :
  wallet_side e = true → known (fs sm) t = true → known (fs (spec_step U sm e)) t = true.
Proof.
  intros Hw Hk. destruct e; simpl in Hw; try discriminate Hw; simpl.
  - (* Seen *)
    unfold spec_seen. match goal with |- context [known (fs sm) ?t'] => destruct (known (fs sm) t') eqn:Hk' end; [done|].
    unfold known in *. simpl. apply orb_true_iff in Hk as [Hk|Hk]; apply orb_true_iff; [by left|right].
    apply bool_decide_eq_true in Hk. apply bool_decide_eq_true. set_solver.
  - (* Lease *)
    unfold spec_lease. destruct (negb _); [done|].
    match goal with |- context [f_leases (fs sm) !! ?op] => destruct (f_leases (fs sm) !! op) as [l|] end;
      [destruct (_ && _)|]; done.
  - (* Release *)
    unfold spec_release. destruct (negb _); [done|].
    match goal with |- context [f_leases (fs sm) !! ?op] => destruct (f_leases (fs sm) !! op) as [l|] end;
      [destruct (_ && _)|]; done.
  - (* Tick *) done.
  - (* Sweep *) done.
Qed.

Lemma spec_run_from_known_wallet_side U sm evs t :
  forallb wallet_side evs = true → known (fs sm) t = true →
  known (fs (spec_run_from U sm evs)) t = true.
Proof.
  revert sm. induction evs as [|e evs IH]; intros sm; simpl; [done|].
  rewrite andb_true_iff. intros [He Hevs] Hk. apply IH; [done|].
  by apply spec_step_known_wallet_side.
Qed.

Lemma spec_seen_known U F t : known (spec_seen U F t) t = true.
Proof.
  unfold spec_seen. destruct (known F t) eqn:Hk; [done|].
  unfold known. simpl. apply orb_true_iff. right. apply bool_decide_eq_true. set_solver.
Qed.

Lemma spec_run_app U h1 h2 :
  spec_run U (h1 ++ h2) = spec_run_from U (spec_run U h1) h2.
Proof. unfold spec_run, spec_run_from. by rewrite foldl_app. Qed.

(** Once a created transaction [t] has been published ([Seen t]), then after
    ANY later sequence of wallet-side events (further publications, leases,
    releases, clock advances, sweeps) no created transaction - whatever the
    request, strategy, shuffle, targets, locks - spends an input of [t]. *)
Theorem published_inputs_never_reused U h0 t later x r shuffle targets own aty vsz cr op :
  wf_universe U = true → is_shuffle shuffle →
  chain_consistent U (h0 ++ Seen t :: later) = true →
  forallb wallet_side later = true →
  op ∈ tx_ins U t →
  create x r shuffle targets (wallet_cands U (run U (h0 ++ Seen t :: later)) own aty vsz) = Some cr →
  op ∉ map c_op (cr_inputs cr).
Proof.
  intros Hwf Hs Hcons Hlater Hop Hc.
  eapply known_spender_excludes; [done|exact Hcons|done| |exact Hop|exact Hc].
  replace (h0 ++ Seen t :: later) with ((h0 ++ [Seen t]) ++ later) by (by rewrite <-app_assoc).
  rewrite spec_run_app. apply spec_run_from_known_wallet_side; [done|].
  rewrite spec_run_app. simpl. apply spec_seen_known.
Qed.

(** An explicit selection naming an output that a known transaction spends,
    or that is leased, is refused (such outputs are not even candidates). *)
Lemma not_candidate_not_eligible x r cs op :
  op ∉ map c_op cs → op ∉ map c_op (eligible x r cs).
Proof.
  intros Hn H. apply Hn. eapply elem_of_submseteq; [exact H|].
  rewrite !map_fmap. apply fmap_submseteq, sublist_submseteq, eligible_sublist.
Qed.

Theorem explicit_spent_refused U h x r shuffle targets own aty vsz t op :
  wf_universe U = true → chain_consistent U h = true →
  known (fs (spec_run U h)) t = true → op ∈ tx_ins U t → op ∈ r_explicit r →
  create x r shuffle targets (wallet_cands U (run U h) own aty vsz) = None.
Proof.
  intros Hwf Hcons Hk Hop Hsel.
  destruct (refinement U h Hwf Hcons) as [HI _].
  apply (create_explicit_refused _ _ _ _ _ op Hsel).
  apply not_candidate_not_eligible. unfold wallet_cands.
  by eapply (spent_by_known_not_candidate U _ _ Hwf HI).
Qed.

Theorem explicit_leased_refused U h x r shuffle targets own aty vsz op :
  wf_universe U = true → chain_consistent U h = true →
  leased (fs (spec_run U h)) op (clock (run U h)) = true → op ∈ r_explicit r →
  create x r shuffle targets (wallet_cands U (run U h) own aty vsz) = None.
Proof.
  intros Hwf Hcons Hl Hsel.
  destruct (refinement U h Hwf Hcons) as [HI _].
  apply (create_explicit_refused _ _ _ _ _ op Hsel).
  apply not_candidate_not_eligible. unfold wallet_cands.
  rewrite cands_of_ops, map_fmap. intros Hin.
  apply elem_of_list_fmap in Hin as (u & -> & Hu).
  apply (unspent_outputs_ledger U _ _ Hwf HI) in Hu as (t0 & chg0 & Hu).
  pose proof (ls_unleased _ _ _ _ _ _ Hu). congruence.
Qed.
