(** Executable model of the wallet's input selection (wallet/createtx.go:
    txToOutputs, findEligibleOutputs, makeInputSource, constantInputSource,
    the two CoinSelectionStrategy implementations; wallet/wallet.go:
    confirmed/confirms, LockedOutpoint; publishing = wallet.go
    reliablyPublishTransaction -> addRelevantTx(rec, nil)).

    Candidates are the records returned by wtxmgr's [UnspentOutputs]
    ([Tx/Store.v]'s [utxo], already without leased outputs and without outputs
    spent by an unmined transaction) extended with what the wallet derives
    from the output script: the owner found by the address manager and the
    best-case input size used by the random strategy.

    Model only (no proofs): amounts, heights and rates are [Z] (int32/int64
    wrap-around is outside the model; the harness stays in range). *)
From stdpp Require Import gmap list numbers sorting.
From Coq Require Import ZArith NArith.
From Verif Require Import Tx.Store Tx.Ledger Tx.Hist Generated.SelectFacts.
Local Open Scope Z_scope.

(** ** Candidates *)

Inductive addr_type := P2PKH | NP2WPKH | P2WPKH | P2TR | OtherScript.

(** Result of [Manager.AddrAccount]: the scoped manager's key scope - the
    PAIR (purpose, coin type) of [waddrmgr.KeyScope], compared as a whole by
    [scopedMgr.Scope() != *keyScope]: (84, 0) and a custom scope (84, 1) are
    different scopes - and the account number (imported keys: the account
    [ImportedAddrAccount] = 2^31-1 of the scope they were imported into). *)
Definition kscope := (N * N)%type.
Record owner := {
  o_scope : kscope;
  o_acct : N;
  (** the managed address has a private key ([ManagedPubKeyAddress.PrivKey]
      does not answer ErrWatchingOnly).  Read only by the sign / skip decision
      for the imported account ([lacksPrivKeys]). *)
  o_priv : bool;
}.

(** [waddrmgr.ImportedAddrAccount] = MaxInt32 *)
Definition imported_account : N := 2147483647.

Record cand := {
  c_utxo : utxo;
  (** [txscript.ExtractPkScriptAddrs] gave exactly one address and
      [Manager.AddrAccount] knows it; [None] when either step fails (the
      output is skipped). *)
  c_owner : option owner;
  c_atype : addr_type;
  (** [txsizes.GetMinInputVirtualSize pkScript] *)
  c_vsize : Z;
}.

Definition c_op (c : cand) : outpoint := u_op (c_utxo c).
Definition c_amt (c : cand) : Z := u_amt (c_utxo c).

(** Candidates of a store state: [UnspentOutputs] decorated by the address
    manager lookup [own], the script class [aty] and the size table [vsz]
    (all three are functions of the output script, which the model does not
    carry). *)
Definition cands_of (own : outpoint -> option owner) (aty : outpoint -> addr_type)
    (vsz : outpoint -> Z) (us : list utxo) : list cand :=
  map (fun u => {| c_utxo := u; c_owner := own (u_op u); c_atype := aty (u_op u); c_vsize := vsz (u_op u) |}) us.

(** ** wallet.go: confirms / confirmed *)

Definition confirms (tx_height cur_height : Z) : Z :=
  if bool_decide (tx_height = -1) || bool_decide (cur_height < tx_height) then 0
  else cur_height - tx_height + 1.

Definition confirmed (minconf tx_height cur_height : Z) : bool :=
  bool_decide (minconf <= confirms tx_height cur_height).

(** ** Requests *)

Inductive strategy := Largest | Random.

Record request := {
  r_acct : N;
  r_scope : option kscope;           (* coinSelectKeyScope; None = any scope *)
  r_change_scope : option kscope;    (* changeKeyScope (WithCustomChangeScope; by default = r_scope): decides
                                        the address of the CHANGE output only - no definition below reads it:
                                        the candidates, the eligible set and the sign / skip decision depend
                                        on [r_scope] alone *)
  r_minconf : Z;
  r_rate : Z;                        (* feeSatPerKb *)
  r_strategy : strategy;
  r_explicit : list outpoint;        (* WithCustomSelectUtxos; [] = automatic *)
  r_allow : utxo -> bool;            (* WithUtxoFilter; constant true when absent *)
  r_dry : bool;                      (* dryRun *)
}.

(** What the request meets in the wallet besides the store. *)
Record wctx := {
  x_height : Z;                      (* chainClient.BlockStamp().Height *)
  x_maturity : Z;                    (* chainParams.CoinbaseMaturity *)
  x_locked : list outpoint;          (* LockOutpoint set (memory only) *)
  x_watch_only : bool;               (* IsWatchOnlyAccount (selection scope, or BIP86 when none; account):
                                        true for a watch-only wallet, for an account imported by
                                        extended public key and - always - for ImportedAddrAccount *)
  x_wallet_wo : bool;                (* Manager.WatchOnly(): the wallet as a whole has no private keys *)
}.

(** ** findEligibleOutputs: one output, tests in the order of the code *)

Definition eligible_one (x : wctx) (r : request) (c : cand) : bool :=
  let u := c_utxo c in
  if negb (r_allow r u) then false
  else if negb (confirmed (r_minconf r) (u_height u) (x_height x)) then false
  else if u_coinbase u && negb (confirmed (x_maturity x) (u_height u) (x_height x)) then false
  else if bool_decide (u_op u ∈ x_locked x) then false
  else match c_owner c with
       | None => false
       | Some o =>
         if match r_scope r with
            | Some sc => negb (bool_decide (o_scope o = sc))
            | None => false
            end then false
         else N.eqb (o_acct o) (r_acct r)
       end.

Definition eligible (x : wctx) (r : request) (cs : list cand) : list cand :=
  List.filter (eligible_one x r) cs.

(** ** Explicit selection (createtx.go, `if len(selectedUtxos) > 0`) *)

(** [eligibleByOutpoint]: later entries overwrite earlier ones. *)
Definition by_outpoint (elig : list cand) : gmap outpoint cand :=
  foldl (fun m c => <[c_op c := c]> m) ∅ elig.

(** The loop over the selection, parameterised by the two regenerated facts
    (Generated/SelectFacts.v):
    [rej_dup] = [explicit_selection_rejects_duplicates]: a second occurrence
    of an outpoint returns an error ([seen] = the outpoints met so far);
    [req_elig] = [explicit_selection_requires_eligible]: an outpoint that is
    not a key of the map returns an error.  The [false] instances describe
    the code without the respective test (no duplicate test: the outpoint is
    used again; no miss test: the loop goes on to the next outpoint) and exist
    for the refutation witnesses of Properties/C06.v. *)
Fixpoint select_loop (rej_dup req_elig : bool) (m : gmap outpoint cand) (seen : list outpoint)
    (sel : list outpoint) (acc : list cand) : option (list cand) :=
  match sel with
  | [] => Some acc
  | op :: sel' =>
    if rej_dup && bool_decide (op ∈ seen) then None
    else match m !! op with
         | None => if req_elig then None       (* error: the selected outpoint is not eligible *)
                   else select_loop rej_dup req_elig m (op :: seen) sel' acc
         | Some e => select_loop rej_dup req_elig m (op :: seen) sel' (acc ++ [e])
         end
  end.

Definition explicit_select_gen (rej_dup req_elig : bool) (elig : list cand) (sel : list outpoint) : option (list cand) :=
  select_loop rej_dup req_elig (by_outpoint elig) [] sel [].

(** The code as it is now. *)
Definition explicit_select : list cand -> list outpoint -> option (list cand) :=
  explicit_select_gen explicit_selection_rejects_duplicates explicit_selection_requires_eligible.

(** ** Coin selection strategies *)

(** [inputYieldsPositively] (Go's integer division truncates: [Z.quot]). *)
Definition yields (rate : Z) (c : cand) : bool :=
  bool_decide (Z.quot (rate * c_vsize c) 1000 < c_amt c).

Definition amt_ge (a b : cand) : Prop := c_amt b <= c_amt a.
Global Instance amt_ge_dec a b : Decision (amt_ge a b).
Proof. unfold amt_ge. apply _. Defined.

(** [ArrangeCoins].  Largest first: descending by amount (the order of equal
    amounts is unspecified in the code: sort.Sort is not stable).  Random: a
    shuffle of the positively yielding subset; [shuffle] stands for
    rand.Shuffle and the theorems hold for every permutation. *)
Definition arrange (st : strategy) (rate : Z) (shuffle : list cand -> list cand) (elig : list cand) : list cand :=
  match st with
  | Largest => merge_sort amt_ge elig
  | Random => shuffle (List.filter (yields rate) elig)
  end.

(** ** makeInputSource: a closure that hands out a growing prefix *)

Record src := { s_total : Z; s_taken : list cand; s_rest : list cand }.

Definition src_init (coins : list cand) : src := {| s_total := 0; s_taken := []; s_rest := coins |}.

Fixpoint pull (target total : Z) (taken rest : list cand) : src :=
  match rest with
  | [] => {| s_total := total; s_taken := taken; s_rest := [] |}
  | c :: rest' =>
    if bool_decide (total < target) then pull target (total + c_amt c) (taken ++ [c]) rest'
    else {| s_total := total; s_taken := taken; s_rest := rest |}
  end.

(** one call [inputSource(target)] *)
Definition src_call (s : src) (target : Z) : src := pull target (s_total s) (s_taken s) (s_rest s).

(** The inputs of the authored transaction are those returned by the last
    call.  The authoring loop (txauthor.NewUnsignedTransaction, property C07)
    enters only through the targets it asks for, so the theorems hold for
    every target sequence. *)
Definition inputs_after (targets : list Z) (coins : list cand) : list cand :=
  s_taken (foldl src_call (src_init coins) targets).

(** ** txToOutputs: selection part *)

Record created := {
  cr_inputs : list cand;
  cr_signed : bool;                  (* AddAllInputScripts + validateMsgTx ran *)
}.

(** [None] = the request is refused by the selection itself.  (A refusal by
    the authoring loop - insufficient funds - is outside this model.) *)
(** The sign / skip decision (createtx.go, after the dry-run exit): signing
    is skipped when the address manager reports the account as watch-only -
    unless it is the imported account of a wallet that is not watch-only as a
    whole and the wallet holds the private key of every input
    ([lacksPrivKeys] = false). *)
Definition has_priv (c : cand) : bool :=
  match c_owner c with Some o => o_priv o | None => false end.

Definition skip_signing (x : wctx) (r : request) (ins : list cand) : bool :=
  x_watch_only x &&
  negb (N.eqb (r_acct r) imported_account && negb (x_wallet_wo x) && forallb has_priv ins).

Definition mk_created (x : wctx) (r : request) (ins : list cand) : created :=
  {| cr_inputs := ins; cr_signed := negb (r_dry r) && negb (skip_signing x r ins) |}.

Definition create (x : wctx) (r : request) (shuffle : list cand -> list cand) (targets : list Z)
    (cs : list cand) : option created :=
  let elig := eligible x r cs in
  match r_explicit r with
  | [] => Some (mk_created x r (inputs_after targets (arrange (r_strategy r) (r_rate r) shuffle elig)))
  | sel =>
    match explicit_select elig sel with
    | None => None
    | Some l => Some (mk_created x r l)   (* constantInputSource: all of them *)
    end
  end.

(** ** Publishing a created transaction

    The wallet hands a transaction it created to the backend
    (wallet.go reliablyPublishTransaction): the transaction is first recorded
    as an unconfirmed relevant transaction (addRelevantTx(rec, nil) = the
    history event [Seen t]); when the backend refuses it, it is removed again
    (publishTransaction -> RemoveUnminedTx = [Abandon t]).  [t] is a
    transaction of the universe whose inputs are the inputs the creation
    selected. *)
Definition is_tx_of (U : universe) (t : txid) (cr : created) : bool :=
  bool_decide (tx_ins U t = map c_op (cr_inputs cr)).

Definition publish_accepted (t : txid) : list event := [Seen t].
Definition publish_rejected (t : txid) : list event := [Seen t; Abandon t].

(** The events a wallet performs on the store without the chain moving: *)
Definition wallet_side (e : event) : bool :=
  match e with
  | Seen _ | Lease _ _ _ | Release _ _ | Tick _ | Sweep => true
  | _ => false                       (* confirmations, reorganisations, removals, re-deliveries *)
  end.

(** The transactions an event makes the ledger forget (mirrors
    [spec_confirm] / [spec_disconnect] / [spec_abandon] of Tx/Ledger.v): the
    unconfirmed transactions conflicting with a newly confirmed one, the
    coinbases of detached blocks, an abandoned transaction - each with
    everything that spends their outputs.  Every other event - receipts and
    spends seen by the wallet (its own or anybody else's), leases, clock,
    re-deliveries - forgets nothing. *)
Definition displaced (U : universe) (F : facts) (e : event) : list txid :=
  match e with
  | Confirm c h bhash _ =>
    match f_conf F !! c with
    | Some _ => []
    | None =>
      let uc := elements (f_unconf F ∖ {[c]}) in
      descendants U (S (length uc)) uc (filter (fun u => conflicts U c u) uc)
    end
  | Disconnect h =>
    let gone_ids := map fst (filter (fun kv : txid * blockid => h <= kv.2.1) (map_to_list (f_conf F))) in
    let cb := filter (fun t => is_coinbase U t) gone_ids in
    let back := filter (fun t => negb (is_coinbase U t)) gone_ids in
    let uc := elements (f_unconf F ∪ list_to_set back) in
    descendants U (S (length uc)) uc cb
  | Abandon a =>
    let uc := elements (f_unconf F) in
    descendants U (S (length uc)) uc [a]
  | _ => []
  end.

(** [t] survives the events [evs] applied from the ledger state [m]. *)
Fixpoint never_displaced (U : universe) (m : sstate) (t : txid) (evs : list event) : bool :=
  match evs with
  | [] => true
  | e :: evs' => negb (bool_decide (t ∈ displaced U (fs m) e)) && never_displaced U (spec_step U m e) t evs'
  end.

(** The candidates the wallet sees in a model state. *)
Definition wallet_cands (U : universe) (m : mstate) (own : outpoint -> option owner)
    (aty : outpoint -> addr_type) (vsz : outpoint -> Z) : list cand :=
  cands_of own aty vsz (unspent_outputs U (st m) (clock m)).
