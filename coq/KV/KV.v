(** Executable model of walletdb over bbolt (walletdb/bdb/db.go) - property C11.

    Keys, values and bucket names are byte strings ([list N], every element
    below 256 when it comes from the harness; the order is the lexicographic
    order of the elements, i.e. Go's [bytes.Compare]).

    A bucket is what bbolt makes it: ONE ordered name space in which every name
    is bound either to a value or to a nested bucket, plus a sequence counter.
    The whole database is the root bucket (the API only lets callers create
    buckets in it: [CreateTopLevelBucket] = CreateBucketIfNotExists at path [],
    [DeleteTopLevelBucket] = DeleteNestedBucket at path [],
    [ReadWriteBucket] = NestedReadWriteBucket at path []).

    A value is [option bytes]: [None] is Go's nil slice.  bbolt keeps the slice it
    was given until commit, so inside the transaction [Put k nil] followed by
    [Get k] returns nil, while after commit the stored value is the empty,
    non-nil slice (checked by experiment on the real code); [normalize] is what
    commit does to the working copy.

    Transactions: the database handle is the committed tree, the single
    writer lock and the number of open read transactions.  What the managed
    calls db.Update / db.View / db.Batch do with their transaction when the
    closure returns nil, returns an error or panics is a PARAMETER of the model
    ([flows], the control-flow skeleton regenerated from the repository into
    Generated/TxFlow.v); [managed_rw] / [managed_ro] run a closure under such
    a skeleton, [batch] adds the attempts bbolt rolls back before the run that
    decides, [sched_step] / [run_sched] let several goroutines make their moves
    under the writer lock, [run_serial] is the serial run they are compared to.

    No proofs in this file. *)
From Verif Require Import Base.Prelude.
Local Open Scope N_scope.

Definition bytes := list N.
Definition value := option bytes.

(** Lexicographic comparison = bytes.Compare. *)
Fixpoint bcmp (a b : bytes) : comparison :=
  match a, b with
  | [], [] => Eq
  | [], _ :: _ => Lt
  | _ :: _, [] => Gt
  | x :: a', y :: b' =>
      match N.compare x y with
      | Eq => bcmp a' b'
      | c => c
      end
  end.

Definition beqb (a b : bytes) : bool := match bcmp a b with Eq => true | _ => false end.
Definition bltb (a b : bytes) : bool := match bcmp a b with Lt => true | _ => false end.

(** bucket = sequence counter + entries sorted by name *)
Inductive bkt := Bkt (seq : N) (ents : list (bytes * (value + bkt))).
Notation ent := (value + bkt)%type (only parsing).

Definition bseq (b : bkt) : N := match b with Bkt s _ => s end.
Definition bents (b : bkt) : list (bytes * ent) := match b with Bkt _ l => l end.
Definition empty_bkt : bkt := Bkt 0 [].

(** Association list kept sorted by name: lookup of the first binding,
    replace-or-sorted-insert, removal. *)
Fixpoint ent_get {E} (k : bytes) (l : list (bytes * E)) : option E :=
  match l with
  | [] => None
  | ke :: l' => if beqb k (fst ke) then Some (snd ke) else ent_get k l'
  end.

Fixpoint ent_replace {E} (k : bytes) (e : E) (l : list (bytes * E)) : list (bytes * E) :=
  match l with
  | [] => []
  | ke :: l' => if beqb k (fst ke) then (k, e) :: l' else ke :: ent_replace k e l'
  end.

Fixpoint ent_insert {E} (k : bytes) (e : E) (l : list (bytes * E)) : list (bytes * E) :=
  match l with
  | [] => [(k, e)]
  | ke :: l' => if bltb k (fst ke) then (k, e) :: ke :: l' else ke :: ent_insert k e l'
  end.

Definition ent_set {E} (k : bytes) (e : E) (l : list (bytes * E)) : list (bytes * E) :=
  match ent_get k l with
  | Some _ => ent_replace k e l
  | None => ent_insert k e l
  end.

Definition ent_del {E} (k : bytes) (l : list (bytes * E)) : list (bytes * E) :=
  filter (fun ke => negb (beqb k (fst ke))) l.

(** Navigation: a path is the list of bucket names from the root. *)
Definition path := list bytes.

Fixpoint at_path (p : path) (b : bkt) : option bkt :=
  match p with
  | [] => Some b
  | n :: p' =>
      match ent_get n (bents b) with
      | Some (inr c) => at_path p' c
      | _ => None
      end
  end.

Fixpoint modify (p : path) (f : bkt -> bkt) (b : bkt) : bkt :=
  match p with
  | [] => f b
  | n :: p' =>
      match ent_get n (bents b) with
      | Some (inr c) => Bkt (bseq b) (ent_set n (inr (modify p' f c)) (bents b))
      | _ => b
      end
  end.

(** What a cursor / ForEach reports for an entry: nested buckets have a nil value. *)
Definition obs_ent (ke : bytes * ent) : bytes * value :=
  (fst ke, match snd ke with inl v => v | inr _ => None end).

(** The bucket's own content without the content of its sub-buckets. *)
Definition mark (e : ent) : value + unit := match e with inl v => inl v | inr _ => inr tt end.
Definition shallow (b : bkt) : N * list (bytes * (value + unit)) :=
  (bseq b, map (fun ke => (fst ke, mark (snd ke))) (bents b)).

(** Commit: bbolt copies the values to the page; a nil slice becomes empty. *)
Definition norm_val (v : value) : value := Some (match v with Some x => x | None => [] end).

Fixpoint normalize (b : bkt) : bkt :=
  match b with
  | Bkt s l =>
      Bkt s (map (fun ke : bytes * ent =>
                    let (k, e) := ke in
                    (k, match e with
                        | inl v => inl (norm_val v)
                        | inr c => inr (normalize c)
                        end)) l)
  end.

(** Error classes as surfaced by bdb (convertErr).  [EBoltTxNotWritable]:
    bucket.NextSequence / SetSequence return bbolt's error unconverted. *)
Inductive err :=
| ETxNotWritable | EBoltTxNotWritable | EBucketNotFound | EBucketExists
| EBucketNameRequired | EKeyRequired | EKeyTooLarge | EIncompatibleValue.

(** Cursor operations and what they return. *)
Inductive cop := CFirst | CLast | CNext | CPrev | CSeek (k : bytes) | CDelete.
Inductive cres := CKV (kv : option (bytes * value)) | CErr (e : option err).

(** Operations on a bucket handle. *)
Inductive bop :=
| Put (k : bytes) (v : value)
| Get (k : bytes)
| Delete (k : bytes)
| CreateBucket (n : bytes)
| CreateBucketIfNotExists (n : bytes)
| DeleteNested (n : bytes)
| Nested (n : bytes)                 (* NestedReadWriteBucket(n) != nil *)
| ForEach
| Sequence
| SetSequence (v : N)
| NextSequence
| Cursor (cs : list cop)             (* one cursor, used for this list of calls *)
| Dump.                              (* harness: recursive dump of the bucket *)

Inductive result :=
| RErr (e : option err)              (* error return; None = nil *)
| RVal (v : value)
| RBool (b : bool)
| REnts (l : list (bytes * value))
| RNum (n : N)
| RNumErr (n : N) (e : option err)
| RCur (l : list cres)
| RTree (t : bkt)
| RNoBucket.                         (* navigation to the bucket returned nil *)

(** Cursor position.  [PAt k]: on the entry named [k]; [PEnd]: after the last
    entry (a Seek beyond the end); [PNone]: never positioned. *)
Inductive pos := PNone | PAt (k : bytes) | PEnd.

Definition first_ge (k : bytes) (l : list (bytes * ent)) : option (bytes * ent) :=
  find (fun ke => negb (bltb (fst ke) k)) l.
Definition first_gt (k : bytes) (l : list (bytes * ent)) : option (bytes * ent) :=
  find (fun ke => bltb k (fst ke)) l.
Fixpoint last_opt {A} (l : list A) : option A :=
  match l with
  | [] => None
  | [x] => Some x
  | _ :: l' => last_opt l'
  end.
Definition last_lt (k : bytes) (l : list (bytes * ent)) : option (bytes * ent) :=
  last_opt (filter (fun ke => bltb (fst ke) k) l).

Definition at_ent (l : list (bytes * ent)) (ke : bytes * ent) : list (bytes * ent) * pos * cres :=
  (l, PAt (fst ke), CKV (Some (obs_ent ke))).

Definition cursor_step (w : bool) (st : list (bytes * ent) * pos) (c : cop)
  : list (bytes * ent) * pos * cres :=
  let (l, p) := st in
  match c with
  | CFirst =>
      match l with
      | [] => (l, PEnd, CKV None)
      | ke :: _ => at_ent l ke
      end
  | CLast =>
      match last_opt l with
      | None => (l, PEnd, CKV None)
      | Some ke => at_ent l ke
      end
  | CNext =>
      match p with
      | PAt k =>
          match first_gt k l with
          | Some ke => at_ent l ke
          | None => (l, p, CKV None)          (* stays on the last entry *)
          end
      | _ => (l, p, CKV None)
      end
  | CPrev =>
      match p with
      | PAt k =>
          match last_lt k l with
          | Some ke => at_ent l ke
          | None =>                             (* re-positioned on the first entry *)
              (l, match l with [] => PEnd | ke :: _ => PAt (fst ke) end, CKV None)
          end
      | PEnd =>
          match last_opt l with
          | Some ke => at_ent l ke
          | None => (l, PEnd, CKV None)
          end
      | PNone => (l, PNone, CKV None)
      end
  | CSeek k =>
      match first_ge k l with
      | Some ke => at_ent l ke
      | None => (l, PEnd, CKV None)
      end
  | CDelete =>
      if negb w then (l, p, CErr (Some ETxNotWritable)) else
      match p with
      | PAt k =>
          match ent_get k l with
          | Some (inr _) => (l, p, CErr (Some EIncompatibleValue))
          | Some (inl _) => (ent_del k l, p, CErr None)
          | None => (l, p, CErr None)
          end
      | _ => (l, p, CErr None)
      end
  end.

Fixpoint cursor_run (w : bool) (st : list (bytes * ent) * pos) (cs : list cop)
  : list (bytes * ent) * list cres :=
  match cs with
  | [] => (fst st, [])
  | c :: cs' =>
      let '(l, p, r) := cursor_step w st c in
      let (l', rs) := cursor_run w (l, p) cs' in
      (l', r :: rs)
  end.

Definition max_key_size : N := 32768.
Definition seq_modulus : N := 18446744073709551616.

(** One call on a bucket handle of a transaction with writable flag [w]. *)
Definition exec_bop (w : bool) (o : bop) (b : bkt) : bkt * result :=
  let s := bseq b in
  let l := bents b in
  match o with
  | Put k v =>
      if negb w then (b, RErr (Some ETxNotWritable))
      else match k with
           | [] => (b, RErr (Some EKeyRequired))
           | _ =>
               if max_key_size <? N.of_nat (length k) then (b, RErr (Some EKeyTooLarge))
               else match ent_get k l with
                    | Some (inr _) => (b, RErr (Some EIncompatibleValue))
                    | _ => (Bkt s (ent_set k (inl v) l), RErr None)
                    end
           end
  | Get k =>
      (b, RVal (match ent_get k l with Some (inl v) => v | _ => None end))
  | Delete k =>
      if negb w then (b, RErr (Some ETxNotWritable))
      else match ent_get k l with
           | None => (b, RErr None)
           | Some (inr _) => (b, RErr (Some EIncompatibleValue))
           | Some (inl _) => (Bkt s (ent_del k l), RErr None)
           end
  | CreateBucket n =>
      if negb w then (b, RErr (Some ETxNotWritable))
      else match n with
           | [] => (b, RErr (Some EBucketNameRequired))
           | _ =>
               match ent_get n l with
               | Some (inr _) => (b, RErr (Some EBucketExists))
               | Some (inl _) => (b, RErr (Some EIncompatibleValue))
               | None => (Bkt s (ent_set n (inr empty_bkt) l), RErr None)
               end
           end
  | CreateBucketIfNotExists n =>
      if negb w then (b, RErr (Some ETxNotWritable))
      else match n with
           | [] => (b, RErr (Some EBucketNameRequired))
           | _ =>
               match ent_get n l with
               | Some (inr _) => (b, RErr None)
               | Some (inl _) => (b, RErr (Some EIncompatibleValue))
               | None => (Bkt s (ent_set n (inr empty_bkt) l), RErr None)
               end
           end
  | DeleteNested n =>
      if negb w then (b, RErr (Some ETxNotWritable))
      else match ent_get n l with
           | None =>
               (* bbolt compares the name with the key its search stopped at;
                  in an empty bucket that key is nil, which equals the empty name *)
               match n, l with
               | [], [] => (b, RErr (Some EIncompatibleValue))
               | _, _ => (b, RErr (Some EBucketNotFound))
               end
           | Some (inl _) => (b, RErr (Some EIncompatibleValue))
           | Some (inr _) => (Bkt s (ent_del n l), RErr None)
           end
  | Nested n =>
      (b, RBool (match ent_get n l with Some (inr _) => true | _ => false end))
  | ForEach => (b, REnts (map obs_ent l))
  | Sequence => (b, RNum s)
  | SetSequence v =>
      if negb w then (b, RErr (Some EBoltTxNotWritable))
      else (Bkt v l, RErr None)
  | NextSequence =>
      if negb w then (b, RNumErr 0 (Some EBoltTxNotWritable))
      else let s' := (s + 1) mod seq_modulus in (Bkt s' l, RNumErr s' None)
  | Cursor cs =>
      let (l', rs) := cursor_run w (l, PNone) cs in (Bkt s l', RCur rs)
  | Dump => (b, RTree b)
  end.

(** An operation of a transaction body: navigate from the transaction's root to
    the bucket at [p] (each step NestedReadWriteBucket), then call [o] on it. *)
Definition op := (path * bop)%type.

Definition exec_op (w : bool) (o : op) (root : bkt) : bkt * result :=
  match at_path (fst o) root with
  | None => (root, RNoBucket)
  | Some b =>
      let (b', r) := exec_bop w (snd o) b in
      (modify (fst o) (fun _ => b') root, r)
  end.

Fixpoint run_ops (w : bool) (root : bkt) (ops : list op) : bkt * list result :=
  match ops with
  | [] => (root, [])
  | o :: ops' =>
      let (root1, r) := exec_op w o root in
      let (root2, rs) := run_ops w root1 ops' in
      (root2, r :: rs)
  end.

(** Database handle: the committed tree, whether the (single) writer lock is
    held, and how many read transactions are open (bbolt: Stats().OpenTxN). *)
Record dbstate := { committed : bkt; writer : bool; readers : N }.
Definition init_db : dbstate := {| committed := empty_bkt; writer := false; readers := 0 |}.

(** How the closure passed to Update/View/Batch ends. *)
Inductive outcome := OOk | OErr | OPanic.

(** BeginReadWriteTx: needs the writer lock ([None] = the call would block);
    the working copy starts as the committed tree. *)
Definition begin_rw (s : dbstate) : option (dbstate * bkt) :=
  if writer s then None
  else Some ({| committed := committed s; writer := true; readers := readers s |}, committed s).
Definition commit (s : dbstate) (working : bkt) : dbstate :=
  {| committed := normalize working; writer := false; readers := readers s |}.
Definition rollback (s : dbstate) : dbstate :=
  {| committed := committed s; writer := false; readers := readers s |}.

(** BeginReadTx never blocks; Rollback of a read transaction closes it. *)
Definition begin_ro (s : dbstate) : dbstate * bkt :=
  ({| committed := committed s; writer := writer s; readers := readers s + 1 |}, committed s).
Definition close_ro (s : dbstate) : dbstate :=
  {| committed := committed s; writer := writer s; readers := N.pred (readers s) |}.

(** ** Control-flow skeleton of the managed calls

    What db.Update / db.View / db.Batch (walletdb/bdb/db.go, reached through
    walletdb.Update / View / Batch of walletdb/interface.go) do with the
    transaction they began, per way the closure ends, and how the call itself
    ends for the caller.  The skeleton of the CODE is not written here: it is
    regenerated from the repository (Generated/TxFlow.v, lib/extract_c11.py)
    and the model below is parameterised by it.

    [TCommit]: tx.Commit is the first call that ends the transaction;
    [TRollback]: tx.Rollback is; [TLeak]: the call returns (or the panic leaves
    it) with the transaction still open.
    How the call ends: [Some OOk] it returns nil, [Some OErr] it returns the
    closure's own error value, [Some OPanic] the closure's panic value comes
    out of it, [None] anything else. *)
Inductive tx_end := TCommit | TRollback | TLeak.

Record flow := Flow {
  at_nil : tx_end * option outcome;      (* the closure returned nil *)
  at_err : tx_end * option outcome;      (* the closure returned a non-nil error *)
  at_panic : tx_end * option outcome }.  (* the closure panicked *)

Definition flow_at (f : flow) (o : outcome) : tx_end * option outcome :=
  match o with OOk => at_nil f | OErr => at_err f | OPanic => at_panic f end.

Record flows := Flows { fl_update : flow; fl_view : flow; fl_batch : flow }.

(** End of a read-write transaction.  A leaked one keeps the writer lock. *)
Definition finish_rw (e : tx_end) (s1 : dbstate) (working : bkt) : dbstate :=
  match e with
  | TCommit => commit s1 working
  | TRollback => rollback s1
  | TLeak => s1
  end.

(** End of a read transaction.  bbolt's Commit on a read-only transaction
    returns ErrTxNotWritable and leaves it open. *)
Definition finish_ro (e : tx_end) (s1 : dbstate) : dbstate :=
  match e with
  | TRollback => close_ro s1
  | TCommit | TLeak => s1
  end.

(** A managed read-write call with skeleton [f]: begin; run the closure on the
    working copy; end the transaction and the call as [f] says for the way the
    closure ended. *)
Definition managed_rw (f : flow) (s : dbstate) (body : list op) (o : outcome)
  : option (dbstate * list result * option outcome) :=
  match begin_rw s with
  | None => None
  | Some (s1, w0) =>
      let (w1, rs) := run_ops true w0 body in
      let (e, ret) := flow_at f o in
      Some (finish_rw e s1 w1, rs, ret)
  end.

(** A managed read-only call: the closure reads the committed tree. *)
Definition managed_ro (f : flow) (s : dbstate) (body : list op) (o : outcome)
  : dbstate * list result * option outcome :=
  let (s1, w0) := begin_ro s in
  let (e, ret) := flow_at f o in
  (finish_ro e s1, snd (run_ops false w0 body), ret).

Definition update (fl : flows) := managed_rw (fl_update fl).
Definition view (fl : flows) := managed_ro (fl_view fl).

(** db.Batch: bbolt may run the closure several times (with the closures of
    other callers in one transaction; a closure that failed there is run again
    alone).  Every attempt but the last is rolled back whatever it did; the last
    one ends as the skeleton says.  [attempts] = number of runs before the last. *)
Fixpoint rolled_back_attempts (n : nat) (s : dbstate) (body : list op) : option dbstate :=
  match n with
  | O => Some s
  | S n' =>
      match begin_rw s with
      | None => None
      | Some (s1, w0) =>
          let (w1, _) := run_ops true w0 body in
          rolled_back_attempts n' (finish_rw TRollback s1 w1) body
      end
  end.

Definition batch (fl : flows) (attempts : nat) (s : dbstate) (body : list op) (o : outcome)
  : option (dbstate * list result * option outcome) :=
  match rolled_back_attempts attempts s body with
  | None => None
  | Some s' => managed_rw (fl_batch fl) s' body o
  end.

(** Transactions the caller begins and ends itself. *)
Definition const_flow (e : tx_end) (r : outcome) : flow :=
  Flow (e, Some r) (e, Some r) (e, Some r).

(** Close and reopen of the file: Close waits for every open transaction
    ([None] = it never returns); otherwise the identity on the committed tree
    (durability of a committed bbolt transaction is trusted, not modelled). *)
Definition reopen (s : dbstate) : option dbstate :=
  if writer s || (0 <? readers s) then None
  else Some {| committed := committed s; writer := false; readers := 0 |}.

(** Kinds of transactions the harness runs. *)
Inductive kind :=
| KUpdate (o : outcome)                  (* walletdb.Update with a closure ending in o *)
| KView (o : outcome)                    (* walletdb.View *)
| KBatch (o : outcome) (attempts : nat)  (* walletdb.Batch; the closure ran attempts+1 times *)
| KManual (do_commit : bool)             (* BeginReadWriteTx ... Commit / Rollback *)
| KManualRead.                           (* BeginReadTx ... Rollback *)

Definition run_tx (fl : flows) (s : dbstate) (k : kind) (body : list op)
  : option (dbstate * list result * option outcome) :=
  match k with
  | KUpdate o => update fl s body o
  | KView o => Some (view fl s body o)
  | KBatch o n => batch fl n s body o
  | KManual true => managed_rw (const_flow TCommit OOk) s body OOk
  | KManual false => managed_rw (const_flow TRollback OErr) s body OOk
  | KManualRead => Some (managed_ro (const_flow TRollback OOk) s body OOk)
  end.

Fixpoint run_txs (fl : flows) (s : dbstate) (txs : list (kind * list op))
  : option (dbstate * list (list result)) :=
  match txs with
  | [] => Some (s, [])
  | (k, body) :: txs' =>
      match run_tx fl s k body with
      | None => None
      | Some (s1, rs, _) =>
          match run_txs fl s1 txs' with
          | None => None
          | Some (s2, rss) => Some (s2, rs :: rss)
          end
      end
  end.

(** ** Several goroutines in a managed read-write call at once

    Each goroutine [i] runs job [i] through the same managed call (skeleton
    [f]).  A scheduler picks which goroutine makes its next move: begin (only
    when the writer lock is free: [None] otherwise, the move is not admitted),
    one operation of the closure on its own working copy, or the end of the
    call.  [TRun] carries the working copy, the operations still to do and the
    results so far (latest first). *)
Record job := Job { j_body : list op; j_out : outcome }.

Inductive thread :=
| TIdle
| TRun (w : bkt) (todo : list op) (rs : list result)
| TDone (rs : list result) (ret : option outcome).

Record cstate := CState { c_db : dbstate; c_thr : nat -> thread }.

Definition set_thr (c : nat -> thread) (i : nat) (t : thread) : nat -> thread :=
  fun j => if Nat.eqb j i then t else c j.

Definition cinit (s : dbstate) : cstate := CState s (fun _ => TIdle).

Definition sched_step (f : flow) (jobs : list job) (c : cstate) (i : nat) : option cstate :=
  match nth_error jobs i with
  | None => None
  | Some j =>
      match c_thr c i with
      | TIdle =>
          match begin_rw (c_db c) with
          | None => None
          | Some (s1, w0) => Some (CState s1 (set_thr (c_thr c) i (TRun w0 (j_body j) [])))
          end
      | TRun w (o :: todo) rs =>
          let (w', r) := exec_op true o w in
          Some (CState (c_db c) (set_thr (c_thr c) i (TRun w' todo (r :: rs))))
      | TRun w [] rs =>
          let (e, ret) := flow_at f (j_out j) in
          Some (CState (finish_rw e (c_db c) w) (set_thr (c_thr c) i (TDone (rev rs) ret)))
      | TDone _ _ => None
      end
  end.

Fixpoint run_sched (f : flow) (jobs : list job) (c : cstate) (sch : list nat) : option cstate :=
  match sch with
  | [] => Some c
  | i :: sch' =>
      match sched_step f jobs c i with
      | None => None
      | Some c' => run_sched f jobs c' sch'
      end
  end.

(** The serial run of the jobs in [order], one managed call after the other. *)
Fixpoint run_serial (f : flow) (jobs : list job) (s : dbstate) (order : list nat)
  : option (dbstate * list (nat * list result * option outcome)) :=
  match order with
  | [] => Some (s, [])
  | i :: order' =>
      match nth_error jobs i with
      | None => None
      | Some j =>
          match managed_rw f s (j_body j) (j_out j) with
          | None => None
          | Some (s1, rs, ret) =>
              match run_serial f jobs s1 order' with
              | None => None
              | Some (s2, l) => Some (s2, (i, rs, ret) :: l)
              end
          end
      end
  end.

(** The schedule in which every goroutine of [order] runs its whole call
    before the next one begins. *)
Definition solo_moves (jobs : list job) (i : nat) : list nat :=
  match nth_error jobs i with
  | Some j => repeat i (length (j_body j) + 2)
  | None => [i]
  end.
Definition serial_schedule (jobs : list job) (order : list nat) : list nat :=
  flat_map (solo_moves jobs) order.
