(** Executable model of walletdb over bbolt (walletdb/bdb/db.go) - property C11.

    Keys, values and bucket names are byte strings ([list N], every element
    below 256 when it comes from the harness; the order is the lexicographic
    order of the elements, i.e. Go's [bytes.Compare]).

    A bucket is what bbolt makes it: ONE ordered name space in which every name
    is bound either to a value or to a nested bucket, plus a sequence counter.
    The whole database is the root bucket (the API only lets callers create
    buckets in it: [CreateTopLevelBucket] = CreateBucketIfNotExists at path [],
    [DeleteTopLevelBucket] = DeleteNestedBucket at path [],
    [ReadWriteBucket] = NestedReadWriteBucket at path []).

    A value is [option bytes]: [None] is Go's nil slice.  bbolt keeps the slice it
    was given until commit, so inside the transaction [Put k nil] followed by
    [Get k] returns nil, while after commit the stored value is the empty,
    non-nil slice (checked by experiment on the real code); [normalize] is what
    commit does to the working copy.

    No proofs in this file. *)
From Verif Require Import Base.Prelude.
Local Open Scope N_scope.

Definition bytes := list N.
Definition value := option bytes.

(** Lexicographic comparison = bytes.Compare. *)
Fixpoint bcmp (a b : bytes) : comparison :=
  match a, b with
  | [], [] => Eq
  | [], _ :: _ => Lt
  | _ :: _, [] => Gt
  | x :: a', y :: b' =>
      match N.compare x y with
      | Eq => bcmp a' b'
      | c => c
      end
  end.

Definition beqb (a b : bytes) : bool := match bcmp a b with Eq => true | _ => false end.
Definition bltb (a b : bytes) : bool := match bcmp a b with Lt => true | _ => false end.

(** bucket = sequence counter + entries sorted by name *)
Inductive bkt := Bkt (seq : N) (ents : list (bytes * (value + bkt))).
Notation ent := (value + bkt)%type (only parsing).

Definition bseq (b : bkt) : N := match b with Bkt s _ => s end.
Definition bents (b : bkt) : list (bytes * ent) := match b with Bkt _ l => l end.
Definition empty_bkt : bkt := Bkt 0 [].

(** Association list kept sorted by name: lookup of the first binding,
    replace-or-sorted-insert, removal. *)
Fixpoint ent_get {E} (k : bytes) (l : list (bytes * E)) : option E :=
  match l with
  | [] => None
  | ke :: l' => if beqb k (fst ke) then Some (snd ke) else ent_get k l'
  end.

Fixpoint ent_replace {E} (k : bytes) (e : E) (l : list (bytes * E)) : list (bytes * E) :=
  match l with
  | [] => []
  | ke :: l' => if beqb k (fst ke) then (k, e) :: l' else ke :: ent_replace k e l'
  end.

Fixpoint ent_insert {E} (k : bytes) (e : E) (l : list (bytes * E)) : list (bytes * E) :=
  match l with
  | [] => [(k, e)]
  | ke :: l' => if bltb k (fst ke) then (k, e) :: ke :: l' else ke :: ent_insert k e l'
  end.

Definition ent_set {E} (k : bytes) (e : E) (l : list (bytes * E)) : list (bytes * E) :=
  match ent_get k l with
  | Some _ => ent_replace k e l
  | None => ent_insert k e l
  end.

Definition ent_del {E} (k : bytes) (l : list (bytes * E)) : list (bytes * E) :=
  filter (fun ke => negb (beqb k (fst ke))) l.

(** Navigation: a path is the list of bucket names from the root. *)
Definition path := list bytes.

Fixpoint at_path (p : path) (b : bkt) : option bkt :=
  match p with
  | [] => Some b
  | n :: p' =>
      match ent_get n (bents b) with
      | Some (inr c) => at_path p' c
      | _ => None
      end
  end.

Fixpoint modify (p : path) (f : bkt -> bkt) (b : bkt) : bkt :=
  match p with
  | [] => f b
  | n :: p' =>
      match ent_get n (bents b) with
      | Some (inr c) => Bkt (bseq b) (ent_set n (inr (modify p' f c)) (bents b))
      | _ => b
      end
  end.

(** What a cursor / ForEach reports for an entry: nested buckets have a nil value. *)
Definition obs_ent (ke : bytes * ent) : bytes * value :=
  (fst ke, match snd ke with inl v => v | inr _ => None end).

(** The bucket's own content without the content of its sub-buckets. *)
Definition mark (e : ent) : value + unit := match e with inl v => inl v | inr _ => inr tt end.
Definition shallow (b : bkt) : N * list (bytes * (value + unit)) :=
  (bseq b, map (fun ke => (fst ke, mark (snd ke))) (bents b)).

(** Commit: bbolt copies the values to the page; a nil slice becomes empty. *)
Definition norm_val (v : value) : value := Some (match v with Some x => x | None => [] end).

Fixpoint normalize (b : bkt) : bkt :=
  match b with
  | Bkt s l =>
      Bkt s (map (fun ke : bytes * ent =>
                    let (k, e) := ke in
                    (k, match e with
                        | inl v => inl (norm_val v)
                        | inr c => inr (normalize c)
                        end)) l)
  end.

(** Error classes as surfaced by bdb (convertErr).  [EBoltTxNotWritable]:
    bucket.NextSequence / SetSequence return bbolt's error unconverted. *)
Inductive err :=
| ETxNotWritable | EBoltTxNotWritable | EBucketNotFound | EBucketExists
| EBucketNameRequired | EKeyRequired | EKeyTooLarge | EIncompatibleValue.

(** Cursor operations and what they return. *)
Inductive cop := CFirst | CLast | CNext | CPrev | CSeek (k : bytes) | CDelete.
Inductive cres := CKV (kv : option (bytes * value)) | CErr (e : option err).

(** Operations on a bucket handle. *)
Inductive bop :=
| Put (k : bytes) (v : value)
| Get (k : bytes)
| Delete (k : bytes)
| CreateBucket (n : bytes)
| CreateBucketIfNotExists (n : bytes)
| DeleteNested (n : bytes)
| Nested (n : bytes)                 (* NestedReadWriteBucket(n) != nil *)
| ForEach
| Sequence
| SetSequence (v : N)
| NextSequence
| Cursor (cs : list cop)             (* one cursor, used for this list of calls *)
| Dump.                              (* harness: recursive dump of the bucket *)

Inductive result :=
| RErr (e : option err)              (* error return; None = nil *)
| RVal (v : value)
| RBool (b : bool)
| REnts (l : list (bytes * value))
| RNum (n : N)
| RNumErr (n : N) (e : option err)
| RCur (l : list cres)
| RTree (t : bkt)
| RNoBucket.                         (* navigation to the bucket returned nil *)

(** Cursor position.  [PAt k]: on the entry named [k]; [PEnd]: after the last
    entry (a Seek beyond the end); [PNone]: never positioned. *)
Inductive pos := PNone | PAt (k : bytes) | PEnd.

Definition first_ge (k : bytes) (l : list (bytes * ent)) : option (bytes * ent) :=
  find (fun ke => negb (bltb (fst ke) k)) l.
Definition first_gt (k : bytes) (l : list (bytes * ent)) : option (bytes * ent) :=
  find (fun ke => bltb k (fst ke)) l.
Fixpoint last_opt {A} (l : list A) : option A :=
  match l with
  | [] => None
  | [x] => Some x
  | _ :: l' => last_opt l'
  end.
Definition last_lt (k : bytes) (l : list (bytes * ent)) : option (bytes * ent) :=
  last_opt (filter (fun ke => bltb (fst ke) k) l).

Definition at_ent (l : list (bytes * ent)) (ke : bytes * ent) : list (bytes * ent) * pos * cres :=
  (l, PAt (fst ke), CKV (Some (obs_ent ke))).

Definition cursor_step (w : bool) (st : list (bytes * ent) * pos) (c : cop)
  : list (bytes * ent) * pos * cres :=
  let (l, p) := st in
  match c with
  | CFirst =>
      match l with
      | [] => (l, PEnd, CKV None)
      | ke :: _ => at_ent l ke
      end
  | CLast =>
      match last_opt l with
      | None => (l, PEnd, CKV None)
      | Some ke => at_ent l ke
      end
  | CNext =>
      match p with
      | PAt k =>
          match first_gt k l with
          | Some ke => at_ent l ke
          | None => (l, p, CKV None)          (* stays on the last entry *)
          end
      | _ => (l, p, CKV None)
      end
  | CPrev =>
      match p with
      | PAt k =>
          match last_lt k l with
          | Some ke => at_ent l ke
          | None =>                             (* re-positioned on the first entry *)
              (l, match l with [] => PEnd | ke :: _ => PAt (fst ke) end, CKV None)
          end
      | PEnd =>
          match last_opt l with
          | Some ke => at_ent l ke
          | None => (l, PEnd, CKV None)
          end
      | PNone => (l, PNone, CKV None)
      end
  | CSeek k =>
      match first_ge k l with
      | Some ke => at_ent l ke
      | None => (l, PEnd, CKV None)
      end
  | CDelete =>
      if negb w then (l, p, CErr (Some ETxNotWritable)) else
      match p with
      | PAt k =>
          match ent_get k l with
          | Some (inr _) => (l, p, CErr (Some EIncompatibleValue))
          | Some (inl _) => (ent_del k l, p, CErr None)
          | None => (l, p, CErr None)
          end
      | _ => (l, p, CErr None)
      end
  end.

Fixpoint cursor_run (w : bool) (st : list (bytes * ent) * pos) (cs : list cop)
  : list (bytes * ent) * list cres :=
  match cs with
  | [] => (fst st, [])
  | c :: cs' =>
      let '(l, p, r) := cursor_step w st c in
      let (l', rs) := cursor_run w (l, p) cs' in
      (l', r :: rs)
  end.

Definition max_key_size : N := 32768.
Definition seq_modulus : N := 18446744073709551616.

(** One call on a bucket handle of a transaction with writable flag [w]. *)
Definition exec_bop (w : bool) (o : bop) (b : bkt) : bkt * result :=
  let s := bseq b in
  let l := bents b in
  match o with
  | Put k v =>
      if negb w then (b, RErr (Some ETxNotWritable))
      else match k with
           | [] => (b, RErr (Some EKeyRequired))
           | _ =>
               if max_key_size <? N.of_nat (length k) then (b, RErr (Some EKeyTooLarge))
               else match ent_get k l with
                    | Some (inr _) => (b, RErr (Some EIncompatibleValue))
                    | _ => (Bkt s (ent_set k (inl v) l), RErr None)
                    end
           end
  | Get k =>
      (b, RVal (match ent_get k l with Some (inl v) => v | _ => None end))
  | Delete k =>
      if negb w then (b, RErr (Some ETxNotWritable))
      else match ent_get k l with
           | None => (b, RErr None)
           | Some (inr _) => (b, RErr (Some EIncompatibleValue))
           | Some (inl _) => (Bkt s (ent_del k l), RErr None)
           end
  | CreateBucket n =>
      if negb w then (b, RErr (Some ETxNotWritable))
      else match n with
           | [] => (b, RErr (Some EBucketNameRequired))
           | _ =>
               match ent_get n l with
               | Some (inr _) => (b, RErr (Some EBucketExists))
               | Some (inl _) => (b, RErr (Some EIncompatibleValue))
               | None => (Bkt s (ent_set n (inr empty_bkt) l), RErr None)
               end
           end
  | CreateBucketIfNotExists n =>
      if negb w then (b, RErr (Some ETxNotWritable))
      else match n with
           | [] => (b, RErr (Some EBucketNameRequired))
           | _ =>
               match ent_get n l with
               | Some (inr _) => (b, RErr None)
               | Some (inl _) => (b, RErr (Some EIncompatibleValue))
               | None => (Bkt s (ent_set n (inr empty_bkt) l), RErr None)
               end
           end
  | DeleteNested n =>
      if negb w then (b, RErr (Some ETxNotWritable))
      else match ent_get n l with
           | None =>
               (* bbolt compares the name with the key its search stopped at;
                  in an empty bucket that key is nil, which equals the empty name *)
               match n, l with
               | [], [] => (b, RErr (Some EIncompatibleValue))
               | _, _ => (b, RErr (Some EBucketNotFound))
               end
           | Some (inl _) => (b, RErr (Some EIncompatibleValue))
           | Some (inr _) => (Bkt s (ent_del n l), RErr None)
           end
  | Nested n =>
      (b, RBool (match ent_get n l with Some (inr _) => true | _ => false end))
  | ForEach => (b, REnts (map obs_ent l))
  | Sequence => (b, RNum s)
  | SetSequence v =>
      if negb w then (b, RErr (Some EBoltTxNotWritable))
      else (Bkt v l, RErr None)
  | NextSequence =>
      if negb w then (b, RNumErr 0 (Some EBoltTxNotWritable))
      else let s' := (s + 1) mod seq_modulus in (Bkt s' l, RNumErr s' None)
  | Cursor cs =>
      let (l', rs) := cursor_run w (l, PNone) cs in (Bkt s l', RCur rs)
  | Dump => (b, RTree b)
  end.

(** An operation of a transaction body: navigate from the transaction's root to
    the bucket at [p] (each step NestedReadWriteBucket), then call [o] on it. *)
Definition op := (path * bop)%type.

Definition exec_op (w : bool) (o : op) (root : bkt) : bkt * result :=
  match at_path (fst o) root with
  | None => (root, RNoBucket)
  | Some b =>
      let (b', r) := exec_bop w (snd o) b in
      (modify (fst o) (fun _ => b') root, r)
  end.

Fixpoint run_ops (w : bool) (root : bkt) (ops : list op) : bkt * list result :=
  match ops with
  | [] => (root, [])
  | o :: ops' =>
      let (root1, r) := exec_op w o root in
      let (root2, rs) := run_ops w root1 ops' in
      (root2, r :: rs)
  end.

(** Database handle: the committed tree and whether the (single) writer lock is held. *)
Record dbstate := { committed : bkt; writer : bool }.
Definition init_db : dbstate := {| committed := empty_bkt; writer := false |}.

(** How the closure passed to Update/View ends. *)
Inductive outcome := OOk | OErr | OPanic.

(** BeginReadWriteTx: needs the writer lock ([None] = the call would block);
    the working copy starts as the committed tree. *)
Definition begin_rw (s : dbstate) : option (dbstate * bkt) :=
  if writer s then None
  else Some ({| committed := committed s; writer := true |}, committed s).
Definition commit (s : dbstate) (working : bkt) : dbstate :=
  {| committed := normalize working; writer := false |}.
Definition rollback (s : dbstate) : dbstate :=
  {| committed := committed s; writer := false |}.

(** db.Update (bdb/db.go): begin; f; error -> Rollback, return the error;
    panic -> the deferred Rollback runs and the panic continues; nil -> Commit. *)
Definition update (s : dbstate) (body : list op) (o : outcome)
  : option (dbstate * list result * outcome) :=
  match begin_rw s with
  | None => None
  | Some (s1, w0) =>
      let (w1, rs) := run_ops true w0 body in
      Some (match o with OOk => commit s1 w1 | _ => rollback s1 end, rs, o)
  end.

(** db.View: a read-only transaction on the committed tree, always rolled
    back; it does not take the writer lock. *)
Definition view (s : dbstate) (body : list op) (o : outcome)
  : dbstate * list result * outcome :=
  (s, snd (run_ops false (committed s) body), o).

(** Close and reopen of the file: identity on the committed tree (durability
    of a committed bbolt transaction is trusted, not modelled). *)
Definition reopen (s : dbstate) : dbstate := {| committed := committed s; writer := false |}.

(** Kinds of transactions the harness runs. *)
Inductive kind :=
| KUpdate (o : outcome)        (* walletdb.Update with a closure ending in o *)
| KView (o : outcome)          (* walletdb.View *)
| KManual (do_commit : bool)   (* BeginReadWriteTx ... Commit / Rollback *)
| KManualRead.                 (* BeginReadTx ... Rollback *)

Definition run_tx (s : dbstate) (k : kind) (body : list op)
  : option (dbstate * list result * outcome) :=
  match k with
  | KUpdate o => update s body o
  | KView o => Some (view s body o)
  | KManual c => update s body (if c then OOk else OErr)
  | KManualRead => Some (view s body OOk)
  end.

Fixpoint run_txs (s : dbstate) (txs : list (kind * list op)) : option (dbstate * list (list result)) :=
  match txs with
  | [] => Some (s, [])
  | (k, body) :: txs' =>
      match run_tx s k body with
      | None => None
      | Some (s1, rs, _) =>
          match run_txs s1 txs' with
          | None => None
          | Some (s2, rss) => Some (s2, rs :: rss)
          end
      end
  end.
