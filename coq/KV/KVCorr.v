(** Executable comparison used by the correspondence check of C11: the harness
    reports, for a sequence of transactions on a real bbolt file, every
    operation with what the implementation returned; [case_ok] replays the same
    operations on the model and compares every result, the way each managed
    call ended, and the dump of the whole tree after every step. *)
From Verif Require Import Base.Prelude KV.KV.
Local Open Scope N_scope.

Fixpoint list_eqb {A} (f : A -> A -> bool) (a b : list A) : bool :=
  match a, b with
  | [], [] => true
  | x :: a', y :: b' => f x y && list_eqb f a' b'
  | _, _ => false
  end.

Definition option_eqb {A} (f : A -> A -> bool) (a b : option A) : bool :=
  match a, b with
  | None, None => true
  | Some x, Some y => f x y
  | _, _ => false
  end.

Definition bytes_eqb : bytes -> bytes -> bool := list_eqb N.eqb.
Definition value_eqb : value -> value -> bool := option_eqb bytes_eqb.

Definition err_eqb (a b : err) : bool :=
  match a, b with
  | ETxNotWritable, ETxNotWritable | EBoltTxNotWritable, EBoltTxNotWritable
  | EBucketNotFound, EBucketNotFound | EBucketExists, EBucketExists
  | EBucketNameRequired, EBucketNameRequired | EKeyRequired, EKeyRequired
  | EKeyTooLarge, EKeyTooLarge | EIncompatibleValue, EIncompatibleValue => true
  | _, _ => false
  end.

Definition kv_eqb (a b : bytes * value) : bool :=
  bytes_eqb (fst a) (fst b) && value_eqb (snd a) (snd b).

Definition cres_eqb (a b : cres) : bool :=
  match a, b with
  | CKV x, CKV y => option_eqb kv_eqb x y
  | CErr x, CErr y => option_eqb err_eqb x y
  | _, _ => false
  end.

Fixpoint bkt_eqb (a b : bkt) : bool :=
  match a, b with
  | Bkt s l, Bkt s' l' =>
      N.eqb s s' &&
      (fix go (l l' : list (bytes * (value + bkt))) : bool :=
         match l, l' with
         | [], [] => true
         | (k, e) :: t, (k', e') :: t' =>
             bytes_eqb k k' &&
             match e, e' with
             | inl v, inl v' => value_eqb v v'
             | inr c, inr c' => bkt_eqb c c'
             | _, _ => false
             end && go t t'
         | _, _ => false
         end) l l'
  end.

Definition result_eqb (a b : result) : bool :=
  match a, b with
  | RErr x, RErr y => option_eqb err_eqb x y
  | RVal x, RVal y => value_eqb x y
  | RBool x, RBool y => Bool.eqb x y
  | REnts x, REnts y => list_eqb kv_eqb x y
  | RNum x, RNum y => N.eqb x y
  | RNumErr x e, RNumErr y e' => N.eqb x y && option_eqb err_eqb e e'
  | RCur x, RCur y => list_eqb cres_eqb x y
  | RTree x, RTree y => bkt_eqb x y
  | RNoBucket, RNoBucket => true
  | _, _ => false
  end.

Definition outcome_eqb (a b : outcome) : bool :=
  match a, b with
  | OOk, OOk | OErr, OErr | OPanic, OPanic => true
  | _, _ => false
  end.

(** One step of a case.  [ret] = how the managed call ended as observed
    ([Some OOk]: returned nil, [Some OErr]: returned the closure's own error,
    [Some OPanic]: the closure's panic value came out; [None]: anything else);
    [post] = dump of the whole tree by a fresh read transaction afterwards. *)
Inductive step :=
| STx (k : kind) (ops : list (op * result)) (ret : option outcome) (post : bkt)
| SReopen (post : bkt)
| SOverlap (before : list (op * result))
           (k : kind) (ops : list (op * result)) (ret : option outcome)
           (after : list (op * result)) (post : bkt).

Definition results_ok (model : list result) (observed : list (op * result)) : bool :=
  list_eqb result_eqb model (map snd observed).

Definition tx_ok (s : dbstate) (k : kind) (ops : list (op * result)) (ret : option outcome)
  : option dbstate :=
  match run_tx s k (map fst ops) with
  | None => None
  | Some (s', rs, o) =>
      if results_ok rs ops && option_eqb outcome_eqb ret (Some o) then Some s' else None
  end.

Definition step_ok (s : dbstate) (st : step) : option dbstate :=
  match st with
  | STx k ops ret post =>
      match tx_ok s k ops ret with
      | Some s' => if bkt_eqb (committed s') post then Some s' else None
      | None => None
      end
  | SReopen post =>
      let s' := reopen s in if bkt_eqb (committed s') post then Some s' else None
  | SOverlap before k ops ret after post =>
      (* a read transaction opened before the inner transaction and closed
         after it reads its own snapshot throughout *)
      let snap := committed s in
      if results_ok (snd (run_ops false snap (map fst before))) before then
        match tx_ok s k ops ret with
        | Some s' =>
            if results_ok (snd (run_ops false snap (map fst after))) after
               && bkt_eqb (committed s') post
            then Some s' else None
        | None => None
        end
      else None
  end.

Fixpoint steps_ok (s : dbstate) (l : list step) : bool :=
  match l with
  | [] => true
  | st :: l' => match step_ok s st with Some s' => steps_ok s' l' | None => false end
  end.

Definition case_ok (c : list step) : bool := steps_ok init_db c.

Fixpoint mismatches_from {A} (f : A -> bool) (i : nat) (l : list A) : list nat :=
  match l with
  | [] => []
  | c :: l' => if f c then mismatches_from f (S i) l' else i :: mismatches_from f (S i) l'
  end.

Definition mismatches := mismatches_from case_ok 0.
