(** Executable comparison used by the correspondence check of C11: the harness
    reports, for a sequence of transactions on a real bbolt file, every
    operation with what the implementation returned; [case_verdict] replays the
    same operations on the model - with the control-flow skeleton of the managed
    calls regenerated from the repository (Generated/TxFlow.v) - and compares
    every result, the way each managed call ended, the number of read
    transactions left open and the dump of the whole tree after every step.

    Two comparisons are made in one pass.  [sim] is what decides: it compares
    everything the theorems of Properties/C11.v speak about.  [exact]
    additionally demands bbolt's own corner behaviours the property is silent
    about (the error class of DeleteNestedBucket for a name that is not bound /
    for the empty name, the error class and number of NextSequence / SetSequence
    on a read-only transaction, where a cursor stands after Next or Prev ran off
    the end); a case that is [sim] but not [exact] is counted as drift in the
    evidence and raises nothing. *)
From Coq Require Import Uint63.
From Verif Require Import Base.Prelude KV.KV Generated.TxFlow.
Local Open Scope N_scope.

(** Byte strings of the generated cases files are written as 63-bit machine
    integers, seven bytes each (most significant first, the last word padded):
    such literals are read natively, while every [N] numeral goes through the
    number notation.  Used by the cases files only. *)
Fixpoint bytes_of_N (k : nat) (n : N) (acc : bytes) : bytes :=
  match k with
  | O => acc
  | S k' => bytes_of_N k' (n / 256) ((n mod 256) :: acc)
  end.
Definition word_bytes (w : int) : bytes := bytes_of_N 7 (Z.to_N (Uint63.to_Z w)) [].
Definition bx (len : int) (ws : list int) : bytes :=
  firstn (Z.to_nat (Uint63.to_Z len)) (flat_map word_bytes ws).

Fixpoint list_eqb {A} (f : A -> A -> bool) (a b : list A) : bool :=
  match a, b with
  | [], [] => true
  | x :: a', y :: b' => f x y && list_eqb f a' b'
  | _, _ => false
  end.

Definition option_eqb {A} (f : A -> A -> bool) (a b : option A) : bool :=
  match a, b with
  | None, None => true
  | Some x, Some y => f x y
  | _, _ => false
  end.

Definition bytes_eqb : bytes -> bytes -> bool := list_eqb N.eqb.
Definition value_eqb : value -> value -> bool := option_eqb bytes_eqb.

Definition err_eqb (a b : err) : bool :=
  match a, b with
  | ETxNotWritable, ETxNotWritable | EBoltTxNotWritable, EBoltTxNotWritable
  | EBucketNotFound, EBucketNotFound | EBucketExists, EBucketExists
  | EBucketNameRequired, EBucketNameRequired | EKeyRequired, EKeyRequired
  | EKeyTooLarge, EKeyTooLarge | EIncompatibleValue, EIncompatibleValue => true
  | _, _ => false
  end.

Definition kv_eqb (a b : bytes * value) : bool :=
  bytes_eqb (fst a) (fst b) && value_eqb (snd a) (snd b).

Definition cres_eqb (a b : cres) : bool :=
  match a, b with
  | CKV x, CKV y => option_eqb kv_eqb x y
  | CErr x, CErr y => option_eqb err_eqb x y
  | _, _ => false
  end.

Fixpoint bkt_eqb (a b : bkt) : bool :=
  match a, b with
  | Bkt s l, Bkt s' l' =>
      N.eqb s s' &&
      (fix go (l l' : list (bytes * (value + bkt))) : bool :=
         match l, l' with
         | [], [] => true
         | (k, e) :: t, (k', e') :: t' =>
             bytes_eqb k k' &&
             match e, e' with
             | inl v, inl v' => value_eqb v v'
             | inr c, inr c' => bkt_eqb c c'
             | _, _ => false
             end && go t t'
         | _, _ => false
         end) l l'
  end.

Definition result_eqb (a b : result) : bool :=
  match a, b with
  | RErr x, RErr y => option_eqb err_eqb x y
  | RVal x, RVal y => value_eqb x y
  | RBool x, RBool y => Bool.eqb x y
  | REnts x, REnts y => list_eqb kv_eqb x y
  | RNum x, RNum y => N.eqb x y
  | RNumErr x e, RNumErr y e' => N.eqb x y && option_eqb err_eqb e e'
  | RCur x, RCur y => list_eqb cres_eqb x y
  | RTree x, RTree y => bkt_eqb x y
  | RNoBucket, RNoBucket => true
  | _, _ => false
  end.

Definition outcome_eqb (a b : outcome) : bool :=
  match a, b with
  | OOk, OOk | OErr, OErr | OPanic, OPanic => true
  | _, _ => false
  end.

(** ** The deciding comparison *)

Definition is_some {A} (x : option A) : bool := match x with Some _ => true | None => false end.

(** Cursor results.  After a relative move (Next / Prev) returned nil the
    position of a bbolt cursor is not specified by anything the property says:
    until the next absolute move (First / Last / Seek) only the shape of what
    comes back is compared. *)
Fixpoint cur_sim (loose : bool) (cs : list cop) (model observed : list cres) : bool :=
  match cs, model, observed with
  | [], [], [] => true
  | c :: cs', m :: model', o :: observed' =>
      match c with
      | CFirst | CLast | CSeek _ => cres_eqb m o && cur_sim false cs' model' observed'
      | CNext | CPrev =>
          (if loose then match o with CKV _ => true | CErr _ => false end else cres_eqb m o)
          && cur_sim (loose || match m with CKV None => true | _ => false end) cs' model' observed'
      | CDelete =>
          (if loose then match o with CErr _ => true | CKV _ => false end else cres_eqb m o)
          && cur_sim loose cs' model' observed'
      end
  | _, _, _ => false
  end.

Definition result_sim (o : bop) (model observed : result) : bool :=
  match o, model, observed with
  (* bbolt answers by the key its search stopped at *)
  | DeleteNested _, RErr (Some EBucketNotFound), RErr (Some _) => true
  | DeleteNested [], RErr (Some _), RErr (Some _) => true
  (* bdb hands out bbolt's own error value here *)
  | _, RErr (Some EBoltTxNotWritable), RErr (Some _) => true
  | _, RNumErr _ (Some EBoltTxNotWritable), RNumErr _ (Some _) => true
  | Cursor cs, RCur m, RCur x => cur_sim false cs m x
  | _, _, _ => result_eqb model observed
  end.

(** verdict = (sim, exact) *)
Definition verdict := (bool * bool)%type.
Definition vand (a b : verdict) : verdict := (fst a && fst b, snd a && snd b).
Definition vbool (b : bool) : verdict := (b, b).

Fixpoint results_ok (model : list result) (observed : list (op * result)) : verdict :=
  match model, observed with
  | [], [] => (true, true)
  | m :: model', (o, x) :: observed' =>
      vand (result_sim (snd o) m x, result_eqb m x) (results_ok model' observed')
  | _, _ => (false, false)
  end.

(** One step of a case.  [ret] = how the managed call ended as observed
    ([Some OOk]: returned nil, [Some OErr]: returned the closure's own error,
    [Some OPanic]: the closure's panic value came out; [None]: anything else);
    [post] = dump of the whole tree by a fresh read transaction afterwards;
    [open] = read transactions open afterwards (bbolt's OpenTxN). *)
Definition ccall := (outcome * list (op * result) * option outcome)%type.

Inductive step :=
| STx (k : kind) (ops : list (op * result)) (ret : option outcome) (post : bkt) (open : N)
| SReopen (post : option bkt)          (* None: Close did not return *)
| SOverlap (before : list (op * result))
           (k : kind) (ops : list (op * result)) (ret : option outcome)
           (after : list (op * result)) (post : bkt) (open : N)
| SConc (batch : bool) (calls : list ccall) (order : list nat) (post : bkt) (open : N).

(** the state after the step and whether everything matched exactly; [None]:
    the deciding comparison failed *)
Definition tx_ok (fl : flows) (s : dbstate) (k : kind) (ops : list (op * result)) (ret : option outcome)
  : option (dbstate * bool) :=
  match run_tx fl s k (map fst ops) with
  | None => None
  | Some (s', rs, r) =>
      let v := results_ok rs ops in
      if fst v && option_eqb outcome_eqb ret r then Some (s', snd v) else None
  end.

Definition after_ok (s' : dbstate) (post : bkt) (open : N) : bool :=
  bkt_eqb (committed s') post && N.eqb (readers s') open.

(** concurrent callers: [order] lists the calls in the serial order observed *)
Fixpoint nodupb (l : list nat) : bool :=
  match l with
  | [] => true
  | x :: l' => negb (existsb (Nat.eqb x) l') && nodupb l'
  end.
Definition is_perm (order : list nat) (n : nat) : bool :=
  Nat.eqb (length order) n && forallb (fun i => Nat.ltb i n) order && nodupb order.

Definition conc_kind (b : bool) (o : outcome) : kind := if b then KBatch o 0 else KUpdate o.

Fixpoint conc_fold (fl : flows) (b : bool) (s : dbstate) (calls : list ccall) (order : list nat) (ex : bool)
  : option (dbstate * bool) :=
  match order with
  | [] => Some (s, ex)
  | i :: order' =>
      match nth_error calls i with
      | Some (o, ops, ret) =>
          match tx_ok fl s (conc_kind b o) ops ret with
          | Some (s', e) => conc_fold fl b s' calls order' (ex && e)
          | None => None
          end
      | None => None
      end
  end.

Definition job_of (c : ccall) : job := Job (map fst (snd (fst c))) (fst (fst c)).

(** the scheduler model on the schedule "one call after the other", and the
    serial run, must end in the same tree with the same results *)
Definition thread_ok (c : cstate) (i : nat) (call : ccall) : bool :=
  match c_thr c i with
  | TDone rs ret => fst (results_ok rs (snd (fst call))) && option_eqb outcome_eqb (snd call) ret
  | _ => false
  end.

Fixpoint threads_ok (c : cstate) (i : nat) (calls : list ccall) : bool :=
  match calls with
  | [] => true
  | call :: calls' => thread_ok c i call && threads_ok c (S i) calls'
  end.

Definition conc_ok (fl : flows) (s : dbstate) (b : bool) (calls : list ccall) (order : list nat)
           (post : bkt) (open : N) : option (dbstate * bool) :=
  if is_perm order (length calls) then
    match conc_fold fl b s calls order true with
    | Some (s', ex) =>
        let f := if b then fl_batch fl else fl_update fl in
        let jobs := map job_of calls in
        match run_sched f jobs (cinit s) (serial_schedule jobs order), run_serial f jobs s order with
        | Some c, Some (s2, _) =>
            if after_ok s' post open && bkt_eqb (committed (c_db c)) post && threads_ok c 0 calls
               && bkt_eqb (committed s2) post
            then Some (s', ex) else None
        | _, _ => None
        end
    | None => None
    end
  else None.

Definition step_ok (fl : flows) (s : dbstate) (st : step) : option (dbstate * bool) :=
  match st with
  | STx k ops ret post open =>
      match tx_ok fl s k ops ret with
      | Some (s', e) => if after_ok s' post open then Some (s', e) else None
      | None => None
      end
  | SReopen post =>
      match reopen s, post with
      | Some s', Some p => if bkt_eqb (committed s') p then Some (s', true) else None
      | None, None => Some (s, true)
      | _, _ => None
      end
  | SOverlap before k ops ret after post open =>
      (* a read transaction opened before the inner transaction and closed
         after it reads its own snapshot throughout *)
      let snap := committed s in
      let vb := results_ok (snd (run_ops false snap (map fst before))) before in
      if fst vb then
        match tx_ok fl s k ops ret with
        | Some (s', e) =>
            let va := results_ok (snd (run_ops false snap (map fst after))) after in
            if fst va && after_ok s' post open
            then Some (s', snd vb && e && snd va) else None
        | None => None
        end
      else None
  | SConc b calls order post open => conc_ok fl s b calls order post open
  end.

Fixpoint steps_ok (fl : flows) (s : dbstate) (l : list step) (ex : bool) : verdict :=
  match l with
  | [] => (true, ex)
  | st :: l' =>
      match step_ok fl s st with
      | Some (s', e) => steps_ok fl s' l' (ex && e)
      | None => (false, false)
      end
  end.

(** the skeleton of the code, as regenerated from the repository *)
Definition case_verdict (c : list step) : verdict := steps_ok code_flows init_db c true.
Definition case_ok (c : list step) : bool := fst (case_verdict c).

Fixpoint indices_from {A} (f : A -> bool) (i : nat) (l : list A) : list nat :=
  match l with
  | [] => []
  | c :: l' => if f c then i :: indices_from f (S i) l' else indices_from f (S i) l'
  end.

(** cases on which implementation and model differ / agree up to drift *)
Definition judge (cases : list (list step)) : list nat * list nat :=
  let vs := map case_verdict cases in
  (indices_from (fun v : verdict => negb (fst v)) 0 vs,
   indices_from (fun v : verdict => fst v && negb (snd v)) 0 vs).

Definition mismatches (cases : list (list step)) : list nat := fst (judge cases).
