(** Proofs about the walletdb/bbolt model (KV/KV.v) - property C11. *)
From Verif Require Import Base.Prelude KV.KV.
Local Open Scope N_scope.

(* ------------------------------------------------------------------ *)
(** * Byte-string order *)

Lemma bcmp_refl a : bcmp a a = Eq.
Proof. induction a as [|x a IH]; simpl; [reflexivity|]. rewrite N.compare_refl. exact IH. Qed.

Lemma bcmp_eq a b : bcmp a b = Eq -> a = b.
Proof.
  revert b. induction a as [|x a IH]; intros [|y b]; simpl; try discriminate; [reflexivity|].
  destruct (N.compare x y) eqn:E; try discriminate.
  apply N.compare_eq in E. intros H. f_equal; [exact E|apply IH; exact H].
Qed.

Lemma bcmp_antisym a b : bcmp b a = CompOpp (bcmp a b).
Proof.
  revert b. induction a as [|x a IH]; intros [|y b]; simpl; try reflexivity.
  rewrite (N.compare_antisym x y). destruct (N.compare x y); simpl; auto.
Qed.

Lemma bcmp_lt_trans a b c : bcmp a b = Lt -> bcmp b c = Lt -> bcmp a c = Lt.
Proof.
  revert b c. induction a as [|x a IH]; intros [|y b] [|z c]; simpl; try discriminate; auto.
  destruct (N.compare x y) eqn:E1; try discriminate.
  - apply N.compare_eq in E1. subst y.
    destruct (N.compare x z) eqn:E2; try discriminate; auto. apply IH.
  - destruct (N.compare y z) eqn:E2; try discriminate.
    + apply N.compare_eq in E2. subst z. rewrite E1. auto.
    + intros _ _. rewrite N.compare_lt_iff in *.
      assert (x < z) as H by lia. apply N.compare_lt_iff in H. rewrite H. reflexivity.
Qed.

Lemma beqb_true a b : beqb a b = true <-> a = b.
Proof.
  unfold beqb. split.
  - destruct (bcmp a b) eqn:E; try discriminate. intros _. apply bcmp_eq. exact E.
  - intros ->. rewrite bcmp_refl. reflexivity.
Qed.

Lemma beqb_refl a : beqb a a = true.
Proof. apply beqb_true. reflexivity. Qed.

Lemma beqb_false a b : beqb a b = false <-> a <> b.
Proof.
  split.
  - intros H E. apply beqb_true in E. congruence.
  - intros H. destruct (beqb a b) eqn:E; [|reflexivity]. apply beqb_true in E. contradiction.
Qed.

Lemma beqb_sym a b : beqb a b = beqb b a.
Proof.
  destruct (beqb b a) eqn:E.
  - apply beqb_true in E. subst. apply beqb_refl.
  - apply beqb_false in E. apply beqb_false. congruence.
Qed.

Lemma bltb_irrefl a : bltb a a = false.
Proof. unfold bltb. rewrite bcmp_refl. reflexivity. Qed.

Lemma bltb_lt a b : bltb a b = true <-> bcmp a b = Lt.
Proof. unfold bltb. destruct (bcmp a b); split; congruence. Qed.

Lemma bltb_asym a b : bltb a b = true -> bltb b a = false.
Proof. unfold bltb. rewrite (bcmp_antisym a b). destruct (bcmp a b); simpl; congruence. Qed.

Lemma bltb_trans a b c : bltb a b = true -> bltb b c = true -> bltb a c = true.
Proof. rewrite !bltb_lt. apply bcmp_lt_trans. Qed.

(** Totality: exactly one of a<b, a=b, b<a. *)
Lemma bltb_total a b : bltb a b = false -> bltb b a = false -> a = b.
Proof.
  unfold bltb. rewrite (bcmp_antisym a b). destruct (bcmp a b) eqn:E; simpl; try discriminate.
  intros _ _. apply bcmp_eq. exact E.
Qed.

Lemma bltb_neq a b : bltb a b = true -> a <> b.
Proof. intros H ->. rewrite bltb_irrefl in H. discriminate. Qed.

(* ------------------------------------------------------------------ *)
(** * Sorted association lists *)

Definition blt (a b : bytes) : Prop := bcmp a b = Lt.
Definition sorted_keys (ks : list bytes) : Prop := StronglySorted blt ks.
Definition sorted_ents {E} (l : list (bytes * E)) : Prop := sorted_keys (map fst l).

Section Ents.
  Context {E : Type}.
  Implicit Types (l : list (bytes * E)) (k : bytes) (e : E).

  Lemma get_replace_same k e l : ent_get k l <> None -> ent_get k (ent_replace k e l) = Some e.
  Proof.
    induction l as [|[k' e'] l IH]; simpl; [congruence|].
    destruct (beqb k k') eqn:B; simpl.
    - rewrite beqb_refl. reflexivity.
    - rewrite B. exact IH.
  Qed.

  Lemma get_replace_other k k' e l : k <> k' -> ent_get k' (ent_replace k e l) = ent_get k' l.
  Proof.
    intros N. induction l as [|[k1 e1] l IH]; simpl; [reflexivity|].
    destruct (beqb k k1) eqn:B; simpl.
    - apply beqb_true in B. subst k1.
      assert (beqb k' k = false) as -> by (apply beqb_false; congruence). reflexivity.
    - destruct (beqb k' k1); [reflexivity|exact IH].
  Qed.

  Lemma get_insert_same k e l : ent_get k l = None -> ent_get k (ent_insert k e l) = Some e.
  Proof.
    induction l as [|[k' e'] l IH]; simpl.
    - rewrite beqb_refl. reflexivity.
    - destruct (beqb k k') eqn:B; [discriminate|]. intros H.
      destruct (bltb k k'); simpl.
      + rewrite beqb_refl. reflexivity.
      + rewrite B. apply IH. exact H.
  Qed.

  Lemma get_insert_other k k' e l : k <> k' -> ent_get k' (ent_insert k e l) = ent_get k' l.
  Proof.
    intros N. induction l as [|[k1 e1] l IH]; simpl.
    - assert (beqb k' k = false) as -> by (apply beqb_false; congruence). reflexivity.
    - destruct (bltb k k1); simpl.
      + assert (beqb k' k = false) as -> by (apply beqb_false; congruence). reflexivity.
      + destruct (beqb k' k1); [reflexivity|exact IH].
  Qed.

  Lemma get_set_same k e l : ent_get k (ent_set k e l) = Some e.
  Proof.
    unfold ent_set. destruct (ent_get k l) eqn:G.
    - apply get_replace_same. congruence.
    - apply get_insert_same. exact G.
  Qed.

  Lemma get_set_other k k' e l : k <> k' -> ent_get k' (ent_set k e l) = ent_get k' l.
  Proof.
    intros N. unfold ent_set. destruct (ent_get k l).
    - apply get_replace_other. exact N.
    - apply get_insert_other. exact N.
  Qed.

  Lemma get_del_same k l : ent_get k (ent_del k l) = None.
  Proof.
    unfold ent_del. induction l as [|[k' e'] l IH]; simpl; [reflexivity|].
    destruct (beqb k k') eqn:B; simpl; [exact IH|]. rewrite B. exact IH.
  Qed.

  Lemma get_del_other k k' l : k <> k' -> ent_get k' (ent_del k l) = ent_get k' l.
  Proof.
    intros N. unfold ent_del. induction l as [|[k1 e1] l IH]; simpl; [reflexivity|].
    destruct (beqb k k1) eqn:B; simpl.
    - apply beqb_true in B. subst k1.
      assert (beqb k' k = false) as -> by (apply beqb_false; congruence). exact IH.
    - destruct (beqb k' k1); [reflexivity|exact IH].
  Qed.

  Lemma replace_same_id k e l : ent_get k l = Some e -> ent_replace k e l = l.
  Proof.
    induction l as [|[k' e'] l IH]; simpl; [reflexivity|].
    destruct (beqb k k') eqn:B.
    - apply beqb_true in B. subst k'. intros [= ->]. reflexivity.
    - intros H. f_equal. apply IH. exact H.
  Qed.

  Lemma set_same_id k e l : ent_get k l = Some e -> ent_set k e l = l.
  Proof. intros H. unfold ent_set. rewrite H. apply replace_same_id. exact H. Qed.

  Lemma set_set k e e' l : ent_set k e (ent_set k e' l) = ent_set k e l.
  Proof.
    unfold ent_set at 1. rewrite get_set_same. unfold ent_set.
    destruct (ent_get k l) eqn:G.
    - clear G. induction l as [|[k1 e1] l IH]; simpl; [reflexivity|].
      destruct (beqb k k1) eqn:B; simpl.
      + rewrite beqb_refl. reflexivity.
      + rewrite B. f_equal. exact IH.
    - induction l as [|[k1 e1] l IH]; simpl.
      + rewrite beqb_refl. reflexivity.
      + simpl in G. destruct (beqb k k1) eqn:B; [discriminate|].
        destruct (bltb k k1); simpl.
        * rewrite beqb_refl. reflexivity.
        * rewrite B. f_equal. apply IH. exact G.
  Qed.

  Lemma map_fst_replace k e l : ent_get k l <> None -> map fst (ent_replace k e l) = map fst l.
  Proof.
    induction l as [|[k1 e1] l IH]; simpl; [reflexivity|].
    destruct (beqb k k1) eqn:B; simpl.
    - apply beqb_true in B. subst. reflexivity.
    - intros H. f_equal. apply IH. exact H.
  Qed.

  Lemma get_in k e l : ent_get k l = Some e -> In (k, e) l.
  Proof.
    induction l as [|[k1 e1] l IH]; simpl; [discriminate|].
    destruct (beqb k k1) eqn:B.
    - apply beqb_true in B. subst. intros [= ->]. left. reflexivity.
    - intros H. right. apply IH. exact H.
  Qed.

  Lemma get_none_notin k l : ent_get k l = None -> ~ In k (map fst l).
  Proof.
    induction l as [|[k1 e1] l IH]; simpl; [tauto|].
    destruct (beqb k k1) eqn:B; [discriminate|].
    intros H [H1|H1].
    - subst. rewrite beqb_refl in B. discriminate.
    - apply IH; assumption.
  Qed.

  Lemma sorted_insert k e l :
    sorted_ents l -> ent_get k l = None -> sorted_ents (ent_insert k e l).
  Proof.
    unfold sorted_ents, sorted_keys.
    induction l as [|[k1 e1] l IH]; simpl; intros S G.
    - constructor; constructor.
    - destruct (beqb k k1) eqn:B; [discriminate|].
      inversion S as [|? ? S1 F1]; subst.
      destruct (bltb k k1) eqn:L; simpl.
      + constructor; [exact S|]. constructor.
        * apply bltb_lt. exact L.
        * rewrite Forall_forall in *. intros x Hx. apply bltb_lt.
          apply (bltb_trans _ k1); [exact L|]. apply bltb_lt. apply F1. exact Hx.
      + constructor; [apply IH; assumption|].
        assert (blt k1 k) as K1.
        { apply bltb_lt. destruct (bltb k1 k) eqn:L2; [reflexivity|].
          exfalso. apply beqb_false in B. apply B. apply bltb_total; assumption. }
        clear IH S. induction l as [|[k2 e2] l IH2]; simpl.
        * constructor; [exact K1|constructor].
        * inversion F1; subst. simpl in G. destruct (beqb k k2); [discriminate|].
          inversion S1; subst.
          destruct (bltb k k2); simpl.
          -- constructor; [exact K1|]. constructor; assumption.
          -- constructor; [assumption|]. apply IH2; assumption.
  Qed.

  Lemma sorted_set k e l : sorted_ents l -> sorted_ents (ent_set k e l).
  Proof.
    intros S. unfold ent_set. destruct (ent_get k l) eqn:G.
    - unfold sorted_ents. rewrite map_fst_replace; [exact S|congruence].
    - apply sorted_insert; assumption.
  Qed.

  Lemma sorted_filter (f : bytes * E -> bool) l : sorted_ents l -> sorted_ents (filter f l).
  Proof.
    unfold sorted_ents, sorted_keys.
    induction l as [|ke l IH]; simpl; intros S; [exact S|].
    inversion S as [|? ? S1 F1]; subst.
    destruct (f ke); simpl; [|apply IH; exact S1].
    constructor; [apply IH; exact S1|].
    rewrite Forall_forall in *. intros x Hx. apply F1.
    apply in_map_iff in Hx. destruct Hx as [y [<- Hy]]. apply filter_In in Hy.
    apply in_map. tauto.
  Qed.

  Lemma sorted_del k l : sorted_ents l -> sorted_ents (ent_del k l).
  Proof. apply sorted_filter. Qed.

  Lemma get_del_sub k n e l : ent_get n (ent_del k l) = Some e -> ent_get n l = Some e.
  Proof.
    destruct (beqb k n) eqn:B.
    - apply beqb_true in B. subst. rewrite get_del_same. discriminate.
    - apply beqb_false in B. rewrite get_del_other by exact B. auto.
  Qed.
End Ents.

Lemma get_map {E F} (g : E -> F) k (l : list (bytes * E)) :
  ent_get k (map (fun ke => (fst ke, g (snd ke))) l) = option_map g (ent_get k l).
Proof.
  induction l as [|[k1 e1] l IH]; simpl; [reflexivity|].
  destruct (beqb k k1); [reflexivity|exact IH].
Qed.

Lemma map_fst_map {E F} (g : E -> F) (l : list (bytes * E)) :
  map fst (map (fun ke => (fst ke, g (snd ke))) l) = map fst l.
Proof. rewrite map_map. simpl. reflexivity. Qed.

(* ------------------------------------------------------------------ *)
(** * Navigation *)

Definition prefix (p q : path) : Prop := exists r, q = p ++ r.

Lemma prefix_cons n p q : prefix (n :: p) (n :: q) <-> prefix p q.
Proof.
  split; intros [r H]; exists r.
  - simpl in H. congruence.
  - simpl. congruence.
Qed.

Lemma prefix_app_not p r q : ~ prefix p q -> ~ prefix (p ++ r) q.
Proof. intros N [r' H]. apply N. exists (r ++ r'). rewrite H, app_assoc. reflexivity. Qed.

Lemma at_path_app p r b :
  at_path (p ++ r) b = match at_path p b with Some c => at_path r c | None => None end.
Proof.
  revert b. induction p as [|n p IH]; intros b; simpl; [reflexivity|].
  destruct (ent_get n (bents b)) as [[v|c]|]; auto.
Qed.

(** (A) below the modified bucket: what is found is found in the new bucket. *)
Lemma at_path_modify_below p f r b :
  at_path (p ++ r) (modify p f b) =
  match at_path p b with Some c => at_path r (f c) | None => at_path (p ++ r) b end.
Proof.
  revert b. induction p as [|n p IH]; intros b; simpl; [reflexivity|].
  destruct (ent_get n (bents b)) as [[v|c]|] eqn:G; simpl; rewrite ?G; auto.
  rewrite get_set_same. apply IH.
Qed.

Lemma shallow_set_sub n c c' s l :
  ent_get n l = Some (inr c) -> shallow (Bkt s (ent_set n (inr c') l)) = shallow (Bkt s l).
Proof.
  intros G. unfold shallow. simpl. f_equal.
  unfold ent_set. rewrite G.
  induction l as [|[k1 e1] l IH]; simpl; [reflexivity|].
  simpl in G. destruct (beqb n k1) eqn:B.
  - apply beqb_true in B. subst k1. injection G as ->. reflexivity.
  - simpl. f_equal. apply IH. exact G.
Qed.

(** (B) outside the modified bucket's subtree: own content of every bucket unchanged. *)
Lemma at_path_modify_outside p f q b :
  ~ prefix p q ->
  option_map shallow (at_path q (modify p f b)) = option_map shallow (at_path q b).
Proof.
  revert q b. induction p as [|n p IH]; intros q b N.
  - exfalso. apply N. exists q. reflexivity.
  - simpl. destruct (ent_get n (bents b)) as [[v|c]|] eqn:G; try reflexivity.
    destruct q as [|m q]; simpl.
    + f_equal. destruct b as [s l]. simpl in *. eapply shallow_set_sub. exact G.
    + destruct (beqb n m) eqn:B.
      * apply beqb_true in B. subst m. rewrite get_set_same, G.
        apply IH. intros H. apply N. apply prefix_cons. exact H.
      * apply beqb_false in B. rewrite get_set_other by exact B. reflexivity.
Qed.

(** (B1) incomparable paths: the whole subtree is unchanged. *)
Lemma at_path_modify_incomparable p f q b :
  ~ prefix p q -> ~ prefix q p -> at_path q (modify p f b) = at_path q b.
Proof.
  revert q b. induction p as [|n p IH]; intros q b N1 N2.
  - exfalso. apply N1. exists q. reflexivity.
  - simpl. destruct (ent_get n (bents b)) as [[v|c]|] eqn:G; try reflexivity.
    destruct q as [|m q]; simpl.
    + exfalso. apply N2. exists (n :: p). reflexivity.
    + destruct (beqb n m) eqn:B.
      * apply beqb_true in B. subst m. rewrite get_set_same, G.
        apply IH; intros H; [apply N1|apply N2]; apply prefix_cons; exact H.
      * apply beqb_false in B. rewrite get_set_other by exact B. reflexivity.
Qed.

Lemma modify_id p b c : at_path p b = Some c -> modify p (fun _ => c) b = b.
Proof.
  revert b. induction p as [|n p IH]; intros b; simpl.
  - congruence.
  - destruct (ent_get n (bents b)) as [[v|c']|] eqn:G; try reflexivity.
    intros H. rewrite (IH _ H). destruct b as [s l]. simpl in *. f_equal.
    apply set_same_id. exact G.
Qed.

Lemma modify_none p f b : at_path p b = None -> modify p f b = b.
Proof.
  revert b. induction p as [|n p IH]; intros b; simpl; [discriminate|].
  destruct (ent_get n (bents b)) as [[v|c']|] eqn:G; try reflexivity.
  intros H. rewrite (IH _ H). destruct b as [s l]. simpl in *. f_equal.
  apply set_same_id. exact G.
Qed.

Lemma at_path_modify_same p f b :
  at_path p (modify p f b) = option_map f (at_path p b).
Proof.
  pose proof (at_path_modify_below p f [] b) as H. rewrite app_nil_r in H. rewrite H.
  destruct (at_path p b); reflexivity.
Qed.

(* ------------------------------------------------------------------ *)
(** * Cursor: effect on the entries *)

Definition is_cdelete (c : cop) : bool := match c with CDelete => true | _ => false end.
Definition has_cdelete (cs : list cop) : bool := existsb is_cdelete cs.

Lemma cursor_step_effect w l p c l1 p1 r :
  cursor_step w (l, p) c = (l1, p1, r) ->
  l1 = l \/ (w = true /\ c = CDelete /\ exists k v, ent_get k l = Some (inl v) /\ l1 = ent_del k l).
Proof.
  unfold cursor_step, at_ent. intros H.
  destruct c; simpl in H;
    repeat match type of H with
           | context [match ?x with _ => _ end] => destruct x eqn:?
           end;
    inversion H; subst; auto.
  right. destruct w; [|discriminate]. repeat split; eauto.
Qed.

Lemma cursor_run_cons w st c cs :
  cursor_run w st (c :: cs) =
  let '(l, p, r) := cursor_step w st c in
  let (l', rs) := cursor_run w (l, p) cs in (l', r :: rs).
Proof. reflexivity. Qed.

Lemma cursor_run_effect w cs : forall l p l' rs,
  cursor_run w (l, p) cs = (l', rs) ->
  (forall n c, ent_get n l = Some (inr c) -> ent_get n l' = Some (inr c)) /\
  (forall n e, ent_get n l' = Some e -> ent_get n l = Some e) /\
  (sorted_ents l -> sorted_ents l') /\
  (has_cdelete cs = false \/ w = false -> l' = l).
Proof.
  induction cs as [|c cs IH]; intros l p l' rs H.
  - simpl in H. inversion H; subst. repeat split; auto.
  - rewrite cursor_run_cons in H. destruct (cursor_step w (l, p) c) as [[l1 p1] r] eqn:S.
    destruct (cursor_run w (l1, p1) cs) as [l2 rs2] eqn:R. inversion H; subst. clear H.
    destruct (IH _ _ _ _ R) as (I1 & I2 & I3 & I4).
    destruct (cursor_step_effect _ _ _ _ _ _ _ S) as [->|(W & C & k & v & G & ->)].
    + repeat split; auto. intros [D| ->]; apply I4; auto.
      simpl in D. apply orb_false_iff in D. left. tauto.
    + repeat split.
      * intros n c0 G0. apply I1.
        destruct (beqb k n) eqn:B.
        -- apply beqb_true in B. subst. congruence.
        -- apply beqb_false in B. rewrite get_del_other by exact B. exact G0.
      * intros n e G0. eapply get_del_sub. apply I2. exact G0.
      * intros S0. apply I3. apply sorted_del. exact S0.
      * subst. simpl. intros [D|D]; discriminate.
Qed.

Lemma cursor_run_ro_results cs : forall l p l' rs,
  cursor_run false (l, p) cs = (l', rs) ->
  Forall2 (fun c x => c = CDelete -> x = CErr (Some ETxNotWritable)) cs rs.
Proof.
  induction cs as [|c cs IH]; intros l p l' rs H.
  - simpl in H. inversion H. constructor.
  - rewrite cursor_run_cons in H. destruct (cursor_step false (l, p) c) as [[l1 p1] r] eqn:S.
    destruct (cursor_run false (l1, p1) cs) as [l2 rs2] eqn:R. inversion H; subst. clear H.
    constructor; [|eapply IH; exact R].
    intros ->. simpl in S. inversion S. reflexivity.
Qed.

(* ------------------------------------------------------------------ *)
(** * One call on a bucket *)

Ltac destr_match H :=
  repeat match type of H with
         | context [match ?x with _ => _ end] => destruct x eqn:?
         end.

Definition mutating (o : bop) : bool :=
  match o with
  | Put _ _ | Delete _ | CreateBucket _ | CreateBucketIfNotExists _ | DeleteNested _
  | SetSequence _ | NextSequence => true
  | Cursor cs => has_cdelete cs
  | _ => false
  end.

(** What a mutating call returns on a read-only transaction. *)
Definition not_writable_result (o : bop) (r : result) : Prop :=
  match o with
  | Put _ _ | Delete _ | CreateBucket _ | CreateBucketIfNotExists _ | DeleteNested _ =>
      r = RErr (Some ETxNotWritable)
  | SetSequence _ => r = RErr (Some EBoltTxNotWritable)
  | NextSequence => r = RNumErr 0 (Some EBoltTxNotWritable)
  | Cursor cs =>
      exists rs, r = RCur rs /\
                 Forall2 (fun c x => c = CDelete -> x = CErr (Some ETxNotWritable)) cs rs
  | _ => True
  end.

Lemma exec_bop_readonly o b b' r :
  exec_bop false o b = (b', r) -> b' = b /\ not_writable_result o r.
Proof.
  destruct b as [s l]. unfold exec_bop. intros H.
  destruct o; simpl in H; try (inversion H; subst; simpl; auto; fail).
  match type of H with context [cursor_run ?a ?b ?c] =>
    destruct (cursor_run a b c) as [l' rs] eqn:R end.
  destruct (cursor_run_effect _ _ _ _ _ _ R) as (_ & _ & _ & I4).
  assert (l' = l) as -> by (apply I4; auto).
  inversion H; subst. split; [reflexivity|]. simpl. exists rs. split; [reflexivity|].
  eapply cursor_run_ro_results. exact R.
Qed.

Definition touches_val (o : bop) (k : bytes) : bool :=
  match o with
  | Put k' _ | Delete k' => beqb k' k
  | Cursor cs => has_cdelete cs
  | _ => false
  end.

Definition kills_sub (o : bop) (n : bytes) : bool :=
  match o with DeleteNested n' => beqb n' n | _ => false end.

Ltac solve_get G :=
  simpl;
  first [ exact G
        | rewrite get_set_other; [exact G | let E := fresh in intros E; try rewrite E in *; subst; congruence]
        | rewrite get_del_other; [exact G | let E := fresh in intros E; try rewrite E in *; subst; congruence] ].

Lemma exec_bop_keeps_val w o b b' r k v :
  exec_bop w o b = (b', r) ->
  ent_get k (bents b) = Some (inl v) -> touches_val o k = false ->
  ent_get k (bents b') = Some (inl v).
Proof.
  destruct b as [s l]. unfold exec_bop. simpl. intros H G T.
  destruct o; simpl in T; destr_match H; inversion H; subst;
    try (apply beqb_false in T); try solve_get G.
  (* Cursor without delete *)
  match goal with R : cursor_run _ _ _ = _ |- _ =>
    destruct (cursor_run_effect _ _ _ _ _ _ R) as (_ & _ & _ & I4) end.
  simpl. rewrite I4 by auto. exact G.
Qed.

Lemma exec_bop_keeps_sub w o b b' r n c :
  exec_bop w o b = (b', r) ->
  ent_get n (bents b) = Some (inr c) -> kills_sub o n = false ->
  ent_get n (bents b') = Some (inr c).
Proof.
  destruct b as [s l]. unfold exec_bop. simpl. intros H G T.
  destruct o; simpl in T; destr_match H; inversion H; subst;
    try (apply beqb_false in T); try solve_get G.
  match goal with R : cursor_run _ _ _ = _ |- _ =>
    destruct (cursor_run_effect _ _ _ _ _ _ R) as (I1 & _) end.
  simpl. apply I1. exact G.
Qed.

(** Every nested bucket present after a call was present before, or is new and empty. *)
Lemma exec_bop_subs w o b b' r n c :
  exec_bop w o b = (b', r) ->
  ent_get n (bents b') = Some (inr c) ->
  ent_get n (bents b) = Some (inr c) \/ c = empty_bkt.
Proof.
  destruct b as [s l]. unfold exec_bop. simpl. intros H G.
  destruct o; destr_match H; inversion H; subst; simpl in *; auto;
    try (left; eapply get_del_sub; exact G).
  - (* Put *)
    match goal with |- context [ent_get n ?l0] =>
      match type of G with context [ent_set ?k0 _ _] =>
        destruct (beqb k0 n) eqn:B; [apply beqb_true in B; subst; rewrite get_set_same in G; discriminate|
                                     apply beqb_false in B; rewrite get_set_other in G by exact B; auto]
      end end.
  - match type of G with context [ent_set ?k0 _ _] =>
        destruct (beqb k0 n) eqn:B; [apply beqb_true in B; subst; rewrite get_set_same in G; discriminate|
                                     apply beqb_false in B; rewrite get_set_other in G by exact B; auto]
    end.
  - match type of G with context [ent_set ?k0 _ _] =>
        destruct (beqb k0 n) eqn:B; [apply beqb_true in B; subst; rewrite get_set_same in G; injection G as <-; auto|
                                     apply beqb_false in B; rewrite get_set_other in G by exact B; auto]
    end.
  - match type of G with context [ent_set ?k0 _ _] =>
        destruct (beqb k0 n) eqn:B; [apply beqb_true in B; subst; rewrite get_set_same in G; injection G as <-; auto|
                                     apply beqb_false in B; rewrite get_set_other in G by exact B; auto]
    end.
  - match goal with R : cursor_run _ _ _ = _ |- _ =>
      destruct (cursor_run_effect _ _ _ _ _ _ R) as (_ & I2 & _) end.
    left. apply I2. exact G.
Qed.

Lemma exec_bop_sorted w o b b' r :
  exec_bop w o b = (b', r) -> sorted_ents (bents b) -> sorted_ents (bents b').
Proof.
  destruct b as [s l]. unfold exec_bop. simpl. intros H S.
  destruct o; destr_match H; inversion H; subst; simpl; auto using sorted_set, sorted_del.
  match goal with R : cursor_run _ _ _ = _ |- _ =>
    destruct (cursor_run_effect _ _ _ _ _ _ R) as (_ & _ & I3 & _) end.
  auto.
Qed.

(* ------------------------------------------------------------------ *)
(** * Paths: deciding the prefix relation *)

Fixpoint strip_prefix (p q : path) : option path :=
  match p, q with
  | [], _ => Some q
  | n :: p', m :: q' => if beqb n m then strip_prefix p' q' else None
  | _ :: _, [] => None
  end.

Lemma strip_prefix_some p q r : strip_prefix p q = Some r <-> q = p ++ r.
Proof.
  revert q. induction p as [|n p IH]; intros q; simpl.
  - split; congruence.
  - destruct q as [|m q]; [split; discriminate|].
    destruct (beqb n m) eqn:B.
    + apply beqb_true in B. subst m. rewrite IH. split; congruence.
    + apply beqb_false in B. split; [discriminate|]. intros [= H _]. congruence.
Qed.

Lemma strip_prefix_none p q : strip_prefix p q = None -> ~ prefix p q.
Proof.
  intros H [r E]. apply strip_prefix_some in E. congruence.
Qed.

Lemma prefix_comparable p q l : prefix p l -> prefix q l -> prefix p q \/ prefix q p.
Proof.
  revert q l. induction p as [|n p IH]; intros q l [r1 E1] [r2 E2].
  - left. exists q. reflexivity.
  - destruct q as [|m q]; [right; exists (n :: p); reflexivity|].
    subst l. simpl in E2. injection E2 as -> E2.
    destruct (IH q (p ++ r1)) as [H|H]; [exists r1; reflexivity|exists r2; exact E2| |].
    + left. apply prefix_cons. exact H.
    + right. apply prefix_cons. exact H.
Qed.

(* ------------------------------------------------------------------ *)
(** * Well-formed trees: the entries of every reachable bucket are strictly
      ascending by name (so a name is bound once: to a value or to a bucket) *)

Definition wf (root : bkt) : Prop :=
  forall p c, at_path p root = Some c -> sorted_ents (bents c).

Lemma at_path_empty p c : at_path p empty_bkt = Some c -> p = [] /\ c = empty_bkt.
Proof. destruct p; simpl; [intros [= <-]; auto|discriminate]. Qed.

Lemma wf_empty : wf empty_bkt.
Proof.
  intros p c H. apply at_path_empty in H. destruct H as [_ ->]. constructor.
Qed.

Lemma wf_sub p b c : wf b -> at_path p b = Some c -> wf c.
Proof.
  intros W H q d Hq. apply (W (p ++ q)). rewrite at_path_app, H. exact Hq.
Qed.

Lemma exec_bop_wf w o b b' r : exec_bop w o b = (b', r) -> wf b -> wf b'.
Proof.
  intros H W p c Hp. destruct p as [|n p]; simpl in Hp.
  - injection Hp as <-. eapply exec_bop_sorted; [exact H|]. apply (W []). reflexivity.
  - destruct (ent_get n (bents b')) as [[v|c0]|] eqn:G; try discriminate.
    destruct (exec_bop_subs _ _ _ _ _ _ _ H G) as [G0| ->].
    + apply (W (n :: p)). simpl. rewrite G0. exact Hp.
    + apply at_path_empty in Hp. destruct Hp as [_ ->]. constructor.
Qed.

Lemma shallow_sorted b b' : shallow b = shallow b' -> sorted_ents (bents b) -> sorted_ents (bents b').
Proof.
  unfold shallow, sorted_ents. intros [= _ H] S.
  apply (f_equal (map fst)) in H. rewrite !map_fst_map in H. rewrite <- H. exact S.
Qed.

Lemma some_inj {A} (x y : A) : Some x = Some y -> x = y.
Proof. congruence. Qed.

Lemma exec_op_wf w o root : wf root -> wf (fst (exec_op w o root)).
Proof.
  intros W. destruct o as [p bo]. unfold exec_op. simpl.
  destruct (at_path p root) as [b|] eqn:A; [|exact W].
  destruct (exec_bop w bo b) as [b' r] eqn:X. simpl.
  intros q c Hq.
  destruct (strip_prefix p q) as [t|] eqn:SP.
  - apply strip_prefix_some in SP. subst q.
    rewrite at_path_modify_below, A in Hq.
    assert (wf b') as W' by (eapply exec_bop_wf; [exact X|eapply wf_sub; eauto]).
    apply (W' t). exact Hq.
  - apply strip_prefix_none in SP.
    pose proof (at_path_modify_outside p (fun _ => b') q root SP) as O.
    rewrite Hq in O. cbn [option_map] in O.
    destruct (at_path q root) as [c0|] eqn:A0; [|discriminate].
    cbn [option_map] in O. apply some_inj in O.
    eapply shallow_sorted; [symmetry; exact O|]. apply (W q). exact A0.
Qed.

Lemma run_ops_wf w ops : forall root, wf root -> wf (fst (run_ops w root ops)).
Proof.
  induction ops as [|o ops IH]; intros root W; simpl; [exact W|].
  pose proof (exec_op_wf w o root W) as W1.
  destruct (exec_op w o root) as [root1 r]. simpl in W1.
  specialize (IH root1 W1). destruct (run_ops w root1 ops) as [root2 rs]. exact IH.
Qed.

(* ------------------------------------------------------------------ *)
(** * Commit normalisation *)

Definition norm_ent (e : ent) : ent :=
  match e with inl v => inl (norm_val v) | inr c => inr (normalize c) end.

Lemma normalize_unfold s l :
  normalize (Bkt s l) = Bkt s (map (fun ke => (fst ke, norm_ent (snd ke))) l).
Proof.
  simpl. f_equal. apply map_ext. intros [k e]. reflexivity.
Qed.

Lemma get_normalize k b :
  ent_get k (bents (normalize b)) = option_map norm_ent (ent_get k (bents b)).
Proof. destruct b as [s l]. rewrite normalize_unfold. simpl. apply get_map. Qed.

Lemma at_path_normalize p : forall b,
  at_path p (normalize b) = option_map normalize (at_path p b).
Proof.
  induction p as [|n p IH]; intros b; simpl; [reflexivity|].
  rewrite get_normalize. destruct (ent_get n (bents b)) as [[v|c]|]; simpl; auto.
Qed.

Lemma wf_normalize b : wf b -> wf (normalize b).
Proof.
  intros W p c H. rewrite at_path_normalize in H.
  destruct (at_path p b) as [c0|] eqn:A; [|discriminate]. simpl in H. injection H as <-.
  destruct c0 as [s l]. rewrite normalize_unfold. simpl.
  unfold sorted_ents. rewrite map_fst_map. apply (W p _ A).
Qed.

(** Induction over bucket trees. *)
Section bkt_induction.
  Variable P : bkt -> Prop.
  Definition entP (ke : bytes * ent) : Prop :=
    match snd ke with inl _ => True | inr c => P c end.
  Hypothesis step : forall s l, Forall entP l -> P (Bkt s l).
  Fixpoint bkt_induction (b : bkt) : P b :=
    match b with
    | Bkt s l =>
        step s l
          ((fix go (l : list (bytes * ent)) : Forall entP l :=
              match l return Forall entP l with
              | [] => Forall_nil entP
              | ke :: l' =>
                  @Forall_cons _ entP ke l'
                    (match ke return entP ke with
                     | (k, e) =>
                         match e return entP (k, e) with
                         | inl _ => I
                         | inr c => bkt_induction c
                         end
                     end) (go l')
              end) l)
    end.
End bkt_induction.

Lemma normalize_idem b : normalize (normalize b) = normalize b.
Proof.
  induction b as [s l IH] using bkt_induction.
  rewrite !normalize_unfold. f_equal. rewrite map_map. apply map_ext_in.
  intros [k e] Hin. simpl. f_equal.
  rewrite Forall_forall in IH. specialize (IH _ Hin). unfold entP in IH. simpl in IH.
  destruct e as [v|c]; simpl.
  - destruct v; reflexivity.
  - f_equal. exact IH.
Qed.

(* ------------------------------------------------------------------ *)
(** * One operation of a transaction body *)

Lemma exec_op_readonly o root root' r :
  exec_op false o root = (root', r) ->
  root' = root /\ (r = RNoBucket \/ not_writable_result (snd o) r).
Proof.
  destruct o as [p bo]. unfold exec_op. simpl.
  destruct (at_path p root) as [b|] eqn:A.
  - destruct (exec_bop false bo b) as [b' r'] eqn:X.
    apply exec_bop_readonly in X. destruct X as [-> X].
    intros [= <- <-]. split; [apply modify_id; exact A|right; exact X].
  - intros [= <- <-]. auto.
Qed.

Lemma run_ops_readonly ops : forall root, fst (run_ops false root ops) = root.
Proof.
  induction ops as [|o ops IH]; intros root; simpl; [reflexivity|].
  destruct (exec_op false o root) as [root1 r] eqn:X.
  apply exec_op_readonly in X. destruct X as [-> _].
  specialize (IH root). destruct (run_ops false root ops). exact IH.
Qed.

(** Namespace independence. *)
Lemma exec_op_outside w o root q :
  ~ prefix (fst o) q ->
  option_map shallow (at_path q (fst (exec_op w o root))) = option_map shallow (at_path q root).
Proof.
  destruct o as [p bo]. unfold exec_op. simpl. intros N.
  destruct (at_path p root) as [b|]; [|reflexivity].
  destruct (exec_bop w bo b) as [b' r]. simpl. apply at_path_modify_outside. exact N.
Qed.

Lemma exec_op_incomparable w o root q :
  ~ prefix (fst o) q -> ~ prefix q (fst o) ->
  at_path q (fst (exec_op w o root)) = at_path q root.
Proof.
  destruct o as [p bo]. unfold exec_op. simpl. intros N1 N2.
  destruct (at_path p root) as [b|]; [|reflexivity].
  destruct (exec_bop w bo b) as [b' r]. simpl. apply at_path_modify_incomparable; assumption.
Qed.

Lemma run_ops_outside w p q ops : forall root,
  Forall (fun o => prefix p (fst o)) ops -> ~ prefix p q ->
  option_map shallow (at_path q (fst (run_ops w root ops))) = option_map shallow (at_path q root).
Proof.
  induction ops as [|o ops IH]; intros root F N; simpl; [reflexivity|].
  inversion F as [|? ? [t Ht] F']; subst.
  pose proof (exec_op_outside w o root q) as E.
  destruct (exec_op w o root) as [root1 r]. simpl in E.
  specialize (IH root1 F' N). destruct (run_ops w root1 ops) as [root2 rs]. simpl in *.
  rewrite IH. apply E. rewrite Ht. apply prefix_app_not. exact N.
Qed.

Lemma run_ops_incomparable w p q ops : forall root,
  Forall (fun o => prefix p (fst o)) ops -> ~ prefix p q -> ~ prefix q p ->
  at_path q (fst (run_ops w root ops)) = at_path q root.
Proof.
  induction ops as [|o ops IH]; intros root F N1 N2; simpl; [reflexivity|].
  inversion F as [|? ? P F']; subst.
  pose proof (exec_op_incomparable w o root q) as E.
  destruct (exec_op w o root) as [root1 r]. simpl in E.
  specialize (IH root1 F' N1 N2). destruct (run_ops w root1 ops) as [root2 rs]. simpl in *.
  rewrite IH. apply E.
  - destruct P as [t Ht]. rewrite Ht. apply prefix_app_not. exact N1.
  - intros Q. destruct (prefix_comparable p q (fst o) P Q); contradiction.
Qed.

(** Read-your-writes. *)
Definition has_val (p : path) (k : bytes) (v : value) (root : bkt) : Prop :=
  exists b, at_path p root = Some b /\ ent_get k (bents b) = Some (inl v).

Definition interferes (o : op) (p : path) (k : bytes) : bool :=
  match strip_prefix (fst o) p with
  | Some [] => touches_val (snd o) k
  | Some (n :: _) => kills_sub (snd o) n
  | None => false
  end.

Lemma put_has_val p k v root root' :
  exec_op true (p, Put k v) root = (root', RErr None) -> has_val p k v root'.
Proof.
  unfold exec_op. cbn [fst snd]. destruct (at_path p root) as [b|] eqn:A; [|discriminate].
  destruct b as [s l]. intros H.
  assert (root' = modify p (fun _ => Bkt s (ent_set k (inl v) l)) root) as ->.
  { destruct (exec_bop true (Put k v) (Bkt s l)) as [b r] eqn:X.
    injection H as H1 H2. subst root' r.
    unfold exec_bop in X. simpl in X. destr_match X; inversion X; subst; reflexivity. }
  eexists. split; [rewrite at_path_modify_same, A; reflexivity|].
  simpl. apply get_set_same.
Qed.

Lemma has_val_get w p k v root :
  has_val p k v root -> exec_op w (p, Get k) root = (root, RVal v).
Proof.
  intros [b [A G]]. unfold exec_op. simpl. rewrite A. simpl. rewrite G.
  f_equal. apply modify_id. exact A.
Qed.

Lemma shallow_get_val b b' k v :
  shallow b = shallow b' -> ent_get k (bents b) = Some (inl v) -> ent_get k (bents b') = Some (inl v).
Proof.
  unfold shallow. intros [= _ H] G.
  pose proof (get_map mark k (bents b')) as G'. rewrite <- H, get_map, G in G'. simpl in G'.
  destruct (ent_get k (bents b')) as [[v'|c]|]; simpl in G'; congruence.
Qed.

Lemma exec_op_keeps_val w o root p k v :
  has_val p k v root -> interferes o p k = false -> has_val p k v (fst (exec_op w o root)).
Proof.
  intros [b [A G]] I. destruct o as [q bo]. unfold interferes in I. unfold exec_op. simpl in *.
  destruct (at_path q root) as [bq|] eqn:AQ; [|exists b; auto].
  destruct (exec_bop w bo bq) as [bq' r] eqn:X. simpl.
  destruct (strip_prefix q p) as [t|] eqn:SP.
  - apply strip_prefix_some in SP. subst p. unfold has_val.
    rewrite at_path_modify_below, AQ. rewrite at_path_app, AQ in A.
    destruct t as [|n t]; simpl in *.
    + injection A as ->. exists bq'. split; [reflexivity|].
      eapply exec_bop_keeps_val; eauto.
    + destruct (ent_get n (bents bq)) as [[v0|c]|] eqn:GN; try discriminate.
      rewrite (exec_bop_keeps_sub _ _ _ _ _ _ _ X GN I). exists b. auto.
  - apply strip_prefix_none in SP.
    pose proof (at_path_modify_outside q (fun _ => bq') p root SP) as O.
    rewrite A in O. cbn [option_map] in O.
    destruct (at_path p (modify q (fun _ => bq') root)) as [b'|] eqn:A'; [|discriminate].
    cbn [option_map] in O. apply some_inj in O. exists b'. split; [exact A'|].
    eapply shallow_get_val; [symmetry; exact O|exact G].
Qed.

Lemma run_ops_keeps_val w ops : forall root p k v,
  has_val p k v root -> forallb (fun o => negb (interferes o p k)) ops = true ->
  has_val p k v (fst (run_ops w root ops)).
Proof.
  induction ops as [|o ops IH]; intros root p k v H F; simpl in *; [exact H|].
  apply andb_true_iff in F. destruct F as [F1 F2]. apply negb_true_iff in F1.
  pose proof (exec_op_keeps_val w o root p k v H F1) as H1.
  destruct (exec_op w o root) as [root1 r]. simpl in H1.
  specialize (IH root1 p k v H1 F2). destruct (run_ops w root1 ops). exact IH.
Qed.

(* ------------------------------------------------------------------ *)
(** * Cursor enumeration over a sorted bucket *)

Lemma sorted_split {E} (l1 : list (bytes * E)) x l2 :
  sorted_ents (l1 ++ x :: l2) ->
  Forall (fun y => blt (fst y) (fst x)) l1 /\ Forall (fun y => blt (fst x) (fst y)) l2.
Proof.
  unfold sorted_ents, sorted_keys. induction l1 as [|a l1 IH]; simpl; intros HS.
  - inversion HS as [|? ? S1 F1]; subst. split; [constructor|].
    rewrite Forall_forall in *. intros y Hy. apply F1. apply in_map. exact Hy.
  - inversion HS as [|? ? S1 F1]; subst. destruct (IH S1) as [I1 I2]. split; [|exact I2].
    constructor; [|exact I1]. rewrite Forall_forall in F1. apply F1.
    rewrite map_app. apply in_or_app. right. left. reflexivity.
Qed.

Lemma find_app_none {A} (f : A -> bool) l1 l2 :
  Forall (fun x => f x = false) l1 -> find f (l1 ++ l2) = find f l2.
Proof.
  induction 1 as [|x l1 Hx _ IH]; simpl; [reflexivity|]. rewrite Hx. exact IH.
Qed.

Lemma first_gt_split l1 k (e : ent) l2 :
  sorted_ents (l1 ++ (k, e) :: l2) ->
  first_gt k (l1 ++ (k, e) :: l2) = hd_error l2.
Proof.
  intros HS. destruct (sorted_split _ _ _ HS) as [F1 F2]. unfold first_gt.
  rewrite find_app_none.
  - simpl. rewrite bltb_irrefl. destruct l2 as [|y l2]; [reflexivity|]. simpl.
    inversion F2; subst. simpl in *.
    assert (bltb k (fst y) = true) as -> by (apply bltb_lt; assumption). reflexivity.
  - eapply Forall_impl; [|exact F1]. simpl. intros y Hy. apply bltb_asym. apply bltb_lt. exact Hy.
Qed.

Lemma last_opt_snoc {A} (l : list A) x : last_opt (l ++ [x]) = Some x.
Proof.
  induction l as [|a l IH]; simpl; [reflexivity|].
  destruct (l ++ [x]) eqn:E; [destruct l; discriminate|exact IH].
Qed.

Lemma last_lt_split l1 k (e : ent) l2 :
  sorted_ents (l1 ++ (k, e) :: l2) ->
  last_lt k (l1 ++ (k, e) :: l2) = last_opt l1.
Proof.
  intros HS. destruct (sorted_split _ _ _ HS) as [F1 F2]. unfold last_lt. f_equal.
  rewrite filter_app. simpl. rewrite bltb_irrefl.
  assert (filter (fun ke : bytes * ent => bltb (fst ke) k) l2 = []) as ->.
  { clear -F2. induction F2 as [|y l2 Hy _ IH]; simpl; [reflexivity|].
    simpl in Hy. rewrite (bltb_asym k (fst y)) by (apply bltb_lt; exact Hy). exact IH. }
  rewrite app_nil_r. clear -F1. induction F1 as [|y l1 Hy _ IH]; simpl; [reflexivity|].
  simpl in Hy. apply bltb_lt in Hy. rewrite Hy. f_equal. exact IH.
Qed.

Definition seen (ke : bytes * ent) : cres := CKV (Some (obs_ent ke)).

Lemma scan_next w l2 : forall l1 k e l,
  l = l1 ++ (k, e) :: l2 -> sorted_ents l ->
  cursor_run w (l, PAt k) (repeat CNext (S (length l2))) = (l, map seen l2 ++ [CKV None]).
Proof.
  induction l2 as [|[k' e'] l2 IH]; intros l1 k e l -> HS.
  - simpl repeat. rewrite cursor_run_cons. unfold cursor_step.
    rewrite (first_gt_split _ _ _ _ HS). simpl. reflexivity.
  - change (repeat CNext (S (length ((k', e') :: l2))))
      with (CNext :: repeat CNext (S (length l2))).
    rewrite cursor_run_cons. unfold cursor_step.
    rewrite (first_gt_split _ _ _ _ HS). simpl hd_error. unfold at_ent. simpl fst.
    rewrite (IH (l1 ++ [(k, e)]) k' e').
    + reflexivity.
    + rewrite <- app_assoc. reflexivity.
    + exact HS.
Qed.

Lemma forward_scan w l :
  sorted_ents l ->
  cursor_run w (l, PNone) (CFirst :: repeat CNext (length l)) = (l, map seen l ++ [CKV None]).
Proof.
  intros HS. destruct l as [|[k e] l2].
  - reflexivity.
  - rewrite cursor_run_cons. simpl cursor_step. unfold at_ent. simpl fst.
    rewrite (scan_next w l2 [] k e); [reflexivity|reflexivity|exact HS].
Qed.

Lemma scan_prev w l1 : forall l2 k e l,
  l = l1 ++ (k, e) :: l2 -> sorted_ents l ->
  cursor_run w (l, PAt k) (repeat CPrev (S (length l1))) = (l, map seen (rev l1) ++ [CKV None]).
Proof.
  induction l1 as [|[k' e'] l1 IH] using rev_ind; intros l2 k e l -> HS.
  - simpl repeat. rewrite cursor_run_cons. unfold cursor_step.
    rewrite (last_lt_split _ _ _ _ HS). simpl. reflexivity.
  - rewrite app_length. simpl length. rewrite Nat.add_1_r.
    change (repeat CPrev (S (S (length l1)))) with (CPrev :: repeat CPrev (S (length l1))).
    rewrite cursor_run_cons. unfold cursor_step.
    rewrite (last_lt_split _ _ _ _ HS), last_opt_snoc. unfold at_ent. simpl fst.
    rewrite (IH ((k, e) :: l2) k' e').
    + rewrite rev_unit. reflexivity.
    + rewrite <- app_assoc. reflexivity.
    + exact HS.
Qed.

Lemma backward_scan w l :
  sorted_ents l ->
  cursor_run w (l, PNone) (CLast :: repeat CPrev (length l)) = (l, map seen (rev l) ++ [CKV None]).
Proof.
  intros HS. destruct l as [|a l0] using rev_ind.
  - reflexivity.
  - clear IHl0. destruct a as [k e].
    rewrite cursor_run_cons. unfold cursor_step. rewrite last_opt_snoc. unfold at_ent. simpl fst.
    rewrite app_length. simpl length. rewrite Nat.add_1_r.
    rewrite (scan_prev w l0 [] k e); [|reflexivity|exact HS].
    rewrite rev_unit. reflexivity.
Qed.

(** Seek k returns the least entry whose name is not below k, if any. *)
Lemma first_ge_spec k (l : list (bytes * ent)) :
  sorted_ents l ->
  match first_ge k l with
  | Some ke => In ke l /\ bltb (fst ke) k = false /\
               forall ke', In ke' l -> bltb (fst ke') k = false -> ke' = ke \/ blt (fst ke) (fst ke')
  | None => forall ke', In ke' l -> bltb (fst ke') k = true
  end.
Proof.
  unfold first_ge. induction l as [|a l IH]; intros HS; simpl.
  - intros ke' [].
  - assert (sorted_ents l) as HS' by (unfold sorted_ents, sorted_keys in *; simpl in HS; inversion HS; assumption).
    destruct (bltb (fst a) k) eqn:B; simpl.
    + specialize (IH HS'). destruct (find _ l) as [ke|].
      * destruct IH as (I1 & I2 & I3). repeat split; auto.
        intros ke' [<-|H] Hk; [congruence|auto].
      * intros ke' [<-|H]; auto.
    + repeat split; auto. intros ke' [<-|H] Hk; [auto|right].
      destruct (sorted_split [] a l HS) as [_ F]. rewrite Forall_forall in F. apply F. exact H.
Qed.

Lemma seek_step w l p k :
  cursor_step w (l, p) (CSeek k) =
  match first_ge k l with
  | Some ke => (l, PAt (fst ke), seen ke)
  | None => (l, PEnd, CKV None)
  end.
Proof. reflexivity. Qed.

(** The forward enumeration is strictly ascending. *)
Lemma seen_sorted (l : list (bytes * ent)) :
  sorted_ents l -> StronglySorted blt (map fst (map obs_ent l)).
Proof. unfold sorted_ents, sorted_keys. rewrite map_map. simpl. auto. Qed.

(** Lifted to a transaction: a full forward / backward walk of the bucket at
    path p reports exactly the bucket's entries, and leaves the tree alone. *)
Lemma exec_op_forward_scan w p root b :
  wf root -> at_path p root = Some b ->
  exec_op w (p, Cursor (CFirst :: repeat CNext (length (bents b)))) root =
  (root, RCur (map seen (bents b) ++ [CKV None])).
Proof.
  intros W A. unfold exec_op. cbn [fst snd]. rewrite A. unfold exec_bop.
  rewrite forward_scan by (apply (W p b A)).
  destruct b as [s l]. simpl. f_equal. apply modify_id. exact A.
Qed.

Lemma exec_op_backward_scan w p root b :
  wf root -> at_path p root = Some b ->
  exec_op w (p, Cursor (CLast :: repeat CPrev (length (bents b)))) root =
  (root, RCur (map seen (rev (bents b)) ++ [CKV None])).
Proof.
  intros W A. unfold exec_op. cbn [fst snd]. rewrite A. unfold exec_bop.
  rewrite backward_scan by (apply (W p b A)).
  destruct b as [s l]. simpl. f_equal. apply modify_id. exact A.
Qed.

Lemma exec_op_foreach w p root b :
  at_path p root = Some b ->
  exec_op w (p, ForEach) root = (root, REnts (map obs_ent (bents b))).
Proof.
  intros A. unfold exec_op. cbn [fst snd]. rewrite A. simpl. f_equal. apply modify_id. exact A.
Qed.

(* ------------------------------------------------------------------ *)
(** * Transactions *)

Lemma update_failed s body o s' rs o' :
  update s body o = Some (s', rs, o') -> o <> OOk ->
  committed s' = committed s /\ writer s' = false /\ o' = o.
Proof.
  unfold update, begin_rw. destruct (writer s); [discriminate|].
  destruct (run_ops true (committed s) body) as [w1 rs1].
  intros [= <- <- <-] N. destruct o; [contradiction| |]; simpl; auto.
Qed.

Lemma update_committed s body s' rs o' :
  update s body OOk = Some (s', rs, o') ->
  committed s' = normalize (fst (run_ops true (committed s) body)) /\
  rs = snd (run_ops true (committed s) body) /\ writer s' = false /\ o' = OOk.
Proof.
  unfold update, begin_rw. destruct (writer s); [discriminate|].
  destruct (run_ops true (committed s) body) as [w1 rs1].
  intros [= <- <- <-]. simpl. auto.
Qed.

Lemma update_runs s body o :
  writer s = false -> exists s' rs, update s body o = Some (s', rs, o) /\ writer s' = false.
Proof.
  intros W. unfold update, begin_rw. rewrite W.
  destruct (run_ops true (committed s) body) as [w1 rs1].
  eexists _, _. split; [reflexivity|]. destruct o; reflexivity.
Qed.

Lemma run_tx_runs s k body :
  writer s = false ->
  exists s' rs o, run_tx s k body = Some (s', rs, o) /\ writer s' = false.
Proof.
  intros W. destruct k as [o|o|c|]; simpl.
  - destruct (update_runs s body o W) as (s' & rs & H1 & H2). eauto.
  - unfold view. eauto.
  - destruct (update_runs s body (if c then OOk else OErr) W) as (s' & rs & H1 & H2). eauto.
  - unfold view. eauto.
Qed.

Lemma run_txs_runs txs : forall s,
  writer s = false -> exists s' rss, run_txs s txs = Some (s', rss) /\ writer s' = false.
Proof.
  induction txs as [|[k body] txs IH]; intros s W; simpl.
  - eauto.
  - destruct (run_tx_runs s k body W) as (s1 & rs & o & H1 & W1). rewrite H1.
    destruct (IH s1 W1) as (s2 & rss & H2 & W2). rewrite H2. eauto.
Qed.

Lemma view_unchanged s body o : fst (fst (view s body o)) = s.
Proof. reflexivity. Qed.

(** What is reachable: committed trees are well formed and already normal. *)
Definition good (s : dbstate) : Prop :=
  wf (committed s) /\ normalize (committed s) = committed s.

Lemma good_init : good init_db.
Proof. split; [apply wf_empty|reflexivity]. Qed.

Lemma run_tx_good s k body s' rs o :
  good s -> run_tx s k body = Some (s', rs, o) -> good s'.
Proof.
  intros [W Nm] H.
  assert (forall o0 s1 rs1 o1, update s body o0 = Some (s1, rs1, o1) -> good s1) as U.
  { intros o0 s1 rs1 o1. unfold update, begin_rw. destruct (writer s); [discriminate|].
    pose proof (run_ops_wf true body (committed s) W) as W1.
    destruct (run_ops true (committed s) body) as [w1 rs0]. simpl in W1.
    intros [= <- <- <-]. destruct o0; simpl; split; simpl; auto using wf_normalize, normalize_idem. }
  destruct k as [o0|o0|c|]; simpl in H; eauto; injection H as <- _ _; split; assumption.
Qed.

Lemma run_txs_good txs : forall s s' rss,
  good s -> run_txs s txs = Some (s', rss) -> good s'.
Proof.
  induction txs as [|[k body] txs IH]; intros s s' rss G H; simpl in H.
  - injection H as <- _. exact G.
  - destruct (run_tx s k body) as [[[s1 rs] o]|] eqn:T; [|discriminate].
    destruct (run_txs s1 txs) as [[s2 rss2]|] eqn:R; [|discriminate].
    injection H as <- _. eapply IH; [|exact R]. eapply run_tx_good; eauto.
Qed.

(** After commit every name bound in the working copy is bound (nil read as
    empty), every other name is unbound: all changes, together. *)
Definition lookup (p : path) (k : bytes) (root : bkt) : option ent :=
  match at_path p root with Some b => ent_get k (bents b) | None => None end.

Lemma lookup_normalize p k root :
  lookup p k (normalize root) = option_map norm_ent (lookup p k root).
Proof.
  unfold lookup. rewrite at_path_normalize. destruct (at_path p root) as [b|]; simpl; [|reflexivity].
  apply get_normalize.
Qed.

(* ------------------------------------------------------------------ *)
(** * Operations on incomparable bucket paths commute *)

Lemma replace_comm {E} n m (x y : E) (l : list (bytes * E)) :
  n <> m -> ent_replace n x (ent_replace m y l) = ent_replace m y (ent_replace n x l).
Proof.
  intros NM. induction l as [|[k e] l IH]; simpl; [reflexivity|].
  destruct (beqb m k) eqn:Bm; destruct (beqb n k) eqn:Bn; simpl; rewrite ?Bm, ?Bn.
  - apply beqb_true in Bm. apply beqb_true in Bn. congruence.
  - assert (beqb n m = false) as -> by (apply beqb_false; exact NM). reflexivity.
  - assert (beqb m n = false) as -> by (apply beqb_false; congruence). reflexivity.
  - f_equal. exact IH.
Qed.

Lemma set_comm_present {E} n m (x y ex ey : E) (l : list (bytes * E)) :
  n <> m -> ent_get n l = Some ex -> ent_get m l = Some ey ->
  ent_set n x (ent_set m y l) = ent_set m y (ent_set n x l).
Proof.
  intros NM Gn Gm.
  assert (ent_set m y l = ent_replace m y l) as E1 by (unfold ent_set; rewrite Gm; reflexivity).
  assert (ent_set n x l = ent_replace n x l) as E2 by (unfold ent_set; rewrite Gn; reflexivity).
  unfold ent_set at 1. rewrite E1 at 1. rewrite get_replace_other, Gn by congruence.
  unfold ent_set at 2. rewrite E2 at 1. rewrite get_replace_other, Gm by congruence.
  rewrite E1, E2. apply replace_comm. exact NM.
Qed.

Lemma modify_comm p : forall q f g b,
  ~ prefix p q -> ~ prefix q p ->
  modify p f (modify q g b) = modify q g (modify p f b).
Proof.
  induction p as [|n p IH]; intros q f g b N1 N2.
  - exfalso. apply N1. exists q. reflexivity.
  - destruct q as [|m q]; [exfalso; apply N2; exists (n :: p); reflexivity|].
    destruct b as [s l].
    destruct (beqb n m) eqn:B.
    + apply beqb_true in B. subst m.
      simpl. destruct (ent_get n l) as [[v|c]|] eqn:G; simpl; rewrite ?G; try reflexivity.
      rewrite !get_set_same, !set_set. do 3 f_equal.
      apply IH; intros H; [apply N1|apply N2]; apply prefix_cons; exact H.
    + apply beqb_false in B. simpl.
      destruct (ent_get n l) as [[vn|cn]|] eqn:Gn; destruct (ent_get m l) as [[vm|cm]|] eqn:Gm;
        simpl; rewrite ?Gn, ?Gm; try reflexivity;
        try (rewrite get_set_other by congruence; rewrite ?Gn, ?Gm; reflexivity).
      rewrite (get_set_other m n) by congruence. rewrite (get_set_other n m) by congruence.
      rewrite Gn, Gm. f_equal. eapply set_comm_present; eauto.
Qed.

Lemma exec_op_comm w o1 o2 root :
  ~ prefix (fst o1) (fst o2) -> ~ prefix (fst o2) (fst o1) ->
  let '(r1, x1) := exec_op w o1 root in
  let '(r12, x2) := exec_op w o2 r1 in
  let '(r2, y2) := exec_op w o2 root in
  let '(r21, y1) := exec_op w o1 r2 in
  r12 = r21 /\ x1 = y1 /\ x2 = y2.
Proof.
  destruct o1 as [p1 b1], o2 as [p2 b2]. simpl. intros N1 N2.
  unfold exec_op. cbn [fst snd].
  destruct (at_path p1 root) as [c1|] eqn:A1; destruct (at_path p2 root) as [c2|] eqn:A2.
  - destruct (exec_bop w b1 c1) as [c1' x1] eqn:X1. destruct (exec_bop w b2 c2) as [c2' x2] eqn:X2.
    rewrite at_path_modify_incomparable, A2 by assumption. rewrite X2.
    rewrite at_path_modify_incomparable, A1 by assumption. rewrite X1.
    repeat split. apply modify_comm; assumption.
  - destruct (exec_bop w b1 c1) as [c1' x1] eqn:X1.
    rewrite at_path_modify_incomparable, A2 by assumption. rewrite ?A1, ?X1. auto.
  - rewrite ?A2. destruct (exec_bop w b2 c2) as [c2' x2] eqn:X2.
    rewrite at_path_modify_incomparable, A1 by assumption. auto.
  - rewrite ?A2, ?A1. auto.
Qed.

(* ------------------------------------------------------------------ *)
(** * Cursor.Delete followed by a re-Seek of the same key lands on the follower *)

Lemma find_filter {A} (p q : A -> bool) l :
  find p (filter q l) = find (fun x => q x && p x) l.
Proof.
  induction l as [|x l IH]; simpl; [reflexivity|].
  destruct (q x); simpl; [destruct (p x); auto|exact IH].
Qed.

Lemma find_ext {A} (p q : A -> bool) l : (forall x, p x = q x) -> find p l = find q l.
Proof.
  intros H. induction l as [|x l IH]; simpl; [reflexivity|]. rewrite H, IH. reflexivity.
Qed.

Lemma trichotomy_bool k x : negb (beqb k x) && negb (bltb x k) = bltb k x.
Proof.
  unfold beqb, bltb. rewrite (bcmp_antisym k x). destruct (bcmp k x); reflexivity.
Qed.

Lemma first_ge_del k (l : list (bytes * ent)) : first_ge k (ent_del k l) = first_gt k l.
Proof.
  unfold first_ge, first_gt, ent_del. rewrite find_filter. apply find_ext.
  intros x. apply trichotomy_bool.
Qed.

Lemma delete_then_reseek l k v :
  ent_get k l = Some (inl v) ->
  cursor_run true (l, PAt k) [CDelete; CSeek k] =
  (ent_del k l, [CErr None; match first_gt k l with Some ke => seen ke | None => CKV None end]).
Proof.
  intros G. rewrite cursor_run_cons. simpl cursor_step. rewrite G.
  rewrite cursor_run_cons, seek_step, first_ge_del.
  destruct (first_gt k l); reflexivity.
Qed.
