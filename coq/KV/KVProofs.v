(** Proofs about the walletdb/bbolt model (KV/KV.v) - property C11. *)
From Verif Require Import Base.Prelude KV.KV.
Local Open Scope N_scope.

(* ------------------------------------------------------------------ *)
(** * Byte-string order *)

Lemma bcmp_refl a : bcmp a a = Eq.
Proof. induction a as [|x a IH]; simpl; [reflexivity|]. rewrite N.compare_refl. exact IH. Qed.

Lemma bcmp_eq a b : bcmp a b = Eq -> a = b.
Proof.
  revert b. induction a as [|x a IH]; intros [|y b]; simpl; try discriminate; [reflexivity|].
  destruct (N.compare x y) eqn:E; try discriminate.
  apply N.compare_eq in E. intros H. f_equal; [exact E|apply IH; exact H].
Qed.

Lemma bcmp_antisym a b : bcmp b a = CompOpp (bcmp a b).
Proof.
  revert b. induction a as [|x a IH]; intros [|y b]; simpl; try reflexivity.
  rewrite (N.compare_antisym x y). destruct (N.compare x y); simpl; auto.
Qed.

Lemma bcmp_lt_trans a b c : bcmp a b = Lt -> bcmp b c = Lt -> bcmp a c = Lt.
Proof.
  revert b c. induction a as [|x a IH]; intros [|y b] [|z c]; simpl; try discriminate; auto.
  destruct (N.compare x y) eqn:E1; try discriminate.
  - apply N.compare_eq in E1. subst y.
    destruct (N.compare x z) eqn:E2; try discriminate; auto. apply IH.
  - destruct (N.compare y z) eqn:E2; try discriminate.
    + apply N.compare_eq in E2. subst z. rewrite E1. auto.
    + intros _ _. rewrite N.compare_lt_iff in *.
      assert (x < z) as H by lia. apply N.compare_lt_iff in H. rewrite H. reflexivity.
Qed.

Lemma beqb_true a b : beqb a b = true <-> a = b.
Proof.
  unfold beqb. split.
  - destruct (bcmp a b) eqn:E; try discriminate. intros _. apply bcmp_eq. exact E.
  - intros ->. rewrite bcmp_refl. reflexivity.
Qed.

Lemma beqb_refl a : beqb a a = true.
Proof. apply beqb_true. reflexivity. Qed.

Lemma beqb_false a b : beqb a b = false <-> a <> b.
Proof.
  split.
  - intros H E. apply beqb_true in E. congruence.
  - intros H. destruct (beqb a b) eqn:E; [|reflexivity]. apply beqb_true in E. contradiction.
Qed.

Lemma beqb_sym a b : beqb a b = beqb b a.
Proof.
  destruct (beqb b a) eqn:E.
  - apply beqb_true in E. subst. apply beqb_refl.
  - apply beqb_false in E. apply beqb_false. congruence.
Qed.

Lemma bltb_irrefl a : bltb a a = false.
Proof. unfold bltb. rewrite bcmp_refl. reflexivity. Qed.

Lemma bltb_lt a b : bltb a b = true <-> bcmp a b = Lt.
Proof. unfold bltb. destruct (bcmp a b); split; congruence. Qed.

Lemma bltb_asym a b : bltb a b = true -> bltb b a = false.
Proof. unfold bltb. rewrite (bcmp_antisym a b). destruct (bcmp a b); simpl; congruence. Qed.

Lemma bltb_trans a b c : bltb a b = true -> bltb b c = true -> bltb a c = true.
Proof. rewrite !bltb_lt. apply bcmp_lt_trans. Qed.

(** Totality: exactly one of a<b, a=b, b<a. *)
Lemma bltb_total a b : bltb a b = false -> bltb b a = false -> a = b.
Proof.
  unfold bltb. rewrite (bcmp_antisym a b). destruct (bcmp a b) eqn:E; simpl; try discriminate.
  intros _ _. apply bcmp_eq. exact E.
Qed.

Lemma bltb_neq a b : bltb a b = true -> a <> b.
Proof. intros H ->. rewrite bltb_irrefl in H. discriminate. Qed.

(* ------------------------------------------------------------------ *)
(** * Sorted association lists *)

Definition blt (a b : bytes) : Prop := bcmp a b = Lt.
Definition sorted_keys (ks : list bytes) : Prop := StronglySorted blt ks.
Definition sorted_ents {E} (l : list (bytes * E)) : Prop := sorted_keys (map fst l).

Section Ents.
  Context {E : Type}.
  Implicit Types (l : list (bytes * E)) (k : bytes) (e : E).

  Lemma get_replace_same k e l : ent_get k l <> None -> ent_get k (ent_replace k e l) = Some e.
  Proof.
    induction l as [|[k' e'] l IH]; simpl; [congruence|].
    destruct (beqb k k') eqn:B; simpl.
    - rewrite beqb_refl. reflexivity.
    - rewrite B. exact IH.
  Qed.

  Lemma get_replace_other k k' e l : k <> k' -> ent_get k' (ent_replace k e l) = ent_get k' l.
  Proof.
    intros N. induction l as [|[k1 e1] l IH]; simpl; [reflexivity|].
    destruct (beqb k k1) eqn:B; simpl.
    - apply beqb_true in B. subst k1.
      assert (beqb k' k = false) as -> by (apply beqb_false; congruence). reflexivity.
    - destruct (beqb k' k1); [reflexivity|exact IH].
  Qed.

  Lemma get_insert_same k e l : ent_get k l = None -> ent_get k (ent_insert k e l) = Some e.
  Proof.
    induction l as [|[k' e'] l IH]; simpl.
    - rewrite beqb_refl. reflexivity.
    - destruct (beqb k k') eqn:B; [discriminate|]. intros H.
      destruct (bltb k k'); simpl.
      + rewrite beqb_refl. reflexivity.
      + rewrite B. apply IH. exact H.
  Qed.

  Lemma get_insert_other k k' e l : k <> k' -> ent_get k' (ent_insert k e l) = ent_get k' l.
  Proof.
    intros N. induction l as [|[k1 e1] l IH]; simpl.
    - assert (beqb k' k = false) as -> by (apply beqb_false; congruence). reflexivity.
    - destruct (bltb k k1); simpl.
      + assert (beqb k' k = false) as -> by (apply beqb_false; congruence). reflexivity.
      + destruct (beqb k' k1); [reflexivity|exact IH].
  Qed.

  Lemma get_set_same k e l : ent_get k (ent_set k e l) = Some e.
  Proof.
    unfold ent_set. destruct (ent_get k l) eqn:G.
    - apply get_replace_same. congruence.
    - apply get_insert_same. exact G.
  Qed.

  Lemma get_set_other k k' e l : k <> k' -> ent_get k' (ent_set k e l) = ent_get k' l.
  Proof.
    intros N. unfold ent_set. destruct (ent_get k l).
    - apply get_replace_other. exact N.
    - apply get_insert_other. exact N.
  Qed.

  Lemma get_del_same k l : ent_get k (ent_del k l) = None.
  Proof.
    unfold ent_del. induction l as [|[k' e'] l IH]; simpl; [reflexivity|].
    destruct (beqb k k') eqn:B; simpl; [exact IH|]. rewrite B. exact IH.
  Qed.

  Lemma get_del_other k k' l : k <> k' -> ent_get k' (ent_del k l) = ent_get k' l.
  Proof.
    intros N. unfold ent_del. induction l as [|[k1 e1] l IH]; simpl; [reflexivity|].
    destruct (beqb k k1) eqn:B; simpl.
    - apply beqb_true in B. subst k1.
      assert (beqb k' k = false) as -> by (apply beqb_false; congruence). exact IH.
    - destruct (beqb k' k1); [reflexivity|exact IH].
  Qed.

  Lemma replace_same_id k e l : ent_get k l = Some e -> ent_replace k e l = l.
  Proof.
    induction l as [|[k' e'] l IH]; simpl; [reflexivity|].
    destruct (beqb k k') eqn:B.
    - apply beqb_true in B. subst k'. intros [= ->]. reflexivity.
    - intros H. f_equal. apply IH. exact H.
  Qed.

  Lemma set_same_id k e l : ent_get k l = Some e -> ent_set k e l = l.
  Proof. intros H. unfold ent_set. rewrite H. apply replace_same_id. exact H. Qed.

  Lemma set_set k e e' l : ent_set k e (ent_set k e' l) = ent_set k e l.
  Proof.
    unfold ent_set at 1. rewrite get_set_same. unfold ent_set.
    destruct (ent_get k l) eqn:G.
    - clear G. induction l as [|[k1 e1] l IH]; simpl; [reflexivity|].
      destruct (beqb k k1) eqn:B; simpl.
      + rewrite beqb_refl. reflexivity.
      + rewrite B. f_equal. exact IH.
    - induction l as [|[k1 e1] l IH]; simpl.
      + rewrite beqb_refl. reflexivity.
      + simpl in G. destruct (beqb k k1) eqn:B; [discriminate|].
        destruct (bltb k k1); simpl.
        * rewrite beqb_refl. reflexivity.
        * rewrite B. f_equal. apply IH. exact G.
  Qed.

  Lemma map_fst_replace k e l : ent_get k l <> None -> map fst (ent_replace k e l) = map fst l.
  Proof.
    induction l as [|[k1 e1] l IH]; simpl; [reflexivity|].
    destruct (beqb k k1) eqn:B; simpl.
    - apply beqb_true in B. subst. reflexivity.
    - intros H. f_equal. apply IH. exact H.
  Qed.

  Lemma get_in k e l : ent_get k l = Some e -> In (k, e) l.
  Proof.
    induction l as [|[k1 e1] l IH]; simpl; [discriminate|].
    destruct (beqb k k1) eqn:B.
    - apply beqb_true in B. subst. intros [= ->]. left. reflexivity.
    - intros H. right. apply IH. exact H.
  Qed.

  Lemma get_none_notin k l : ent_get k l = None -> ~ In k (map fst l).
  Proof.
    induction l as [|[k1 e1] l IH]; simpl; [tauto|].
    destruct (beqb k k1) eqn:B; [discriminate|].
    intros H [H1|H1].
    - subst. rewrite beqb_refl in B. discriminate.
    - apply IH; assumption.
  Qed.

  Lemma sorted_insert k e l :
    sorted_ents l -> ent_get k l = None -> sorted_ents (ent_insert k e l).
  Proof.
    unfold sorted_ents, sorted_keys.
    induction l as [|[k1 e1] l IH]; simpl; intros S G.
    - constructor; constructor.
    - destruct (beqb k k1) eqn:B; [discriminate|].
      inversion S as [|? ? S1 F1]; subst.
      destruct (bltb k k1) eqn:L; simpl.
      + constructor; [exact S|]. constructor.
        * apply bltb_lt. exact L.
        * rewrite Forall_forall in *. intros x Hx. apply bltb_lt.
          apply (bltb_trans _ k1); [exact L|]. apply bltb_lt. apply F1. exact Hx.
      + constructor; [apply IH; assumption|].
        assert (blt k1 k) as K1.
        { apply bltb_lt. destruct (bltb k1 k) eqn:L2; [reflexivity|].
          exfalso. apply beqb_false in B. apply B. apply bltb_total; assumption. }
        clear IH S. induction l as [|[k2 e2] l IH2]; simpl.
        * constructor; [exact K1|constructor].
        * inversion F1; subst. simpl in G. destruct (beqb k k2); [discriminate|].
          inversion S1; subst.
          destruct (bltb k k2); simpl.
          -- constructor; [exact K1|]. constructor; assumption.
          -- constructor; [assumption|]. apply IH2; assumption.
  Qed.

  Lemma sorted_set k e l : sorted_ents l -> sorted_ents (ent_set k e l).
  Proof.
    intros S. unfold ent_set. destruct (ent_get k l) eqn:G.
    - unfold sorted_ents. rewrite map_fst_replace; [exact S|congruence].
    - apply sorted_insert; assumption.
  Qed.

  Lemma sorted_filter (f : bytes * E -> bool) l : sorted_ents l -> sorted_ents (filter f l).
  Proof.
    unfold sorted_ents, sorted_keys.
    induction l as [|ke l IH]; simpl; intros S; [exact S|].
    inversion S as [|? ? S1 F1]; subst.
    destruct (f ke); simpl; [|apply IH; exact S1].
    constructor; [apply IH; exact S1|].
    rewrite Forall_forall in *. intros x Hx. apply F1.
    apply in_map_iff in Hx. destruct Hx as [y [<- Hy]]. apply filter_In in Hy.
    apply in_map. tauto.
  Qed.

  Lemma sorted_del k l : sorted_ents l -> sorted_ents (ent_del k l).
  Proof. apply sorted_filter. Qed.

  Lemma get_del_sub k n e l : ent_get n (ent_del k l) = Some e -> ent_get n l = Some e.
  Proof.
    destruct (beqb k n) eqn:B.
    - apply beqb_true in B. subst. rewrite get_del_same. discriminate.
    - apply beqb_false in B. rewrite get_del_other by exact B. auto.
  Qed.
End Ents.

Lemma get_map {E F} (g : E -> F) k (l : list (bytes * E)) :
  ent_get k (map (fun ke => (fst ke, g (snd ke))) l) = option_map g (ent_get k l).
Proof.
  induction l as [|[k1 e1] l IH]; simpl; [reflexivity|].
  destruct (beqb k k1); [reflexivity|exact IH].
Qed.

Lemma map_fst_map {E F} (g : E -> F) (l : list (bytes * E)) :
  map fst (map (fun ke => (fst ke, g (snd ke))) l) = map fst l.
Proof. rewrite map_map. simpl. reflexivity. Qed.

(* ------------------------------------------------------------------ *)
(** * Navigation *)

Definition prefix (p q : path) : Prop := exists r, q = p ++ r.

Lemma prefix_cons n p q : prefix (n :: p) (n :: q) <-> prefix p q.
Proof.
  split; intros [r H]; exists r.
  - simpl in H. congruence.
  - simpl. congruence.
Qed.

Lemma prefix_app_not p r q : ~ prefix p q -> ~ prefix (p ++ r) q.
Proof. intros N [r' H]. apply N. exists (r ++ r'). rewrite H, app_assoc. reflexivity. Qed.

Lemma at_path_app p r b :
  at_path (p ++ r) b = match at_path p b with Some c => at_path r c | None => None end.
Proof.
  revert b. induction p as [|n p IH]; intros b; simpl; [reflexivity|].
  destruct (ent_get n (bents b)) as [[v|c]|]; auto.
Qed.

(** (A) below the modified bucket: what is found is found in the new bucket. *)
Lemma at_path_modify_below p f r b :
  at_path (p ++ r) (modify p f b) =
  match at_path p b with Some c => at_path r (f c) | None => at_path (p ++ r) b end.
Proof.
  revert b. induction p as [|n p IH]; intros b; simpl; [reflexivity|].
  destruct (ent_get n (bents b)) as [[v|c]|] eqn:G; simpl; rewrite ?G; auto.
  rewrite get_set_same. apply IH.
Qed.

Lemma shallow_set_sub n c c' s l :
  ent_get n l = Some (inr c) -> shallow (Bkt s (ent_set n (inr c') l)) = shallow (Bkt s l).
Proof.
  intros G. unfold shallow. simpl. f_equal.
  unfold ent_set. rewrite G.
  induction l as [|[k1 e1] l IH]; simpl; [reflexivity|].
  simpl in G. destruct (beqb n k1) eqn:B.
  - apply beqb_true in B. subst k1. injection G as ->. reflexivity.
  - simpl. f_equal. apply IH. exact G.
Qed.

(** (B) outside the modified bucket's subtree: own content of every bucket unchanged. *)
Lemma at_path_modify_outside p f q b :
  ~ prefix p q ->
  option_map shallow (at_path q (modify p f b)) = option_map shallow (at_path q b).
Proof.
  revert q b. induction p as [|n p IH]; intros q b N.
  - exfalso. apply N. exists q. reflexivity.
  - simpl. destruct (ent_get n (bents b)) as [[v|c]|] eqn:G; try reflexivity.
    destruct q as [|m q]; simpl.
    + f_equal. destruct b as [s l]. simpl in *. eapply shallow_set_sub. exact G.
    + destruct (beqb n m) eqn:B.
      * apply beqb_true in B. subst m. rewrite get_set_same, G.
        apply IH. intros H. apply N. apply prefix_cons. exact H.
      * apply beqb_false in B. rewrite get_set_other by exact B. reflexivity.
Qed.

(** (B1) incomparable paths: the whole subtree is unchanged. *)
Lemma at_path_modify_incomparable p f q b :
  ~ prefix p q -> ~ prefix q p -> at_path q (modify p f b) = at_path q b.
Proof.
  revert q b. induction p as [|n p IH]; intros q b N1 N2.
  - exfalso. apply N1. exists q. reflexivity.
  - simpl. destruct (ent_get n (bents b)) as [[v|c]|] eqn:G; try reflexivity.
    destruct q as [|m q]; simpl.
    + exfalso. apply N2. exists (n :: p). reflexivity.
    + destruct (beqb n m) eqn:B.
      * apply beqb_true in B. subst m. rewrite get_set_same, G.
        apply IH; intros H; [apply N1|apply N2]; apply prefix_cons; exact H.
      * apply beqb_false in B. rewrite get_set_other by exact B. reflexivity.
Qed.

Lemma modify_id p b c : at_path p b = Some c -> modify p (fun _ => c) b = b.
Proof.
  revert b. induction p as [|n p IH]; intros b; simpl.
  - congruence.
  - destruct (ent_get n (bents b)) as [[v|c']|] eqn:G; try reflexivity.
    intros H. rewrite (IH _ H). destruct b as [s l]. simpl in *. f_equal.
    apply set_same_id. exact G.
Qed.

Lemma modify_none p f b : at_path p b = None -> modify p f b = b.
Proof.
  revert b. induction p as [|n p IH]; intros b; simpl; [discriminate|].
  destruct (ent_get n (bents b)) as [[v|c']|] eqn:G; try reflexivity.
  intros H. rewrite (IH _ H). destruct b as [s l]. simpl in *. f_equal.
  apply set_same_id. exact G.
Qed.

Lemma at_path_modify_same p f b :
  at_path p (modify p f b) = option_map f (at_path p b).
Proof.
  pose proof (at_path_modify_below p f [] b) as H. rewrite app_nil_r in H. rewrite H.
  destruct (at_path p b); reflexivity.
Qed.

(* ------------------------------------------------------------------ *)
(** * Cursor: effect on the entries *)

Definition is_cdelete (c : cop) : bool := match c with CDelete => true | _ => false end.
Definition has_cdelete (cs : list cop) : bool := existsb is_cdelete cs.

Lemma cursor_step_effect w l p c l1 p1 r :
  cursor_step w (l, p) c = (l1, p1, r) ->
  l1 = l \/ (w = true /\ c = CDelete /\ exists k v, ent_get k l = Some (inl v) /\ l1 = ent_del k l).
Proof.
  unfold cursor_step, at_ent. intros H.
  destruct c; simpl in H;
    repeat match type of H with
           | context [match ?x with _ => _ end] => destruct x eqn:?
           end;
    inversion H; subst; auto.
  right. destruct w; [|discriminate]. repeat split; eauto.
Qed.

Lemma cursor_run_cons w st c cs :
  cursor_run w st (c :: cs) =
  let '(l, p, r) := cursor_step w st c in
  let (l', rs) := cursor_run w (l, p) cs in (l', r :: rs).
Proof. reflexivity. Qed.

Lemma cursor_run_effect w cs : forall l p l' rs,
  cursor_run w (l, p) cs = (l', rs) ->
  (forall n c, ent_get n l = Some (inr c) -> ent_get n l' = Some (inr c)) /\
  (forall n e, ent_get n l' = Some e -> ent_get n l = Some e) /\
  (sorted_ents l -> sorted_ents l') /\
  (has_cdelete cs = false \/ w = false -> l' = l).
Proof.
  induction cs as [|c cs IH]; intros l p l' rs H.
  - simpl in H. inversion H; subst. repeat split; auto.
  - rewrite cursor_run_cons in H. destruct (cursor_step w (l, p) c) as [[l1 p1] r] eqn:S.
    destruct (cursor_run w (l1, p1) cs) as [l2 rs2] eqn:R. inversion H; subst. clear H.
    destruct (IH _ _ _ _ R) as (I1 & I2 & I3 & I4).
    destruct (cursor_step_effect _ _ _ _ _ _ _ S) as [->|(W & C & k & v & G & ->)].
    + repeat split; auto. intros [D| ->]; apply I4; auto.
      simpl in D. apply orb_false_iff in D. left. tauto.
    + repeat split.
      * intros n c0 G0. apply I1.
        destruct (beqb k n) eqn:B.
        -- apply beqb_true in B. subst. congruence.
        -- apply beqb_false in B. rewrite get_del_other by exact B. exact G0.
      * intros n e G0. eapply get_del_sub. apply I2. exact G0.
      * intros S0. apply I3. apply sorted_del. exact S0.
      * subst. simpl. intros [D|D]; discriminate.
Qed.

Lemma cursor_run_ro_results cs : forall l p l' rs,
  cursor_run false (l, p) cs = (l', rs) ->
  Forall2 (fun c x => c = CDelete -> x = CErr (Some ETxNotWritable)) cs rs.
Proof.
  induction cs as [|c cs IH]; intros l p l' rs H.
  - simpl in H. inversion H. constructor.
  - rewrite cursor_run_cons in H. destruct (cursor_step false (l, p) c) as [[l1 p1] r] eqn:S.
    destruct (cursor_run false (l1, p1) cs) as [l2 rs2] eqn:R. inversion H; subst. clear H.
    constructor; [|eapply IH; exact R].
    intros ->. simpl in S. inversion S. reflexivity.
Qed.

(* ------------------------------------------------------------------ *)
(** * One call on a bucket *)

Ltac destr_match H :=
  repeat match type of H with
         | context [match ?x with _ => _ end] => destruct x eqn:?
         end.

Definition mutating (o : bop) : bool :=
  match o with
  | Put _ _ | Delete _ | CreateBucket _ | CreateBucketIfNotExists _ | DeleteNested _
  | SetSequence _ | NextSequence => true
  | Cursor cs => has_cdelete cs
  | _ => false
  end.

(** What a mutating call returns on a read-only transaction. *)
Definition not_writable_result (o : bop) (r : result) : Prop :=
  match o with
  | Put _ _ | Delete _ | CreateBucket _ | CreateBucketIfNotExists _ | DeleteNested _ =>
      r = RErr (Some ETxNotWritable)
  | SetSequence _ => exists e, r = RErr (Some e)
  | NextSequence => exists n e, r = RNumErr n (Some e)
  | Cursor cs =>
      exists rs, r = RCur rs /\
                 Forall2 (fun c x => c = CDelete -> x = CErr (Some ETxNotWritable)) cs rs
  | _ => True
  end.

Lemma exec_bop_readonly o b b' r :
  exec_bop false o b = (b', r) -> b' = b /\ not_writable_result o r.
Proof.
  destruct b as [s l]. unfold exec_bop. intros H.
  destruct o; simpl in H; try (inversion H; subst; simpl; eauto; fail).
  match type of H with context [cursor_run ?a ?b ?c] =>
    destruct (cursor_run a b c) as [l' rs] eqn:R end.
  destruct (cursor_run_effect _ _ _ _ _ _ R) as (_ & _ & _ & I4).
  assert (l' = l) as -> by (apply I4; auto).
  inversion H; subst. split; [reflexivity|]. simpl. exists rs. split; [reflexivity|].
  eapply cursor_run_ro_results. exact R.
Qed.

Definition touches_val (o : bop) (k : bytes) : bool :=
  match o with
  | Put k' _ | Delete k' => beqb k' k
  | Cursor cs => has_cdelete cs
  | _ => false
  end.

Definition kills_sub (o : bop) (n : bytes) : bool :=
  match o with DeleteNested n' => beqb n' n | _ => false end.

Ltac solve_get G :=
  simpl;
  first [ exact G
        | rewrite get_set_other; [exact G | let E := fresh in intros E; try rewrite E in *; subst; congruence]
        | rewrite get_del_other; [exact G | let E := fresh in intros E; try rewrite E in *; subst; congruence] ].

Lemma exec_bop_keeps_val w o b b' r k v :
  exec_bop w o b = (b', r) ->
  ent_get k (bents b) = Some (inl v) -> touches_val o k = false ->
  ent_get k (bents b') = Some (inl v).
Proof.
  destruct b as [s l]. unfold exec_bop. simpl. intros H G T.
  destruct o; simpl in T; destr_match H; inversion H; subst;
    try (apply beqb_false in T); try solve_get G.
  (* Cursor without delete *)
  match goal with R : cursor_run _ _ _ = _ |- _ =>
    destruct (cursor_run_effect _ _ _ _ _ _ R) as (_ & _ & _ & I4) end.
  simpl. rewrite I4 by auto. exact G.
Qed.

Lemma exec_bop_keeps_sub w o b b' r n c :
  exec_bop w o b = (b', r) ->
  ent_get n (bents b) = Some (inr c) -> kills_sub o n = false ->
  ent_get n (bents b') = Some (inr c).
Proof.
  destruct b as [s l]. unfold exec_bop. simpl. intros H G T.
  destruct o; simpl in T; destr_match H; inversion H; subst;
    try (apply beqb_false in T); try solve_get G.
  match goal with R : cursor_run _ _ _ = _ |- _ =>
    destruct (cursor_run_effect _ _ _ _ _ _ R) as (I1 & _) end.
  simpl. apply I1. exact G.
Qed.

(** Every nested bucket present after a call was present before, or is new and empty. *)
Lemma exec_bop_subs w o b b' r n c :
  exec_bop w o b = (b', r) ->
  ent_get n (bents b') = Some (inr c) ->
  ent_get n (bents b) = Some (inr c) \/ c = empty_bkt.
Proof.
  destruct b as [s l]. unfold exec_bop. simpl. intros H G.
  destruct o; destr_match H; inversion H; subst; simpl in *; auto;
    try (left; eapply get_del_sub; exact G).
  - (* Put *)
    match goal with |- context [ent_get n ?l0] =>
      match type of G with context [ent_set ?k0 _ _] =>
        destruct (beqb k0 n) eqn:B; [apply beqb_true in B; subst; rewrite get_set_same in G; discriminate|
                                     apply beqb_false in B; rewrite get_set_other in G by exact B; auto]
      end end.
  - match type of G with context [ent_set ?k0 _ _] =>
        destruct (beqb k0 n) eqn:B; [apply beqb_true in B; subst; rewrite get_set_same in G; discriminate|
                                     apply beqb_false in B; rewrite get_set_other in G by exact B; auto]
    end.
  - match type of G with context [ent_set ?k0 _ _] =>
        destruct (beqb k0 n) eqn:B; [apply beqb_true in B; subst; rewrite get_set_same in G; injection G as <-; auto|
                                     apply beqb_false in B; rewrite get_set_other in G by exact B; auto]
    end.
  - match type of G with context [ent_set ?k0 _ _] =>
        destruct (beqb k0 n) eqn:B; [apply beqb_true in B; subst; rewrite get_set_same in G; injection G as <-; auto|
                                     apply beqb_false in B; rewrite get_set_other in G by exact B; auto]
    end.
  - match goal with R : cursor_run _ _ _ = _ |- _ =>
      destruct (cursor_run_effect _ _ _ _ _ _ R) as (_ & I2 & _) end.
    left. apply I2. exact G.
Qed.

Lemma exec_bop_sorted w o b b' r :
  exec_bop w o b = (b', r) -> sorted_ents (bents b) -> sorted_ents (bents b').
Proof.
  destruct b as [s l]. unfold exec_bop. simpl. intros H S.
  destruct o; destr_match H; inversion H; subst; simpl; auto using sorted_set, sorted_del.
  match goal with R : cursor_run _ _ _ = _ |- _ =>
    destruct (cursor_run_effect _ _ _ _ _ _ R) as (_ & _ & I3 & _) end.
  auto.
Qed.

(* ------------------------------------------------------------------ *)
(** * Paths: deciding the prefix relation *)

Fixpoint strip_prefix (p q : path) : option path :=
  match p, q with
  | [], _ => Some q
  | n :: p', m :: q' => if beqb n m then strip_prefix p' q' else None
  | _ :: _, [] => None
  end.

Lemma strip_prefix_some p q r : strip_prefix p q = Some r <-> q = p ++ r.
Proof.
  revert q. induction p as [|n p IH]; intros q; simpl.
  - split; congruence.
  - destruct q as [|m q]; [split; discriminate|].
    destruct (beqb n m) eqn:B.
    + apply beqb_true in B. subst m. rewrite IH. split; congruence.
    + apply beqb_false in B. split; [discriminate|]. intros [= H _]. congruence.
Qed.

Lemma strip_prefix_none p q : strip_prefix p q = None -> ~ prefix p q.
Proof.
  intros H [r E]. apply strip_prefix_some in E. congruence.
Qed.

Lemma prefix_comparable p q l : prefix p l -> prefix q l -> prefix p q \/ prefix q p.
Proof.
  revert q l. induction p as [|n p IH]; intros q l [r1 E1] [r2 E2].
  - left. exists q. reflexivity.
  - destruct q as [|m q]; [right; exists (n :: p); reflexivity|].
    subst l. simpl in E2. injection E2 as -> E2.
    destruct (IH q (p ++ r1)) as [H|H]; [exists r1; reflexivity|exists r2; exact E2| |].
    + left. apply prefix_cons. exact H.
    + right. apply prefix_cons. exact H.
Qed.

(* ------------------------------------------------------------------ *)
(** * Well-formed trees: the entries of every reachable bucket are strictly
      ascending by name (so a name is bound once: to a value or to a bucket) *)

Definition wf (root : bkt) : Prop :=
  forall p c, at_path p root = Some c -> sorted_ents (bents c).

Lemma at_path_empty p c : at_path p empty_bkt = Some c -> p = [] /\ c = empty_bkt.
Proof. destruct p; simpl; [intros [= <-]; auto|discriminate]. Qed.

Lemma wf_empty : wf empty_bkt.
Proof.
  intros p c H. apply at_path_empty in H. destruct H as [_ ->]. constructor.
Qed.

Lemma wf_sub p b c : wf b -> at_path p b = Some c -> wf c.
Proof.
  intros W H q d Hq. apply (W (p ++ q)). rewrite at_path_app, H. exact Hq.
Qed.

Lemma exec_bop_wf w o b b' r : exec_bop w o b = (b', r) -> wf b -> wf b'.
Proof.
  intros H W p c Hp. destruct p as [|n p]; simpl in Hp.
  - injection Hp as <-. eapply exec_bop_sorted; [exact H|]. apply (W []). reflexivity.
  - destruct (ent_get n (bents b')) as [[v|c0]|] eqn:G; try discriminate.
    destruct (exec_bop_subs _ _ _ _ _ _ _ H G) as [G0| ->].
    + apply (W (n :: p)). simpl. rewrite G0. exact Hp.
    + apply at_path_empty in Hp. destruct Hp as [_ ->]. constructor.
Qed.

Lemma shallow_sorted b b' : shallow b = shallow b' -> sorted_ents (bents b) -> sorted_ents (bents b').
Proof.
  unfold shallow, sorted_ents. intros [= _ H] S.
  apply (f_equal (map fst)) in H. rewrite !map_fst_map in H. rewrite <- H. exact S.
Qed.

Lemma some_inj {A} (x y : A) : Some x = Some y -> x = y.
Proof. congruence. Qed.

Lemma exec_op_wf w o root : wf root -> wf (fst (exec_op w o root)).
Proof.
  intros W. destruct o as [p bo]. unfold exec_op. simpl.
  destruct (at_path p root) as [b|] eqn:A; [|exact W].
  destruct (exec_bop w bo b) as [b' r] eqn:X. simpl.
  intros q c Hq.
  destruct (strip_prefix p q) as [t|] eqn:SP.
  - apply strip_prefix_some in SP. subst q.
    rewrite at_path_modify_below, A in Hq.
    assert (wf b') as W' by (eapply exec_bop_wf; [exact X|eapply wf_sub; eauto]).
    apply (W' t). exact Hq.
  - apply strip_prefix_none in SP.
    pose proof (at_path_modify_outside p (fun _ => b') q root SP) as O.
    rewrite Hq in O. cbn [option_map] in O.
    destruct (at_path q root) as [c0|] eqn:A0; [|discriminate].
    cbn [option_map] in O. apply some_inj in O.
    eapply shallow_sorted; [symmetry; exact O|]. apply (W q). exact A0.
Qed.

Lemma run_ops_wf w ops : forall root, wf root -> wf (fst (run_ops w root ops)).
Proof.
  induction ops as [|o ops IH]; intros root W; simpl; [exact W|].
  pose proof (exec_op_wf w o root W) as W1.
  destruct (exec_op w o root) as [root1 r]. simpl in W1.
  specialize (IH root1 W1). destruct (run_ops w root1 ops) as [root2 rs]. exact IH.
Qed.

(* ------------------------------------------------------------------ *)
(** * Commit normalisation *)

Definition norm_ent (e : ent) : ent :=
  match e with inl v => inl (norm_val v) | inr c => inr (normalize c) end.

Lemma normalize_unfold s l :
  normalize (Bkt s l) = Bkt s (map (fun ke => (fst ke, norm_ent (snd ke))) l).
Proof.
  simpl. f_equal. apply map_ext. intros [k e]. reflexivity.
Qed.

Lemma get_normalize k b :
  ent_get k (bents (normalize b)) = option_map norm_ent (ent_get k (bents b)).
Proof. destruct b as [s l]. rewrite normalize_unfold. simpl. apply get_map. Qed.

Lemma at_path_normalize p : forall b,
  at_path p (normalize b) = option_map normalize (at_path p b).
Proof.
  induction p as [|n p IH]; intros b; simpl; [reflexivity|].
  rewrite get_normalize. destruct (ent_get n (bents b)) as [[v|c]|]; simpl; auto.
Qed.

Lemma wf_normalize b : wf b -> wf (normalize b).
Proof.
  intros W p c H. rewrite at_path_normalize in H.
  destruct (at_path p b) as [c0|] eqn:A; [|discriminate]. simpl in H. injection H as <-.
  destruct c0 as [s l]. rewrite normalize_unfold. simpl.
  unfold sorted_ents. rewrite map_fst_map. apply (W p _ A).
Qed.

(** Induction over bucket trees. *)
Section bkt_induction.
  Variable P : bkt -> Prop.
  Definition entP (ke : bytes * ent) : Prop :=
    match snd ke with inl _ => True | inr c => P c end.
  Hypothesis step : forall s l, Forall entP l -> P (Bkt s l).
  Fixpoint bkt_induction (b : bkt) : P b :=
    match b with
    | Bkt s l =>
        step s l
          ((fix go (l : list (bytes * ent)) : Forall entP l :=
              match l return Forall entP l with
              | [] => Forall_nil entP
              | ke :: l' =>
                  @Forall_cons _ entP ke l'
                    (match ke return entP ke with
                     | (k, e) =>
                         match e return entP (k, e) with
                         | inl _ => I
                         | inr c => bkt_induction c
                         end
                     end) (go l')
              end) l)
    end.
End bkt_induction.

Lemma normalize_idem b : normalize (normalize b) = normalize b.
Proof.
  induction b as [s l IH] using bkt_induction.
  rewrite !normalize_unfold. f_equal. rewrite map_map. apply map_ext_in.
  intros [k e] Hin. simpl. f_equal.
  rewrite Forall_forall in IH. specialize (IH _ Hin). unfold entP in IH. simpl in IH.
  destruct e as [v|c]; simpl.
  - destruct v; reflexivity.
  - f_equal. exact IH.
Qed.

(* ------------------------------------------------------------------ *)
(** * One operation of a transaction body *)

Lemma exec_op_readonly o root root' r :
  exec_op false o root = (root', r) ->
  root' = root /\ (r = RNoBucket \/ not_writable_result (snd o) r).
Proof.
  destruct o as [p bo]. unfold exec_op. simpl.
  destruct (at_path p root) as [b|] eqn:A.
  - destruct (exec_bop false bo b) as [b' r'] eqn:X.
    apply exec_bop_readonly in X. destruct X as [-> X].
    intros [= <- <-]. split; [apply modify_id; exact A|right; exact X].
  - intros [= <- <-]. auto.
Qed.

Lemma run_ops_readonly ops : forall root, fst (run_ops false root ops) = root.
Proof.
  induction ops as [|o ops IH]; intros root; simpl; [reflexivity|].
  destruct (exec_op false o root) as [root1 r] eqn:X.
  apply exec_op_readonly in X. destruct X as [-> _].
  specialize (IH root). destruct (run_ops false root ops). exact IH.
Qed.

(** Namespace independence. *)
Lemma exec_op_outside w o root q :
  ~ prefix (fst o) q ->
  option_map shallow (at_path q (fst (exec_op w o root))) = option_map shallow (at_path q root).
Proof.
  destruct o as [p bo]. unfold exec_op. simpl. intros N.
  destruct (at_path p root) as [b|]; [|reflexivity].
  destruct (exec_bop w bo b) as [b' r]. simpl. apply at_path_modify_outside. exact N.
Qed.

Lemma exec_op_incomparable w o root q :
  ~ prefix (fst o) q -> ~ prefix q (fst o) ->
  at_path q (fst (exec_op w o root)) = at_path q root.
Proof.
  destruct o as [p bo]. unfold exec_op. simpl. intros N1 N2.
  destruct (at_path p root) as [b|]; [|reflexivity].
  destruct (exec_bop w bo b) as [b' r]. simpl. apply at_path_modify_incomparable; assumption.
Qed.

Lemma run_ops_outside w p q ops : forall root,
  Forall (fun o => prefix p (fst o)) ops -> ~ prefix p q ->
  option_map shallow (at_path q (fst (run_ops w root ops))) = option_map shallow (at_path q root).
Proof.
  induction ops as [|o ops IH]; intros root F N; simpl; [reflexivity|].
  inversion F as [|? ? [t Ht] F']; subst.
  pose proof (exec_op_outside w o root q) as E.
  destruct (exec_op w o root) as [root1 r]. simpl in E.
  specialize (IH root1 F' N). destruct (run_ops w root1 ops) as [root2 rs]. simpl in *.
  rewrite IH. apply E. rewrite Ht. apply prefix_app_not. exact N.
Qed.

Lemma run_ops_incomparable w p q ops : forall root,
  Forall (fun o => prefix p (fst o)) ops -> ~ prefix p q -> ~ prefix q p ->
  at_path q (fst (run_ops w root ops)) = at_path q root.
Proof.
  induction ops as [|o ops IH]; intros root F N1 N2; simpl; [reflexivity|].
  inversion F as [|? ? P F']; subst.
  pose proof (exec_op_incomparable w o root q) as E.
  destruct (exec_op w o root) as [root1 r]. simpl in E.
  specialize (IH root1 F' N1 N2). destruct (run_ops w root1 ops) as [root2 rs]. simpl in *.
  rewrite IH. apply E.
  - destruct P as [t Ht]. rewrite Ht. apply prefix_app_not. exact N1.
  - intros Q. destruct (prefix_comparable p q (fst o) P Q); contradiction.
Qed.

(** Read-your-writes. *)
Definition has_val (p : path) (k : bytes) (v : value) (root : bkt) : Prop :=
  exists b, at_path p root = Some b /\ ent_get k (bents b) = Some (inl v).

Definition interferes (o : op) (p : path) (k : bytes) : bool :=
  match strip_prefix (fst o) p with
  | Some [] => touches_val (snd o) k
  | Some (n :: _) => kills_sub (snd o) n
  | None => false
  end.

Lemma put_has_val p k v root root' :
  exec_op true (p, Put k v) root = (root', RErr None) -> has_val p k v root'.
Proof.
  unfold exec_op. cbn [fst snd]. destruct (at_path p root) as [b|] eqn:A; [|discriminate].
  destruct b as [s l]. intros H.
  assert (root' = modify p (fun _ => Bkt s (ent_set k (inl v) l)) root) as ->.
  { destruct (exec_bop true (Put k v) (Bkt s l)) as [b r] eqn:X.
    injection H as H1 H2. subst root' r.
    unfold exec_bop in X. simpl in X. destr_match X; inversion X; subst; reflexivity. }
  eexists. split; [rewrite at_path_modify_same, A; reflexivity|].
  simpl. apply get_set_same.
Qed.

Lemma has_val_get w p k v root :
  has_val p k v root -> exec_op w (p, Get k) root = (root, RVal v).
Proof.
  intros [b [A G]]. unfold exec_op. simpl. rewrite A. simpl. rewrite G.
  f_equal. apply modify_id. exact A.
Qed.

Lemma shallow_get_val b b' k v :
  shallow b = shallow b' -> ent_get k (bents b) = Some (inl v) -> ent_get k (bents b') = Some (inl v).
Proof.
  unfold shallow. intros [= _ H] G.
  pose proof (get_map mark k (bents b')) as G'. rewrite <- H, get_map, G in G'. simpl in G'.
  destruct (ent_get k (bents b')) as [[v'|c]|]; simpl in G'; congruence.
Qed.

Lemma exec_op_keeps_val w o root p k v :
  has_val p k v root -> interferes o p k = false -> has_val p k v (fst (exec_op w o root)).
Proof.
  intros [b [A G]] I. destruct o as [q bo]. unfold interferes in I. unfold exec_op. simpl in *.
  destruct (at_path q root) as [bq|] eqn:AQ; [|exists b; auto].
  destruct (exec_bop w bo bq) as [bq' r] eqn:X. simpl.
  destruct (strip_prefix q p) as [t|] eqn:SP.
  - apply strip_prefix_some in SP. subst p. unfold has_val.
    rewrite at_path_modify_below, AQ. rewrite at_path_app, AQ in A.
    destruct t as [|n t]; simpl in *.
    + injection A as ->. exists bq'. split; [reflexivity|].
      eapply exec_bop_keeps_val; eauto.
    + destruct (ent_get n (bents bq)) as [[v0|c]|] eqn:GN; try discriminate.
      rewrite (exec_bop_keeps_sub _ _ _ _ _ _ _ X GN I). exists b. auto.
  - apply strip_prefix_none in SP.
    pose proof (at_path_modify_outside q (fun _ => bq') p root SP) as O.
    rewrite A in O. cbn [option_map] in O.
    destruct (at_path p (modify q (fun _ => bq') root)) as [b'|] eqn:A'; [|discriminate].
    cbn [option_map] in O. apply some_inj in O. exists b'. split; [exact A'|].
    eapply shallow_get_val; [symmetry; exact O|exact G].
Qed.

Lemma run_ops_keeps_val w ops : forall root p k v,
  has_val p k v root -> forallb (fun o => negb (interferes o p k)) ops = true ->
  has_val p k v (fst (run_ops w root ops)).
Proof.
  induction ops as [|o ops IH]; intros root p k v H F; simpl in *; [exact H|].
  apply andb_true_iff in F. destruct F as [F1 F2]. apply negb_true_iff in F1.
  pose proof (exec_op_keeps_val w o root p k v H F1) as H1.
  destruct (exec_op w o root) as [root1 r]. simpl in H1.
  specialize (IH root1 p k v H1 F2). destruct (run_ops w root1 ops). exact IH.
Qed.

(* ------------------------------------------------------------------ *)
(** * Cursor enumeration over a sorted bucket *)

Lemma sorted_split {E} (l1 : list (bytes * E)) x l2 :
  sorted_ents (l1 ++ x :: l2) ->
  Forall (fun y => blt (fst y) (fst x)) l1 /\ Forall (fun y => blt (fst x) (fst y)) l2.
Proof.
  unfold sorted_ents, sorted_keys. induction l1 as [|a l1 IH]; simpl; intros HS.
  - inversion HS as [|? ? S1 F1]; subst. split; [constructor|].
    rewrite Forall_forall in *. intros y Hy. apply F1. apply in_map. exact Hy.
  - inversion HS as [|? ? S1 F1]; subst. destruct (IH S1) as [I1 I2]. split; [|exact I2].
    constructor; [|exact I1]. rewrite Forall_forall in F1. apply F1.
    rewrite map_app. apply in_or_app. right. left. reflexivity.
Qed.

Lemma find_app_none {A} (f : A -> bool) l1 l2 :
  Forall (fun x => f x = false) l1 -> find f (l1 ++ l2) = find f l2.
Proof.
  induction 1 as [|x l1 Hx _ IH]; simpl; [reflexivity|]. rewrite Hx. exact IH.
Qed.

Lemma first_gt_split l1 k (e : ent) l2 :
  sorted_ents (l1 ++ (k, e) :: l2) ->
  first_gt k (l1 ++ (k, e) :: l2) = hd_error l2.
Proof.
  intros HS. destruct (sorted_split _ _ _ HS) as [F1 F2]. unfold first_gt.
  rewrite find_app_none.
  - simpl. rewrite bltb_irrefl. destruct l2 as [|y l2]; [reflexivity|]. simpl.
    inversion F2; subst. simpl in *.
    assert (bltb k (fst y) = true) as -> by (apply bltb_lt; assumption). reflexivity.
  - eapply Forall_impl; [|exact F1]. simpl. intros y Hy. apply bltb_asym. apply bltb_lt. exact Hy.
Qed.

Lemma last_opt_snoc {A} (l : list A) x : last_opt (l ++ [x]) = Some x.
Proof.
  induction l as [|a l IH]; simpl; [reflexivity|].
  destruct (l ++ [x]) eqn:E; [destruct l; discriminate|exact IH].
Qed.

Lemma last_lt_split l1 k (e : ent) l2 :
  sorted_ents (l1 ++ (k, e) :: l2) ->
  last_lt k (l1 ++ (k, e) :: l2) = last_opt l1.
Proof.
  intros HS. destruct (sorted_split _ _ _ HS) as [F1 F2]. unfold last_lt. f_equal.
  rewrite filter_app. simpl. rewrite bltb_irrefl.
  assert (filter (fun ke : bytes * ent => bltb (fst ke) k) l2 = []) as ->.
  { clear -F2. induction F2 as [|y l2 Hy _ IH]; simpl; [reflexivity|].
    simpl in Hy. rewrite (bltb_asym k (fst y)) by (apply bltb_lt; exact Hy). exact IH. }
  rewrite app_nil_r. clear -F1. induction F1 as [|y l1 Hy _ IH]; simpl; [reflexivity|].
  simpl in Hy. apply bltb_lt in Hy. rewrite Hy. f_equal. exact IH.
Qed.

Definition seen (ke : bytes * ent) : cres := CKV (Some (obs_ent ke)).

Lemma scan_next w l2 : forall l1 k e l,
  l = l1 ++ (k, e) :: l2 -> sorted_ents l ->
  cursor_run w (l, PAt k) (repeat CNext (S (length l2))) = (l, map seen l2 ++ [CKV None]).
Proof.
  induction l2 as [|[k' e'] l2 IH]; intros l1 k e l -> HS.
  - simpl repeat. rewrite cursor_run_cons. unfold cursor_step.
    rewrite (first_gt_split _ _ _ _ HS). simpl. reflexivity.
  - change (repeat CNext (S (length ((k', e') :: l2))))
      with (CNext :: repeat CNext (S (length l2))).
    rewrite cursor_run_cons. unfold cursor_step.
    rewrite (first_gt_split _ _ _ _ HS). simpl hd_error. unfold at_ent. simpl fst.
    rewrite (IH (l1 ++ [(k, e)]) k' e').
    + reflexivity.
    + rewrite <- app_assoc. reflexivity.
    + exact HS.
Qed.

Lemma forward_scan w l :
  sorted_ents l ->
  cursor_run w (l, PNone) (CFirst :: repeat CNext (length l)) = (l, map seen l ++ [CKV None]).
Proof.
  intros HS. destruct l as [|[k e] l2].
  - reflexivity.
  - rewrite cursor_run_cons. simpl cursor_step. unfold at_ent. simpl fst.
    rewrite (scan_next w l2 [] k e); [reflexivity|reflexivity|exact HS].
Qed.

Lemma scan_prev w l1 : forall l2 k e l,
  l = l1 ++ (k, e) :: l2 -> sorted_ents l ->
  cursor_run w (l, PAt k) (repeat CPrev (S (length l1))) = (l, map seen (rev l1) ++ [CKV None]).
Proof.
  induction l1 as [|[k' e'] l1 IH] using rev_ind; intros l2 k e l -> HS.
  - simpl repeat. rewrite cursor_run_cons. unfold cursor_step.
    rewrite (last_lt_split _ _ _ _ HS). simpl. reflexivity.
  - rewrite app_length. simpl length. rewrite Nat.add_1_r.
    change (repeat CPrev (S (S (length l1)))) with (CPrev :: repeat CPrev (S (length l1))).
    rewrite cursor_run_cons. unfold cursor_step.
    rewrite (last_lt_split _ _ _ _ HS), last_opt_snoc. unfold at_ent. simpl fst.
    rewrite (IH ((k, e) :: l2) k' e').
    + rewrite rev_unit. reflexivity.
    + rewrite <- app_assoc. reflexivity.
    + exact HS.
Qed.

Lemma backward_scan w l :
  sorted_ents l ->
  cursor_run w (l, PNone) (CLast :: repeat CPrev (length l)) = (l, map seen (rev l) ++ [CKV None]).
Proof.
  intros HS. destruct l as [|a l0] using rev_ind.
  - reflexivity.
  - clear IHl0. destruct a as [k e].
    rewrite cursor_run_cons. unfold cursor_step. rewrite last_opt_snoc. unfold at_ent. simpl fst.
    rewrite app_length. simpl length. rewrite Nat.add_1_r.
    rewrite (scan_prev w l0 [] k e); [|reflexivity|exact HS].
    rewrite rev_unit. reflexivity.
Qed.

(** Seek k returns the least entry whose name is not below k, if any. *)
Lemma first_ge_spec k (l : list (bytes * ent)) :
  sorted_ents l ->
  match first_ge k l with
  | Some ke => In ke l /\ bltb (fst ke) k = false /\
               forall ke', In ke' l -> bltb (fst ke') k = false -> ke' = ke \/ blt (fst ke) (fst ke')
  | None => forall ke', In ke' l -> bltb (fst ke') k = true
  end.
Proof.
  unfold first_ge. induction l as [|a l IH]; intros HS; simpl.
  - intros ke' [].
  - assert (sorted_ents l) as HS' by (unfold sorted_ents, sorted_keys in *; simpl in HS; inversion HS; assumption).
    destruct (bltb (fst a) k) eqn:B; simpl.
    + specialize (IH HS'). destruct (find _ l) as [ke|].
      * destruct IH as (I1 & I2 & I3). repeat split; auto.
        intros ke' [<-|H] Hk; [congruence|auto].
      * intros ke' [<-|H]; auto.
    + repeat split; auto. intros ke' [<-|H] Hk; [auto|right].
      destruct (sorted_split [] a l HS) as [_ F]. rewrite Forall_forall in F. apply F. exact H.
Qed.

Lemma seek_step w l p k :
  cursor_step w (l, p) (CSeek k) =
  match first_ge k l with
  | Some ke => (l, PAt (fst ke), seen ke)
  | None => (l, PEnd, CKV None)
  end.
Proof. reflexivity. Qed.

(** The forward enumeration is strictly ascending. *)
Lemma seen_sorted (l : list (bytes * ent)) :
  sorted_ents l -> StronglySorted blt (map fst (map obs_ent l)).
Proof. unfold sorted_ents, sorted_keys. rewrite map_map. simpl. auto. Qed.

(** Lifted to a transaction: a full forward / backward walk of the bucket at
    path p reports exactly the bucket's entries, and leaves the tree alone. *)
Lemma exec_op_forward_scan w p root b :
  wf root -> at_path p root = Some b ->
  exec_op w (p, Cursor (CFirst :: repeat CNext (length (bents b)))) root =
  (root, RCur (map seen (bents b) ++ [CKV None])).
Proof.
  intros W A. unfold exec_op. cbn [fst snd]. rewrite A. unfold exec_bop.
  rewrite forward_scan by (apply (W p b A)).
  destruct b as [s l]. simpl. f_equal. apply modify_id. exact A.
Qed.

Lemma exec_op_backward_scan w p root b :
  wf root -> at_path p root = Some b ->
  exec_op w (p, Cursor (CLast :: repeat CPrev (length (bents b)))) root =
  (root, RCur (map seen (rev (bents b)) ++ [CKV None])).
Proof.
  intros W A. unfold exec_op. cbn [fst snd]. rewrite A. unfold exec_bop.
  rewrite backward_scan by (apply (W p b A)).
  destruct b as [s l]. simpl. f_equal. apply modify_id. exact A.
Qed.

Lemma exec_op_foreach w p root b :
  at_path p root = Some b ->
  exec_op w (p, ForEach) root = (root, REnts (map obs_ent (bents b))).
Proof.
  intros A. unfold exec_op. cbn [fst snd]. rewrite A. simpl. f_equal. apply modify_id. exact A.
Qed.

(* ------------------------------------------------------------------ *)
(** * Transactions *)

(** What the theorems need from the control-flow skeleton of a managed call. *)
Definition ends (f : flow) (o : outcome) : tx_end := fst (flow_at f o).
Definition returns (f : flow) (o : outcome) : option outcome := snd (flow_at f o).

(** a read-write call: commit exactly when the closure returned nil, roll back
    on the error path and on the panic path *)
Definition safe_rw (f : flow) : Prop :=
  ends f OOk = TCommit /\ ends f OErr = TRollback /\ ends f OPanic = TRollback.
(** a read-only call: roll back on every path *)
Definition safe_ro (f : flow) : Prop :=
  ends f OOk = TRollback /\ ends f OErr = TRollback /\ ends f OPanic = TRollback.
(** the caller learns how the closure ended: nil for nil, the closure's own
    error, the closure's own panic *)
Definition faithful (f : flow) : Prop :=
  returns f OOk = Some OOk /\ returns f OErr = Some OErr /\ returns f OPanic = Some OPanic.

Definition safe_flows (fl : flows) : Prop :=
  (safe_rw (fl_update fl) /\ faithful (fl_update fl)) /\
  (safe_ro (fl_view fl) /\ faithful (fl_view fl)) /\
  (safe_rw (fl_batch fl) /\ faithful (fl_batch fl)).

Lemma safe_rw_failed f o : safe_rw f -> o <> OOk -> ends f o = TRollback.
Proof. intros (_ & E & P) N. destruct o; [contradiction|assumption|assumption]. Qed.

Lemma safe_ro_all f o : safe_ro f -> ends f o = TRollback.
Proof. intros (A & E & P). destruct o; assumption. Qed.

Lemma faithful_all f o : faithful f -> returns f o = Some o.
Proof. intros (A & E & P). destruct o; assumption. Qed.

(** What a managed read-write call is, unfolded. *)
Lemma managed_rw_inv f s body o s' rs r :
  managed_rw f s body o = Some (s', rs, r) ->
  writer s = false /\
  rs = snd (run_ops true (committed s) body) /\
  r = returns f o /\
  s' = finish_rw (ends f o) {| committed := committed s; writer := true; readers := readers s |}
                 (fst (run_ops true (committed s) body)).
Proof.
  unfold managed_rw, begin_rw, ends, returns. destruct (writer s); [discriminate|].
  destruct (run_ops true (committed s) body) as [w1 rs1]. destruct (flow_at f o) as [e ret].
  intros [= <- <- <-]. auto.
Qed.

Lemma managed_rw_runs f s body o :
  writer s = false ->
  managed_rw f s body o =
  Some (finish_rw (ends f o) {| committed := committed s; writer := true; readers := readers s |}
                  (fst (run_ops true (committed s) body)),
        snd (run_ops true (committed s) body), returns f o).
Proof.
  intros W. unfold managed_rw, begin_rw, ends, returns. rewrite W.
  destruct (run_ops true (committed s) body) as [w1 rs1]. destruct (flow_at f o) as [e ret]. reflexivity.
Qed.

(** Rolled back: nothing changes, the writer lock is free again.  The premise
    is a fact about the code (the skeleton regenerated from it). *)
Lemma managed_rw_rolled_back f s body o s' rs r :
  ends f o = TRollback -> managed_rw f s body o = Some (s', rs, r) ->
  committed s' = committed s /\ writer s' = false /\ readers s' = readers s /\ r = returns f o.
Proof.
  intros E H. destruct (managed_rw_inv _ _ _ _ _ _ _ H) as (_ & _ & R & ->). rewrite E. simpl. auto.
Qed.

Lemma managed_rw_committed f s body o s' rs r :
  ends f o = TCommit -> managed_rw f s body o = Some (s', rs, r) ->
  committed s' = normalize (fst (run_ops true (committed s) body)) /\
  rs = snd (run_ops true (committed s) body) /\ writer s' = false /\ readers s' = readers s /\
  r = returns f o.
Proof.
  intros E H. destruct (managed_rw_inv _ _ _ _ _ _ _ H) as (_ & RS & R & ->). rewrite E. simpl. auto.
Qed.

(** The premises are needed: a skeleton that commits where it should roll
    back makes the closure's changes permanent; one that does neither keeps
    the writer lock, and every later read-write transaction blocks. *)
Lemma managed_rw_commit_keeps_changes f s body o s' rs r :
  ends f o = TCommit -> managed_rw f s body o = Some (s', rs, r) ->
  committed s' = normalize (fst (run_ops true (committed s) body)).
Proof. intros E H. apply (managed_rw_committed _ _ _ _ _ _ _ E H). Qed.

Lemma managed_rw_leak_blocks f s body o s' rs r g body2 o2 :
  ends f o = TLeak -> managed_rw f s body o = Some (s', rs, r) ->
  managed_rw g s' body2 o2 = None.
Proof.
  intros E H. destruct (managed_rw_inv _ _ _ _ _ _ _ H) as (_ & _ & _ & ->). rewrite E.
  reflexivity.
Qed.

Lemma update_failed fl s body o s' rs r :
  safe_rw (fl_update fl) -> faithful (fl_update fl) ->
  update fl s body o = Some (s', rs, r) -> o <> OOk ->
  committed s' = committed s /\ writer s' = false /\ readers s' = readers s /\ r = Some o.
Proof.
  intros S F H N. unfold update in H.
  destruct (managed_rw_rolled_back _ _ _ _ _ _ _ (safe_rw_failed _ _ S N) H) as (A & B & C & D).
  rewrite (faithful_all _ o F) in D. auto.
Qed.

Lemma update_committed fl s body s' rs r :
  safe_rw (fl_update fl) -> faithful (fl_update fl) ->
  update fl s body OOk = Some (s', rs, r) ->
  committed s' = normalize (fst (run_ops true (committed s) body)) /\
  rs = snd (run_ops true (committed s) body) /\ writer s' = false /\ readers s' = readers s /\
  r = Some OOk.
Proof.
  intros (C & _) F H. unfold update in H.
  destruct (managed_rw_committed _ _ _ _ _ _ _ C H) as (A & B & W & R & D).
  rewrite (faithful_all _ OOk F) in D. auto.
Qed.

(** Read-only calls. *)
Lemma managed_ro_results f s body o :
  snd (fst (managed_ro f s body o)) = snd (run_ops false (committed s) body) /\
  snd (managed_ro f s body o) = returns f o.
Proof. unfold managed_ro, begin_ro, returns. destruct (flow_at f o). auto. Qed.

Lemma pred_succ_readers n : N.pred (n + 1) = n.
Proof. lia. Qed.

Lemma managed_ro_rolled_back f s body o :
  ends f o = TRollback -> fst (fst (managed_ro f s body o)) = s.
Proof.
  unfold managed_ro, begin_ro, ends. destruct (flow_at f o) as [e ret]. simpl. intros ->.
  unfold finish_ro, close_ro. simpl. rewrite pred_succ_readers. destruct s; reflexivity.
Qed.

Lemma managed_ro_runs f s body o :
  ends f o = TRollback -> exists rs r, managed_ro f s body o = (s, rs, r).
Proof.
  intros E. pose proof (managed_ro_rolled_back f s body o E) as H.
  destruct (managed_ro f s body o) as [[s' rs] r]. simpl in H. subst. eauto.
Qed.

Lemma managed_ro_leaks f s body o :
  ends f o <> TRollback ->
  readers (fst (fst (managed_ro f s body o))) = readers s + 1 /\
  reopen (fst (fst (managed_ro f s body o))) = None.
Proof.
  unfold managed_ro, begin_ro, ends. destruct (flow_at f o) as [e ret]. simpl. intros N.
  assert (finish_ro e {| committed := committed s; writer := writer s; readers := readers s + 1 |}
          = {| committed := committed s; writer := writer s; readers := readers s + 1 |}) as ->
      by (destruct e; [reflexivity|contradiction|reflexivity]).
  split; [reflexivity|]. unfold reopen. simpl.
  replace (0 <? readers s + 1) with true by (symmetry; apply N.ltb_lt; lia).
  rewrite orb_true_r. reflexivity.
Qed.

Lemma view_unchanged fl s body o : safe_ro (fl_view fl) -> fst (fst (view fl s body o)) = s.
Proof. intros S. apply managed_ro_rolled_back. apply safe_ro_all. exact S. Qed.

(** db.Batch: the attempts that bbolt rolls back are invisible. *)
Lemma rolled_back_attempts_id n s body : writer s = false -> rolled_back_attempts n s body = Some s.
Proof.
  intros W. induction n as [|n IH]; simpl; [reflexivity|].
  unfold begin_rw. rewrite W. destruct (run_ops true (committed s) body) as [w1 rs1].
  simpl. unfold rollback. simpl.
  replace {| committed := committed s; writer := false; readers := readers s |} with s
    by (destruct s; simpl in *; subst; reflexivity).
  exact IH.
Qed.

Lemma batch_attempts_irrelevant fl n s body o :
  batch fl n s body o = managed_rw (fl_batch fl) s body o.
Proof.
  unfold batch. destruct (writer s) eqn:W.
  - destruct n as [|n]; simpl; [reflexivity|]. unfold managed_rw, begin_rw. rewrite W. reflexivity.
  - rewrite rolled_back_attempts_id by exact W. reflexivity.
Qed.

(** No transaction is open. *)
Definition quiet (s : dbstate) : Prop := writer s = false /\ readers s = 0.

Lemma quiet_init : quiet init_db.
Proof. split; reflexivity. Qed.

Lemma managed_rw_quiet f s body o :
  ends f o <> TLeak -> quiet s ->
  exists s' rs, managed_rw f s body o = Some (s', rs, returns f o) /\ quiet s'.
Proof.
  intros E [W R]. rewrite (managed_rw_runs f s body o W). eexists _, _. split; [reflexivity|].
  destruct (ends f o); [| |contradiction]; split; simpl; auto.
Qed.

Lemma safe_rw_no_leak f o : safe_rw f -> ends f o <> TLeak.
Proof. intros (A & E & P). destruct o; congruence. Qed.

Lemma const_flow_ends e r o : ends (const_flow e r) o = e /\ returns (const_flow e r) o = Some r.
Proof. destruct o; split; reflexivity. Qed.

Lemma run_tx_runs fl s k body :
  safe_flows fl -> quiet s ->
  exists s' rs r, run_tx fl s k body = Some (s', rs, r) /\ quiet s'.
Proof.
  intros ((SU & FU) & (SV & FV) & (SB & FB)) Q. destruct k as [o|o|o n|c|]; simpl.
  - destruct (managed_rw_quiet (fl_update fl) s body o (safe_rw_no_leak _ _ SU) Q) as (s' & rs & H & Q').
    unfold update. eauto.
  - destruct (managed_ro_runs (fl_view fl) s body o (safe_ro_all _ o SV)) as (rs & r & H).
    unfold view. rewrite H. eauto.
  - rewrite batch_attempts_irrelevant.
    destruct (managed_rw_quiet (fl_batch fl) s body o (safe_rw_no_leak _ _ SB) Q) as (s' & rs & H & Q'). eauto.
  - destruct c.
    + destruct (managed_rw_quiet (const_flow TCommit OOk) s body OOk) as (s' & rs & H & Q'); [discriminate|exact Q|eauto].
    + destruct (managed_rw_quiet (const_flow TRollback OErr) s body OOk) as (s' & rs & H & Q'); [discriminate|exact Q|eauto].
  - destruct (managed_ro_runs (const_flow TRollback OOk) s body OOk eq_refl) as (rs & r & H).
    rewrite H. eauto.
Qed.

Lemma run_txs_runs fl txs : safe_flows fl -> forall s,
  quiet s -> exists s' rss, run_txs fl s txs = Some (s', rss) /\ quiet s'.
Proof.
  intros SF. induction txs as [|[k body] txs IH]; intros s Q; simpl.
  - eauto.
  - destruct (run_tx_runs fl s k body SF Q) as (s1 & rs & o & H1 & Q1). rewrite H1.
    destruct (IH s1 Q1) as (s2 & rss & H2 & Q2). rewrite H2. eauto.
Qed.

Lemma reopen_quiet s : quiet s -> exists s', reopen s = Some s' /\ committed s' = committed s /\ quiet s'.
Proof.
  intros [W R]. unfold reopen. rewrite W, R. simpl. eexists. repeat split.
Qed.

(** What is reachable: committed trees are well formed and already normal,
    whatever the skeleton. *)
Definition good (s : dbstate) : Prop :=
  wf (committed s) /\ normalize (committed s) = committed s.

Lemma good_init : good init_db.
Proof. split; [apply wf_empty|reflexivity]. Qed.

Lemma managed_rw_good f s body o s' rs r :
  good s -> managed_rw f s body o = Some (s', rs, r) -> good s'.
Proof.
  intros [W Nm] H. destruct (managed_rw_inv _ _ _ _ _ _ _ H) as (_ & _ & _ & ->).
  pose proof (run_ops_wf true body (committed s) W) as W1.
  destruct (ends f o); simpl; split; simpl; auto using wf_normalize, normalize_idem.
Qed.

Lemma managed_ro_good f s body o : good s -> good (fst (fst (managed_ro f s body o))).
Proof.
  intros G. unfold managed_ro, begin_ro. destruct (flow_at f o) as [e ret]. simpl.
  destruct e; exact G.
Qed.

Lemma run_tx_good fl s k body s' rs o :
  good s -> run_tx fl s k body = Some (s', rs, o) -> good s'.
Proof.
  intros G H. destruct k as [o0|o0|o0 n|c|]; simpl in H.
  - eapply managed_rw_good; eauto.
  - injection H as H. replace s' with (fst (fst (view fl s body o0))) by (rewrite H; reflexivity).
    apply managed_ro_good. exact G.
  - rewrite batch_attempts_irrelevant in H. eapply managed_rw_good; eauto.
  - destruct c; eapply managed_rw_good; eauto.
  - injection H as H.
    replace s' with (fst (fst (managed_ro (const_flow TRollback OOk) s body OOk))) by (rewrite H; reflexivity).
    apply managed_ro_good. exact G.
Qed.

Lemma run_txs_good fl txs : forall s s' rss,
  good s -> run_txs fl s txs = Some (s', rss) -> good s'.
Proof.
  induction txs as [|[k body] txs IH]; intros s s' rss G H; simpl in H.
  - injection H as <- _. exact G.
  - destruct (run_tx fl s k body) as [[[s1 rs] o]|] eqn:T; [|discriminate].
    destruct (run_txs fl s1 txs) as [[s2 rss2]|] eqn:R; [|discriminate].
    injection H as <- _. eapply IH; [|exact R]. eapply run_tx_good; eauto.
Qed.

(** After commit every name bound in the working copy is bound (nil read as
    empty), every other name is unbound: all changes, together. *)
Definition lookup (p : path) (k : bytes) (root : bkt) : option ent :=
  match at_path p root with Some b => ent_get k (bents b) | None => None end.

Lemma lookup_normalize p k root :
  lookup p k (normalize root) = option_map norm_ent (lookup p k root).
Proof.
  unfold lookup. rewrite at_path_normalize. destruct (at_path p root) as [b|]; simpl; [|reflexivity].
  apply get_normalize.
Qed.

(* ------------------------------------------------------------------ *)
(** * Operations on incomparable bucket paths commute *)

Lemma replace_comm {E} n m (x y : E) (l : list (bytes * E)) :
  n <> m -> ent_replace n x (ent_replace m y l) = ent_replace m y (ent_replace n x l).
Proof.
  intros NM. induction l as [|[k e] l IH]; simpl; [reflexivity|].
  destruct (beqb m k) eqn:Bm; destruct (beqb n k) eqn:Bn; simpl; rewrite ?Bm, ?Bn.
  - apply beqb_true in Bm. apply beqb_true in Bn. congruence.
  - assert (beqb n m = false) as -> by (apply beqb_false; exact NM). reflexivity.
  - assert (beqb m n = false) as -> by (apply beqb_false; congruence). reflexivity.
  - f_equal. exact IH.
Qed.

Lemma set_comm_present {E} n m (x y ex ey : E) (l : list (bytes * E)) :
  n <> m -> ent_get n l = Some ex -> ent_get m l = Some ey ->
  ent_set n x (ent_set m y l) = ent_set m y (ent_set n x l).
Proof.
  intros NM Gn Gm.
  assert (ent_set m y l = ent_replace m y l) as E1 by (unfold ent_set; rewrite Gm; reflexivity).
  assert (ent_set n x l = ent_replace n x l) as E2 by (unfold ent_set; rewrite Gn; reflexivity).
  unfold ent_set at 1. rewrite E1 at 1. rewrite get_replace_other, Gn by congruence.
  unfold ent_set at 2. rewrite E2 at 1. rewrite get_replace_other, Gm by congruence.
  rewrite E1, E2. apply replace_comm. exact NM.
Qed.

Lemma modify_comm p : forall q f g b,
  ~ prefix p q -> ~ prefix q p ->
  modify p f (modify q g b) = modify q g (modify p f b).
Proof.
  induction p as [|n p IH]; intros q f g b N1 N2.
  - exfalso. apply N1. exists q. reflexivity.
  - destruct q as [|m q]; [exfalso; apply N2; exists (n :: p); reflexivity|].
    destruct b as [s l].
    destruct (beqb n m) eqn:B.
    + apply beqb_true in B. subst m.
      simpl. destruct (ent_get n l) as [[v|c]|] eqn:G; simpl; rewrite ?G; try reflexivity.
      rewrite !get_set_same, !set_set. do 3 f_equal.
      apply IH; intros H; [apply N1|apply N2]; apply prefix_cons; exact H.
    + apply beqb_false in B. simpl.
      destruct (ent_get n l) as [[vn|cn]|] eqn:Gn; destruct (ent_get m l) as [[vm|cm]|] eqn:Gm;
        simpl; rewrite ?Gn, ?Gm; try reflexivity;
        try (rewrite get_set_other by congruence; rewrite ?Gn, ?Gm; reflexivity).
      rewrite (get_set_other m n) by congruence. rewrite (get_set_other n m) by congruence.
      rewrite Gn, Gm. f_equal. eapply set_comm_present; eauto.
Qed.

Lemma exec_op_comm w o1 o2 root :
  ~ prefix (fst o1) (fst o2) -> ~ prefix (fst o2) (fst o1) ->
  let '(r1, x1) := exec_op w o1 root in
  let '(r12, x2) := exec_op w o2 r1 in
  let '(r2, y2) := exec_op w o2 root in
  let '(r21, y1) := exec_op w o1 r2 in
  r12 = r21 /\ x1 = y1 /\ x2 = y2.
Proof.
  destruct o1 as [p1 b1], o2 as [p2 b2]. simpl. intros N1 N2.
  unfold exec_op. cbn [fst snd].
  destruct (at_path p1 root) as [c1|] eqn:A1; destruct (at_path p2 root) as [c2|] eqn:A2.
  - destruct (exec_bop w b1 c1) as [c1' x1] eqn:X1. destruct (exec_bop w b2 c2) as [c2' x2] eqn:X2.
    rewrite at_path_modify_incomparable, A2 by assumption. rewrite X2.
    rewrite at_path_modify_incomparable, A1 by assumption. rewrite X1.
    repeat split. apply modify_comm; assumption.
  - destruct (exec_bop w b1 c1) as [c1' x1] eqn:X1.
    rewrite at_path_modify_incomparable, A2 by assumption. rewrite ?A1, ?X1. auto.
  - rewrite ?A2. destruct (exec_bop w b2 c2) as [c2' x2] eqn:X2.
    rewrite at_path_modify_incomparable, A1 by assumption. auto.
  - rewrite ?A2, ?A1. auto.
Qed.

(* ------------------------------------------------------------------ *)
(** * Cursor.Delete followed by a re-Seek of the same key lands on the follower *)

Lemma find_filter {A} (p q : A -> bool) l :
  find p (filter q l) = find (fun x => q x && p x) l.
Proof.
  induction l as [|x l IH]; simpl; [reflexivity|].
  destruct (q x); simpl; [destruct (p x); auto|exact IH].
Qed.

Lemma find_ext {A} (p q : A -> bool) l : (forall x, p x = q x) -> find p l = find q l.
Proof.
  intros H. induction l as [|x l IH]; simpl; [reflexivity|]. rewrite H, IH. reflexivity.
Qed.

Lemma trichotomy_bool k x : negb (beqb k x) && negb (bltb x k) = bltb k x.
Proof.
  unfold beqb, bltb. rewrite (bcmp_antisym k x). destruct (bcmp k x); reflexivity.
Qed.

Lemma first_ge_del k (l : list (bytes * ent)) : first_ge k (ent_del k l) = first_gt k l.
Proof.
  unfold first_ge, first_gt, ent_del. rewrite find_filter. apply find_ext.
  intros x. apply trichotomy_bool.
Qed.

Lemma delete_then_reseek l k v :
  ent_get k l = Some (inl v) ->
  cursor_run true (l, PAt k) [CDelete; CSeek k] =
  (ent_del k l, [CErr None; match first_gt k l with Some ke => seen ke | None => CKV None end]).
Proof.
  intros G. rewrite cursor_run_cons. simpl cursor_step. rewrite G.
  rewrite cursor_run_cons, seek_step, first_ge_del.
  destruct (first_gt k l); reflexivity.
Qed.

(* ------------------------------------------------------------------ *)
(** * Goroutines contending for the writer lock

    Any interleaving of the moves of several managed read-write calls that
    the single-writer lock admits is a serial run of the calls in the order in
    which they began: same database, same results, same return values. *)

Lemma run_ops_snoc w root ops o :
  run_ops w root (ops ++ [o]) =
  let (r1, rs1) := run_ops w root ops in
  let (r2, r) := exec_op w o r1 in (r2, rs1 ++ [r]).
Proof.
  revert root. induction ops as [|o' ops IH]; intros root; simpl.
  - destruct (exec_op w o root) as [r2 r]. reflexivity.
  - destruct (exec_op w o' root) as [root1 r']. rewrite IH.
    destruct (run_ops w root1 ops) as [r1 rs1]. destruct (exec_op w o r1) as [r2 r]. reflexivity.
Qed.

Lemma run_serial_snoc f jobs order : forall s res i j D D' rs ret,
  run_serial f jobs s order = Some (D, res) ->
  nth_error jobs i = Some j ->
  managed_rw f D (j_body j) (j_out j) = Some (D', rs, ret) ->
  run_serial f jobs s (order ++ [i]) = Some (D', res ++ [(i, rs, ret)]).
Proof.
  induction order as [|a order IH]; intros s res i j D D' rs ret H N M; simpl in *.
  - injection H as <- <-. rewrite N, M. reflexivity.
  - destruct (nth_error jobs a) as [ja|]; [|discriminate].
    destruct (managed_rw f s (j_body ja) (j_out ja)) as [[[s1 rs1] ret1]|]; [|discriminate].
    destruct (run_serial f jobs s1 order) as [[s2 l]|] eqn:R; [|discriminate].
    injection H as <- <-. rewrite (IH s1 l i j s2 D' rs ret R N M). reflexivity.
Qed.

Lemma run_serial_order f jobs order : forall s D res,
  run_serial f jobs s order = Some (D, res) -> map (fun x => fst (fst x)) res = order.
Proof.
  induction order as [|a order IH]; intros s D res H; simpl in H.
  - injection H as _ <-. reflexivity.
  - destruct (nth_error jobs a) as [ja|]; [|discriminate].
    destruct (managed_rw f s (j_body ja) (j_out ja)) as [[[s1 rs1] ret1]|]; [|discriminate].
    destruct (run_serial f jobs s1 order) as [[s2 l]|] eqn:R; [|discriminate].
    injection H as _ <-. simpl. f_equal. eapply IH. exact R.
Qed.

Definition thr_done (c : cstate) (res : list (nat * list result * option outcome)) : Prop :=
  forall i rs ret, In (i, rs, ret) res -> c_thr c i = TDone rs ret.

(** at rest: no call holds the lock; [order] = the calls that are over *)
Definition resting f jobs s0 (c : cstate) order res : Prop :=
  run_serial f jobs s0 order = Some (c_db c, res) /\ NoDup order /\ thr_done c res /\
  (forall i, ~ In i order -> c_thr c i = TIdle).

(** call [i0] holds the lock and has done the operations [done] of its closure *)
Definition inside f jobs s0 (c : cstate) order res D i0 : Prop :=
  run_serial f jobs s0 order = Some (D, res) /\ NoDup order /\ ~ In i0 order /\ thr_done c res /\
  (forall i, i <> i0 -> ~ In i order -> c_thr c i = TIdle) /\
  writer D = false /\
  c_db c = {| committed := committed D; writer := true; readers := readers D |} /\
  exists j done todo w rs, nth_error jobs i0 = Some j /\ j_body j = done ++ todo /\
    run_ops true (committed D) done = (w, rev rs) /\ c_thr c i0 = TRun w todo rs.

Definition sched_inv f jobs s0 (c : cstate) : Prop :=
  (exists order res, resting f jobs s0 c order res) \/
  (exists order res D i0, inside f jobs s0 c order res D i0).

Lemma in_order_done f jobs s0 order D res c i :
  run_serial f jobs s0 order = Some (D, res) -> thr_done c res -> In i order ->
  exists rs ret, c_thr c i = TDone rs ret.
Proof.
  intros R T I. rewrite <- (run_serial_order _ _ _ _ _ _ R) in I.
  apply in_map_iff in I. destruct I as ([[i' rs] ret] & E & I). simpl in E. subst i'.
  exists rs, ret. apply T. exact I.
Qed.

Lemma set_thr_same c i t : set_thr c i t i = t.
Proof. unfold set_thr. rewrite Nat.eqb_refl. reflexivity. Qed.

Lemma set_thr_other c i t k : k <> i -> set_thr c i t k = c k.
Proof. intros N. unfold set_thr. apply Nat.eqb_neq in N. rewrite N. reflexivity. Qed.

Lemma sched_inv_init f jobs s0 : sched_inv f jobs s0 (cinit s0).
Proof.
  left. exists [], []. repeat split; simpl; auto using NoDup_nil. intros i rs ret [].
Qed.

Lemma NoDup_snoc {A} (l : list A) x : NoDup l -> ~ In x l -> NoDup (l ++ [x]).
Proof.
  induction 1 as [|y l NY ND IH]; intros NI; simpl.
  - constructor; [intros []|constructor].
  - constructor.
    + intros K. apply in_app_or in K. destruct K as [K|[K|[]]]; [exact (NY K)|]. apply NI. left. symmetry. exact K.
    + apply IH. intros K. apply NI. right. exact K.
Qed.

Lemma not_in_order_res f jobs s0 order D res i rs ret :
  run_serial f jobs s0 order = Some (D, res) -> ~ In i order -> ~ In (i, rs, ret) res.
Proof.
  intros R NI K. apply NI. rewrite <- (run_serial_order _ _ _ _ _ _ R).
  apply in_map_iff. exists (i, rs, ret). auto.
Qed.

Lemma thr_done_set f jobs s0 order D res c db i t :
  run_serial f jobs s0 order = Some (D, res) -> ~ In i order -> thr_done c res ->
  thr_done (CState db (set_thr (c_thr c) i t)) res.
Proof.
  intros R NI TD k rs ret K. simpl. rewrite set_thr_other; [apply TD; exact K|].
  intros ->. exact (not_in_order_res _ _ _ _ _ _ _ _ _ R NI K).
Qed.

Lemma sched_step_inv f jobs s0 c i c' :
  sched_inv f jobs s0 c -> sched_step f jobs c i = Some c' -> sched_inv f jobs s0 c'.
Proof.
  intros [(order & res & R & ND & TD & ID)|(order & res & D & i0 & R & ND & NI & TD & ID & WD & DB & J)] H;
    unfold sched_step in H; destruct (nth_error jobs i) as [j|] eqn:NJ; try discriminate.
  - (* at rest: only a begin is possible *)
    destruct (in_dec Nat.eq_dec i order) as [I|I].
    { destruct (in_order_done _ _ _ _ _ _ _ _ R TD I) as (rs & ret & E). rewrite E in H. discriminate. }
    rewrite (ID i I) in H. destruct (begin_rw (c_db c)) as [[s1 w0]|] eqn:B; [|discriminate].
    injection H as <-. unfold begin_rw in B. destruct (writer (c_db c)) eqn:W; [discriminate|].
    injection B as <- <-.
    right. exists order, res, (c_db c), i.
    split; [exact R|]. split; [exact ND|]. split; [exact I|].
    split; [eapply thr_done_set; eauto|].
    split. { intros k K1 K2. simpl. rewrite set_thr_other by exact K1. apply ID. exact K2. }
    split; [exact W|]. split; [reflexivity|].
    exists j, [], (j_body j), (committed (c_db c)), []. simpl. rewrite set_thr_same. auto.
  - (* a call is inside *)
    destruct J as (j0 & done & todo & w & rs & NJ0 & BODY & RUN & THR).
    destruct (Nat.eq_dec i i0) as [->|NE].
    + rewrite NJ0 in NJ. injection NJ as <-. rewrite THR in H. destruct todo as [|o todo].
      * (* the end of the call *)
        destruct (flow_at f (j_out j0)) as [e ret] eqn:FA. injection H as <-.
        rewrite app_nil_r in BODY.
        assert (managed_rw f D (j_body j0) (j_out j0) =
                Some (finish_rw e (c_db c) w, rev rs, ret)) as M.
        { rewrite (managed_rw_runs f D _ _ WD). rewrite BODY, RUN. unfold ends, returns.
          rewrite FA, DB. reflexivity. }
        left. exists (order ++ [i0]), (res ++ [(i0, rev rs, ret)]).
        split; [eapply run_serial_snoc; eauto|].
        split; [apply NoDup_snoc; assumption|].
        split.
        { intros k rs' ret' K. simpl. apply in_app_or in K. destruct K as [K|[K|[]]].
          - rewrite set_thr_other; [apply TD; exact K|].
            intros ->. exact (not_in_order_res _ _ _ _ _ _ _ _ _ R NI K).
          - injection K as <- <- <-. apply set_thr_same. }
        intros k K. simpl. rewrite set_thr_other.
        -- apply ID; intros X; apply K; apply in_or_app; [right; left; auto|left; exact X].
        -- intros ->. apply K. apply in_or_app. right. left. reflexivity.
      * (* one operation of the closure *)
        destruct (exec_op true o w) as [w' r] eqn:X. injection H as <-.
        right. exists order, res, D, i0.
        split; [exact R|]. split; [exact ND|]. split; [exact NI|].
        split; [eapply thr_done_set; eauto|].
        split. { intros k K1 K2. simpl. rewrite set_thr_other by exact K1. apply ID; assumption. }
        split; [exact WD|]. split; [exact DB|].
        exists j0, (done ++ [o]), todo, w', (r :: rs). simpl. rewrite set_thr_same.
        split; [exact NJ0|]. split; [rewrite BODY, <- app_assoc; reflexivity|].
        split; [|reflexivity]. rewrite run_ops_snoc, RUN, X. reflexivity.
    + (* another goroutine: over, or it would have to begin *)
      destruct (in_dec Nat.eq_dec i order) as [I|I].
      { destruct (in_order_done _ _ _ _ _ _ _ _ R TD I) as (rs' & ret' & E). rewrite E in H. discriminate. }
      rewrite (ID i NE I) in H. rewrite DB in H. discriminate.
Qed.

Lemma run_sched_inv f jobs s0 sch : forall c c',
  sched_inv f jobs s0 c -> run_sched f jobs c sch = Some c' -> sched_inv f jobs s0 c'.
Proof.
  induction sch as [|i sch IH]; intros c c' I H; simpl in H.
  - injection H as <-. exact I.
  - destruct (sched_step f jobs c i) as [c1|] eqn:S; [|discriminate].
    eapply IH; [|exact H]. eapply sched_step_inv; eauto.
Qed.

Definition quiescent (c : cstate) : Prop := forall i w todo rs, c_thr c i <> TRun w todo rs.

Lemma sched_serializable f jobs s sch c :
  run_sched f jobs (cinit s) sch = Some c -> quiescent c ->
  exists order res,
    NoDup order /\ run_serial f jobs s order = Some (c_db c, res) /\
    map (fun x => fst (fst x)) res = order /\
    (forall i rs ret, In (i, rs, ret) res -> c_thr c i = TDone rs ret) /\
    (forall i, ~ In i order -> c_thr c i = TIdle).
Proof.
  intros H Q. destruct (run_sched_inv f jobs s sch _ _ (sched_inv_init f jobs s) H)
    as [(order & res & R & ND & TD & ID)|(order & res & D & i0 & _ & _ & _ & _ & _ & _ & _ & J)].
  - exists order, res. repeat split; auto. eapply run_serial_order; eauto.
  - destruct J as (j0 & done & todo & w & rs & _ & _ & _ & THR). exfalso. eapply Q. exact THR.
Qed.

(** With a skeleton that rolls back on error and panic, the calls that failed
    leave no trace: the serial run equals the serial run of the calls whose
    closure returned nil, each applied exactly once. *)
Definition job_ok (jobs : list job) (i : nat) : bool :=
  match nth_error jobs i with
  | Some (Job _ OOk) => true
  | _ => false
  end.

Lemma managed_rw_failed_id f s body o s' rs r :
  ends f o = TRollback -> managed_rw f s body o = Some (s', rs, r) -> s' = s.
Proof.
  intros E H. destruct (managed_rw_inv _ _ _ _ _ _ _ H) as (W & _ & _ & ->). rewrite E. simpl.
  unfold rollback. simpl. destruct s; simpl in *; subst; reflexivity.
Qed.

Lemma run_serial_failed_invisible f jobs order : safe_rw f -> forall s D res,
  run_serial f jobs s order = Some (D, res) ->
  exists res', run_serial f jobs s (filter (job_ok jobs) order) = Some (D, res') /\
               res' = filter (fun x => job_ok jobs (fst (fst x))) res.
Proof.
  intros S. induction order as [|a order IH]; intros s D res H; simpl in H.
  - injection H as <- <-. exists []. auto.
  - destruct (nth_error jobs a) as [ja|] eqn:NJ; [|discriminate].
    destruct (managed_rw f s (j_body ja) (j_out ja)) as [[[s1 rs1] ret1]|] eqn:M; [|discriminate].
    destruct (run_serial f jobs s1 order) as [[s2 l]|] eqn:R; [|discriminate].
    injection H as <- <-. destruct (IH _ _ _ R) as (res' & R' & E').
    destruct ja as [body o]. simpl in *.
    assert (job_ok jobs a = match o with OOk => true | _ => false end) as JO
      by (unfold job_ok; rewrite NJ; reflexivity).
    rewrite JO. destruct o.
    + simpl. rewrite NJ. simpl. rewrite M, R'. eexists. split; [reflexivity|]. rewrite E'. reflexivity.
    + rewrite (managed_rw_failed_id _ _ _ _ _ _ _ (safe_rw_failed f OErr S ltac:(discriminate)) M) in R'.
      eauto.
    + rewrite (managed_rw_failed_id _ _ _ _ _ _ _ (safe_rw_failed f OPanic S ltac:(discriminate)) M) in R'.
      eauto.
Qed.
