(** C10 - the mutating operations of waddrmgr (scoped_manager.go, manager.go,
    sync.go, db.go) as programs of the fault language, with the in-memory part
    of the managers.

    Disk.  Keys are abstract; the ORDER and NUMBER of mutating calls per branch
    follow the Go code; one Coq definition per Go function, one [call] per call
    site whose error may stem from a write, named as Generated/ErrFlow.v names
    it ("waddrmgr:<function>><callee>").

    Memory.  [mem] records what the running managers hold IN ADDITION to what
    the store says (the store is what a freshly opened manager answers from):
    the lock / watch-only flags and the effects of the calls made so far.  Every
    operation has a memory effect and a SHAPE that says when the Go code
    applies it (after its own writes, at commit, before its writes); the shape
    of every operation is regenerated from the source (Generated/ErrFlow.v,
    [mem_shapes]) and required by Properties/C10.v.

    An address is named by its path [sc; account; branch; index] (imported
    keys and scripts: [sc; -1; kind; k] with kind 0 private key, 1 script,
    2 public key, 3 witness script, 4 taproot script); account -1 is
    ImportedAddrAccount.  Definitions only. *)
From stdpp Require Import gmap.
From Coq Require Import ZArith List String.
From Verif Require Import Fault.Fault.
Import ListNotations.
Local Open Scope string_scope.
Local Open Scope Z_scope.
Local Open Scope list_scope.

(** global buckets *)
Definition gNS := 9.         (* the namespace bucket itself *)
Definition gMain := 10.      (* crypto keys, master key params, flags *)
Definition gSync := 11.      (* [h] -> [hash]; special keys below *)
Definition gScope := 12.     (* parent of the per-scope buckets *)
Definition gSchemas := 13.   (* [sc] -> schema *)
Definition kSyncedTo : key := [-1].
Definition kStartBlock : key := [-2].
Definition kBirthdayBlock : key := [-3].
Definition kBirthdayVerified : key := [-4].
Definition kBirthday : key := [-5].
Definition kMasterPriv : key := [1].
Definition kMasterPub : key := [2].
Definition kCryptoPriv : key := [3].
Definition kCryptoScript : key := [4].
Definition kCryptoPub : key := [5].
Definition kWatchOnly : key := [6].
Definition kMasterHDPriv : key := [7].
Definition kMasterHDPub : key := [8].
Definition kVersion : key := [9].
Definition kCreateDate : key := [10].

(** buckets of scope [sc] *)
Definition sb (sc off : Z) : Z := 100 + 16 * sc + off.
Definition oScope := 0.      (* the scope bucket itself: cointype keys [1] public, [2] private *)
Definition oAcct := 1.       (* [a] -> [next ext; next int; name; kind]
                                kind 0 default account with private key, 1 without, 2 watch-only row *)
Definition oAddr := 2.       (* path -> [account; secret] (secret: the row holds a private key / secret script) *)
Definition oUsed := 3.
Definition oAddrAcctIdx := 4.
Definition oNameIdx := 5.    (* [name] -> [a] *)
Definition oIDIdx := 6.      (* [a] -> [name] *)
Definition oMeta := 7.       (* [0] -> [last account] *)
(** the per-account bucket nested in the address-account index *)
Definition acct_sub (sc a : Z) : Z := 1000000 * (sc + 1) + a + 1.
Definition all_scopes : list Z := [0; 1; 2; 3; 4; 5].
Definition default_scopes : list Z := [0; 1; 2; 3].

Definition eLocked := 20.
Definition eDuplicateAccount := 21.
Definition eAccountNotFound := 22.
Definition eInvalidAccount := 23.
Definition eAddressNotFound := 24.
Definition eDuplicateAddress := 25.
Definition eBlockNotFound := 26.
Definition eWrongPassphrase := 27.
Definition eScopeNotFound := 28.
Definition eWatchingOnly := 29.
Definition eMgrAlreadyExists := 30.

Definition name_imported := 1.
Definition name_default := 2.
Definition max_reorg_depth := 10000.

(** ** Memory *)
Record mem := {
  m_locked : bool;
  m_watch : bool;
  m_keys : bool;                    (* the (encrypted) private crypto keys and their key objects are in memory *)
  m_synced : option (Z * Z);        (* SyncedTo() answers this instead of the stored value *)
  m_start : option Z;
  m_birthday : option Z;
  m_scopes : list Z;                (* scoped managers registered beyond the stored ones *)
  m_names : list (Z * Z * Z);       (* cached account names that differ from the store: (sc, a, name) *)
  m_next : list (Z * Z * Z * Z);    (* cached next indices: (sc, a, branch, next) *)
  m_addrs : list key;               (* addresses put into the address cache by operations *)
  m_priv : option Z;                (* private / public passphrase the running manager checks against *)
  m_pub : option Z
}.

Definition mem0 (locked : bool) : mem :=
  {| m_locked := locked; m_watch := false; m_keys := true; m_synced := None; m_start := None;
     m_birthday := None; m_scopes := []; m_names := []; m_next := []; m_addrs := [];
     m_priv := None; m_pub := None |}.

(** observable categories (the harness's names) *)
Definition cSyncedTo := 1.
Definition cBirthday := 2.
Definition cScopes := 3.
Definition cAccountName := 4.
Definition cNextIndex := 5.
Definition cAddressLookup := 6.
Definition cPassphrase := 7.
Definition cWatchOnly := 8.
Definition cLocked := 9.
Definition cKeyMaterial := 10.
Definition cOther := 11.        (* start block, public passphrase: kept in memory, not asked by any query *)

Definition oeqb {X} (eqb : X -> X -> bool) (a b : option X) : bool :=
  match a, b with
  | Some x, Some y => eqb x y
  | None, None => true
  | _, _ => false
  end.
Definition pair_eqb (a b : Z * Z) : bool := (fst a =? fst b) && (snd a =? snd b).

(** which categories of queries can answer differently under [m'] than under [m] *)
Definition mem_cats (m m' : mem) : list Z :=
  (if oeqb pair_eqb (m_synced m) (m_synced m') then [] else [cSyncedTo]) ++
  (if oeqb Z.eqb (m_birthday m) (m_birthday m') then [] else [cBirthday]) ++
  (if Nat.eqb (List.length (m_scopes m)) (List.length (m_scopes m')) then [] else [cScopes]) ++
  (if Nat.eqb (List.length (m_names m)) (List.length (m_names m')) then [] else [cAccountName]) ++
  (if Nat.eqb (List.length (m_next m)) (List.length (m_next m')) then [] else [cNextIndex]) ++
  (if Nat.eqb (List.length (m_addrs m)) (List.length (m_addrs m')) then [] else [cAddressLookup]) ++
  (if oeqb Z.eqb (m_priv m) (m_priv m') then [] else [cPassphrase]) ++
  (if Bool.eqb (m_watch m) (m_watch m') then [] else [cWatchOnly]) ++
  (if Bool.eqb (m_locked m) (m_locked m') then [] else [cLocked]) ++
  (if Bool.eqb (m_keys m) (m_keys m') then [] else [cKeyMaterial]) ++
  (if oeqb Z.eqb (m_start m) (m_start m') && oeqb Z.eqb (m_pub m) (m_pub m') then [] else [cOther]).

(** ** db.go *)

Definition put_account_row (sc a : Z) (row : val) : prog unit :=
  call "waddrmgr:putAccountRow>db.Put" (put (sb sc oAcct) [a] row).
Definition put_account_id_index (sc a name : Z) : prog unit :=
  call "waddrmgr:putAccountIDIndex>db.Put" (put (sb sc oIDIdx) [a] [name]).
Definition put_account_name_index (sc a name : Z) : prog unit :=
  call "waddrmgr:putAccountNameIndex>db.Put" (put (sb sc oNameIdx) [name] [a]).
Definition delete_account_id_index (sc a : Z) : prog unit :=
  call "waddrmgr:deleteAccountIDIndex>db.Delete" (del (sb sc oIDIdx) [a]).
Definition delete_account_name_index (sc name : Z) : prog unit :=
  call "waddrmgr:deleteAccountNameIndex>db.Delete" (del (sb sc oNameIdx) [name]).

(** putAccountInfo: account row, id index, name index *)
Definition put_account_info (sc a : Z) (row : val) (name : Z) : prog unit :=
  call "waddrmgr:putAccountInfo>putAccountRow" (put_account_row sc a row) ;;;
  call "waddrmgr:putAccountInfo>putAccountIDIndex" (put_account_id_index sc a name) ;;;
  call "waddrmgr:putAccountInfo>putAccountNameIndex" (put_account_name_index sc a name).
Definition put_default_account_info (sc a ne ni name kind : Z) : prog unit :=
  call "waddrmgr:putDefaultAccountInfo>putAccountInfo" (put_account_info sc a [ne; ni; name; kind] name).
Definition put_watchonly_account_info (sc a ne ni name : Z) : prog unit :=
  call "waddrmgr:putWatchOnlyAccountInfo>putAccountInfo" (put_account_info sc a [ne; ni; name; 2] name).
Definition put_last_account (sc a : Z) : prog unit :=
  call "waddrmgr:putLastAccount>db.Put" (put (sb sc oMeta) [0] [a]).

(** putAddrAccountIndex: index entry, CreateBucketIfNotExists of the account's
    bucket, entry in it *)
Definition put_addr_account_index (sc a : Z) (path : key) : prog unit :=
  call "waddrmgr:putAddrAccountIndex>db.Put" (put (sb sc oAddrAcctIdx) path [a]) ;;;
  call "waddrmgr:putAddrAccountIndex>db.CreateBucketIfNotExists" (create_bucket_if_not_exists (acct_sub sc a)) ;;;
  call "waddrmgr:putAddrAccountIndex>db.Put" (put (acct_sub sc a) path []).
(** putAddress: address row, then the index *)
Definition put_address (sc a : Z) (path : key) (secret : Z) : prog unit :=
  call "waddrmgr:putAddress>db.Put" (put (sb sc oAddr) path [a; secret]) ;;;
  call "waddrmgr:putAddress>putAddrAccountIndex" (put_addr_account_index sc a path).
(** putChainedAddress: putAddress, then the account row with the next index of
    the branch *)
Definition put_chained_address (sc a branch idx : Z) : prog unit :=
  call "waddrmgr:putChainedAddress>putAddress" (put_address sc a [sc; a; branch; idx] 0) ;;;
  row <- get (sb sc oAcct) [a] ;;
  (match row with
   | Some [ne; ni; nm; kd] =>
     call "waddrmgr:putChainedAddress>db.Put"
          (put (sb sc oAcct) [a] (if branch =? 1 then [ne; idx + 1; nm; kd] else [idx + 1; ni; nm; kd]))
   | _ => Fail eAccountNotFound
   end).
Definition put_imported_address (sc : Z) (path : key) (secret : Z) : prog unit :=
  call "waddrmgr:putImportedAddress>putAddress" (put_address sc (-1) path secret).
Definition put_script_address (sc : Z) (path : key) (secret : Z) : prog unit :=
  call "waddrmgr:putScriptAddress>putAddress" (put_address sc (-1) path secret).
Definition put_witness_script_address (sc : Z) (path : key) (secret : Z) : prog unit :=
  call "waddrmgr:putWitnessScriptAddress>putAddress" (put_address sc (-1) path secret).

(** markAddressUsed: no write when already used *)
Definition mark_address_used (path : key) : prog unit :=
  let sc := hd 0 path in
  u <- get (sb sc oUsed) path ;;
  (match u with
   | Some _ => Ret tt
   | None => call "waddrmgr:markAddressUsed>db.Put" (put (sb sc oUsed) path [0])
   end).

Definition put_start_block (h : Z) : prog unit :=
  call "waddrmgr:putStartBlock>db.Put" (put gSync kStartBlock [h]).
Definition put_birthday (t : Z) : prog unit :=
  call "waddrmgr:putBirthday>db.Put" (put gSync kBirthday [t]).
Definition put_birthday_block (h hash : Z) : prog unit :=
  call "waddrmgr:PutBirthdayBlock>db.Put" (put gSync kBirthdayBlock [h; hash]).
Definition put_birthday_block_verification (v : bool) : prog unit :=
  call "waddrmgr:putBirthdayBlockVerification>db.Put" (put gSync kBirthdayVerified [b2z v]).

(** PutSyncedTo *)
Definition add_block_hash (h hash : Z) : prog unit :=
  call "waddrmgr:addBlockHash>db.Put" (put gSync [h] [hash]).
Definition delete_block_hash (h : Z) : prog unit :=
  call "waddrmgr:deleteBlockHash>db.Delete" (del gSync [h]).
Definition update_synced_to (h hash : Z) : prog unit :=
  call "waddrmgr:updateSyncedTo>db.Put" (put gSync kSyncedTo [h; hash]).
Definition put_synced_to (h hash : Z) : prog unit :=
  ok <- (if 0 <? h then
           bb <- get gSync kBirthdayBlock ;;
           (match bb with
            | None => Ret true
            | Some _ => prev <- get gSync [h - 1] ;; Ret (isSome prev)
            end)
         else Ret true) ;;
  (if negb ok then Fail eBlockNotFound else
   call "waddrmgr:PutSyncedTo>addBlockHash" (add_block_hash h hash) ;;;
   (if 0 <? h - max_reorg_depth
    then call "waddrmgr:PutSyncedTo>deleteBlockHash" (delete_block_hash (h - max_reorg_depth))
    else Ret tt) ;;;
   call "waddrmgr:PutSyncedTo>updateSyncedTo" (update_synced_to h hash)).

Definition opt_put (st : site) (b : Z) (k : key) (v : option Z) : prog unit :=
  match v with Some x => call st (put b k [x]) | None => Ret tt end.
(** putMasterKeyParams: private first; putCryptoKeys: public, private, script;
    putMasterHDKeys: private, public; putCoinTypeKeys: public, private *)
Definition put_master_key_params (pub priv : option Z) : prog unit :=
  opt_put "waddrmgr:putMasterKeyParams>db.Put" gMain kMasterPriv priv ;;;
  opt_put "waddrmgr:putMasterKeyParams>db.Put" gMain kMasterPub pub.
Definition put_crypto_keys (pub priv script : option Z) : prog unit :=
  opt_put "waddrmgr:putCryptoKeys>db.Put" gMain kCryptoPub pub ;;;
  opt_put "waddrmgr:putCryptoKeys>db.Put" gMain kCryptoPriv priv ;;;
  opt_put "waddrmgr:putCryptoKeys>db.Put" gMain kCryptoScript script.
Definition put_master_hd_keys : prog unit :=
  call "waddrmgr:putMasterHDKeys>db.Put" (put gMain kMasterHDPriv []) ;;;
  call "waddrmgr:putMasterHDKeys>db.Put" (put gMain kMasterHDPub []).
Definition put_coin_type_keys (sc : Z) : prog unit :=
  call "waddrmgr:putCoinTypeKeys>db.Put" (put (sb sc oScope) [1] []) ;;;
  call "waddrmgr:putCoinTypeKeys>db.Put" (put (sb sc oScope) [2] []).
Definition put_watching_only (w : bool) : prog unit :=
  call "waddrmgr:putWatchingOnly>db.Put" (put gMain kWatchOnly [b2z w]).
Definition put_manager_version : prog unit :=
  call "waddrmgr:putManagerVersion>db.Put" (put gMain kVersion []).

(** createScopedManagerNS: the scope bucket and its seven sub-buckets *)
Definition create_scoped_manager_ns (sc : Z) : prog unit :=
  for_each [oScope; oAcct; oAddr; oUsed; oAddrAcctIdx; oNameIdx; oIDIdx; oMeta]
           (fun off => call "waddrmgr:createScopedManagerNS>db.CreateBucket" (create_bucket (sb sc off))).

(** createManagerKeyScope: cointype keys, the two default accounts, the
    last-account row *)
Definition create_manager_key_scope (sc : Z) : prog unit :=
  call "waddrmgr:createManagerKeyScope>putCoinTypeKeys" (put_coin_type_keys sc) ;;;
  call "waddrmgr:createManagerKeyScope>putDefaultAccountInfo" (put_default_account_info sc 0 0 0 name_default 0) ;;;
  call "waddrmgr:createManagerKeyScope>putDefaultAccountInfo" (put_default_account_info sc (-1) 0 0 name_imported 1) ;;;
  call "waddrmgr:createManagerKeyScope>putLastAccount" (put_last_account sc 0).

(** createManagerNS (the Go code walks a map: the scopes come in any order;
    they touch different buckets) *)
Definition create_manager_ns (scs : list Z) : prog unit :=
  for_each [gMain; gSync; gScope; gSchemas]
           (fun b => call "waddrmgr:createManagerNS>db.CreateBucket" (create_bucket b)) ;;;
  for_each scs (fun sc =>
    call "waddrmgr:createManagerNS>db.Put" (put gSchemas [sc] []) ;;;
    call "waddrmgr:createManagerNS>createScopedManagerNS" (create_scoped_manager_ns sc) ;;;
    call "waddrmgr:createManagerNS>putLastAccount" (put_last_account sc 0)) ;;;
  call "waddrmgr:createManagerNS>putManagerVersion" put_manager_version ;;;
  call "waddrmgr:createManagerNS>db.Put" (put gMain kCreateDate []).

(** deletePrivateKeys *)
Definition strip_account (sc : Z) (e : key * val) : prog unit :=
  match snd e with
  | [ne; ni; nm; kd] =>
    if kd =? 2 then Ret tt
    else call "waddrmgr:deletePrivateKeys$1$1>db.Put" (put (sb sc oAcct) (fst e) [ne; ni; nm; 1])
  | _ => Ret tt
  end.
Definition strip_address (sc : Z) (e : key * val) : prog unit :=
  match fst e, snd e with
  | [_; (-1); kind; _], [a; secret] =>
    if (kind =? 0) || (kind =? 1) || (kind =? 2) || (((kind =? 3) || (kind =? 4)) && (secret =? 1))
    then call "waddrmgr:deletePrivateKeys$1$2>db.Put" (put (sb sc oAddr) (fst e) [a; 0])
    else Ret tt          (* public witness / taproot scripts stay as they are *)
  | _, _ => Ret tt
  end.
Definition strip_scope (sc : Z) : prog unit :=
  call "waddrmgr:deletePrivateKeys$1>db.Delete" (del (sb sc oScope) [2]) ;;;
  accts <- scan (sb sc oAcct) ;;
  call "waddrmgr:deletePrivateKeys$1>bucket.ForEach(callback)" (for_each accts (strip_account sc)) ;;;
  addrs <- scan (sb sc oAddr) ;;
  call "waddrmgr:deletePrivateKeys$1>bucket.ForEach(callback)" (for_each addrs (strip_address sc)).
Definition delete_private_keys : prog unit :=
  for_each [kMasterPriv; kCryptoPriv; kCryptoScript; kMasterHDPriv]
           (fun k => call "waddrmgr:deletePrivateKeys>db.Delete" (del gMain k)) ;;;
  scs <- Read (fun s => filter (fun sc => isSome (s !! sb sc oScope)) all_scopes) ;;
  call "waddrmgr:deletePrivateKeys>scopeBucket.ForEach(callback)" (for_each scs strip_scope).

(** ** manager.go / scoped_manager.go / sync.go *)

Definition scope_exists (sc : Z) : prog bool := has_bucket (sb sc oScope).
Definition fetch_last_account (sc : Z) : prog Z :=
  lastv <- get (sb sc oMeta) [0] ;;
  Ret (match lastv with Some [l] => (l + 1) mod 4294967296 | _ => 0 end).

(** NewScopedKeyManager *)
Definition new_scope (m : mem) (sc : Z) : prog unit :=
  if negb (m_watch m) && m_locked m then Fail eLocked else
  hd_priv <- get gMain kMasterHDPriv ;;
  (if negb (m_watch m) && negb (isSome hd_priv) then Fail eWatchingOnly else
   call "waddrmgr:(*Manager).NewScopedKeyManager>createScopedManagerNS" (create_scoped_manager_ns sc) ;;;
   call "waddrmgr:(*Manager).NewScopedKeyManager>db.Put" (put gSchemas [sc] []) ;;;
   (if m_watch m then Ret tt
    else call "waddrmgr:(*Manager).NewScopedKeyManager>createManagerKeyScope" (create_manager_key_scope sc))).

(** newAccount / NewAccount.  fetchLastAccount answers 2^32-1 when the key is
    missing and the increment wraps around. *)
Definition new_account_inner (sc a name : Z) : prog unit :=
  dup <- get (sb sc oNameIdx) [name] ;;
  (match dup with
   | Some _ => Fail eDuplicateAccount
   | None =>
     call "waddrmgr:(*ScopedKeyManager).newAccount>putDefaultAccountInfo" (put_default_account_info sc a 0 0 name 0) ;;;
     call "waddrmgr:(*ScopedKeyManager).newAccount>putLastAccount" (put_last_account sc a)
   end).
Definition new_account (m : mem) (sc name : Z) : prog unit :=
  ex <- scope_exists sc ;;
  (if negb ex then Fail eScopeNotFound else
   if m_watch m then Fail eWatchingOnly else
   if m_locked m then Fail eLocked else
   a <- fetch_last_account sc ;;
   call "waddrmgr:(*ScopedKeyManager).NewAccount>(*ScopedKeyManager).newAccount" (new_account_inner sc a name)).

(** newAccountWatchingOnly / NewAccountWatchingOnly (no lock check) *)
Definition new_account_wo_inner (sc a name : Z) : prog unit :=
  dup <- get (sb sc oNameIdx) [name] ;;
  (match dup with
   | Some _ => Fail eDuplicateAccount
   | None =>
     call "waddrmgr:(*ScopedKeyManager).newAccountWatchingOnly>putWatchOnlyAccountInfo"
          (put_watchonly_account_info sc a 0 0 name) ;;;
     call "waddrmgr:(*ScopedKeyManager).newAccountWatchingOnly>putLastAccount" (put_last_account sc a)
   end).
Definition new_account_wo (sc name : Z) : prog unit :=
  ex <- scope_exists sc ;;
  (if negb ex then Fail eScopeNotFound else
   a <- fetch_last_account sc ;;
   call "waddrmgr:(*ScopedKeyManager).NewAccountWatchingOnly>(*ScopedKeyManager).newAccountWatchingOnly"
        (new_account_wo_inner sc a name)).

(** NewRawAccountWatchingOnly: the account number is given, the name is
    "act:<number>" (name id 1000 + number) *)
Definition new_raw_account_wo (sc a : Z) : prog unit :=
  ex <- scope_exists sc ;;
  (if negb ex then Fail eScopeNotFound else
   call "waddrmgr:(*ScopedKeyManager).NewRawAccountWatchingOnly>(*ScopedKeyManager).newAccountWatchingOnly"
        (new_account_wo_inner sc a (1000 + a))).

(** RenameAccount *)
Definition rename_account (sc a name : Z) : prog unit :=
  if a =? -1 then Fail eInvalidAccount else
  dup <- get (sb sc oNameIdx) [name] ;;
  (match dup with
   | Some _ => Fail eDuplicateAccount
   | None =>
     row <- get (sb sc oAcct) [a] ;;
     (match row with
      | Some [ne; ni; old; kd] =>
        call "waddrmgr:(*ScopedKeyManager).RenameAccount>deleteAccountIDIndex" (delete_account_id_index sc a) ;;;
        call "waddrmgr:(*ScopedKeyManager).RenameAccount>deleteAccountNameIndex" (delete_account_name_index sc old) ;;;
        (if kd =? 2
         then call "waddrmgr:(*ScopedKeyManager).RenameAccount>putWatchOnlyAccountInfo"
                   (put_watchonly_account_info sc a ne ni name)
         else call "waddrmgr:(*ScopedKeyManager).RenameAccount>putDefaultAccountInfo"
                   (put_default_account_info sc a ne ni name kd))
      | _ => Fail eAccountNotFound
      end)
   end).

Definition next_index (sc a branch : Z) : prog (option Z) :=
  row <- get (sb sc oAcct) [a] ;;
  Ret (match row with
       | Some [ne; ni; _; _] => Some (if branch =? 1 then ni else ne)
       | _ => None
       end).

(** nextAddresses (n >= 1): n times putChainedAddress; the read-back between
    them makes no write.  Result: the paths written. *)
Definition next_addresses_inner (sc a branch : Z) (n : nat) : prog (list key) :=
  nx <- next_index sc a branch ;;
  (match nx with
   | None => Fail eAccountNotFound
   | Some i0 =>
     for_each (seqZ_from i0 n) (fun i =>
       call "waddrmgr:(*ScopedKeyManager).nextAddresses>putChainedAddress" (put_chained_address sc a branch i)) ;;;
     Ret (map (fun i => [sc; a; branch; i]) (seqZ_from i0 n))
   end).
Definition next_addresses (sc a branch : Z) (n : nat) : prog (list key) :=
  ex <- scope_exists sc ;;
  (if negb ex then Fail eScopeNotFound else
   if branch =? 1
   then Call "waddrmgr:(*ScopedKeyManager).NextInternalAddresses>(*ScopedKeyManager).nextAddresses"
             (next_addresses_inner sc a branch n) []
   else Call "waddrmgr:(*ScopedKeyManager).NextExternalAddresses>(*ScopedKeyManager).nextAddresses"
             (next_addresses_inner sc a branch n) []).

(** extendAddresses: nothing when lastIndex < next index.  Result: the paths
    written. *)
Definition extend_range (sc a branch last : Z) : prog (option (list Z)) :=
  nx <- next_index sc a branch ;;
  Ret (match nx with
       | None => None
       | Some i0 => Some (if last <? i0 then [] else seqZ_from i0 (Z.to_nat (last - i0 + 1)))
       end).
Definition extend_addresses_inner (sc a branch last : Z) : prog (list key) :=
  r <- extend_range sc a branch last ;;
  (match r with
   | None => Fail eAccountNotFound
   | Some l =>
     for_each l (fun i =>
       call "waddrmgr:(*ScopedKeyManager).extendAddresses>putChainedAddress" (put_chained_address sc a branch i)) ;;;
     Ret (map (fun i => [sc; a; branch; i]) l)
   end).
Definition extend_addresses (sc a branch last : Z) : prog (list key) :=
  ex <- scope_exists sc ;;
  (if negb ex then Fail eScopeNotFound else
   if branch =? 1
   then Call "waddrmgr:(*ScopedKeyManager).ExtendInternalAddresses>(*ScopedKeyManager).extendAddresses"
             (extend_addresses_inner sc a branch last) []
   else Call "waddrmgr:(*ScopedKeyManager).ExtendExternalAddresses>(*ScopedKeyManager).extendAddresses"
             (extend_addresses_inner sc a branch last) []).

(** Manager.MarkUsed -> ScopedKeyManager.MarkUsed -> markAddressUsed *)
Definition mark_used (path : key) : prog unit :=
  let sc := hd 0 path in
  ex <- get (sb sc oAddr) path ;;
  (match ex with
   | None => Fail eAddressNotFound
   | Some _ =>
     call "waddrmgr:(*Manager).MarkUsed>(*ScopedKeyManager).MarkUsed"
          (call "waddrmgr:(*ScopedKeyManager).MarkUsed>markAddressUsed" (mark_address_used path))
   end).

(** importPublicKey: duplicate check, putImportedAddress, start block when
    the stamp is older *)
Definition start_moved (b : bool) : list key := if b then [[1]] else [].
Definition import_public_key (sc : Z) (path : key) (h secret : Z) : prog (list key) :=
  ex <- get (sb sc oAddr) path ;;
  (match ex with
   | Some _ => Fail eDuplicateAddress
   | None =>
     start <- get gSync kStartBlock ;;
     call "waddrmgr:(*ScopedKeyManager).importPublicKey>putImportedAddress" (put_imported_address sc path secret) ;;;
     (if h <? hd 0 (default [] start)
      then call "waddrmgr:(*ScopedKeyManager).importPublicKey>putStartBlock" (put_start_block h)
      else Ret tt) ;;;
     Ret (start_moved (h <? hd 0 (default [] start)))
   end).
(** importScriptAddress *)
Definition import_script_address (m : mem) (sc : Z) (path : key) (h : Z) (secret witness : bool) : prog (list key) :=
  if secret && m_locked m then Fail eLocked else
  if secret && m_watch m then Fail eWatchingOnly else
  ex <- get (sb sc oAddr) path ;;
  (match ex with
   | Some _ => Fail eDuplicateAddress
   | None =>
     start <- get gSync kStartBlock ;;
     (if witness
      then call "waddrmgr:(*ScopedKeyManager).importScriptAddress>putWitnessScriptAddress"
                (put_witness_script_address sc path (b2z secret))
      else call "waddrmgr:(*ScopedKeyManager).importScriptAddress>putScriptAddress"
                (put_script_address sc path (b2z secret))) ;;;
     (if h <? hd 0 (default [] start)
      then call "waddrmgr:(*ScopedKeyManager).importScriptAddress>putStartBlock" (put_start_block h)
      else Ret tt) ;;;
     Ret (start_moved (h <? hd 0 (default [] start)))
   end).
(** ImportPrivateKey (kind 0), ImportScript (1), ImportPublicKey (2),
    ImportWitnessScript (3), ImportTaprootScript (4) *)
Definition import_address (m : mem) (sc kind k h : Z) (secret : bool) : prog (list key) :=
  let path := [sc; -1; kind; k] in
  ex <- scope_exists sc ;;
  (if negb ex then Fail eScopeNotFound else
   if kind =? 0 then
     (if m_locked m && negb (m_watch m) then Fail eLocked else
      Call "waddrmgr:(*ScopedKeyManager).ImportPrivateKey>(*ScopedKeyManager).importPublicKey"
           (import_public_key sc path h (b2z (negb (m_watch m)))) [])
   else if kind =? 2 then
     Call "waddrmgr:(*ScopedKeyManager).ImportPublicKey>(*ScopedKeyManager).importPublicKey"
          (import_public_key sc path h 0) []
   else if kind =? 1 then
     Call "waddrmgr:(*ScopedKeyManager).ImportScript>(*ScopedKeyManager).importScriptAddress"
          (import_script_address m sc path h true false) []
   else if kind =? 3 then
     Call "waddrmgr:(*ScopedKeyManager).ImportWitnessScript>(*ScopedKeyManager).importScriptAddress"
          (import_script_address m sc path h secret true) []
   else
     Call "waddrmgr:(*ScopedKeyManager).ImportTaprootScript>(*ScopedKeyManager).importScriptAddress"
          (import_script_address m sc path h secret true) []).

(** SetSyncedTo / SetBirthdayBlock / SetBirthday *)
Definition set_synced_to (h hash : Z) : prog unit :=
  call "waddrmgr:(*Manager).SetSyncedTo>PutSyncedTo" (put_synced_to h hash).
Definition set_birthday_block (h hash : Z) (verified : bool) : prog unit :=
  call "waddrmgr:(*Manager).SetBirthdayBlock>PutBirthdayBlock" (put_birthday_block h hash) ;;;
  call "waddrmgr:(*Manager).SetBirthdayBlock>putBirthdayBlockVerification" (put_birthday_block_verification verified).
Definition set_birthday (t : Z) : prog unit :=
  call "waddrmgr:(*Manager).SetBirthday>putBirthday" (put_birthday t).

(** ChangePassphrase (the old passphrase is checked against the key
    parameters in memory) *)
Definition change_passphrase (m : mem) (private : bool) (old new : Z) : prog unit :=
  if private && m_watch m then Fail eWatchingOnly else
  cur <- get gMain (if private then kMasterPriv else kMasterPub) ;;
  let cur_id := match (if private then m_priv m else m_pub m) with
                | Some x => x
                | None => hd 0 (default [] cur)
                end in
  (if negb (cur_id =? old) then Fail eWrongPassphrase else
   if private then
     call "waddrmgr:(*Manager).ChangePassphrase>putCryptoKeys" (put_crypto_keys None (Some new) (Some new)) ;;;
     call "waddrmgr:(*Manager).ChangePassphrase>putMasterKeyParams" (put_master_key_params None (Some new))
   else
     call "waddrmgr:(*Manager).ChangePassphrase>putCryptoKeys" (put_crypto_keys (Some new) None None) ;;;
     call "waddrmgr:(*Manager).ChangePassphrase>putMasterKeyParams" (put_master_key_params (Some new) None)).

(** ConvertToWatchingOnly *)
Definition convert_to_watching_only (m : mem) : prog unit :=
  if m_watch m then Ret tt else
  call "waddrmgr:(*Manager).ConvertToWatchingOnly>deletePrivateKeys" delete_private_keys ;;;
  call "waddrmgr:(*Manager).ConvertToWatchingOnly>putWatchingOnly" (put_watching_only true).

(** waddrmgr.Create with the default scopes, private passphrase id [priv],
    public passphrase id [pub]; [watch]: without root key *)
Definition mgr_fresh : kv := {[ gNS := ∅ ]}.
Definition create_manager (watch : bool) (priv pub : Z) : prog unit :=
  ex <- has_bucket gMain ;;
  (if ex then Fail eMgrAlreadyExists else
   call "waddrmgr:Create>createManagerNS" (create_manager_ns (if watch then [] else default_scopes)) ;;;
   (if watch then Ret tt else
    for_each default_scopes (fun sc =>
      call "waddrmgr:Create>createManagerKeyScope" (create_manager_key_scope sc)) ;;;
    call "waddrmgr:Create>putMasterHDKeys" put_master_hd_keys) ;;;
   call "waddrmgr:Create>putMasterKeyParams"
        (put_master_key_params (Some pub) (if watch then None else Some priv)) ;;;
   call "waddrmgr:Create>putCryptoKeys"
        (put_crypto_keys (Some pub) (if watch then None else Some priv) (if watch then None else Some priv)) ;;;
   call "waddrmgr:Create>putWatchingOnly" (put_watching_only watch) ;;;
   call "waddrmgr:Create>PutSyncedTo" (put_synced_to 0 0) ;;;
   call "waddrmgr:Create>putStartBlock" (put_start_block 0) ;;;
   call "waddrmgr:Create>putBirthday" (put_birthday 0)).

(** ** Operations (one or several per database transaction) *)
Inductive mgr_op :=
| MNewScope (sc : Z)
| MNewAccount (sc name : Z)
| MNewAccountWO (sc name : Z)
| MNewRawAccountWO (sc a : Z)
| MRename (sc a name : Z)
| MNext (sc a branch : Z) (n : nat)
| MExtend (sc a branch last : Z)
| MMarkUsed (path : key)
| MImport (sc kind k h : Z) (secret : bool)
| MSetSyncedTo (h hash : Z)
| MSetBirthdayBlock (h hash : Z) (verified : bool)
| MSetBirthday (t : Z)
| MChangePassphrase (private : bool) (old new : Z)
| MConvertWO
| MCreate (watch : bool).

(** the disk part (it reads the lock / watch-only flags and the passphrase
    parameters from memory, everything else from the store); the result is
    what the memory effect needs to know about it *)
Definition mgr_disk (o : mgr_op) (m : mem) : prog (list key) :=
  Call "" (match o with
  | MNewScope sc => new_scope m sc ;;; Ret []
  | MNewAccount sc name => new_account m sc name ;;; Ret []
  | MNewAccountWO sc name => new_account_wo sc name ;;; Ret []
  | MNewRawAccountWO sc a => new_raw_account_wo sc a ;;; Ret []
  | MRename sc a name => rename_account sc a name ;;; Ret []
  | MNext sc a branch n => next_addresses sc a branch n
  | MExtend sc a branch last => extend_addresses sc a branch last
  | MMarkUsed path => mark_used path ;;; Ret []
  | MImport sc kind k h secret => import_address m sc kind k h secret
  | MSetSyncedTo h hash => set_synced_to h hash ;;; Ret []
  | MSetBirthdayBlock h hash v => set_birthday_block h hash v ;;; Ret []
  | MSetBirthday t => set_birthday t ;;; Ret []
  | MChangePassphrase p old new => change_passphrase m p old new ;;; Ret []
  | MConvertWO => convert_to_watching_only m ;;; Ret []
  | MCreate w => create_manager w 0 0 ;;; Ret []
  end) [].

(** field updates *)
Definition with_flags (locked watch keys : bool) (m : mem) : mem :=
  {| m_locked := locked; m_watch := watch; m_keys := keys; m_synced := m_synced m; m_start := m_start m;
     m_birthday := m_birthday m; m_scopes := m_scopes m; m_names := m_names m; m_next := m_next m;
     m_addrs := m_addrs m; m_priv := m_priv m; m_pub := m_pub m |}.
Definition with_sync (synced : option (Z * Z)) (start birthday : option Z) (m : mem) : mem :=
  {| m_locked := m_locked m; m_watch := m_watch m; m_keys := m_keys m; m_synced := synced; m_start := start;
     m_birthday := birthday; m_scopes := m_scopes m; m_names := m_names m; m_next := m_next m;
     m_addrs := m_addrs m; m_priv := m_priv m; m_pub := m_pub m |}.
Definition with_caches (scopes : list Z) (names : list (Z * Z * Z)) (next : list (Z * Z * Z * Z))
  (addrs : list key) (m : mem) : mem :=
  {| m_locked := m_locked m; m_watch := m_watch m; m_keys := m_keys m; m_synced := m_synced m; m_start := m_start m;
     m_birthday := m_birthday m; m_scopes := scopes; m_names := names; m_next := next;
     m_addrs := addrs; m_priv := m_priv m; m_pub := m_pub m |}.
Definition with_pass (priv pub : option Z) (m : mem) : mem :=
  {| m_locked := m_locked m; m_watch := m_watch m; m_keys := m_keys m; m_synced := m_synced m; m_start := m_start m;
     m_birthday := m_birthday m; m_scopes := m_scopes m; m_names := m_names m; m_next := m_next m;
     m_addrs := m_addrs m; m_priv := priv; m_pub := pub |}.

Definition key_eqb (a b : key) : bool := if list_eq_dec Z.eq_dec a b then true else false.

(** the memory effect of a call whose disk part answered [r] *)
Definition mgr_mem (o : mgr_op) (r : list key) (m : mem) : mem :=
  match o with
  | MNewScope sc => with_caches (m_scopes m ++ [sc]) (m_names m) (m_next m) (m_addrs m) m
  | MRename sc a name => with_caches (m_scopes m) (m_names m ++ [(sc, a, name)]) (m_next m) (m_addrs m) m
  | MNext sc a branch _ | MExtend sc a branch _ =>
    (* next index and cache entries of the addresses written; nothing when none was *)
    match r with
    | [] => m
    | _ => with_caches (m_scopes m) (m_names m)
                       (m_next m ++ [(sc, a, branch, 1 + nth 3 (last r []) 0)]) (m_addrs m ++ r) m
    end
  | MMarkUsed path =>
    with_caches (m_scopes m) (m_names m) (m_next m) (filter (fun p => negb (key_eqb p path)) (m_addrs m)) m
  | MImport sc kind k h _ =>
    with_sync (m_synced m) (match r with [] => m_start m | _ => Some h end) (m_birthday m)
              (with_caches (m_scopes m) (m_names m) (m_next m) (m_addrs m ++ [[sc; -1; kind; k]]) m)
  | MSetSyncedTo h hash => with_sync (Some (h, hash)) (m_start m) (m_birthday m) m
  | MSetBirthday t => with_sync (m_synced m) (m_start m) (Some t) m
  | MChangePassphrase private _ new =>
    if private then with_pass (Some new) (m_pub m) m else with_pass (m_priv m) (Some new) m
  | MConvertWO => if m_watch m then m else with_flags true true false m
  | MNewAccount _ _ | MNewAccountWO _ _ | MNewRawAccountWO _ _ | MSetBirthdayBlock _ _ _ | MCreate _ => m
  end.

(** when the Go code applies the effect *)
Definition mgr_shape (o : mgr_op) : shape :=
  match o with
  | MNext _ _ _ _ => AtCommit
  | MSetBirthday _ => BeforeOwnWrites
  | _ => AfterOwnWrites
  end.

(** the exported Go function an operation enters through, as
    Generated/ErrFlow.v names it in [mem_shapes] *)
Definition mgr_api (o : mgr_op) : string :=
  match o with
  | MNewScope _ => "waddrmgr:(*Manager).NewScopedKeyManager"
  | MNewAccount _ _ => "waddrmgr:(*ScopedKeyManager).NewAccount"
  | MNewAccountWO _ _ => "waddrmgr:(*ScopedKeyManager).NewAccountWatchingOnly"
  | MNewRawAccountWO _ _ => "waddrmgr:(*ScopedKeyManager).NewRawAccountWatchingOnly"
  | MRename _ _ _ => "waddrmgr:(*ScopedKeyManager).RenameAccount"
  | MNext _ _ br _ => if br =? 1 then "waddrmgr:(*ScopedKeyManager).NextInternalAddresses"
                      else "waddrmgr:(*ScopedKeyManager).NextExternalAddresses"
  | MExtend _ _ br _ => if br =? 1 then "waddrmgr:(*ScopedKeyManager).ExtendInternalAddresses"
                        else "waddrmgr:(*ScopedKeyManager).ExtendExternalAddresses"
  | MMarkUsed _ => "waddrmgr:(*Manager).MarkUsed"
  | MImport _ kind _ _ _ =>
    if kind =? 0 then "waddrmgr:(*ScopedKeyManager).ImportPrivateKey"
    else if kind =? 1 then "waddrmgr:(*ScopedKeyManager).ImportScript"
    else if kind =? 2 then "waddrmgr:(*ScopedKeyManager).ImportPublicKey"
    else if kind =? 3 then "waddrmgr:(*ScopedKeyManager).ImportWitnessScript"
    else "waddrmgr:(*ScopedKeyManager).ImportTaprootScript"
  | MSetSyncedTo _ _ => "waddrmgr:(*Manager).SetSyncedTo"
  | MSetBirthdayBlock _ _ _ => "waddrmgr:(*Manager).SetBirthdayBlock"
  | MSetBirthday _ => "waddrmgr:(*Manager).SetBirthday"
  | MChangePassphrase _ _ _ => "waddrmgr:(*Manager).ChangePassphrase"
  | MConvertWO => "waddrmgr:(*Manager).ConvertToWatchingOnly"
  | MCreate _ => "waddrmgr:Create"
  end.

(** the source's shape codes (0 none, 1 after, 2 at_commit, 3 before; anything
    else: not determined) that justify the model's shape *)
Definition shape_admits (sh : shape) (code : N) : bool :=
  match sh with
  | AfterOwnWrites => N.leb code 2
  | AtCommit => N.eqb code 0 || N.eqb code 2
  | BeforeOwnWrites => N.leb code 3
  end.

Definition mgr_step_of (o : mgr_op) : step mem :=
  {| st_shape := mgr_shape o; st_disk := mgr_disk o; st_mem := mgr_mem o |}.

(** several manager calls inside ONE walletdb.Update: the disk side as one
    program, and the run with the memory made explicit *)
Definition mgr_tx (ops : list mgr_op) (m : mem) : prog unit := steps_prog (map mgr_step_of ops) m.
Definition mgr_update (T : table) (ops : list mgr_op) (m : mem) (s : kv) (f : option nat)
  : result unit * mem * kv * nat := update_steps T (map mgr_step_of ops) m s f.

(** the state after waddrmgr.Create with private passphrase 0, public
    passphrase 0 *)
Definition mgr_init : kv :=
  snd (update all_propagate (create_manager false 0 0) mgr_fresh None).

(** the committed history: each transaction runs on a manager whose memory
    agrees with the store *)
Definition mgr_commit (T : table) (s : kv) (ops : list mgr_op) : kv :=
  snd (update T (mgr_tx ops (mem0 false)) s None).

(** ** The call sites each operation can reach *)
Definition S_put_account_info : list site :=
  ["waddrmgr:putAccountInfo>putAccountRow"; "waddrmgr:putAccountRow>db.Put";
   "waddrmgr:putAccountInfo>putAccountIDIndex"; "waddrmgr:putAccountIDIndex>db.Put";
   "waddrmgr:putAccountInfo>putAccountNameIndex"; "waddrmgr:putAccountNameIndex>db.Put"].
Definition S_put_default_account_info : list site :=
  "waddrmgr:putDefaultAccountInfo>putAccountInfo" :: S_put_account_info.
Definition S_put_watchonly_account_info : list site :=
  "waddrmgr:putWatchOnlyAccountInfo>putAccountInfo" :: S_put_account_info.
Definition S_put_last_account : list site := ["waddrmgr:putLastAccount>db.Put"].
Definition S_put_address : list site :=
  ["waddrmgr:putAddress>db.Put"; "waddrmgr:putAddress>putAddrAccountIndex";
   "waddrmgr:putAddrAccountIndex>db.Put"; "waddrmgr:putAddrAccountIndex>db.CreateBucketIfNotExists"].
Definition S_put_chained_address : list site :=
  ["waddrmgr:putChainedAddress>putAddress"; "waddrmgr:putChainedAddress>db.Put"] ++ S_put_address.
Definition S_put_start_block : list site := ["waddrmgr:putStartBlock>db.Put"].
Definition S_put_synced_to : list site :=
  ["waddrmgr:PutSyncedTo>addBlockHash"; "waddrmgr:addBlockHash>db.Put";
   "waddrmgr:PutSyncedTo>deleteBlockHash"; "waddrmgr:deleteBlockHash>db.Delete";
   "waddrmgr:PutSyncedTo>updateSyncedTo"; "waddrmgr:updateSyncedTo>db.Put"].
Definition S_create_scoped_manager_ns : list site := ["waddrmgr:createScopedManagerNS>db.CreateBucket"].
Definition S_create_manager_key_scope : list site :=
  ["waddrmgr:createManagerKeyScope>putCoinTypeKeys"; "waddrmgr:putCoinTypeKeys>db.Put";
   "waddrmgr:createManagerKeyScope>putDefaultAccountInfo"; "waddrmgr:createManagerKeyScope>putLastAccount"]
  ++ S_put_default_account_info ++ S_put_last_account.
Definition S_import_public_key : list site :=
  ["waddrmgr:(*ScopedKeyManager).importPublicKey>putImportedAddress"; "waddrmgr:putImportedAddress>putAddress";
   "waddrmgr:(*ScopedKeyManager).importPublicKey>putStartBlock"] ++ S_put_address ++ S_put_start_block.
Definition S_import_script_address : list site :=
  ["waddrmgr:(*ScopedKeyManager).importScriptAddress>putWitnessScriptAddress"; "waddrmgr:putWitnessScriptAddress>putAddress";
   "waddrmgr:(*ScopedKeyManager).importScriptAddress>putScriptAddress"; "waddrmgr:putScriptAddress>putAddress";
   "waddrmgr:(*ScopedKeyManager).importScriptAddress>putStartBlock"] ++ S_put_address ++ S_put_start_block.
Definition S_put_crypto : list site :=
  ["waddrmgr:putCryptoKeys>db.Put"; "waddrmgr:putMasterKeyParams>db.Put"].

Definition mgr_sites (o : mgr_op) : list site :=
  "" ::
  match o with
  | MNewScope _ =>
    ["waddrmgr:(*Manager).NewScopedKeyManager>createScopedManagerNS"; "waddrmgr:(*Manager).NewScopedKeyManager>db.Put";
     "waddrmgr:(*Manager).NewScopedKeyManager>createManagerKeyScope"]
    ++ S_create_scoped_manager_ns ++ S_create_manager_key_scope
  | MNewAccount _ _ =>
    ["waddrmgr:(*ScopedKeyManager).NewAccount>(*ScopedKeyManager).newAccount";
     "waddrmgr:(*ScopedKeyManager).newAccount>putDefaultAccountInfo"; "waddrmgr:(*ScopedKeyManager).newAccount>putLastAccount"]
    ++ S_put_default_account_info ++ S_put_last_account
  | MNewAccountWO _ _ =>
    ["waddrmgr:(*ScopedKeyManager).NewAccountWatchingOnly>(*ScopedKeyManager).newAccountWatchingOnly";
     "waddrmgr:(*ScopedKeyManager).newAccountWatchingOnly>putWatchOnlyAccountInfo";
     "waddrmgr:(*ScopedKeyManager).newAccountWatchingOnly>putLastAccount"]
    ++ S_put_watchonly_account_info ++ S_put_last_account
  | MNewRawAccountWO _ _ =>
    ["waddrmgr:(*ScopedKeyManager).NewRawAccountWatchingOnly>(*ScopedKeyManager).newAccountWatchingOnly";
     "waddrmgr:(*ScopedKeyManager).newAccountWatchingOnly>putWatchOnlyAccountInfo";
     "waddrmgr:(*ScopedKeyManager).newAccountWatchingOnly>putLastAccount"]
    ++ S_put_watchonly_account_info ++ S_put_last_account
  | MRename _ _ _ =>
    ["waddrmgr:(*ScopedKeyManager).RenameAccount>deleteAccountIDIndex"; "waddrmgr:deleteAccountIDIndex>db.Delete";
     "waddrmgr:(*ScopedKeyManager).RenameAccount>deleteAccountNameIndex"; "waddrmgr:deleteAccountNameIndex>db.Delete";
     "waddrmgr:(*ScopedKeyManager).RenameAccount>putDefaultAccountInfo";
     "waddrmgr:(*ScopedKeyManager).RenameAccount>putWatchOnlyAccountInfo"]
    ++ S_put_default_account_info ++ S_put_watchonly_account_info
  | MNext _ _ br _ =>
    [if br =? 1 then "waddrmgr:(*ScopedKeyManager).NextInternalAddresses>(*ScopedKeyManager).nextAddresses"
     else "waddrmgr:(*ScopedKeyManager).NextExternalAddresses>(*ScopedKeyManager).nextAddresses";
     "waddrmgr:(*ScopedKeyManager).nextAddresses>putChainedAddress"] ++ S_put_chained_address
  | MExtend _ _ br _ =>
    [if br =? 1 then "waddrmgr:(*ScopedKeyManager).ExtendInternalAddresses>(*ScopedKeyManager).extendAddresses"
     else "waddrmgr:(*ScopedKeyManager).ExtendExternalAddresses>(*ScopedKeyManager).extendAddresses";
     "waddrmgr:(*ScopedKeyManager).extendAddresses>putChainedAddress"] ++ S_put_chained_address
  | MMarkUsed _ =>
    ["waddrmgr:(*Manager).MarkUsed>(*ScopedKeyManager).MarkUsed"; "waddrmgr:(*ScopedKeyManager).MarkUsed>markAddressUsed";
     "waddrmgr:markAddressUsed>db.Put"]
  | MImport _ kind _ _ _ =>
    if kind =? 0 then "waddrmgr:(*ScopedKeyManager).ImportPrivateKey>(*ScopedKeyManager).importPublicKey" :: S_import_public_key
    else if kind =? 2 then "waddrmgr:(*ScopedKeyManager).ImportPublicKey>(*ScopedKeyManager).importPublicKey" :: S_import_public_key
    else if kind =? 1 then "waddrmgr:(*ScopedKeyManager).ImportScript>(*ScopedKeyManager).importScriptAddress" :: S_import_script_address
    else if kind =? 3 then "waddrmgr:(*ScopedKeyManager).ImportWitnessScript>(*ScopedKeyManager).importScriptAddress" :: S_import_script_address
    else "waddrmgr:(*ScopedKeyManager).ImportTaprootScript>(*ScopedKeyManager).importScriptAddress" :: S_import_script_address
  | MSetSyncedTo _ _ => "waddrmgr:(*Manager).SetSyncedTo>PutSyncedTo" :: S_put_synced_to
  | MSetBirthdayBlock _ _ _ =>
    ["waddrmgr:(*Manager).SetBirthdayBlock>PutBirthdayBlock"; "waddrmgr:PutBirthdayBlock>db.Put";
     "waddrmgr:(*Manager).SetBirthdayBlock>putBirthdayBlockVerification"; "waddrmgr:putBirthdayBlockVerification>db.Put"]
  | MSetBirthday _ => ["waddrmgr:(*Manager).SetBirthday>putBirthday"; "waddrmgr:putBirthday>db.Put"]
  | MChangePassphrase _ _ _ =>
    ["waddrmgr:(*Manager).ChangePassphrase>putCryptoKeys"; "waddrmgr:(*Manager).ChangePassphrase>putMasterKeyParams"]
    ++ S_put_crypto
  | MConvertWO =>
    ["waddrmgr:(*Manager).ConvertToWatchingOnly>deletePrivateKeys"; "waddrmgr:(*Manager).ConvertToWatchingOnly>putWatchingOnly";
     "waddrmgr:putWatchingOnly>db.Put"; "waddrmgr:deletePrivateKeys>db.Delete";
     "waddrmgr:deletePrivateKeys>scopeBucket.ForEach(callback)"; "waddrmgr:deletePrivateKeys$1>db.Delete";
     "waddrmgr:deletePrivateKeys$1>bucket.ForEach(callback)"; "waddrmgr:deletePrivateKeys$1$1>db.Put";
     "waddrmgr:deletePrivateKeys$1$2>db.Put"]
  | MCreate _ =>
    ["waddrmgr:Create>createManagerNS"; "waddrmgr:createManagerNS>db.CreateBucket"; "waddrmgr:createManagerNS>db.Put";
     "waddrmgr:createManagerNS>createScopedManagerNS"; "waddrmgr:createManagerNS>putLastAccount";
     "waddrmgr:createManagerNS>putManagerVersion"; "waddrmgr:putManagerVersion>db.Put";
     "waddrmgr:Create>createManagerKeyScope"; "waddrmgr:Create>putMasterHDKeys"; "waddrmgr:putMasterHDKeys>db.Put";
     "waddrmgr:Create>putMasterKeyParams"; "waddrmgr:Create>putCryptoKeys"; "waddrmgr:Create>putWatchingOnly";
     "waddrmgr:putWatchingOnly>db.Put"; "waddrmgr:Create>PutSyncedTo"; "waddrmgr:Create>putStartBlock";
     "waddrmgr:Create>putBirthday"; "waddrmgr:putBirthday>db.Put"]
    ++ S_create_scoped_manager_ns ++ S_put_last_account ++ S_create_manager_key_scope ++ S_put_crypto
    ++ S_put_synced_to ++ S_put_start_block
  end.

Definition mgr_tx_sites (ops : list mgr_op) : list site := List.concat (map mgr_sites ops).

(** one representative per kind of operation, with the name the harness uses *)
Definition mgr_kinds : list (string * mgr_op) :=
  [("NewScopedKeyManager", MNewScope 0); ("NewAccount", MNewAccount 0 0);
   ("NewAccountWatchingOnly", MNewAccountWO 0 0); ("NewRawAccountWatchingOnly", MNewRawAccountWO 0 0);
   ("RenameAccount", MRename 0 0 0);
   ("NextExternalAddresses", MNext 0 0 0 1); ("NextInternalAddresses", MNext 0 0 1 1);
   ("ExtendExternalAddresses", MExtend 0 0 0 0); ("ExtendInternalAddresses", MExtend 0 0 1 0);
   ("MarkUsed", MMarkUsed []); ("ImportPrivateKey", MImport 0 0 0 0 true); ("ImportScript", MImport 0 1 0 0 true);
   ("ImportPublicKey", MImport 0 2 0 0 false); ("ImportWitnessScript", MImport 0 3 0 0 true);
   ("ImportTaprootScript", MImport 0 4 0 0 true); ("SetSyncedTo", MSetSyncedTo 0 0);
   ("SetBirthdayBlock", MSetBirthdayBlock 0 0 true); ("SetBirthday", MSetBirthday 0);
   ("ChangePassphrase", MChangePassphrase true 0 0); ("ConvertToWatchingOnly", MConvertWO);
   ("waddrmgr.Create", MCreate false)].
