(** C10 - the database parts of the mutating operations of waddrmgr
    (scoped_manager.go, manager.go, sync.go, db.go) as programs of the fault
    language.  Keys are abstract; the ORDER and NUMBER of mutating calls per
    branch follow the Go code.  Definitions only.

    An address is named by its path [sc; account; branch; index] (imported
    keys and scripts: [sc; -1; kind; k]); account -1 is ImportedAddrAccount. *)
From stdpp Require Import gmap.
From Coq Require Import ZArith List.
From Verif Require Import Fault.Fault.
Import ListNotations.
Local Open Scope Z_scope.

(** global buckets *)
Definition gMain := 10.      (* crypto keys, master key params *)
Definition gSync := 11.      (* [h] -> hash; special keys below *)
Definition gSchemas := 13.   (* [sc] -> schema *)
Definition kSyncedTo : key := [-1].
Definition kStartBlock : key := [-2].
Definition kBirthdayBlock : key := [-3].
Definition kBirthdayVerified : key := [-4].
Definition kBirthday : key := [-5].
Definition kMasterPriv : key := [1].
Definition kMasterPub : key := [2].
Definition kCryptoPriv : key := [3].
Definition kCryptoScript : key := [4].
Definition kCryptoPub : key := [5].

(** buckets of scope [sc] *)
Definition sb (sc off : Z) : Z := 100 + 16 * sc + off.
Definition oScope := 0.      (* the scope bucket itself: cointype keys *)
Definition oAcct := 1.       (* [a] -> [next ext; next int; name] *)
Definition oAddr := 2.       (* path -> row *)
Definition oUsed := 3.
Definition oAddrAcctIdx := 4.
Definition oNameIdx := 5.    (* [name] -> [a] *)
Definition oIDIdx := 6.      (* [a] -> [name] *)
Definition oMeta := 7.       (* [0] -> [last account] *)
(** the per-account bucket nested in the address-account index *)
Definition acct_sub (sc a : Z) : Z := 1000000 * (sc + 1) + a + 1.

Definition eLocked := 20.
Definition eDuplicateAccount := 21.
Definition eAccountNotFound := 22.
Definition eInvalidAccount := 23.
Definition eAddressNotFound := 24.
Definition eDuplicateAddress := 25.
Definition eBlockNotFound := 26.
Definition eWrongPassphrase := 27.
Definition eScopeNotFound := 28.

Definition name_imported := 1.
Definition name_default := 2.
Definition max_reorg_depth := 10000.

(** db.go putAccountInfo: account row, id index, name index *)
Definition put_account_info (sc a : Z) (next_ext next_int name : Z) : prog unit :=
  put (sb sc oAcct) [a] [next_ext; next_int; name] ;;;
  put (sb sc oIDIdx) [a] [name] ;;;
  put (sb sc oNameIdx) [name] [a].

(** manager.go NewScopedKeyManager (unlocked, not watch-only):
    createScopedManagerNS (8 CreateBucket), schema, then createManagerKeyScope:
    cointype keys, the two default accounts, and the last-account row (account
    0) of the new scope - 18 mutating calls. *)
Definition new_scope (sc : Z) : prog unit :=
  create_bucket (sb sc oScope) ;;;
  for_each [oAcct; oAddr; oUsed; oAddrAcctIdx; oNameIdx; oIDIdx; oMeta]
           (fun off => create_bucket (sb sc off)) ;;;
  put gSchemas [sc] [sc] ;;;
  put (sb sc oScope) [1] [1] ;;;
  put (sb sc oScope) [2] [2] ;;;
  put_account_info sc 0 0 0 name_default ;;;
  put_account_info sc (-1) 0 0 name_imported ;;;
  put (sb sc oMeta) [0] [0].

Definition scope_exists (sc : Z) : prog bool := has_bucket (sb sc oScope).

(** scoped_manager.go NewAccount.  fetchLastAccount answers 2^32-1 when the
    key is missing and the increment wraps around. *)
Definition new_account (sc name : Z) : prog Z :=
  ex <- scope_exists sc ;;
  (if negb ex then Fail eScopeNotFound else
   lastv <- get (sb sc oMeta) [0] ;;
   let last := match lastv with Some [l] => l | _ => 4294967295 end in
   let a := (last + 1) mod 4294967296 in
   dup <- get (sb sc oNameIdx) [name] ;;
   (match dup with
    | Some _ => Fail eDuplicateAccount
    | None =>
      put_account_info sc a 0 0 name ;;;
      put (sb sc oMeta) [0] [a] ;;;
      Ret a
    end)).

(** scoped_manager.go RenameAccount *)
Definition rename_account (sc a name : Z) : prog unit :=
  if a =? -1 then Fail eInvalidAccount else
  dup <- get (sb sc oNameIdx) [name] ;;
  (match dup with
   | Some _ => Fail eDuplicateAccount
   | None =>
     row <- get (sb sc oAcct) [a] ;;
     (match row with
      | Some [ne; ni; old] =>
        del (sb sc oIDIdx) [a] ;;;
        del (sb sc oNameIdx) [old] ;;;
        put_account_info sc a ne ni name
      | _ => Fail eAccountNotFound
      end)
   end).

(** db.go putAddress: address row, then putAddrAccountIndex (index entry,
    CreateBucketIfNotExists of the account's bucket, entry in it) *)
Definition put_address (sc a : Z) (path : key) : prog unit :=
  put (sb sc oAddr) path [a] ;;;
  put (sb sc oAddrAcctIdx) path [a] ;;;
  create_bucket_if_not_exists (acct_sub sc a) ;;;
  put (acct_sub sc a) path [].

(** db.go putChainedAddress: putAddress, then the account row with the next
    index of the branch *)
Definition put_chained_address (sc a branch idx : Z) : prog unit :=
  put_address sc a [sc; a; branch; idx] ;;;
  row <- get (sb sc oAcct) [a] ;;
  (match row with
   | Some [ne; ni; nm] =>
     put (sb sc oAcct) [a] (if branch =? 1 then [ne; idx + 1; nm] else [idx + 1; ni; nm])
   | _ => Fail eAccountNotFound
   end).

Definition next_index (sc a branch : Z) : prog (option Z) :=
  row <- get (sb sc oAcct) [a] ;;
  Ret (match row with
       | Some [ne; ni; _] => Some (if branch =? 1 then ni else ne)
       | _ => None
       end).

(** scoped_manager.go nextAddresses (n >= 1): n times putChainedAddress; the
    read-back between them makes no write *)
Definition next_addresses (sc a branch : Z) (n : nat) : prog unit :=
  nx <- next_index sc a branch ;;
  (match nx with
   | None => Fail eAccountNotFound
   | Some i0 => for_each (seqZ_from i0 n) (fun i => put_chained_address sc a branch i)
   end).

(** scoped_manager.go extendAddresses: nothing when lastIndex < next index *)
Definition extend_addresses (sc a branch last : Z) : prog unit :=
  nx <- next_index sc a branch ;;
  (match nx with
   | None => Fail eAccountNotFound
   | Some i0 =>
     if last <? i0 then Ret tt
     else for_each (seqZ_from i0 (Z.to_nat (last - i0 + 1))) (fun i => put_chained_address sc a branch i)
   end).

(** manager.go MarkUsed -> db.go markAddressUsed: no write when already used *)
Definition mark_used (path : key) : prog unit :=
  let sc := hd 0 path in
  ex <- get (sb sc oAddr) path ;;
  (match ex with
   | None => Fail eAddressNotFound
   | Some _ =>
     u <- get (sb sc oUsed) path ;;
     (match u with Some _ => Ret tt | None => put (sb sc oUsed) path [0] end)
   end).

(** ImportPrivateKey / ImportScript: duplicate check, putAddress under the
    imported account, start block when the stamp is older *)
Definition import_address (sc kind k h : Z) : prog unit :=
  let path := [sc; -1; kind; k] in
  ex <- get (sb sc oAddr) path ;;
  (match ex with
   | Some _ => Fail eDuplicateAddress
   | None =>
     start <- get gSync kStartBlock ;;
     put_address sc (-1) path ;;;
     (if h <? hd 0 (default [] start) then put gSync kStartBlock [h] else Ret tt)
   end).

(** sync.go SetSyncedTo -> db.go PutSyncedTo *)
Definition set_synced_to (h hash : Z) : prog unit :=
  ok <- (if 0 <? h then
           bb <- get gSync kBirthdayBlock ;;
           (match bb with
            | None => Ret true
            | Some _ => prev <- get gSync [h - 1] ;; Ret (isSome prev)
            end)
         else Ret true) ;;
  (if negb ok then Fail eBlockNotFound else
   put gSync [h] [hash] ;;;
   (if 0 <? h - max_reorg_depth then del gSync [h - max_reorg_depth] else Ret tt) ;;;
   put gSync kSyncedTo [h; hash]).

(** sync.go SetBirthdayBlock / SetBirthday *)
Definition set_birthday_block (h hash : Z) (verified : bool) : prog unit :=
  put gSync kBirthdayBlock [h; hash] ;;;
  put gSync kBirthdayVerified [b2z verified].
Definition set_birthday (t : Z) : prog unit := put gSync kBirthday [t].

(** manager.go ChangePassphrase *)
Definition change_passphrase (private : bool) (old new : Z) : prog unit :=
  cur <- get gMain (if private then kMasterPriv else kMasterPub) ;;
  (if negb (hd 0 (default [] cur) =? old) then Fail eWrongPassphrase else
   if private then
     put gMain kCryptoPriv [new] ;;;
     put gMain kCryptoScript [new] ;;;
     put gMain kMasterPriv [new]
   else
     put gMain kCryptoPub [new] ;;;
     put gMain kMasterPub [new]).

(** ** Operations (one or several per database transaction) *)
Inductive mgr_op :=
| MNewScope (sc : Z)
| MNewAccount (sc name : Z)
| MRename (sc a name : Z)
| MNext (sc a branch : Z) (n : nat)
| MExtend (sc a branch last : Z)
| MMarkUsed (path : key)
| MImport (sc kind k h : Z)
| MSetSyncedTo (h hash : Z)
| MSetBirthdayBlock (h hash : Z) (verified : bool)
| MSetBirthday (t : Z)
| MChangePassphrase (private : bool) (old new : Z).

Definition mgr_prog (o : mgr_op) : prog unit :=
  match o with
  | MNewScope sc => new_scope sc
  | MNewAccount sc name => new_account sc name ;;; Ret tt
  | MRename sc a name => rename_account sc a name
  | MNext sc a branch n => next_addresses sc a branch n
  | MExtend sc a branch last => extend_addresses sc a branch last
  | MMarkUsed path => mark_used path
  | MImport sc kind k h => import_address sc kind k h
  | MSetSyncedTo h hash => set_synced_to h hash
  | MSetBirthdayBlock h hash v => set_birthday_block h hash v
  | MSetBirthday t => set_birthday t
  | MChangePassphrase p old new => change_passphrase p old new
  end.

(** several manager calls inside ONE walletdb.Update *)
Definition mgr_tx (ops : list mgr_op) : prog unit := for_each ops mgr_prog.

(** waddrmgr.Create with the default scopes [scs], private passphrase [priv],
    public passphrase [pub] - only what the operations above read *)
Definition default_scope (sc : Z) (s : kv) : kv :=
  <[sb sc oMeta := {[ [0] := [0] ]}]>
  (<[sb sc oIDIdx := {[ [0] := [name_default]; [-1] := [name_imported] ]}]>
  (<[sb sc oNameIdx := {[ [name_default] := [0]; [name_imported] := [-1] ]}]>
  (<[sb sc oAcct := {[ [0] := [0; 0; name_default]; [-1] := [0; 0; name_imported] ]}]>
  (fold_right (fun off s => <[sb sc off := ∅]> s) s
     [oScope; oAddr; oUsed; oAddrAcctIdx])))).

Definition mgr_init (scs : list Z) (priv pub : Z) : kv :=
  <[gMain := {[ kMasterPriv := [priv]; kMasterPub := [pub] ]}]>
  (<[gSync := {[ [0] := [0]; kSyncedTo := [0; 0]; kStartBlock := [0] ]}]>
  (<[gSchemas := ∅]>
  (fold_right default_scope ∅ scs))).

Definition mgr_step (s : kv) (ops : list mgr_op) : kv := snd (update (mgr_tx ops) s None).

(** ** The Go code as written: putAddrAccountIndex (db.go) answers nil when
    its first Put fails.  [swallow] is NOT a construct of the language; it is
    defined on the monad to exhibit what a dropped error does. *)
Definition swallow_and_return (m : M unit) (rest : M unit) : M unit := fun s n f =>
  match m s n f with
  | (Ok _, s1, n1) => rest s1 n1 f
  | (Err _, s1, n1) => (Ok tt, s1, n1)      (* `if err != nil { return nil }` *)
  end.

Definition put_address_as_coded (sc a : Z) (path : key) : M unit :=
  m_bind (run (put (sb sc oAddr) path [a])) (fun _ =>
  swallow_and_return
    (run (put (sb sc oAddrAcctIdx) path [a]))
    (m_bind (run (create_bucket_if_not_exists (acct_sub sc a))) (fun _ =>
     run (put (acct_sub sc a) path [])))).
