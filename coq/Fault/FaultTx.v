(** C10 - the mutating operations of wtxmgr (tx.go, unconfirmed.go, db.go)
    transcribed as programs of the fault language.  Bucket and key layout are
    abstract (integers instead of byte strings), but every Put / Delete /
    CreateBucketIfNotExists call of the Go code appears here as one [Write], in
    the same order and under the same conditions, so that [writes op s] is the
    number of mutating calls the real operation makes from the corresponding
    state.  Definitions only. *)
From stdpp Require Import gmap.
From Coq Require Import ZArith List.
From Verif Require Import Fault.Fault.
Import ListNotations.
Local Open Scope Z_scope.

(** Transaction content, as the generator's universe gives it.  [tx_ins]
    lists EVERY TxIn of the wire transaction (for a coinbase: the null
    outpoint), [tx_outs] the output amounts, [tx_creds] the outputs credited to
    the wallet with their change flag. *)
Record txd := {
  tx_ins : list (Z * Z);
  tx_outs : list Z;
  tx_creds : list (Z * bool);
  tx_coinbase : bool
}.
Definition universe := gmap Z txd.

(** buckets of the wtxmgr namespace *)
Definition bRoot := 0.            (* root keys: [0] = mined balance *)
Definition bBlocks := 1.          (* [h] -> b :: time :: txids *)
Definition bTxRecords := 2.       (* [t;h;b] -> [t] *)
Definition bCredits := 3.         (* [t;h;b;i] -> [amt; spent; change] *)
Definition bUnspent := 4.         (* [t;i] -> [h;b] *)
Definition bDebits := 5.          (* [t;h;b;i] -> amt :: credit key *)
Definition bUnmined := 6.         (* [t] -> [t] *)
Definition bUnminedCredits := 7.  (* [t;i] -> [amt; change] *)
Definition bUnminedInputs := 8.   (* [pt;pi] -> unmined spenders *)
Definition bLocked := 9.          (* [t;i] -> [lock id; expiry] *)

(** error codes of the operations themselves *)
Definition eInput := 10.
Definition eData := 11.
Definition eFuel := 12.
Definition eUnknownOutput := 13.
Definition eAlreadyLocked := 14.
Definition eUnlockNotAllowed := 15.

(** createStore: version/date/balance keys and the nine buckets *)
Definition tx_store_init : kv :=
  <[bRoot := {[ [0] := [0] ]}]>
  (fold_right (fun b s => <[b := ∅]> s) ∅
     [bBlocks; bTxRecords; bCredits; bUnspent; bDebits; bUnmined; bUnminedCredits;
      bUnminedInputs; bLocked]).

Definition get_balance : prog Z :=
  v <- get bRoot [0] ;; Ret (hd 0 (default [] v)).

(** TxDetails(hash) != nil : unmined record, else latestTxRecord *)
Definition latest_tx_record (t : Z) : prog bool :=
  Read (fun s => existsb (fun e => match fst e with t' :: _ => t =? t' | [] => false end)
                         (map_to_list (bucket_of s bTxRecords))).
Definition tx_known (t : Z) : prog bool :=
  u <- get bUnmined [t] ;;
  (match u with Some _ => Ret true | None => latest_tx_record t end).

(** db.go putRawUnminedInput: read the spender list, append, Put *)
Definition put_unmined_input (op : key) (t : Z) : prog unit :=
  v <- get bUnminedInputs op ;; put bUnminedInputs op (default [] v ++ [t]).

(** db.go deleteRawUnminedInput: nothing when the list is empty; Delete when
    the filtered list is empty; Put otherwise *)
Definition delete_unmined_input (op : key) (t : Z) : prog unit :=
  v <- get bUnminedInputs op ;;
  (match v with
   | None | Some [] => Ret tt
   | Some l =>
     match filter (fun x => negb (x =? t)) l with
     | [] => del bUnminedInputs op
     | l' => put bUnminedInputs op l'
     end
   end).

(** unconfirmed.go insertMemPoolTx; result: "already recorded" *)
Definition insert_mempool (t : Z) (d : txd) : prog bool :=
  known <- tx_known t ;;
  (if known then Ret true else
   unspent <- Read (fun s => existsb (fun i => isSome (lookup2 s bUnspent [t; i])) (indices (tx_outs d))) ;;
   (if unspent then Ret false else
    put bUnmined [t] [t] ;;;
    for_each (tx_ins d) (fun op => put_unmined_input [fst op; snd op] t) ;;;
    Ret false)).

(** tx.go addCredit *)
Definition add_credit (t : Z) (d : txd) (blk : option (Z * Z)) (i : Z) (chg : bool) : prog unit :=
  match nth_error (tx_outs d) (Z.to_nat i) with
  | None => Fail eInput
  | Some amt =>
    match blk with
    | None =>
      v <- get bUnminedCredits [t; i] ;;
      (match v with
       | Some _ => Ret tt
       | None =>
         mined <- latest_tx_record t ;;
         (if mined then Ret tt else put bUnminedCredits [t; i] [amt; b2z chg])
       end)
    | Some (h, b) =>
      v <- get bCredits [t; h; b; i] ;;
      (match v with
       | Some _ => Ret tt
       | None =>
         put bCredits [t; h; b; i] [amt; 0; b2z chg] ;;;
         bal <- get_balance ;;
         put bRoot [0] [bal + amt] ;;;
         put bUnspent [t; i] [h; b]
       end)
    end
  end.

(** db.go unlockOutput: the bucket may be missing; otherwise one Delete *)
Definition unlock_output (op : key) : prog unit :=
  hb <- has_bucket bLocked ;; (if hb then del bLocked op else Ret tt).

(** unconfirmed.go removeConflict (recursion over the unmined spend graph,
    bounded by fuel; the content of a spender is read back from its record,
    here: looked up in the universe) *)
Fixpoint remove_conflict (U : universe) (fuel : nat) (r : Z) : prog unit :=
  match fuel with
  | O => Fail eFuel
  | S fuel' =>
    match U !! r with
    | None => Fail eData
    | Some d =>
      for_each (indices (tx_outs d)) (fun i =>
        sp <- get bUnminedInputs [r; i] ;;
        for_each (default [] sp) (fun x =>
          v <- get bUnmined [x] ;;
          (match v with None => Ret tt | Some _ => remove_conflict U fuel' x end)) ;;;
        del bUnminedCredits [r; i]) ;;;
      for_each (tx_ins d) (fun op => delete_unmined_input [fst op; snd op] r) ;;;
      del bUnmined [r]
    end
  end.

(** unconfirmed.go removeDoubleSpends *)
Definition remove_double_spends (U : universe) (fuel : nat) (t : Z) (d : txd) : prog unit :=
  for_each (tx_ins d) (fun op =>
    sp <- get bUnminedInputs [fst op; snd op] ;;
    for_each (default [] sp) (fun x =>
      if x =? t then Ret tt else
      (v <- get bUnmined [x] ;;
       (match v with None => Ret tt | Some _ => remove_conflict U fuel x end)))).

(** tx.go deleteUnminedTx *)
Definition delete_unmined_tx (t : Z) (d : txd) : prog unit :=
  for_each (tx_ins d) (fun op => delete_unmined_input [fst op; snd op] t) ;;;
  for_each (indices (tx_outs d)) (fun i => del bUnminedCredits [t; i]) ;;;
  del bUnmined [t].

Definition spend_val (v : val) : val :=
  match v with amt :: _ :: rest => amt :: 1 :: rest | _ => [0; 1; 0] end.
Definition unspend_val (v : val) : val :=
  match v with amt :: _ :: rest => amt :: 0 :: rest | _ => v end.

(** tx.go updateMinedBalance *)
Definition update_mined_balance (t : Z) (d : txd) (h b : Z) : prog unit :=
  bal <- get_balance ;;
  nb1 <- fold_prog (indexed (tx_ins d)) bal (fun nb e =>
           let '(i, (pt, pi)) := e in
           u <- get bUnspent [pt; pi] ;;
           (match u with
            | Some [ch; cb] =>
              let ck := [pt; ch; cb; pi] in
              cv <- get bCredits ck ;;
              let amt := hd 0 (default [] cv) in
              put bCredits ck (spend_val (default [] cv)) ;;;
              put bDebits [t; h; b; i] (amt :: ck) ;;;
              del bUnspent [pt; pi] ;;;
              Ret (nb - amt)
            | _ => Ret nb
            end)) ;;
  nb2 <- fold_prog (indices (tx_outs d)) nb1 (fun nb i =>
           v <- get bUnminedCredits [t; i] ;;
           (match v with
            | Some [amt; chg] =>
              put bCredits [t; h; b; i] [amt; 0; chg] ;;;
              put bUnspent [t; i] [h; b] ;;;
              Ret (nb + amt)
            | _ => Ret nb
            end)) ;;
  (if nb2 =? bal then Ret tt else put bRoot [0] [nb2]).

(** tx.go insertMinedTx; result: "already recorded" *)
Definition insert_mined (U : universe) (fuel : nat) (t : Z) (d : txd) (h b bt : Z) : prog bool :=
  ex <- get bTxRecords [t; h; b] ;;
  (match ex with
   | Some _ => Ret true
   | None =>
     bv <- get bBlocks [h] ;;
     put bBlocks [h] (match bv with None => [b; bt; t] | Some v => v ++ [t] end) ;;;
     put bTxRecords [t; h; b] [t] ;;;
     update_mined_balance t d h b ;;;
     um <- get bUnmined [t] ;;
     (match um with Some _ => delete_unmined_tx t d | None => Ret tt end) ;;;
     remove_double_spends U fuel t d ;;;
     for_each (tx_ins d) (fun op => unlock_output [fst op; snd op]) ;;;
     Ret false
   end).

(** wallet.addRelevantTx as the harness drives it: insert, stop when the
    transaction was already recorded, otherwise add every credit *)
Definition relevant_tx (U : universe) (fuel : nat) (t : Z) (blk : option (Z * Z * Z)) : prog unit :=
  match U !! t with
  | None => Fail eData
  | Some d =>
    ex <- (match blk with
           | None => insert_mempool t d
           | Some (h, b, bt) => insert_mined U fuel t d h b bt
           end) ;;
    (if ex then Ret tt else
     for_each (tx_creds d) (fun c =>
       add_credit t d (match blk with None => None | Some (h, b, _) => Some (h, b) end) (fst c) (snd c)))
  end.

(** the same notification applied again through the store API without the
    early return: InsertTx (a duplicate is not an error), then every credit *)
Definition redeliver_tx (U : universe) (fuel : nat) (t : Z) (blk : option (Z * Z * Z)) : prog unit :=
  match U !! t with
  | None => Fail eData
  | Some d =>
    (match blk with
     | None => insert_mempool t d
     | Some (h, b, bt) => insert_mined U fuel t d h b bt
     end) ;;;
    for_each (tx_creds d) (fun c =>
      add_credit t d (match blk with None => None | Some (h, b, _) => Some (h, b) end) (fst c) (snd c))
  end.

(** tx.go rollback, the part for one transaction of a detached block.
    [acc] = (running mined balance, outputs of removed coinbase transactions). *)
Definition rollback_tx (U : universe) (h b : Z) (acc : Z * list key) (t : Z) : prog (Z * list key) :=
  rv <- get bTxRecords [t; h; b] ;;
  (match rv, U !! t with
   | Some _, Some d =>
     del bTxRecords [t; h; b] ;;;
     (if tx_coinbase d then
        fold_prog (indexed (tx_outs d)) acc (fun a e =>
          let '(i, amt) := e in
          let cbc := snd a ++ [[t; i]] in
          cv <- get bCredits [t; h; b; i] ;;
          (match cv with
           | None => Ret (fst a, cbc)
           | Some _ =>
             u <- get bUnspent [t; i] ;;
             (match u with Some _ => del bUnspent [t; i] | None => Ret tt end) ;;;
             del bCredits [t; h; b; i] ;;;
             Ret (match u with Some _ => fst a - amt | None => fst a end, cbc)
           end))
      else
        put bUnmined [t] [t] ;;;
        bal1 <- fold_prog (indexed (tx_ins d)) (fst acc) (fun bal e =>
                  let '(i, (pt, pi)) := e in
                  put_unmined_input [pt; pi] t ;;;
                  dv <- get bDebits [t; h; b; i] ;;
                  (match dv with
                   | None => Ret bal
                   | Some dvl =>
                     let ck := tl dvl in
                     cv <- get bCredits ck ;;
                     (match cv with Some v => put bCredits ck (unspend_val v) | None => Ret tt end) ;;;
                     del bDebits [t; h; b; i] ;;;
                     let amt := match cv with Some v => hd 0 v | None => 0 end in
                     (if amt =? 0 then Ret bal else
                      put bUnspent [pt; pi] (match ck with [_; ch; cb; _] => [ch; cb] | _ => [] end) ;;;
                      Ret (bal + amt))
                   end)) ;;
        bal2 <- fold_prog (indexed (tx_outs d)) bal1 (fun bal e =>
                  let '(i, oamt) := e in
                  cv <- get bCredits [t; h; b; i] ;;
                  (match cv with
                   | None => Ret bal
                   | Some v =>
                     put bUnminedCredits [t; i] [hd 0 v; nth 2 v 0] ;;;
                     del bCredits [t; h; b; i] ;;;
                     u <- get bUnspent [t; i] ;;
                     (match u with
                      | Some _ => del bUnspent [t; i] ;;; Ret (bal - oamt)
                      | None => Ret bal
                      end)
                   end)) ;;
        Ret (bal2, snd acc))
   | _, _ => Fail eData
   end).

Definition rollback (U : universe) (fuel : nat) (height : Z) : prog unit :=
  bal <- get_balance ;;
  blks <- Read (fun s => sort_desc (filter (fun e => height <=? fst e)
                  (map (fun e => (hd 0 (fst e), snd e)) (map_to_list (bucket_of s bBlocks))))) ;;
  acc <- fold_prog blks (bal, []) (fun a e =>
           match snd e with
           | b :: _ :: txs => fold_prog txs a (rollback_tx U (fst e) b)
           | _ => Fail eData
           end) ;;
  for_each blks (fun e => del bBlocks [fst e]) ;;;
  for_each (snd acc) (fun op =>
    sp <- get bUnminedInputs op ;;
    for_each (default [] sp) (fun x =>
      v <- get bUnmined [x] ;;
      (match v with None => Ret tt | Some _ => remove_conflict U fuel x end))) ;;;
  put bRoot [0] [fst acc].

(** tx.go LockOutput / UnlockOutput / DeleteExpiredLockedOutputs *)
Definition is_known_output (op : key) : prog bool :=
  Read (fun s => isSome (lookup2 s bUnminedCredits op) || isSome (lookup2 s bUnspent op)).
Definition locked_by (now : Z) (op : key) : prog (option Z) :=
  Read (fun s => match lookup2 s bLocked op with
                 | Some [id; exp] => if now <? exp then Some id else None
                 | _ => None
                 end).

(** the stored expiry is truncated to whole seconds ([expiry.Unix()]); times
    are milliseconds *)
Definition trunc_sec (ms : Z) : Z := (ms / 1000) * 1000.

Definition lock_output (now id : Z) (op : key) (dur : Z) : prog Z :=
  known <- is_known_output op ;;
  (if negb known then Fail eUnknownOutput else
   l <- locked_by now op ;;
   (if match l with Some id' => negb (id' =? id) | None => false end then Fail eAlreadyLocked else
    create_bucket_if_not_exists bLocked ;;;
    put bLocked op [id; trunc_sec (now + dur)] ;;;
    Ret (now + dur))).

Definition release_output (now id : Z) (op : key) : prog unit :=
  known <- is_known_output op ;;
  (if negb known then Fail eUnknownOutput else
   l <- locked_by now op ;;
   (match l with
    | None => Ret tt
    | Some id' => if id' =? id then unlock_output op else Fail eUnlockNotAllowed
    end)).

Definition sweep_expired (now : Z) : prog unit :=
  ex <- Read (fun s => map fst (filter (fun e => match snd e with
                                                 | [_; exp] => negb (now <? exp)
                                                 | _ => false
                                                 end) (map_to_list (bucket_of s bLocked)))) ;;
  for_each ex unlock_output.

(** ** Events (one per database transaction, as the harness drives the store) *)
Inductive tx_event :=
| EvSeen (t : Z)
| EvConfirm (t h b bt : Z)
| EvRedeliver (t h b bt : Z)    (* h < 0: as unconfirmed *)
| EvDisconnect (h : Z)
| EvAbandon (t : Z)
| EvLease (id pt pi dur : Z)
| EvRelease (id pt pi : Z)
| EvSweep
| EvTick (dt : Z).

(** fuel for the spend-graph recursion: one more than the universe's size *)
Definition fuel_of (U : universe) : nat := S (size U).

Definition tx_prog (U : universe) (now : Z) (e : tx_event) : prog unit :=
  match e with
  | EvSeen t => relevant_tx U (fuel_of U) t None
  | EvConfirm t h b bt => relevant_tx U (fuel_of U) t (Some (h, b, bt))
  | EvRedeliver t h b bt =>
    redeliver_tx U (fuel_of U) t (if h <? 0 then None else Some (h, b, bt))
  | EvDisconnect h => rollback U (fuel_of U) h
  | EvAbandon t => remove_conflict U (fuel_of U) t
  | EvLease id pt pi dur => lock_output now id [pt; pi] dur ;;; Ret tt
  | EvRelease id pt pi => release_output now id [pt; pi]
  | EvSweep => sweep_expired now
  | EvTick _ => Ret tt
  end.

(** The harness's driver turns the two "refusals" of a lease request into a
    successful, empty transaction. *)
Definition tx_refusal (c : Z) : bool :=
  (c =? eUnknownOutput) || (c =? eAlreadyLocked) || (c =? eUnlockNotAllowed).

Definition tx_step (U : universe) (st : Z * kv) (e : tx_event) : Z * kv :=
  match e with
  | EvTick dt => (fst st + dt, snd st)
  | _ => (fst st, snd (update (tx_prog U (fst st) e) (snd st) None))
  end.
