(** C10 - the mutating operations of wtxmgr (tx.go, unconfirmed.go, db.go)
    transcribed as programs of the fault language.  Bucket and key layout are
    abstract (integers instead of byte strings), but every Put / Delete /
    CreateBucket(IfNotExists) call of the Go code appears here as one [Write],
    in the same order and under the same conditions, and EVERY CALL whose
    error may stem from such a write appears as a [Call] carrying the site id
    Generated/ErrFlow.v lists for it ("wtxmgr:<function>><callee>"): one Coq
    definition per Go function, one [call] per call site.  What happens to an
    error at a site is therefore read from the regenerated table, not assumed.
    Definitions only. *)
From stdpp Require Import gmap.
From Coq Require Import ZArith List String.
From Verif Require Import Fault.Fault.
Import ListNotations.
Local Open Scope string_scope.
Local Open Scope Z_scope.
Local Open Scope list_scope.

(** Transaction content, as the generator's universe gives it.  [tx_ins]
    lists EVERY TxIn of the wire transaction (for a coinbase: the null
    outpoint), [tx_outs] the output amounts, [tx_creds] the outputs credited to
    the wallet with their change flag. *)
Record txd := {
  tx_ins : list (Z * Z);
  tx_outs : list Z;
  tx_creds : list (Z * bool);
  tx_coinbase : bool
}.
Definition universe := gmap Z txd.

(** buckets of the wtxmgr namespace *)
Definition bRoot := 0.            (* root keys: [0] = mined balance, [1] version, [2] creation date *)
Definition bBlocks := 1.          (* [h] -> b :: time :: txids *)
Definition bTxRecords := 2.       (* [t;h;b] -> [t] *)
Definition bCredits := 3.         (* [t;h;b;i] -> [amt; spent; change] *)
Definition bUnspent := 4.         (* [t;i] -> [h;b] *)
Definition bDebits := 5.          (* [t;h;b;i] -> amt :: credit key *)
Definition bUnmined := 6.         (* [t] -> [t] *)
Definition bUnminedCredits := 7.  (* [t;i] -> [amt; change] *)
Definition bUnminedInputs := 8.   (* [pt;pi] -> unmined spenders *)
Definition bLocked := 9.          (* [t;i] -> [lock id; expiry] *)
Definition bLabels := 10.         (* [t] -> [label id] *)

(** error codes of the operations themselves *)
Definition eInput := 10.
Definition eData := 11.
Definition eFuel := 12.
Definition eUnknownOutput := 13.
Definition eAlreadyLocked := 14.
Definition eUnlockNotAllowed := 15.
Definition eEmptyLabel := 16.
Definition eLabelTooLong := 17.
Definition eAlreadyExists := 18.

Definition store_buckets : list Z :=
  [bBlocks; bTxRecords; bCredits; bDebits; bUnspent; bUnmined; bUnminedCredits; bUnminedInputs; bLocked].

(** what createStore leaves: version / date / balance keys and the nine buckets *)
Definition tx_store_init : kv :=
  <[bRoot := {[ [0] := [0]; [1] := []; [2] := [] ]}]>
  (fold_right (fun b s => <[b := ∅]> s) ∅ store_buckets).

Definition get_balance : prog Z :=
  v <- get bRoot [0] ;; Ret (hd 0 (default [] v)).

(** TxDetails(hash) != nil : unmined record, else latestTxRecord *)
Definition latest_tx_record (t : Z) : prog bool :=
  Read (fun s => existsb (fun e => match fst e with t' :: _ => t =? t' | [] => false end)
                         (map_to_list (bucket_of s bTxRecords))).
Definition tx_known (t : Z) : prog bool :=
  u <- get bUnmined [t] ;;
  (match u with Some _ => Ret true | None => latest_tx_record t end).

(** ** db.go: one definition per put* / delete* helper *)

Definition put_mined_balance (v : Z) : prog unit :=
  call "wtxmgr:putMinedBalance>db.Put" (put bRoot [0] [v]).
Definition put_raw_block_record (k : key) (v : val) : prog unit :=
  call "wtxmgr:putRawBlockRecord>db.Put" (put bBlocks k v).
Definition put_block_record (h : Z) (v : val) : prog unit :=
  call "wtxmgr:putBlockRecord>putRawBlockRecord" (put_raw_block_record [h] v).
Definition delete_block_record (h : Z) : prog unit :=
  call "wtxmgr:deleteBlockRecord>db.Delete" (del bBlocks [h]).
Definition put_tx_record (k : key) (v : val) : prog unit :=
  call "wtxmgr:putTxRecord>db.Put" (put bTxRecords k v).
Definition delete_tx_record (k : key) : prog unit :=
  call "wtxmgr:deleteTxRecord>db.Delete" (del bTxRecords k).
Definition put_raw_credit (k : key) (v : val) : prog unit :=
  call "wtxmgr:putRawCredit>db.Put" (put bCredits k v).
Definition put_unspent_credit (k : key) (v : val) : prog unit :=
  call "wtxmgr:putUnspentCredit>putRawCredit" (put_raw_credit k v).
Definition spend_val (v : val) : val :=
  match v with amt :: _ :: rest => amt :: 1 :: rest | _ => [0; 1; 0] end.
Definition unspend_val (v : val) : val :=
  match v with amt :: _ :: rest => amt :: 0 :: rest | _ => v end.
(** spendCredit: read the credit, write it back marked spent; result = amount *)
Definition spend_credit (ck : key) : prog Z :=
  cv <- get bCredits ck ;;
  call "wtxmgr:spendCredit>putRawCredit" (put_raw_credit ck (spend_val (default [] cv))) ;;;
  Ret (hd 0 (default [] cv)).
(** unspendRawCredit: nothing when the credit is gone; result = amount (0 then) *)
Definition unspend_raw_credit (ck : key) : prog Z :=
  cv <- get bCredits ck ;;
  (match cv with
   | Some v => call "wtxmgr:unspendRawCredit>db.Put" (put bCredits ck (unspend_val v)) ;;; Ret (hd 0 v)
   | None => Ret 0
   end).
Definition delete_raw_credit (k : key) : prog unit :=
  call "wtxmgr:deleteRawCredit>db.Delete" (del bCredits k).
Definition put_unspent (k : key) (v : val) : prog unit :=
  call "wtxmgr:putUnspent>db.Put" (put bUnspent k v).
Definition put_raw_unspent (k : key) (v : val) : prog unit :=
  call "wtxmgr:putRawUnspent>db.Put" (put bUnspent k v).
Definition delete_raw_unspent (k : key) : prog unit :=
  call "wtxmgr:deleteRawUnspent>db.Delete" (del bUnspent k).
Definition put_debit (k : key) (v : val) : prog unit :=
  call "wtxmgr:putDebit>db.Put" (put bDebits k v).
Definition delete_raw_debit (k : key) : prog unit :=
  call "wtxmgr:deleteRawDebit>db.Delete" (del bDebits k).
Definition put_raw_unmined (t : Z) : prog unit :=
  call "wtxmgr:putRawUnmined>db.Put" (put bUnmined [t] [t]).
Definition delete_raw_unmined (t : Z) : prog unit :=
  call "wtxmgr:deleteRawUnmined>db.Delete" (del bUnmined [t]).
Definition put_raw_unmined_credit (k : key) (v : val) : prog unit :=
  call "wtxmgr:putRawUnminedCredit>db.Put" (put bUnminedCredits k v).
Definition delete_raw_unmined_credit (k : key) : prog unit :=
  call "wtxmgr:deleteRawUnminedCredit>db.Delete" (del bUnminedCredits k).

(** putRawUnminedInput: read the spender list, append, Put *)
Definition put_raw_unmined_input (op : key) (t : Z) : prog unit :=
  v <- get bUnminedInputs op ;;
  call "wtxmgr:putRawUnminedInput>db.Put" (put bUnminedInputs op (default [] v ++ [t])).

(** deleteRawUnminedInput: nothing when the list is empty; Delete when the
    filtered list is empty; Put otherwise *)
Definition delete_raw_unmined_input (op : key) (t : Z) : prog unit :=
  v <- get bUnminedInputs op ;;
  (match v with
   | None | Some [] => Ret tt
   | Some l =>
     match filter (fun x => negb (x =? t)) l with
     | [] => call "wtxmgr:deleteRawUnminedInput>db.Delete" (del bUnminedInputs op)
     | l' => call "wtxmgr:deleteRawUnminedInput>db.Put" (put bUnminedInputs op l')
     end
   end).

(** lockOutput / unlockOutput *)
Definition lock_output_db (op : key) (v : val) : prog unit :=
  call "wtxmgr:lockOutput>db.CreateBucketIfNotExists" (create_bucket_if_not_exists bLocked) ;;;
  call "wtxmgr:lockOutput>db.Put" (put bLocked op v).
Definition unlock_output (op : key) : prog unit :=
  hb <- has_bucket bLocked ;;
  (if hb then call "wtxmgr:unlockOutput>db.Delete" (del bLocked op) else Ret tt).

(** ** unconfirmed.go *)

(** insertMemPoolTx; result: "already recorded" (ErrDuplicateTx, turned into
    `true, nil` by InsertTxCheckIfExists) *)
Definition insert_mempool (t : Z) (d : txd) : prog bool :=
  known <- tx_known t ;;
  (if known then Ret true else
   unspent <- Read (fun s => existsb (fun i => isSome (lookup2 s bUnspent [t; i])) (indices (tx_outs d))) ;;
   (if unspent then Ret false else
    call "wtxmgr:(*Store).insertMemPoolTx>putRawUnmined" (put_raw_unmined t) ;;;
    for_each (tx_ins d) (fun op =>
      call "wtxmgr:(*Store).insertMemPoolTx>putRawUnminedInput" (put_raw_unmined_input [fst op; snd op] t)) ;;;
    Ret false)).

(** removeConflict (recursion over the unmined spend graph, bounded by fuel;
    the content of a spender is read back from its record, here: looked up in
    the universe) *)
Fixpoint remove_conflict (U : universe) (fuel : nat) (r : Z) : prog unit :=
  match fuel with
  | O => Fail eFuel
  | S fuel' =>
    match U !! r with
    | None => Fail eData
    | Some d =>
      for_each (indices (tx_outs d)) (fun i =>
        sp <- get bUnminedInputs [r; i] ;;
        for_each (default [] sp) (fun x =>
          v <- get bUnmined [x] ;;
          (match v with
           | None => Ret tt
           | Some _ => call "wtxmgr:(*Store).removeConflict>(*Store).removeConflict" (remove_conflict U fuel' x)
           end)) ;;;
        call "wtxmgr:(*Store).removeConflict>deleteRawUnminedCredit" (delete_raw_unmined_credit [r; i])) ;;;
      for_each (tx_ins d) (fun op =>
        call "wtxmgr:(*Store).removeConflict>deleteRawUnminedInput" (delete_raw_unmined_input [fst op; snd op] r)) ;;;
      call "wtxmgr:(*Store).removeConflict>deleteRawUnmined" (delete_raw_unmined r)
    end
  end.

(** removeDoubleSpends *)
Definition remove_double_spends (U : universe) (fuel : nat) (t : Z) (d : txd) : prog unit :=
  for_each (tx_ins d) (fun op =>
    sp <- get bUnminedInputs [fst op; snd op] ;;
    for_each (default [] sp) (fun x =>
      if x =? t then Ret tt else
      (v <- get bUnmined [x] ;;
       (match v with
        | None => Ret tt
        | Some _ => call "wtxmgr:(*Store).removeDoubleSpends>(*Store).removeConflict" (remove_conflict U fuel x)
        end)))).

(** ** tx.go *)

(** addCredit *)
Definition add_credit_inner (t : Z) (amt : Z) (blk : option (Z * Z)) (i : Z) (chg : bool) : prog unit :=
  match blk with
  | None =>
    v <- get bUnminedCredits [t; i] ;;
    (match v with
     | Some _ => Ret tt
     | None =>
       mined <- latest_tx_record t ;;
       (if mined then Ret tt else
        call "wtxmgr:(*Store).addCredit>putRawUnminedCredit" (put_raw_unmined_credit [t; i] [amt; b2z chg]))
     end)
  | Some (h, b) =>
    v <- get bCredits [t; h; b; i] ;;
    (match v with
     | Some _ => Ret tt
     | None =>
       call "wtxmgr:(*Store).addCredit>putRawCredit" (put_raw_credit [t; h; b; i] [amt; 0; b2z chg]) ;;;
       bal <- get_balance ;;
       call "wtxmgr:(*Store).addCredit>putMinedBalance" (put_mined_balance (bal + amt)) ;;;
       call "wtxmgr:(*Store).addCredit>putUnspent" (put_unspent [t; i] [h; b])
     end)
  end.

(** AddCredit *)
Definition add_credit (t : Z) (d : txd) (blk : option (Z * Z)) (i : Z) (chg : bool) : prog unit :=
  match nth_error (tx_outs d) (Z.to_nat i) with
  | None => Fail eInput
  | Some amt => call "wtxmgr:(*Store).AddCredit>(*Store).addCredit" (add_credit_inner t amt blk i chg)
  end.

(** deleteUnminedTx *)
Definition delete_unmined_tx (t : Z) (d : txd) : prog unit :=
  for_each (tx_ins d) (fun op =>
    call "wtxmgr:(*Store).deleteUnminedTx>deleteRawUnminedInput" (delete_raw_unmined_input [fst op; snd op] t)) ;;;
  for_each (indices (tx_outs d)) (fun i =>
    call "wtxmgr:(*Store).deleteUnminedTx>deleteRawUnminedCredit" (delete_raw_unmined_credit [t; i])) ;;;
  call "wtxmgr:(*Store).deleteUnminedTx>deleteRawUnmined" (delete_raw_unmined t).

(** updateMinedBalance *)
Definition update_mined_balance (t : Z) (d : txd) (h b : Z) : prog unit :=
  bal <- get_balance ;;
  nb1 <- fold_prog (indexed (tx_ins d)) bal (fun nb e =>
           let '(i, (pt, pi)) := e in
           u <- get bUnspent [pt; pi] ;;
           (match u with
            | Some [ch; cb] =>
              let ck := [pt; ch; cb; pi] in
              amt <- Call "wtxmgr:(*Store).updateMinedBalance>spendCredit" (spend_credit ck) 0 ;;
              call "wtxmgr:(*Store).updateMinedBalance>putDebit" (put_debit [t; h; b; i] (amt :: ck)) ;;;
              call "wtxmgr:(*Store).updateMinedBalance>deleteRawUnspent" (delete_raw_unspent [pt; pi]) ;;;
              Ret (nb - amt)
            | _ => Ret nb
            end)) ;;
  nb2 <- fold_prog (indices (tx_outs d)) nb1 (fun nb i =>
           v <- get bUnminedCredits [t; i] ;;
           (match v with
            | Some [amt; chg] =>
              call "wtxmgr:(*Store).updateMinedBalance>putUnspentCredit"
                   (put_unspent_credit [t; h; b; i] [amt; 0; chg]) ;;;
              call "wtxmgr:(*Store).updateMinedBalance>putUnspent" (put_unspent [t; i] [h; b]) ;;;
              Ret (nb + amt)
            | _ => Ret nb
            end)) ;;
  (if nb2 =? bal then Ret tt
   else call "wtxmgr:(*Store).updateMinedBalance>putMinedBalance" (put_mined_balance nb2)).

(** insertMinedTx; result: "already recorded" *)
Definition insert_mined (U : universe) (fuel : nat) (t : Z) (d : txd) (h b bt : Z) : prog bool :=
  ex <- get bTxRecords [t; h; b] ;;
  (match ex with
   | Some _ => Ret true
   | None =>
     bv <- get bBlocks [h] ;;
     (match bv with
      | None => call "wtxmgr:(*Store).insertMinedTx>putBlockRecord" (put_block_record h [b; bt; t])
      | Some v => call "wtxmgr:(*Store).insertMinedTx>putRawBlockRecord" (put_raw_block_record [h] (v ++ [t]))
      end) ;;;
     call "wtxmgr:(*Store).insertMinedTx>putTxRecord" (put_tx_record [t; h; b] [t]) ;;;
     call "wtxmgr:(*Store).insertMinedTx>(*Store).updateMinedBalance" (update_mined_balance t d h b) ;;;
     um <- get bUnmined [t] ;;
     (match um with
      | Some _ => call "wtxmgr:(*Store).insertMinedTx>(*Store).deleteUnminedTx" (delete_unmined_tx t d)
      | None => Ret tt
      end) ;;;
     call "wtxmgr:(*Store).insertMinedTx>(*Store).removeDoubleSpends" (remove_double_spends U fuel t d) ;;;
     for_each (tx_ins d) (fun op =>
       call "wtxmgr:(*Store).insertMinedTx>unlockOutput" (unlock_output [fst op; snd op])) ;;;
     Ret false
   end).

(** InsertTxCheckIfExists / InsertTx *)
Definition insert_tx_check (U : universe) (fuel : nat) (t : Z) (d : txd) (blk : option (Z * Z * Z)) : prog bool :=
  match blk with
  | None => Call "wtxmgr:(*Store).InsertTxCheckIfExists>(*Store).insertMemPoolTx" (insert_mempool t d) false
  | Some (h, b, bt) =>
    Call "wtxmgr:(*Store).InsertTxCheckIfExists>(*Store).insertMinedTx" (insert_mined U fuel t d h b bt) false
  end.
Definition insert_tx (U : universe) (fuel : nat) (t : Z) (d : txd) (blk : option (Z * Z * Z)) : prog unit :=
  Call "wtxmgr:(*Store).InsertTx>(*Store).InsertTxCheckIfExists" (insert_tx_check U fuel t d blk) false ;;; Ret tt.

Definition blk_of (blk : option (Z * Z * Z)) : option (Z * Z) :=
  match blk with None => None | Some (h, b, _) => Some (h, b) end.

(** wallet.addRelevantTx as the harness drives it: insert, stop when the
    transaction was already recorded, otherwise add every credit.  (The
    harness's own calls of the API are sites with the empty name.) *)
Definition relevant_tx (U : universe) (fuel : nat) (t : Z) (blk : option (Z * Z * Z)) : prog unit :=
  match U !! t with
  | None => Fail eData
  | Some d =>
    ex <- Call "" (insert_tx_check U fuel t d blk) false ;;
    (if ex then Ret tt else
     for_each (tx_creds d) (fun c => call "" (add_credit t d (blk_of blk) (fst c) (snd c))))
  end.

(** the same notification applied again through the store API without the
    early return: InsertTx (a duplicate is not an error), then every credit *)
Definition redeliver_tx (U : universe) (fuel : nat) (t : Z) (blk : option (Z * Z * Z)) : prog unit :=
  match U !! t with
  | None => Fail eData
  | Some d =>
    call "" (insert_tx U fuel t d blk) ;;;
    for_each (tx_creds d) (fun c => call "" (add_credit t d (blk_of blk) (fst c) (snd c)))
  end.

(** rollback, the part for one transaction of a detached block.
    [acc] = (running mined balance, outputs of removed coinbase transactions). *)
Definition rollback_tx (U : universe) (h b : Z) (acc : Z * list key) (t : Z) : prog (Z * list key) :=
  rv <- get bTxRecords [t; h; b] ;;
  (match rv, U !! t with
   | Some _, Some d =>
     call "wtxmgr:(*Store).rollback>deleteTxRecord" (delete_tx_record [t; h; b]) ;;;
     (if tx_coinbase d then
        fold_prog (indexed (tx_outs d)) acc (fun a e =>
          let '(i, amt) := e in
          let cbc := snd a ++ [[t; i]] in
          cv <- get bCredits [t; h; b; i] ;;
          (match cv with
           | None => Ret (fst a, cbc)
           | Some _ =>
             u <- get bUnspent [t; i] ;;
             (match u with
              | Some _ => call "wtxmgr:(*Store).rollback>deleteRawUnspent" (delete_raw_unspent [t; i])
              | None => Ret tt
              end) ;;;
             call "wtxmgr:(*Store).rollback>deleteRawCredit" (delete_raw_credit [t; h; b; i]) ;;;
             Ret (match u with Some _ => fst a - amt | None => fst a end, cbc)
           end))
      else
        call "wtxmgr:(*Store).rollback>putRawUnmined" (put_raw_unmined t) ;;;
        bal1 <- fold_prog (indexed (tx_ins d)) (fst acc) (fun bal e =>
                  let '(i, (pt, pi)) := e in
                  call "wtxmgr:(*Store).rollback>putRawUnminedInput" (put_raw_unmined_input [pt; pi] t) ;;;
                  dv <- get bDebits [t; h; b; i] ;;
                  (match dv with
                   | None => Ret bal
                   | Some dvl =>
                     let ck := tl dvl in
                     amt <- Call "wtxmgr:(*Store).rollback>unspendRawCredit" (unspend_raw_credit ck) 0 ;;
                     call "wtxmgr:(*Store).rollback>deleteRawDebit" (delete_raw_debit [t; h; b; i]) ;;;
                     (if amt =? 0 then Ret bal else
                      call "wtxmgr:(*Store).rollback>putRawUnspent"
                           (put_raw_unspent [pt; pi] (match ck with [_; ch; cb; _] => [ch; cb] | _ => [] end)) ;;;
                      Ret (bal + amt))
                   end)) ;;
        bal2 <- fold_prog (indexed (tx_outs d)) bal1 (fun bal e =>
                  let '(i, oamt) := e in
                  cv <- get bCredits [t; h; b; i] ;;
                  (match cv with
                   | None => Ret bal
                   | Some v =>
                     call "wtxmgr:(*Store).rollback>putRawUnminedCredit"
                          (put_raw_unmined_credit [t; i] [hd 0 v; nth 2 v 0]) ;;;
                     call "wtxmgr:(*Store).rollback>deleteRawCredit" (delete_raw_credit [t; h; b; i]) ;;;
                     u <- get bUnspent [t; i] ;;
                     (match u with
                      | Some _ =>
                        call "wtxmgr:(*Store).rollback>deleteRawUnspent" (delete_raw_unspent [t; i]) ;;;
                        Ret (bal - oamt)
                      | None => Ret bal
                      end)
                   end)) ;;
        Ret (bal2, snd acc))
   | _, _ => Fail eData
   end).

Definition rollback_inner (U : universe) (fuel : nat) (height : Z) : prog unit :=
  bal <- get_balance ;;
  blks <- Read (fun s => sort_desc (filter (fun e => height <=? fst e)
                  (map (fun e => (hd 0 (fst e), snd e)) (map_to_list (bucket_of s bBlocks))))) ;;
  acc <- fold_prog blks (bal, []) (fun a e =>
           match snd e with
           | b :: _ :: txs => fold_prog txs a (rollback_tx U (fst e) b)
           | _ => Fail eData
           end) ;;
  for_each blks (fun e => call "wtxmgr:(*Store).rollback>deleteBlockRecord" (delete_block_record (fst e))) ;;;
  for_each (snd acc) (fun op =>
    sp <- get bUnminedInputs op ;;
    for_each (default [] sp) (fun x =>
      v <- get bUnmined [x] ;;
      (match v with
       | None => Ret tt
       | Some _ => call "wtxmgr:(*Store).rollback>(*Store).removeConflict" (remove_conflict U fuel x)
       end))) ;;;
  call "wtxmgr:(*Store).rollback>putMinedBalance" (put_mined_balance (fst acc)).

Definition rollback (U : universe) (fuel : nat) (height : Z) : prog unit :=
  call "wtxmgr:(*Store).Rollback>(*Store).rollback" (rollback_inner U fuel height).

(** RemoveUnminedTx *)
Definition remove_unmined_tx (U : universe) (fuel : nat) (t : Z) : prog unit :=
  call "wtxmgr:(*Store).RemoveUnminedTx>(*Store).removeConflict" (remove_conflict U fuel t).

(** LockOutput / UnlockOutput / DeleteExpiredLockedOutputs *)
Definition is_known_output (op : key) : prog bool :=
  Read (fun s => isSome (lookup2 s bUnminedCredits op) || isSome (lookup2 s bUnspent op)).
Definition locked_by (now : Z) (op : key) : prog (option Z) :=
  Read (fun s => match lookup2 s bLocked op with
                 | Some [id; exp] => if now <? exp then Some id else None
                 | _ => None
                 end).

(** the stored expiry is truncated to whole seconds ([expiry.Unix()]); times
    are milliseconds *)
Definition trunc_sec (ms : Z) : Z := (ms / 1000) * 1000.

Definition lock_output (now id : Z) (op : key) (dur : Z) : prog Z :=
  known <- is_known_output op ;;
  (if negb known then Fail eUnknownOutput else
   l <- locked_by now op ;;
   (if match l with Some id' => negb (id' =? id) | None => false end then Fail eAlreadyLocked else
    call "wtxmgr:(*Store).LockOutput>lockOutput" (lock_output_db op [id; trunc_sec (now + dur)]) ;;;
    Ret (now + dur))).

Definition release_output (now id : Z) (op : key) : prog unit :=
  known <- is_known_output op ;;
  (if negb known then Fail eUnknownOutput else
   l <- locked_by now op ;;
   (match l with
    | None => Ret tt
    | Some id' =>
      if id' =? id then call "wtxmgr:(*Store).UnlockOutput>unlockOutput" (unlock_output op)
      else Fail eUnlockNotAllowed
    end)).

Definition sweep_expired (now : Z) : prog unit :=
  ex <- Read (fun s => map fst (filter (fun e => match snd e with
                                                 | [_; exp] => negb (now <? exp)
                                                 | _ => false
                                                 end) (map_to_list (bucket_of s bLocked)))) ;;
  for_each ex (fun op => call "wtxmgr:(*Store).DeleteExpiredLockedOutputs>unlockOutput" (unlock_output op)).

(** Store.PutTxLabel: label id 0 = empty label, negative = too long *)
Definition put_tx_label_db (t lid : Z) : prog unit :=
  call "wtxmgr:PutTxLabel>db.Put" (put bLabels [t] [lid]).
Definition put_tx_label (t lid : Z) : prog unit :=
  if lid =? 0 then Fail eEmptyLabel else
  if lid <? 0 then Fail eLabelTooLong else
  call "wtxmgr:(*Store).PutTxLabel>db.CreateBucketIfNotExists" (create_bucket_if_not_exists bLabels) ;;;
  call "wtxmgr:(*Store).PutTxLabel>PutTxLabel" (put_tx_label_db t lid).

(** wtxmgr.Create (probed on a file that only holds the empty namespace
    bucket [tx_fresh]; on an existing store it is refused) *)
Definition tx_fresh : kv := {[ bRoot := ∅ ]}.
Definition create_buckets : prog unit :=
  for_each store_buckets (fun b => call "wtxmgr:createBuckets>db.CreateBucket" (create_bucket b)).
Definition put_version : prog unit :=
  call "wtxmgr:putVersion>db.Put" (put bRoot [1] []).
Definition ns_empty : prog bool :=
  Read (fun s => match map_to_list (bucket_of s bRoot) with [] => true | _ => false end
                 && forallb (fun b => negb (isSome (s !! b))) store_buckets).
Definition create_store : prog unit :=
  e <- ns_empty ;;
  (if negb e then Fail eAlreadyExists else
   call "wtxmgr:createStore>putVersion" put_version ;;;
   call "wtxmgr:createStore>db.Put" (put bRoot [2] []) ;;;
   call "wtxmgr:createStore>db.Put" (put bRoot [0] [0]) ;;;
   call "wtxmgr:createStore>createBuckets" create_buckets).
Definition create : prog unit :=
  call "wtxmgr:Create>createStore" create_store.

(** ** Events (one per database transaction, as the harness drives the store) *)
Inductive tx_event :=
| EvSeen (t : Z)
| EvConfirm (t h b bt : Z)
| EvRedeliver (t h b bt : Z)    (* h < 0: as unconfirmed *)
| EvDisconnect (h : Z)
| EvAbandon (t : Z)
| EvLease (id pt pi dur : Z)
| EvRelease (id pt pi : Z)
| EvSweep
| EvTick (dt : Z)
| EvLabel (t lid : Z)
| EvCreate.                     (* wtxmgr.Create *)

(** fuel for the spend-graph recursion: one more than the universe's size *)
Definition fuel_of (U : universe) : nat := S (size U).

Definition tx_prog (U : universe) (now : Z) (e : tx_event) : prog unit :=
  match e with
  | EvSeen t => relevant_tx U (fuel_of U) t None
  | EvConfirm t h b bt => relevant_tx U (fuel_of U) t (Some (h, b, bt))
  | EvRedeliver t h b bt =>
    redeliver_tx U (fuel_of U) t (if h <? 0 then None else Some (h, b, bt))
  | EvDisconnect h => call "" (rollback U (fuel_of U) h)
  | EvAbandon t => call "" (remove_unmined_tx U (fuel_of U) t)
  | EvLease id pt pi dur => Call "" (lock_output now id [pt; pi] dur) 0 ;;; Ret tt
  | EvRelease id pt pi => call "" (release_output now id [pt; pi])
  | EvSweep => call "" (sweep_expired now)
  | EvTick _ => Ret tt
  | EvLabel t lid => call "" (put_tx_label t lid)
  | EvCreate => call "" create
  end.

(** The harness's driver turns the two "refusals" of a lease request into a
    successful, empty transaction. *)
Definition tx_refusal (c : Z) : bool :=
  (c =? eUnknownOutput) || (c =? eAlreadyLocked) || (c =? eUnlockNotAllowed).

Definition tx_step (T : table) (U : universe) (st : Z * kv) (e : tx_event) : Z * kv :=
  match e with
  | EvTick dt => (fst st + dt, snd st)
  | _ => (fst st, snd (update T (tx_prog U (fst st) e) (snd st) None))
  end.

(** ** The call sites each operation can reach (by Go function, composed as the
    call graph composes them).  FaultSites.v proves [uses_only (tx_sites e)
    (tx_prog U now e)]; Properties/C10.v decides [sites_ok T (tx_sites e)] on
    the regenerated table, per operation. *)
Definition S_remove_conflict : list site :=
  ["wtxmgr:(*Store).removeConflict>(*Store).removeConflict";
   "wtxmgr:(*Store).removeConflict>deleteRawUnminedCredit"; "wtxmgr:deleteRawUnminedCredit>db.Delete";
   "wtxmgr:(*Store).removeConflict>deleteRawUnminedInput";
   "wtxmgr:deleteRawUnminedInput>db.Delete"; "wtxmgr:deleteRawUnminedInput>db.Put";
   "wtxmgr:(*Store).removeConflict>deleteRawUnmined"; "wtxmgr:deleteRawUnmined>db.Delete"].

Definition S_insert_mempool : list site :=
  ["wtxmgr:(*Store).insertMemPoolTx>putRawUnmined"; "wtxmgr:putRawUnmined>db.Put";
   "wtxmgr:(*Store).insertMemPoolTx>putRawUnminedInput"; "wtxmgr:putRawUnminedInput>db.Put"].

Definition S_unlock_output : list site := ["wtxmgr:unlockOutput>db.Delete"].

Definition S_insert_mined : list site :=
  ["wtxmgr:(*Store).insertMinedTx>putBlockRecord"; "wtxmgr:putBlockRecord>putRawBlockRecord";
   "wtxmgr:putRawBlockRecord>db.Put"; "wtxmgr:(*Store).insertMinedTx>putRawBlockRecord";
   "wtxmgr:(*Store).insertMinedTx>putTxRecord"; "wtxmgr:putTxRecord>db.Put";
   "wtxmgr:(*Store).insertMinedTx>(*Store).updateMinedBalance";
   "wtxmgr:(*Store).updateMinedBalance>spendCredit"; "wtxmgr:spendCredit>putRawCredit"; "wtxmgr:putRawCredit>db.Put";
   "wtxmgr:(*Store).updateMinedBalance>putDebit"; "wtxmgr:putDebit>db.Put";
   "wtxmgr:(*Store).updateMinedBalance>deleteRawUnspent"; "wtxmgr:deleteRawUnspent>db.Delete";
   "wtxmgr:(*Store).updateMinedBalance>putUnspentCredit"; "wtxmgr:putUnspentCredit>putRawCredit";
   "wtxmgr:(*Store).updateMinedBalance>putUnspent"; "wtxmgr:putUnspent>db.Put";
   "wtxmgr:(*Store).updateMinedBalance>putMinedBalance"; "wtxmgr:putMinedBalance>db.Put";
   "wtxmgr:(*Store).insertMinedTx>(*Store).deleteUnminedTx";
   "wtxmgr:(*Store).deleteUnminedTx>deleteRawUnminedInput"; "wtxmgr:(*Store).deleteUnminedTx>deleteRawUnminedCredit";
   "wtxmgr:(*Store).deleteUnminedTx>deleteRawUnmined";
   "wtxmgr:(*Store).insertMinedTx>(*Store).removeDoubleSpends";
   "wtxmgr:(*Store).removeDoubleSpends>(*Store).removeConflict";
   "wtxmgr:(*Store).insertMinedTx>unlockOutput"] ++ S_unlock_output ++ S_remove_conflict.

Definition S_add_credit (mined : bool) : list site :=
  "wtxmgr:(*Store).AddCredit>(*Store).addCredit" ::
  (if mined then
     ["wtxmgr:(*Store).addCredit>putRawCredit"; "wtxmgr:putRawCredit>db.Put";
      "wtxmgr:(*Store).addCredit>putMinedBalance"; "wtxmgr:putMinedBalance>db.Put";
      "wtxmgr:(*Store).addCredit>putUnspent"; "wtxmgr:putUnspent>db.Put"]
   else ["wtxmgr:(*Store).addCredit>putRawUnminedCredit"; "wtxmgr:putRawUnminedCredit>db.Put"]).

Definition S_insert_check (mined : bool) : list site :=
  if mined then "wtxmgr:(*Store).InsertTxCheckIfExists>(*Store).insertMinedTx" :: S_insert_mined
  else "wtxmgr:(*Store).InsertTxCheckIfExists>(*Store).insertMemPoolTx" :: S_insert_mempool.

Definition S_rollback : list site :=
  ["wtxmgr:(*Store).Rollback>(*Store).rollback";
   "wtxmgr:(*Store).rollback>deleteTxRecord"; "wtxmgr:deleteTxRecord>db.Delete";
   "wtxmgr:(*Store).rollback>deleteRawUnspent"; "wtxmgr:deleteRawUnspent>db.Delete";
   "wtxmgr:(*Store).rollback>deleteRawCredit"; "wtxmgr:deleteRawCredit>db.Delete";
   "wtxmgr:(*Store).rollback>putRawUnmined"; "wtxmgr:putRawUnmined>db.Put";
   "wtxmgr:(*Store).rollback>putRawUnminedInput"; "wtxmgr:putRawUnminedInput>db.Put";
   "wtxmgr:(*Store).rollback>unspendRawCredit"; "wtxmgr:unspendRawCredit>db.Put";
   "wtxmgr:(*Store).rollback>deleteRawDebit"; "wtxmgr:deleteRawDebit>db.Delete";
   "wtxmgr:(*Store).rollback>putRawUnspent"; "wtxmgr:putRawUnspent>db.Put";
   "wtxmgr:(*Store).rollback>putRawUnminedCredit"; "wtxmgr:putRawUnminedCredit>db.Put";
   "wtxmgr:(*Store).rollback>deleteBlockRecord"; "wtxmgr:deleteBlockRecord>db.Delete";
   "wtxmgr:(*Store).rollback>(*Store).removeConflict";
   "wtxmgr:(*Store).rollback>putMinedBalance"; "wtxmgr:putMinedBalance>db.Put"] ++ S_remove_conflict.

Definition S_create : list site :=
  ["wtxmgr:Create>createStore"; "wtxmgr:createStore>putVersion"; "wtxmgr:putVersion>db.Put";
   "wtxmgr:createStore>db.Put"; "wtxmgr:createStore>createBuckets"; "wtxmgr:createBuckets>db.CreateBucket"].

Definition tx_sites (e : tx_event) : list site :=
  "" ::   (* the harness's own calls of the API *)
  match e with
  | EvSeen _ => S_insert_check false ++ S_add_credit false
  | EvConfirm _ _ _ _ => S_insert_check true ++ S_add_credit true
  | EvRedeliver _ _ _ _ =>
    "wtxmgr:(*Store).InsertTx>(*Store).InsertTxCheckIfExists" ::
    S_insert_check false ++ S_insert_check true ++ S_add_credit false ++ S_add_credit true
  | EvDisconnect _ => S_rollback
  | EvAbandon _ => "wtxmgr:(*Store).RemoveUnminedTx>(*Store).removeConflict" :: S_remove_conflict
  | EvLease _ _ _ _ =>
    ["wtxmgr:(*Store).LockOutput>lockOutput"; "wtxmgr:lockOutput>db.CreateBucketIfNotExists"; "wtxmgr:lockOutput>db.Put"]
  | EvRelease _ _ _ => "wtxmgr:(*Store).UnlockOutput>unlockOutput" :: S_unlock_output
  | EvSweep => "wtxmgr:(*Store).DeleteExpiredLockedOutputs>unlockOutput" :: S_unlock_output
  | EvTick _ => []
  | EvLabel _ _ =>
    ["wtxmgr:(*Store).PutTxLabel>db.CreateBucketIfNotExists"; "wtxmgr:(*Store).PutTxLabel>PutTxLabel";
     "wtxmgr:PutTxLabel>db.Put"]
  | EvCreate => S_create
  end.

(** one representative event per constructor (the site list does not depend
    on the arguments), with the operation's name *)
Definition tx_kinds : list (string * tx_event) :=
  [("InsertTx(unmined)+AddCredit", EvSeen 0); ("InsertTx(mined)+AddCredit", EvConfirm 0 0 0 0);
   ("InsertTx+AddCredit(again)", EvRedeliver 0 0 0 0); ("Rollback", EvDisconnect 0);
   ("RemoveUnminedTx", EvAbandon 0); ("LockOutput", EvLease 0 0 0 0); ("UnlockOutput", EvRelease 0 0 0);
   ("DeleteExpiredLockedOutputs", EvSweep); ("PutTxLabel", EvLabel 0 0); ("wtxmgr.Create", EvCreate)].
