(** C10 - fault injection into database writes: the model.

    A wallet operation is a program over a small key/value store (buckets of
    byte-string keys, here lists of integers).  Programs are terms of a free
    monad whose only effects are
      - [Read r]    any read-only query of the store (Get, cursor scans, ...),
      - [Write w c] ONE mutating call (Put, Delete, CreateBucket, ...),
      - [Fail c]    the operation gives up with an error of its own,
    glued by [Bind].  Because the continuation of [Bind] is a Gallina function,
    the language contains sequences, conditionals on values read from the
    store, bounded loops over lists read from the store ([for_each],
    [fold_prog]) and fuel-bounded recursion - the shapes wtxmgr and waddrmgr
    use.  There is NO construct that catches an error: that every error
    returned by a write is propagated by the Go code is a fact about the source,
    regenerated into Generated/ErrFlow.v and required by Properties/C10.v.

    [run p s n f]: [s] the store, [n] the number of mutating calls made so far
    in the enclosing transaction, [f = Some k] makes the mutating call number
    [k] (counted from 0) fail with [Injected] without touching the store.

    This file holds executable definitions only; proofs are in FaultProofs.v. *)
From stdpp Require Import gmap.
From Coq Require Import ZArith List.
Import ListNotations.
Local Open Scope Z_scope.

Definition key := list Z.
Definition val := list Z.
Definition bucket := gmap key val.
Definition kv := gmap Z bucket.

Inductive err :=
| Injected          (* the sentinel error of the failed write *)
| OpErr (c : Z).    (* any error the operation or the backend reports itself *)

Inductive result (A : Type) :=
| Ok (a : A)
| Err (e : err).
Arguments Ok {A} a.
Arguments Err {A} e.

Definition is_ok {A} (r : result A) : bool :=
  match r with Ok _ => true | Err _ => false end.

(** The state + error monad of the design note (A.4). *)
Definition M (A : Type) : Type := kv -> nat -> option nat -> result A * kv * nat.

Definition hits (n : nat) (f : option nat) : bool :=
  match f with Some k => Nat.eqb k n | None => false end.

Definition m_ret {A} (a : A) : M A := fun s n _ => (Ok a, s, n).
Definition m_fail {A} (c : Z) : M A := fun s n _ => (Err (OpErr c), s, n).
Definition m_read {A} (r : kv -> A) : M A := fun s n _ => (Ok (r s), s, n).
(** One mutating call: the fault is consulted first; otherwise the backend
    either performs it or refuses with its own error [c]. *)
Definition m_write (w : kv -> option kv) (c : Z) : M unit := fun s n f =>
  if hits n f then (Err Injected, s, S n)
  else match w s with
       | Some s' => (Ok tt, s', S n)
       | None => (Err (OpErr c), s, S n)
       end.
(** [bind] propagates errors. *)
Definition m_bind {A B} (m : M A) (g : A -> M B) : M B := fun s n f =>
  match m s n f with
  | (Ok a, s1, n1) => g a s1 n1 f
  | (Err e, s1, n1) => (Err e, s1, n1)
  end.

(** The language of operation bodies. *)
Inductive prog : Type -> Type :=
| Ret {A} (a : A) : prog A
| Fail {A} (c : Z) : prog A
| Read {A} (r : kv -> A) : prog A
| Write (w : kv -> option kv) (c : Z) : prog unit
| Bind {A B} (p : prog A) (g : A -> prog B) : prog B.

Fixpoint run {A} (p : prog A) : M A :=
  match p with
  | Ret a => m_ret a
  | Fail c => m_fail c
  | Read r => m_read r
  | Write w c => m_write w c
  | Bind p g => m_bind (run p) (fun a => run (g a))
  end.

Notation "x <- p ;; q" := (Bind p (fun x => q))
  (at level 65, p at next level, right associativity).
Notation "p ;;; q" := (Bind p (fun _ => q))
  (at level 65, right associativity).

(** Bounded loops. *)
Fixpoint for_each {X} (l : list X) (body : X -> prog unit) : prog unit :=
  match l with
  | [] => Ret tt
  | x :: l' => body x ;;; for_each l' body
  end.

Fixpoint fold_prog {X S} (l : list X) (acc : S) (body : S -> X -> prog S) : prog S :=
  match l with
  | [] => Ret acc
  | x :: l' => acc' <- body acc x ;; fold_prog l' acc' body
  end.

(** Number of mutating calls of the fault-free run, and its outcome. *)
Definition clean {A} (p : prog A) (s : kv) : result A * kv * nat := run p s O None.
Definition writes {A} (p : prog A) (s : kv) : nat := snd (clean p s).

(** walletdb.Update around an operation: commit on success, discard the
    working copy on error (that Update itself is all-or-nothing is C11). *)
Definition update {A} (p : prog A) (s : kv) (f : option nat) : result A * kv :=
  match run p s O f with
  | (Ok a, s', _) => (Ok a, s')
  | (Err e, _, _) => (Err e, s)
  end.

(** An operation of a manager with in-memory state [Mem]: the disk part may
    read the memory; the memory effect is a pure function applied after the
    disk part succeeded ("memory-after-disk ordering"). *)
Record op (Mem R : Type) := {
  disk : Mem -> prog R;
  mem_after : R -> Mem -> Mem
}.
Arguments disk {Mem R} o.
Arguments mem_after {Mem R} o.

Definition run_op {Mem R} (o : op Mem R) (m : Mem) (s : kv) (f : option nat)
  : result R * Mem * kv :=
  match update (disk o m) s f with
  | (Ok r, s') => (Ok r, mem_after o r m, s')
  | (Err e, s') => (Err e, m, s')
  end.

(** The shape of the code where memory is updated EARLY (DESIGN section 6: S4,
    S10, S11): a list of steps, each a disk part followed at once by its
    memory effect.  When a later step fails, the effects of the earlier steps
    stay in memory although the transaction is rolled back. *)
Definition eager_step (Mem : Type) : Type := (Mem -> prog unit) * (Mem -> Mem).

Fixpoint run_eager {Mem} (steps : list (eager_step Mem)) (m : Mem) (s : kv) (n : nat)
  (f : option nat) : result unit * Mem * kv * nat :=
  match steps with
  | [] => (Ok tt, m, s, n)
  | (d, e) :: rest =>
    match run (d m) s n f with
    | (Ok _, s1, n1) => run_eager rest (e m) s1 n1 f
    | (Err x, s1, n1) => (Err x, m, s1, n1)
    end
  end.

Definition update_eager {Mem} (steps : list (eager_step Mem)) (m : Mem) (s : kv) (f : option nat)
  : result unit * Mem * kv :=
  match run_eager steps m s O f with
  | (Ok _, m', s', _) => (Ok tt, m', s')
  | (Err x, m', _, _) => (Err x, m', s)   (* the store is rolled back, the memory is not *)
  end.

(** ** Store primitives *)

Definition lookup2 (s : kv) (b : Z) (k : key) : option val :=
  match s !! b with Some m => m !! k | None => None end.

Definition bucket_of (s : kv) (b : Z) : bucket := default ∅ (s !! b).

Definition isSome {A} (o : option A) : bool :=
  match o with Some _ => true | None => false end.

(** the whole store as association lists (for comparing stores by computation:
    normalising a gmap term itself is expensive, its entries are not) *)
Definition dump (s : kv) : list (Z * list (key * val)) :=
  map (fun e => (fst e, map_to_list (snd e))) (map_to_list s).

Definition get (b : Z) (k : key) : prog (option val) := Read (fun s => lookup2 s b k).
Definition has_bucket (b : Z) : prog bool := Read (fun s => isSome (s !! b)).
(** all entries of a bucket, ascending key order is not needed by any op below *)
Definition scan (b : Z) : prog (list (key * val)) := Read (fun s => map_to_list (bucket_of s b)).

Definition put (b : Z) (k : key) (v : val) : prog unit :=
  Write (fun s => Some (<[b := <[k := v]> (bucket_of s b)]> s)) 0.
Definition del (b : Z) (k : key) : prog unit :=
  Write (fun s => Some (match s !! b with
                        | Some m => <[b := delete k m]> s
                        | None => s
                        end)) 0.
Definition create_bucket_if_not_exists (b : Z) : prog unit :=
  Write (fun s => Some (match s !! b with Some _ => s | None => <[b := ∅]> s end)) 0.
(** CreateBucket refuses an existing name (ErrBucketExists, code 1). *)
Definition create_bucket (b : Z) : prog unit :=
  Write (fun s => match s !! b with Some _ => None | None => Some (<[b := ∅]> s) end) 1.
Definition delete_bucket (b : Z) : prog unit :=
  Write (fun s => match s !! b with Some _ => Some (delete b s) | None => None end) 2.

(** helpers *)
Definition b2z (b : bool) : Z := if b then 1 else 0.
Fixpoint seqZ_from (start : Z) (len : nat) : list Z :=
  match len with O => [] | S n => start :: seqZ_from (start + 1) n end.
Definition indices {X} (l : list X) : list Z := seqZ_from 0 (length l).
Fixpoint indexed_from {X} (i : Z) (l : list X) : list (Z * X) :=
  match l with [] => [] | x :: l' => (i, x) :: indexed_from (i + 1) l' end.
Definition indexed {X} (l : list X) : list (Z * X) := indexed_from 0 l.
Fixpoint insert_desc (x : Z * val) (l : list (Z * val)) : list (Z * val) :=
  match l with
  | [] => [x]
  | y :: l' => if fst y <? fst x then x :: l else y :: insert_desc x l'
  end.
Definition sort_desc (l : list (Z * val)) : list (Z * val) := fold_right insert_desc [] l.
