(** C10 - fault injection into database writes: the model.

    A wallet operation is a program over a small key/value store (buckets of
    byte-string keys, here lists of integers).  Programs are terms of a free
    monad whose effects are
      - [Read r]    any read-only query of the store (Get, cursor scans, ...),
      - [Write w c] ONE mutating call (Put, Delete, CreateBucket, ...),
      - [Fail c]    the operation gives up with an error of its own,
      - [Call site p d]  the call of a Go function whose body is [p], made at
                    the call site [site]; WHAT THE CALLER DOES WITH THE ERROR
                    the callee returns is not decided here: it is looked up in
                    a table [site -> disp] (Generated/ErrFlow.v, regenerated
                    from the Go source on every run),
    glued by [Bind].  Because the continuation of [Bind] is a Gallina function,
    the language contains sequences, conditionals on values read from the
    store, bounded loops over lists read from the store ([for_each],
    [fold_prog]) and fuel-bounded recursion - the shapes wtxmgr and waddrmgr
    use.

    Error handling.  [Bind] passes an error on (that is Go's
    `if err != nil { return err }` WHEN THE TABLE SAYS SO): every place where
    the Go code receives an error that may stem from a database write is a
    [Call], and the semantics of [Call] follows the disposition of its site:
      Propagated        the error is returned to the caller's caller;
      DroppedReturn     `if err != nil { return nil }`: the enclosing function
                        returns success at once ([Err Swallowed] travels up to
                        the [Call] that encloses the function body and becomes
                        [Ok] there);
      DroppedContinue   `_ = f()` / `f()` / err overwritten: execution goes on
                        as if the call had succeeded (with the zero value [d]);
      DeferredDrop, LoggedReturn, LoggedContinue, Unknown: as the matching
                        Dropped flavour (Unknown: Continue).
    So a table with a non-propagating site makes the model itself produce the
    bad run - [Ok] after a strict prefix of the writes - and the theorems of
    FaultProofs.v hold for a program exactly under the hypothesis that every
    site it uses is Propagated in the table.

    [run T p s n f]: [T] the table, [s] the store, [n] the number of mutating
    calls made so far in the enclosing transaction, [f = Some k] makes the
    mutating call number [k] (counted from 0) fail with [Injected] without
    touching the store.

    This file holds executable definitions only; proofs are in FaultProofs.v. *)
From stdpp Require Import gmap.
From Coq Require Import ZArith List String.
Import ListNotations.
Local Open Scope Z_scope.

Definition key := list Z.
Definition val := list Z.
Definition bucket := gmap key val.
Definition kv := gmap Z bucket.

Inductive err :=
| Injected          (* the sentinel error of the failed write *)
| OpErr (c : Z)     (* any error the operation or the backend reports itself *)
| Swallowed.        (* internal: "the enclosing function returns nil now" *)

Inductive result (A : Type) :=
| Ok (a : A)
| Err (e : err).
Arguments Ok {A} a.
Arguments Err {A} e.

Definition is_ok {A} (r : result A) : bool :=
  match r with Ok _ => true | Err _ => false end.

(** ** Call sites and their dispositions *)

(** A site is named as the extractor names it:
    "<package>:<function>><callee>" (all calls of <callee> made by <function>
    are one site; its disposition is the worst of them).  The empty name is
    the harness's own call of an API function (propagated by construction). *)
Definition site := string.

Inductive disp :=
| Propagated | DroppedReturn | DroppedContinue | DeferredDrop
| LoggedReturn | LoggedContinue | Unknown.

Inductive action := Propagate | ReturnNil | Continue.

Definition on_err (d : disp) : action :=
  match d with
  | Propagated => Propagate
  | DroppedReturn | LoggedReturn => ReturnNil
  | DroppedContinue | DeferredDrop | LoggedContinue | Unknown => Continue
  end.

Definition propagates (d : disp) : bool :=
  match d with Propagated => true | _ => false end.

Definition table := site -> disp.

(** the table in which every site propagates (the reading DESIGN A.4 started from) *)
Definition all_propagate : table := fun _ => Propagated.

(** Generated/ErrFlow.v lists (site, code); a site that is NOT in the list
    belongs to a function the transcription knows under a name the source no
    longer has (restructured code): it is then judged by the whole-package
    condition [whole] = "no site of the table fails to propagate". *)
Definition disp_of_code (c : N) : disp :=
  match c with
  | 0%N => Propagated
  | 1%N => DroppedReturn
  | 2%N => DroppedContinue
  | 3%N => DeferredDrop
  | 4%N => LoggedReturn
  | 5%N => LoggedContinue
  | _ => Unknown
  end.

Fixpoint assoc_site (s : site) (rows : list (string * N)) : option N :=
  match rows with
  | [] => None
  | (s', c) :: rest => if String.eqb s s' then Some c else assoc_site s rest
  end.

Definition rows_all_propagate (rows : list (string * N)) : bool :=
  forallb (fun r => propagates (disp_of_code (snd r))) rows.

(** the rows as a trie over the characters of the site ids (the ids share
    long prefixes; a lookup walks the id once) - [trie_find s (trie_of rows)]
    is [assoc_site s rows] for rows without duplicate ids, as the generator
    emits them; the evaluation of the correspondence makes some 10^5 lookups *)
Inductive trie := TNode (v : option N) (kids : list (Ascii.ascii * trie)).
Definition trie_empty : trie := TNode None [].
Fixpoint kid_update (c : Ascii.ascii) (f : trie -> trie) (kids : list (Ascii.ascii * trie)) : list (Ascii.ascii * trie) :=
  match kids with
  | [] => [(c, f trie_empty)]
  | (c', t) :: rest => if Ascii.eqb c c' then (c', f t) :: rest else (c', t) :: kid_update c f rest
  end.
Fixpoint trie_insert (s : string) (x : N) (t : trie) : trie :=
  match s, t with
  | EmptyString, TNode (Some y) kids => TNode (Some y) kids          (* the first row wins, as in assoc_site *)
  | EmptyString, TNode None kids => TNode (Some x) kids
  | String c r, TNode v kids => TNode v (kid_update c (trie_insert r x) kids)
  end.
Fixpoint kid_find (c : Ascii.ascii) (kids : list (Ascii.ascii * trie)) : option trie :=
  match kids with
  | [] => None
  | (c', t) :: rest => if Ascii.eqb c c' then Some t else kid_find c rest
  end.
Fixpoint trie_find (s : string) (t : trie) : option N :=
  match s, t with
  | EmptyString, TNode v _ => v
  | String c r, TNode _ kids => match kid_find c kids with Some t' => trie_find r t' | None => None end
  end.
Definition trie_of (rows : list (string * N)) : trie :=
  fold_left (fun t r => trie_insert (fst r) (snd r) t) rows trie_empty.

Definition table_of (rows : list (string * N)) : table :=
  let t := trie_of rows in
  let whole := rows_all_propagate rows in
  fun s =>
  match s with
  | EmptyString => Propagated
  | _ =>
    match trie_find s t with
    | Some c => disp_of_code c
    | None => if whole then Propagated else Unknown
    end
  end.

Definition site_in_rows (rows : list (string * N)) (s : site) : bool :=
  String.eqb s "" || match assoc_site s rows with Some _ => true | None => false end.

Definition sites_ok (T : table) (L : list site) : bool :=
  forallb (fun s => propagates (T s)) L.

Definition mem_site (s : site) (L : list site) : bool := existsb (String.eqb s) L.
Definition incl_sites (L L' : list site) : bool := forallb (fun s => mem_site s L') L.

(** ** The state + error monad of the design note (A.4). *)
Definition M (A : Type) : Type := kv -> nat -> option nat -> result A * kv * nat.

Definition hits (n : nat) (f : option nat) : bool :=
  match f with Some k => Nat.eqb k n | None => false end.

Definition m_ret {A} (a : A) : M A := fun s n _ => (Ok a, s, n).
Definition m_fail {A} (c : Z) : M A := fun s n _ => (Err (OpErr c), s, n).
Definition m_read {A} (r : kv -> A) : M A := fun s n _ => (Ok (r s), s, n).
(** One mutating call: the fault is consulted first; otherwise the backend
    either performs it or refuses with its own error [c]. *)
Definition m_write (w : kv -> option kv) (c : Z) : M unit := fun s n f =>
  if hits n f then (Err Injected, s, S n)
  else match w s with
       | Some s' => (Ok tt, s', S n)
       | None => (Err (OpErr c), s, S n)
       end.
(** [bind] passes errors on. *)
Definition m_bind {A B} (m : M A) (g : A -> M B) : M B := fun s n f =>
  match m s n f with
  | (Ok a, s1, n1) => g a s1 n1 f
  | (Err e, s1, n1) => (Err e, s1, n1)
  end.
(** the error of a call, handled as the caller handles it *)
Definition m_call {A} (d : disp) (m : M A) (dflt : A) : M A := fun s n f =>
  match m s n f with
  | (Ok a, s1, n1) => (Ok a, s1, n1)
  | (Err Swallowed, s1, n1) => (Ok dflt, s1, n1)      (* the callee returned nil early *)
  | (Err e, s1, n1) =>
    match on_err d with
    | Propagate => (Err e, s1, n1)
    | ReturnNil => (Err Swallowed, s1, n1)
    | Continue => (Ok dflt, s1, n1)
    end
  end.

(** The language of operation bodies. *)
Inductive prog : Type -> Type :=
| Ret {A} (a : A) : prog A
| Fail {A} (c : Z) : prog A
| Read {A} (r : kv -> A) : prog A
| Write (w : kv -> option kv) (c : Z) : prog unit
| Bind {A B} (p : prog A) (g : A -> prog B) : prog B
| Call {A} (st : site) (p : prog A) (dflt : A) : prog A.

Fixpoint run (T : table) {A} (p : prog A) : M A :=
  match p with
  | Ret a => m_ret a
  | Fail c => m_fail c
  | Read r => m_read r
  | Write w c => m_write w c
  | Bind p g => m_bind (run T p) (fun a => run T (g a))
  | Call st p d => m_call (T st) (run T p) d
  end.

(** every site the program can reach is in [L] (a fact about the
    transcription alone, independent of any table) *)
Fixpoint uses_only (L : list site) {A} (p : prog A) : Prop :=
  match p with
  | Bind p g => uses_only L p /\ forall a, uses_only L (g a)
  | Call st p _ => mem_site st L = true /\ uses_only L p
  | _ => True
  end.

(** every site the program can reach propagates in [T] *)
Fixpoint sites_propagate (T : table) {A} (p : prog A) : Prop :=
  match p with
  | Bind p g => sites_propagate T p /\ forall a, sites_propagate T (g a)
  | Call st p _ => propagates (T st) = true /\ sites_propagate T p
  | _ => True
  end.

Notation "x <- p ;; q" := (Bind p (fun x => q))
  (at level 65, p at next level, right associativity).
Notation "p ;;; q" := (Bind p (fun _ => q))
  (at level 65, right associativity).

(** a call of a function that returns only an error *)
Definition call (st : site) (p : prog unit) : prog unit := Call st p tt.

(** Bounded loops. *)
Fixpoint for_each {X} (l : list X) (body : X -> prog unit) : prog unit :=
  match l with
  | [] => Ret tt
  | x :: l' => body x ;;; for_each l' body
  end.

Fixpoint fold_prog {X S} (l : list X) (acc : S) (body : S -> X -> prog S) : prog S :=
  match l with
  | [] => Ret acc
  | x :: l' => acc' <- body acc x ;; fold_prog l' acc' body
  end.

(** Number of mutating calls of the fault-free run, and its outcome. *)
Definition clean (T : table) {A} (p : prog A) (s : kv) : result A * kv * nat := run T p s O None.
Definition writes (T : table) {A} (p : prog A) (s : kv) : nat := snd (clean T p s).

(** walletdb.Update around an operation: commit on success, discard the
    working copy on error (that Update itself is all-or-nothing is C11). *)
Definition update (T : table) {A} (p : prog A) (s : kv) (f : option nat) : result A * kv :=
  match run T p s O f with
  | (Ok a, s', _) => (Ok a, s')
  | (Err e, _, _) => (Err e, s)
  end.

(** the fault positions (0-based) at which the run reports success although
    the failing call lies strictly inside the writes of the fault-free run:
    the model's own search for a failing input *)
Definition bad_positions (T : table) {A} (p : prog A) (s : kv) : list nat :=
  filter (fun k => is_ok (fst (fst (run T p s O (Some k))))) (seq 0 (writes T p s)).

(** An operation of a manager with in-memory state [Mem]: the disk part may
    read the memory; the memory effect is a pure function applied after the
    disk part succeeded ("memory-after-disk ordering"). *)
Record op (Mem R : Type) := {
  disk : Mem -> prog R;
  mem_after : R -> Mem -> Mem
}.
Arguments disk {Mem R} o.
Arguments mem_after {Mem R} o.

Definition run_op (T : table) {Mem R} (o : op Mem R) (m : Mem) (s : kv) (f : option nat)
  : result R * Mem * kv :=
  match update T (disk o m) s f with
  | (Ok r, s') => (Ok r, mem_after o r m, s')
  | (Err e, s') => (Err e, m, s')
  end.

(** Several manager calls inside ONE database transaction, as the code is
    written.  Each call has one of three shapes:
      AfterOwnWrites   the memory effect is applied as soon as the call's own
                       disk part succeeded (RenameAccount, SetSyncedTo, ...);
      AtCommit         it is registered with the transaction and applied when
                       the transaction commits (nextAddresses' OnCommit);
      BeforeOwnWrites  it is applied before the call's writes (SetBirthday).
    When a LATER call of the transaction fails, the effects already applied
    stay in memory although the store is rolled back: the known eager-memory
    findings. *)
Inductive shape := AfterOwnWrites | AtCommit | BeforeOwnWrites.

(** [st_disk] answers a list of keys (what it wrote: the memory effect of
    Extend / Next needs it); a BeforeOwnWrites effect cannot depend on it and
    gets []. *)
Record step (Mem : Type) := {
  st_shape : shape;
  st_disk : Mem -> prog (list key);
  st_mem : list key -> Mem -> Mem
}.
Arguments st_shape {Mem} s.
Arguments st_disk {Mem} s.
Arguments st_mem {Mem} s.

Definition mem_before {Mem} (st : step Mem) (m : Mem) : Mem :=
  match st_shape st with BeforeOwnWrites => st_mem st [] m | _ => m end.
Definition mem_done {Mem} (st : step Mem) (r : list key) (m0 : Mem) : Mem :=
  match st_shape st with AfterOwnWrites => st_mem st r m0 | _ => m0 end.

(** the disk side of the whole transaction as ONE program of the language
    (the memory the disk parts read is threaded through as the code does) *)
Fixpoint steps_prog {Mem} (steps : list (step Mem)) (m : Mem) : prog unit :=
  match steps with
  | [] => Ret tt
  | st :: rest =>
    r <- st_disk st (mem_before st m) ;;
    steps_prog rest (mem_done st r (mem_before st m))
  end.

(** the same with the memory made explicit: result, memory, effects pending
    until commit, store, call counter, index of the step that failed *)
Fixpoint run_steps (T : table) {Mem} (steps : list (step Mem)) (idx : nat) (m : Mem)
  (pend : list (Mem -> Mem)) (s : kv) (n : nat) (f : option nat)
  : result unit * Mem * list (Mem -> Mem) * kv * nat * nat :=
  match steps with
  | [] => (Ok tt, m, pend, s, n, idx)
  | st :: rest =>
    let m0 := mem_before st m in
    match run T (st_disk st m0) s n f with
    | (Ok r, s1, n1) =>
      run_steps T rest (S idx) (mem_done st r m0)
                (match st_shape st with AtCommit => pend ++ [st_mem st r] | _ => pend end) s1 n1 f
    | (Err x, s1, n1) => (Err x, m0, pend, s1, n1, idx)
    end
  end.

(** the transaction around the steps; on success the pending effects are
    applied in order; on error the store is rolled back, the memory is not.
    Last component: index of the failing step. *)
Definition update_steps (T : table) {Mem} (steps : list (step Mem)) (m : Mem) (s : kv) (f : option nat)
  : result unit * Mem * kv * nat :=
  match run_steps T steps O m [] s O f with
  | (Ok _, m', pend, s', _, i) => (Ok tt, fold_left (fun a g => g a) pend m', s', i)
  | (Err x, m', _, _, _, i) => (Err x, m', s, i)
  end.

(** ** Store primitives *)

Definition lookup2 (s : kv) (b : Z) (k : key) : option val :=
  match s !! b with Some m => m !! k | None => None end.

Definition bucket_of (s : kv) (b : Z) : bucket := default ∅ (s !! b).

Definition isSome {A} (o : option A) : bool :=
  match o with Some _ => true | None => false end.

(** the whole store as association lists (for comparing stores by computation:
    normalising a gmap term itself is expensive, its entries are not) *)
Definition dump (s : kv) : list (Z * list (key * val)) :=
  map (fun e => (fst e, map_to_list (snd e))) (map_to_list s).

Definition get (b : Z) (k : key) : prog (option val) := Read (fun s => lookup2 s b k).
Definition has_bucket (b : Z) : prog bool := Read (fun s => isSome (s !! b)).
(** all entries of a bucket, ascending key order is not needed by any op below *)
Definition scan (b : Z) : prog (list (key * val)) := Read (fun s => map_to_list (bucket_of s b)).

Definition put (b : Z) (k : key) (v : val) : prog unit :=
  Write (fun s => Some (<[b := <[k := v]> (bucket_of s b)]> s)) 0.
Definition del (b : Z) (k : key) : prog unit :=
  Write (fun s => Some (match s !! b with
                        | Some m => <[b := delete k m]> s
                        | None => s
                        end)) 0.
Definition create_bucket_if_not_exists (b : Z) : prog unit :=
  Write (fun s => Some (match s !! b with Some _ => s | None => <[b := ∅]> s end)) 0.
(** CreateBucket refuses an existing name (ErrBucketExists, code 1). *)
Definition create_bucket (b : Z) : prog unit :=
  Write (fun s => match s !! b with Some _ => None | None => Some (<[b := ∅]> s) end) 1.
Definition delete_bucket (b : Z) : prog unit :=
  Write (fun s => match s !! b with Some _ => Some (delete b s) | None => None end) 2.

(** helpers *)
Definition b2z (b : bool) : Z := if b then 1 else 0.
Fixpoint seqZ_from (start : Z) (len : nat) : list Z :=
  match len with O => [] | S n => start :: seqZ_from (start + 1) n end.
Definition indices {X} (l : list X) : list Z := seqZ_from 0 (List.length l).
Fixpoint indexed_from {X} (i : Z) (l : list X) : list (Z * X) :=
  match l with [] => [] | x :: l' => (i, x) :: indexed_from (i + 1) l' end.
Definition indexed {X} (l : list X) : list (Z * X) := indexed_from 0 l.
Fixpoint insert_desc (x : Z * val) (l : list (Z * val)) : list (Z * val) :=
  match l with
  | [] => [x]
  | y :: l' => if fst y <? fst x then x :: l else y :: insert_desc x l'
  end.
Definition sort_desc (l : list (Z * val)) : list (Z * val) := fold_right insert_desc [] l.
