(** C10 - executable comparison of what the harness observed on the real code
    with the transcribed programs: for a state (the model run of the committed
    history prefix) and an operation probed there,
      - the number of mutating calls of the real clean run = [writes op s],
      - the real clean run reported an error iff the model does,
      - with the k-th call failing the real operation reported an error for
        every k the harness tried (the pattern the theorem gives the model). *)
From stdpp Require Import gmap.
From Coq Require Import ZArith List Bool.
From Verif Require Import Fault.Fault Fault.FaultTx Fault.FaultMgr.
Import ListNotations.
Local Open Scope Z_scope.

(** one probed operation: observed write count, clean run succeeded,
    per fault position (1-based, as the harness counts) "an error was reported" *)
Record observed := {
  o_writes : nat;
  o_clean_ok : bool;
  o_faults : list (nat * bool)
}.

Definition faults_ok (o : observed) : bool :=
  forallb (fun kb => snd kb && Nat.leb 1 (fst kb) && Nat.leb (fst kb) (o_writes o)) (o_faults o).

(** every fault position inside the model's write count makes the model fail
    (this is the theorem; evaluated here on the concrete case as a cross-check
    of the executable definitions) *)
Definition model_faults_ok {A} (p : prog A) (s : kv) (o : observed) : bool :=
  forallb (fun kb => negb (is_ok (fst (fst (run p s O (Some (Nat.pred (fst kb)))))))) (o_faults o).

Definition probe_ok {A} (refusal : Z -> bool) (p : prog A) (s : kv) (o : observed) : bool :=
  let '(r, _, n) := run p s O None in
  Nat.eqb n (o_writes o)
  && Bool.eqb (match r with Ok _ => true | Err (OpErr c) => refusal c | Err Injected => false end) (o_clean_ok o)
  && faults_ok o
  && model_faults_ok p s o.

(** ** transaction store *)
Record tx_case := {
  tc_universe : list (Z * txd);
  tc_prefix : list tx_event;
  tc_probes : list (tx_event * observed)
}.

Definition tx_case_ok (c : tx_case) : bool :=
  let U : universe := list_to_map (tc_universe c) in
  let st := fold_left (tx_step U) (tc_prefix c) (0, tx_store_init) in
  forallb (fun eo => probe_ok tx_refusal (tx_prog U (fst st) (fst eo)) (snd st) (snd eo)) (tc_probes c).

(** ** address manager *)
Record mgr_case := {
  mc_prefix : list (list mgr_op);
  mc_probes : list (list mgr_op * observed)
}.

Definition mgr_case_ok (c : mgr_case) : bool :=
  let s := fold_left mgr_step (mc_prefix c) (mgr_init [0; 1; 2; 3] 0 0) in
  forallb (fun eo => probe_ok (fun _ => false) (mgr_tx (fst eo)) s (snd eo)) (mc_probes c).

Inductive case := TxCase (c : tx_case) | MgrCase (c : mgr_case).

Definition case_ok (c : case) : bool :=
  match c with TxCase c => tx_case_ok c | MgrCase c => mgr_case_ok c end.

Fixpoint mismatches_from (i : nat) (l : list case) : list nat :=
  match l with
  | [] => []
  | c :: l' => if case_ok c then mismatches_from (S i) l' else i :: mismatches_from (S i) l'
  end.
Definition mismatches (l : list case) : list nat := mismatches_from O l.

(** diagnostics for a failing case: model write count and result class per probe *)
Definition tx_case_counts (c : tx_case) : list (nat * bool) :=
  let U : universe := list_to_map (tc_universe c) in
  let st := fold_left (tx_step U) (tc_prefix c) (0, tx_store_init) in
  map (fun eo => let '(r, _, n) := run (tx_prog U (fst st) (fst eo)) (snd st) O None in
                 (n, match r with Ok _ => true | Err (OpErr c) => tx_refusal c | _ => false end))
      (tc_probes c).
Definition mgr_case_counts (c : mgr_case) : list (nat * bool) :=
  let s := fold_left mgr_step (mc_prefix c) (mgr_init [0; 1; 2; 3] 0 0) in
  map (fun eo => let '(r, _, n) := run (mgr_tx (fst eo)) s O None in (n, is_ok r)) (mc_probes c).
Definition case_counts (c : case) : list (nat * bool) :=
  match c with TxCase c => tx_case_counts c | MgrCase c => mgr_case_counts c end.
