(** C10 - executable comparison of what the harness observed on the real code
    with the transcribed programs run under the regenerated table [T].

    For a state (the model run of the committed history prefix) and an
    operation probed there:
      - STATE: the abstract dump of the database file the probes start from is
        the model's store (every row, every bucket);
      - CLEAN RUN: the real clean run reported an error iff the model does, and
        the rows / buckets it added, changed or removed are exactly those of
        the model's clean run (final bucket contents, not the number of writes);
      - WRITE COUNT: equal to [writes op s] - or different, which is accepted
        when every site of the operation propagates in [T] and the
        implementation's own sweep over ALL its fault positions is clean (every
        position reported an error): the theorem then covers the model's
        positions, the sweep the implementation's, and the final state ties
        the two;
      - FAULTS: with equal counts, position by position the real operation
        reported an error iff the model under [T] does (so a site that [T] says
        is dropped must show in the implementation at exactly the positions
        [bad_positions] finds, and nowhere else);
      - MEMORY (address manager): after a failed, rolled-back transaction the
        categories of queries that answer differently are among those the
        model's memory predicts for a fault in that call ([mgr_update]); a
        category the model does not predict is a mismatch.  (Predicted but not
        observed is accepted: the code may update memory later than the model
        says, never earlier.) *)
From stdpp Require Import gmap.
From Coq Require Import ZArith List Bool String.
From Verif Require Import Fault.Fault Fault.FaultTx Fault.FaultMgr.
Import ListNotations.
Local Open Scope Z_scope.

(** one fault position: k (1-based, as the harness counts), "an error was
    reported", index of the call of the transaction during which the fault
    fired, categories of queries that answered differently after the rollback *)
Record fault_obs := {
  fo_k : nat;
  fo_err : bool;
  fo_call : nat;
  fo_cats : list Z
}.

Definition row := (Z * key * val)%type.

Record observed := {
  o_writes : nat;
  o_clean_ok : bool;
  o_faults : list fault_obs;
  o_put : list row;              (* rows the committed clean run added or changed *)
  o_del : list (Z * key);        (* rows it removed *)
  o_new_buckets : list Z;
  o_gone_buckets : list Z
}.

(** ** abstract view of a store (what the harness can decode from the file) *)
Definition proj_val (mgr : bool) (b : Z) (k : key) (v : val) : val :=
  if mgr && (b =? gMain) then (if key_eqb k kWatchOnly then v else []) else v.

Definition rows_of (mgr : bool) (s : kv) : list row :=
  List.concat (map (fun e => map (fun kv => (fst e, fst kv, proj_val mgr (fst e) (fst kv) (snd kv)))
                             (map_to_list (snd e))) (map_to_list s)).
Definition buckets_of (s : kv) : list Z := map fst (map_to_list s).

Definition val_eqb (a b : val) : bool := key_eqb a b.
Definition has_row (mgr : bool) (s : kv) (r : row) : bool :=
  let '(b, k, v) := r in
  match lookup2 s b k with Some v' => val_eqb (proj_val mgr b k v') v | None => false end.
Definition zmem (x : Z) (l : list Z) : bool := existsb (Z.eqb x) l.
Definition same_set (a b : list Z) : bool :=
  Nat.eqb (List.length a) (List.length b) && forallb (fun x => zmem x b) a.

(** the store is exactly the listed rows and buckets *)
Definition state_ok (mgr : bool) (s : kv) (rows : list row) (bs : list Z) : bool :=
  Nat.eqb (List.length (rows_of mgr s)) (List.length rows)
  && forallb (has_row mgr s) rows
  && same_set (buckets_of s) bs.

(** the change from [s] to [s'] is exactly the listed one *)
Definition delta_ok (mgr : bool) (s s' : kv) (o : observed) : bool :=
  let put' := filter (fun r => negb (has_row mgr s r)) (rows_of mgr s') in
  let del' := filter (fun r => let '(b, k, _) := r in negb (isSome (lookup2 s' b k))) (rows_of mgr s) in
  Nat.eqb (List.length put') (List.length (o_put o))
  && forallb (fun r => has_row mgr s' r && negb (has_row mgr s r)) (o_put o)
  && Nat.eqb (List.length del') (List.length (o_del o))
  && forallb (fun bk => isSome (lookup2 s (fst bk) (snd bk)) && negb (isSome (lookup2 s' (fst bk) (snd bk)))) (o_del o)
  && same_set (filter (fun b => negb (zmem b (buckets_of s))) (buckets_of s')) (o_new_buckets o)
  && same_set (filter (fun b => negb (zmem b (buckets_of s'))) (buckets_of s)) (o_gone_buckets o).

(** the implementation's sweep: every position 1..n was tried and reported an error *)
Definition impl_sweep_clean (o : observed) : bool :=
  Nat.eqb (List.length (o_faults o)) (o_writes o)
  && forallb (fun f => fo_err f && Nat.leb 1 (fo_k f) && Nat.leb (fo_k f) (o_writes o)) (o_faults o).

Definition model_err {A} (T : table) (p : prog A) (s : kv) (k : nat) : bool :=
  negb (is_ok (fst (fst (run T p s O (Some (Nat.pred k)))))).

(** [cats_ok k call cats]: are the observed categories explained by the model *)
Definition probe_ok {A} (T : table) (mgr : bool) (refusal : Z -> bool) (sites : list site)
  (p : prog A) (s : kv) (o : observed) (cats_ok : fault_obs -> bool) : bool :=
  let '(r, s1, n) := run T p s O None in
  let clean_ok := match r with Ok _ => true | Err (OpErr c) => refusal c | Err _ => false end in
  let s' := if is_ok r then s1 else s in
  Bool.eqb clean_ok (o_clean_ok o)
  && delta_ok mgr s s' o
  && (if Nat.eqb n (o_writes o)
      then forallb (fun f => Bool.eqb (model_err T p s (fo_k f)) (fo_err f)) (o_faults o)
      else sites_ok T sites && impl_sweep_clean o
           && forallb (fun k => model_err T p s (S k)) (seq 0 n))
  && forallb cats_ok (o_faults o).

(** ** transaction store *)
Record tx_case := {
  tc_universe : list (Z * txd);
  tc_fresh : bool;                   (* the file only holds the empty namespace bucket *)
  tc_prefix : list tx_event;
  tc_state : list row;
  tc_buckets : list Z;
  tc_probes : list (tx_event * observed)
}.

Definition tx_state (T : table) (c : tx_case) : Z * kv :=
  let U : universe := list_to_map (tc_universe c) in
  fold_left (tx_step T U) (tc_prefix c) (0, if tc_fresh c then tx_fresh else tx_store_init).

Definition no_cats (f : fault_obs) : bool := match fo_cats f with [] => true | _ => false end.

Definition tx_case_ok (T : table) (c : tx_case) : bool :=
  let U : universe := list_to_map (tc_universe c) in
  let st := tx_state T c in
  state_ok false (snd st) (tc_state c) (tc_buckets c)
  && forallb (fun eo => probe_ok T false tx_refusal (tx_sites (fst eo)) (tx_prog U (fst st) (fst eo))
                                 (snd st) (snd eo) no_cats) (tc_probes c).

(** ** address manager *)
Record mgr_case := {
  mc_fresh : bool;
  mc_locked : bool;                  (* the probes run on a locked manager *)
  mc_prefix : list (list mgr_op);
  mc_state : list row;
  mc_buckets : list Z;
  mc_probes : list (list mgr_op * observed)
}.

Definition mgr_state (T : table) (c : mgr_case) : kv :=
  fold_left (mgr_commit T) (mc_prefix c) (if mc_fresh c then mgr_fresh else mgr_init).

(** the memory a fault during call number [j] of the transaction leaves behind:
    the effects of the calls completed before it (fault-free run of those), and
    the failing call's own effect when the code applies it before its writes *)
Definition leaked_mem (T : table) (ops : list mgr_op) (m : mem) (s : kv) (j : nat) : mem :=
  match run_steps T (map mgr_step_of (firstn j ops)) O m [] s O None with
  | (_, mj, _, _, _, _) =>
    match nth_error ops j with
    | Some o => mem_before (mgr_step_of o) mj
    | None => mj
    end
  end.

Definition mgr_cats_ok (T : table) (ops : list mgr_op) (m : mem) (s : kv) (f : fault_obs) : bool :=
  if fo_err f
  then let predicted := mem_cats m (leaked_mem T ops m s (fo_call f)) in
       forallb (fun c => zmem c predicted) (fo_cats f)
  else true.

Definition mgr_case_ok (T : table) (c : mgr_case) : bool :=
  let s := mgr_state T c in
  let m := mem0 (mc_locked c) in
  state_ok true s (mc_state c) (mc_buckets c)
  && forallb (fun eo => probe_ok T true (fun _ => false) (mgr_tx_sites (fst eo)) (mgr_tx (fst eo) m) s (snd eo)
                                 (mgr_cats_ok T (fst eo) m s)) (mc_probes c).

Inductive case := TxCase (c : tx_case) | MgrCase (c : mgr_case).

Definition case_ok (T : table) (c : case) : bool :=
  match c with TxCase c => tx_case_ok T c | MgrCase c => mgr_case_ok T c end.

Fixpoint mismatches_from (T : table) (i : nat) (l : list case) : list nat :=
  match l with
  | [] => []
  | c :: l' => if case_ok T c then mismatches_from T (S i) l' else i :: mismatches_from T (S i) l'
  end.
Definition mismatches (T : table) (l : list case) : list nat := mismatches_from T O l.

(** ** the model's own search: (case, probe, fault position counted from 1) at
    which the model under [T] reports success inside the writes *)
Definition case_bad (T : table) (c : case) : list (nat * nat) :=
  match c with
  | TxCase c =>
    let U : universe := list_to_map (tc_universe c) in
    let st := tx_state T c in
    List.concat (map (fun ieo => map (fun k => (fst ieo, S k))
                                 (bad_positions T (tx_prog U (fst st) (fst (snd ieo))) (snd st)))
                     (combine (seq 0 (List.length (tc_probes c))) (tc_probes c)))
  | MgrCase c =>
    let s := mgr_state T c in
    List.concat (map (fun ieo => map (fun k => (fst ieo, S k))
                                 (bad_positions T (mgr_tx (fst (snd ieo)) (mem0 (mc_locked c))) s))
                     (combine (seq 0 (List.length (mc_probes c))) (mc_probes c)))
  end.
Definition predicted (T : table) (l : list case) : list (nat * nat * nat) :=
  List.concat (map (fun ic => map (fun pk => (fst ic, fst pk, snd pk)) (case_bad T (snd ic)))
                   (combine (seq 0 (List.length l)) l)).

(** ** diagnostics for a failing case: per probe that fails (index, model
    write count, clean result class of the model, clean result agrees, delta
    agrees, fault pattern agrees, memory categories explained, rows the model
    adds/changes) *)
Definition probe_diag {A} (T : table) (mgr : bool) (refusal : Z -> bool) (sites : list site)
  (p : prog A) (s : kv) (o : observed) (cats_ok : fault_obs -> bool)
  : nat * bool * bool * bool * bool * bool * list row :=
  let '(r, s1, n) := run T p s O None in
  let s' := if is_ok r then s1 else s in
  let clean_ok := match r with Ok _ => true | Err (OpErr c) => refusal c | Err _ => false end in
  (n, clean_ok, Bool.eqb clean_ok (o_clean_ok o), delta_ok mgr s s' o,
   (if Nat.eqb n (o_writes o)
    then forallb (fun f => Bool.eqb (model_err T p s (fo_k f)) (fo_err f)) (o_faults o)
    else sites_ok T sites && impl_sweep_clean o && forallb (fun k => model_err T p s (S k)) (seq 0 n)),
   forallb cats_ok (o_faults o),
   filter (fun r => negb (has_row mgr s r)) (rows_of mgr s')).

Definition failing_probes {X} (ok : X -> bool) (l : list X) : list (nat * X) :=
  filter (fun ix => negb (ok (snd ix))) (combine (seq 0 (List.length l)) l).

Definition case_diag (T : table) (c : case) : bool * list (nat * (nat * bool * bool * bool * bool * bool * list row)) :=
  match c with
  | TxCase c =>
    let U : universe := list_to_map (tc_universe c) in
    let st := tx_state T c in
    (state_ok false (snd st) (tc_state c) (tc_buckets c),
     map (fun ieo => (fst ieo, probe_diag T false tx_refusal (tx_sites (fst (snd ieo)))
                                          (tx_prog U (fst st) (fst (snd ieo))) (snd st) (snd (snd ieo)) no_cats))
         (failing_probes (fun eo => probe_ok T false tx_refusal (tx_sites (fst eo)) (tx_prog U (fst st) (fst eo))
                                             (snd st) (snd eo) no_cats) (tc_probes c)))
  | MgrCase c =>
    let s := mgr_state T c in
    let m := mem0 (mc_locked c) in
    (state_ok true s (mc_state c) (mc_buckets c),
     map (fun ieo => (fst ieo, probe_diag T true (fun _ => false) (mgr_tx_sites (fst (snd ieo)))
                                          (mgr_tx (fst (snd ieo)) m) s (snd (snd ieo))
                                          (mgr_cats_ok T (fst (snd ieo)) m s)))
         (failing_probes (fun eo => probe_ok T true (fun _ => false) (mgr_tx_sites (fst eo)) (mgr_tx (fst eo) m) s (snd eo)
                                             (mgr_cats_ok T (fst eo) m s)) (mc_probes c)))
  end.

(** rows of the model state that the listed rows lack, and listed rows the
    model lacks (for a state mismatch) *)
Definition state_diff (mgr : bool) (s : kv) (rows : list row) : list row * list row :=
  (filter (fun r => negb (existsb (fun r' => let '(b, k, v) := r in let '(b', k', v') := r' in
                                             (b =? b') && key_eqb k k' && key_eqb v v') rows)) (rows_of mgr s),
   filter (fun r => negb (has_row mgr s r)) rows).
Definition case_state_diff (T : table) (c : case) : list row * list row :=
  match c with
  | TxCase c => state_diff false (snd (tx_state T c)) (tc_state c)
  | MgrCase c => state_diff true (mgr_state T c) (mc_state c)
  end.

(** ** per kind of operation: do all its sites propagate, and does the source
    have the memory shape the model gives it *)
Definition kinds_failing (T : table) : list string :=
  map fst (filter (fun ke => negb (sites_ok T (tx_sites (snd ke)))) tx_kinds) ++
  map fst (filter (fun ko => negb (sites_ok T (mgr_sites (snd ko)))) mgr_kinds).

Fixpoint assoc_shape (f : string) (rows : list (string * N)) : option N :=
  match rows with
  | [] => None
  | (f', c) :: rest => if String.eqb f f' then Some c else assoc_shape f rest
  end.
Definition shape_ok (shapes : list (string * N)) (o : mgr_op) : bool :=
  match assoc_shape (mgr_api o) shapes with
  | Some c => shape_admits (mgr_shape o) c
  | None => false
  end.
Definition shapes_failing (shapes : list (string * N)) : list string :=
  map fst (filter (fun ko => negb (shape_ok shapes (snd ko))) mgr_kinds).
Definition sites_not_in_table (rows : list (string * N)) : list site :=
  filter (fun s => negb (site_in_rows rows s))
         (List.concat (map (fun ke => tx_sites (snd ke)) tx_kinds) ++
          List.concat (map (fun ko => mgr_sites (snd ko)) mgr_kinds)).

(** (case, probe, model write count, observed write count) where the two
    differ (accepted under the conditions of [probe_ok]; reported in the evidence) *)
Definition case_count_diffs (T : table) (c : case) : list (nat * nat * nat) :=
  match c with
  | TxCase c =>
    let U : universe := list_to_map (tc_universe c) in
    let st := tx_state T c in
    List.concat (map (fun ieo => let n := writes T (tx_prog U (fst st) (fst (snd ieo))) (snd st) in
                                 if Nat.eqb n (o_writes (snd (snd ieo))) then [] else [(fst ieo, n, o_writes (snd (snd ieo)))])
                     (combine (seq 0 (List.length (tc_probes c))) (tc_probes c)))
  | MgrCase c =>
    let s := mgr_state T c in
    List.concat (map (fun ieo => let n := writes T (mgr_tx (fst (snd ieo)) (mem0 (mc_locked c))) s in
                                 if Nat.eqb n (o_writes (snd (snd ieo))) then [] else [(fst ieo, n, o_writes (snd (snd ieo)))])
                     (combine (seq 0 (List.length (mc_probes c))) (mc_probes c)))
  end.
Definition count_diffs (T : table) (l : list case) : list (nat * (nat * nat * nat)) :=
  List.concat (map (fun ic => map (fun d => (fst ic, d)) (case_count_diffs T (snd ic)))
                   (combine (seq 0 (List.length l)) l)).
