(** C10 - the transcribed operations reach only the call sites listed for
    them ([tx_sites], [mgr_sites]).  These are facts about the transcription
    alone (no table is involved): together with [sites_ok T (.._sites o) =
    true], which Properties/C10.v decides on the regenerated table, they give
    the hypothesis [sites_propagate T (.._prog o)] of every theorem of
    FaultProofs.v. *)
From stdpp Require Import gmap.
From Coq Require Import ZArith List String.
From Verif Require Import Fault.Fault Fault.FaultProofs Fault.FaultTx Fault.FaultMgr.
Import ListNotations.

(** one structural step *)
Ltac uo_step :=
  match goal with
  | |- uses_only _ (Ret _) => exact I
  | |- uses_only _ (Fail _) => exact I
  | |- uses_only _ (Read _) => exact I
  | |- uses_only _ (Write _ _) => exact I
  | |- uses_only _ (get _ _) => exact I
  | |- uses_only _ (put _ _ _) => exact I
  | |- uses_only _ (del _ _) => exact I
  | |- uses_only _ (has_bucket _) => exact I
  | |- uses_only _ (create_bucket _) => exact I
  | |- uses_only _ (create_bucket_if_not_exists _) => exact I
  | |- uses_only _ (Bind _ _) => split; [|intros]
  | |- uses_only _ (Call _ _ _) => split; [reflexivity|]
  | |- uses_only _ (call _ _) => split; [reflexivity|]
  | |- uses_only _ (for_each _ _) => apply uses_only_for_each; intros
  | |- uses_only _ (fold_prog _ _ _) => apply uses_only_fold_prog; intros
  | |- uses_only _ (match ?x with _ => _ end) => destruct x
  | |- uses_only _ (if ?x then _ else _) => destruct x
  | |- uses_only _ (let '(_, _) := ?x in _) => destruct x
  end.

Ltac uo := repeat first [ uo_step | progress autounfold with c10 ].

Lemma uses_only_incl : forall L L' A (p : prog A),
  incl_sites L L' = true -> uses_only L p -> uses_only L' p.
Proof. intros. eapply uses_only_mono; eauto. Qed.

(** ** wtxmgr *)

#[global] Hint Unfold put_mined_balance put_raw_block_record put_block_record delete_block_record
  put_tx_record delete_tx_record put_raw_credit put_unspent_credit spend_credit unspend_raw_credit
  delete_raw_credit put_unspent put_raw_unspent delete_raw_unspent put_debit delete_raw_debit
  put_raw_unmined delete_raw_unmined put_raw_unmined_credit delete_raw_unmined_credit
  put_raw_unmined_input delete_raw_unmined_input lock_output_db unlock_output insert_mempool
  remove_double_spends add_credit_inner add_credit delete_unmined_tx update_mined_balance insert_mined
  insert_tx_check insert_tx relevant_tx redeliver_tx rollback_tx rollback_inner rollback remove_unmined_tx
  lock_output release_output sweep_expired put_tx_label_db put_tx_label create_buckets put_version
  create_store create get_balance latest_tx_record tx_known is_known_output locked_by ns_empty
  : c10.

Lemma uo_remove_conflict : forall L U fuel r,
  incl_sites S_remove_conflict L = true -> uses_only L (remove_conflict U fuel r).
Proof.
  intros L U fuel r Hi. apply (uses_only_incl S_remove_conflict); [exact Hi|]. clear Hi.
  revert r. induction fuel as [|fuel IH]; intros r; simpl.
  - exact I.
  - destruct (U !! r) as [d|]; [|exact I]. uo. apply IH.
Qed.

Ltac uo_rc := apply uo_remove_conflict; reflexivity.
Ltac uo_tx := repeat first [ progress cbn [blk_of] | uo_step | uo_rc | progress autounfold with c10 ].

Theorem tx_prog_uses_only : forall U now e, uses_only (tx_sites e) (tx_prog U now e).
Proof.
  intros U now e. destruct e; unfold tx_prog.
  - (* seen *) unfold relevant_tx. destruct (U !! t); [|exact I]. uo_tx.
  - unfold relevant_tx. destruct (U !! t); [|exact I]. uo_tx.
  - unfold redeliver_tx. destruct (U !! t); [|exact I].
    destruct (Z.ltb h 0); uo_tx.
  - uo_tx.
  - uo_tx.
  - uo_tx.
  - uo_tx.
  - uo_tx.
  - exact I.
  - uo_tx.
  - uo_tx.
Qed.

(** ** waddrmgr *)

#[global] Hint Unfold put_account_row put_account_id_index put_account_name_index delete_account_id_index
  delete_account_name_index put_account_info put_default_account_info put_watchonly_account_info
  put_last_account put_addr_account_index put_address put_chained_address put_imported_address
  put_script_address put_witness_script_address mark_address_used put_start_block put_birthday
  put_birthday_block put_birthday_block_verification add_block_hash delete_block_hash update_synced_to
  put_synced_to opt_put put_master_key_params put_crypto_keys put_master_hd_keys put_coin_type_keys
  put_watching_only put_manager_version create_scoped_manager_ns create_manager_key_scope
  create_manager_ns strip_account strip_address strip_scope delete_private_keys scope_exists
  fetch_last_account new_scope new_account_inner new_account new_account_wo_inner new_account_wo
  rename_account new_raw_account_wo next_index next_addresses_inner next_addresses extend_range extend_addresses_inner
  extend_addresses mark_used import_public_key import_script_address import_address set_synced_to
  set_birthday_block set_birthday change_passphrase convert_to_watching_only create_manager scan
  : c10.

Ltac uo_mgr := repeat first [ uo_step | progress autounfold with c10 ].

Theorem mgr_disk_uses_only : forall o m, uses_only (mgr_sites o) (mgr_disk o m).
Proof.
  intros o m. destruct o; unfold mgr_disk.
  - uo_mgr.
  - uo_mgr.
  - uo_mgr.
  - uo_mgr.
  - uo_mgr.
  - unfold mgr_sites, next_addresses. destruct (Z.eqb branch 1); uo_mgr.
  - unfold mgr_sites, extend_addresses. destruct (Z.eqb branch 1); uo_mgr.
  - uo_mgr.
  - unfold mgr_sites, import_address.
    destruct (Z.eqb kind 0) eqn:E0; [uo_mgr|].
    destruct (Z.eqb kind 2) eqn:E2; [destruct (Z.eqb kind 1); uo_mgr|].
    destruct (Z.eqb kind 1) eqn:E1; [uo_mgr|].
    destruct (Z.eqb kind 3) eqn:E3; uo_mgr.
  - uo_mgr.
  - uo_mgr.
  - uo_mgr.
  - uo_mgr.
  - uo_mgr.
  - uo_mgr.
Qed.

Lemma mem_site_app_l s L L' : mem_site s L = true -> mem_site s (L ++ L') = true.
Proof.
  unfold mem_site. intros H. apply existsb_exists in H. destruct H as [x [Hin Heq]].
  apply existsb_exists. exists x. split; [apply in_or_app; left; exact Hin|exact Heq].
Qed.
Lemma mem_site_app_r s L L' : mem_site s L' = true -> mem_site s (L ++ L') = true.
Proof.
  unfold mem_site. intros H. apply existsb_exists in H. destruct H as [x [Hin Heq]].
  apply existsb_exists. exists x. split; [apply in_or_app; right; exact Hin|exact Heq].
Qed.

Lemma uses_only_app_l : forall L L' A (p : prog A), uses_only L p -> uses_only (L ++ L') p.
Proof.
  intros L L' A p. induction p as [A a|A c|A r|w c|A B p IHp g IHg|A st p IHp d]; simpl; auto.
  - intros [Hp Hg]. split; auto.
  - intros [Hm Hp]. split; [apply mem_site_app_l; exact Hm|auto].
Qed.
Lemma uses_only_app_r : forall L L' A (p : prog A), uses_only L' p -> uses_only (L ++ L') p.
Proof.
  intros L L' A p. induction p as [A a|A c|A r|w c|A B p IHp g IHg|A st p IHp d]; simpl; auto.
  - intros [Hp Hg]. split; auto.
  - intros [Hm Hp]. split; [apply mem_site_app_r; exact Hm|auto].
Qed.

Lemma mgr_tx_cons o rest m :
  mgr_tx (o :: rest) m =
  (r <- mgr_disk o (mem_before (mgr_step_of o) m) ;;
   mgr_tx rest (mem_done (mgr_step_of o) r (mem_before (mgr_step_of o) m))).
Proof. reflexivity. Qed.
Lemma mgr_tx_sites_cons o rest : mgr_tx_sites (o :: rest) = mgr_sites o ++ mgr_tx_sites rest.
Proof. reflexivity. Qed.

Theorem mgr_tx_uses_only : forall ops m, uses_only (mgr_tx_sites ops) (mgr_tx ops m).
Proof.
  induction ops as [|o rest IH]; intros m.
  - exact I.
  - rewrite mgr_tx_cons, mgr_tx_sites_cons. split.
    + apply uses_only_app_l. apply mgr_disk_uses_only.
    + intros r. apply uses_only_app_r. apply IH.
Qed.

(** ** From a table to the hypothesis of the theorems *)
Theorem tx_sites_propagate : forall T U now e,
  sites_ok T (tx_sites e) = true -> sites_propagate T (tx_prog U now e).
Proof. intros. eapply uses_only_sites_propagate; [apply tx_prog_uses_only|assumption]. Qed.

Theorem mgr_tx_sites_propagate : forall T ops m,
  sites_ok T (mgr_tx_sites ops) = true -> sites_propagate T (mgr_tx ops m).
Proof. intros. eapply uses_only_sites_propagate; [apply mgr_tx_uses_only|assumption]. Qed.

Theorem mgr_disk_sites_propagate : forall T o m,
  sites_ok T (mgr_sites o) = true -> sites_propagate T (mgr_disk o m).
Proof. intros. eapply uses_only_sites_propagate; [apply mgr_disk_uses_only|assumption]. Qed.

(** the site list of an operation depends on its kind only: deciding it for
    the representatives decides it for every operation *)
Lemma sites_ok_app T L L' : sites_ok T (L ++ L') = sites_ok T L && sites_ok T L'.
Proof. unfold sites_ok. apply forallb_app. Qed.

Ltac in_kinds := unfold tx_kinds, mgr_kinds; repeat first [ left; reflexivity | right ].

Lemma sites_ok_head T s L : sites_ok T (s :: L) = true -> sites_ok T [s] = true.
Proof. unfold sites_ok. simpl. intros H. apply andb_prop in H. destruct H as [-> _]. reflexivity. Qed.

Theorem tx_sites_by_kind : forall T,
  forallb (fun ke => sites_ok T (tx_sites (snd ke))) tx_kinds = true ->
  forall e, sites_ok T (tx_sites e) = true.
Proof.
  intros T H e. rewrite forallb_forall in H.
  assert (K : forall ke, In ke tx_kinds -> sites_ok T (tx_sites (snd ke)) = true) by exact H.
  destruct e.
  - exact (K (_, EvSeen 0) ltac:(in_kinds)).
  - exact (K (_, EvConfirm 0 0 0 0) ltac:(in_kinds)).
  - exact (K (_, EvRedeliver 0 0 0 0) ltac:(in_kinds)).
  - exact (K (_, EvDisconnect 0) ltac:(in_kinds)).
  - exact (K (_, EvAbandon 0) ltac:(in_kinds)).
  - exact (K (_, EvLease 0 0 0 0) ltac:(in_kinds)).
  - exact (K (_, EvRelease 0 0 0) ltac:(in_kinds)).
  - exact (K (_, EvSweep) ltac:(in_kinds)).
  - exact (sites_ok_head _ _ _ (K (_, EvSweep) ltac:(in_kinds))).
  - exact (K (_, EvLabel 0 0) ltac:(in_kinds)).
  - exact (K (_, EvCreate) ltac:(in_kinds)).
Qed.

Theorem mgr_sites_by_kind : forall T,
  forallb (fun ko => sites_ok T (mgr_sites (snd ko))) mgr_kinds = true ->
  forall o, sites_ok T (mgr_sites o) = true.
Proof.
  intros T H o. rewrite forallb_forall in H.
  assert (K : forall ko, In ko mgr_kinds -> sites_ok T (mgr_sites (snd ko)) = true) by exact H.
  destruct o.
  - exact (K (_, MNewScope 0) ltac:(in_kinds)).
  - exact (K (_, MNewAccount 0 0) ltac:(in_kinds)).
  - exact (K (_, MNewAccountWO 0 0) ltac:(in_kinds)).
  - exact (K (_, MNewRawAccountWO 0 0) ltac:(in_kinds)).
  - exact (K (_, MRename 0 0 0) ltac:(in_kinds)).
  - unfold mgr_sites. destruct (Z.eqb branch 1).
    + exact (K (_, MNext 0 0 1 1) ltac:(in_kinds)).
    + exact (K (_, MNext 0 0 0 1) ltac:(in_kinds)).
  - unfold mgr_sites. destruct (Z.eqb branch 1).
    + exact (K (_, MExtend 0 0 1 0) ltac:(in_kinds)).
    + exact (K (_, MExtend 0 0 0 0) ltac:(in_kinds)).
  - exact (K (_, MMarkUsed []) ltac:(in_kinds)).
  - unfold mgr_sites.
    destruct (Z.eqb kind 0); [exact (K (_, MImport 0 0 0 0 true) ltac:(in_kinds))|].
    destruct (Z.eqb kind 2); [exact (K (_, MImport 0 2 0 0 false) ltac:(in_kinds))|].
    destruct (Z.eqb kind 1); [exact (K (_, MImport 0 1 0 0 true) ltac:(in_kinds))|].
    destruct (Z.eqb kind 3); [exact (K (_, MImport 0 3 0 0 true) ltac:(in_kinds))|].
    exact (K (_, MImport 0 4 0 0 true) ltac:(in_kinds)).
  - exact (K (_, MSetSyncedTo 0 0) ltac:(in_kinds)).
  - exact (K (_, MSetBirthdayBlock 0 0 true) ltac:(in_kinds)).
  - exact (K (_, MSetBirthday 0) ltac:(in_kinds)).
  - exact (K (_, MChangePassphrase true 0 0) ltac:(in_kinds)).
  - exact (K (_, MConvertWO) ltac:(in_kinds)).
  - exact (K (_, MCreate false) ltac:(in_kinds)).
Qed.

Theorem mgr_tx_sites_by_kind : forall T,
  forallb (fun ko => sites_ok T (mgr_sites (snd ko))) mgr_kinds = true ->
  forall ops, sites_ok T (mgr_tx_sites ops) = true.
Proof.
  intros T H ops. induction ops as [|o rest IH]; [reflexivity|].
  rewrite mgr_tx_sites_cons, sites_ok_app, IH, (mgr_sites_by_kind T H o). reflexivity.
Qed.
