(** C10 - proofs about the fault-injection monad (all programs of the
    language, all stores, all fault positions). *)
From stdpp Require Import gmap.
From Coq Require Import ZArith List Lia.
From Verif Require Import Fault.Fault.
Import ListNotations.

(** The call counter never decreases. *)
Lemma run_counter_mono : forall A (p : prog A) s n f, n <= snd (run p s n f).
Proof.
  induction p as [A a|A c|A r|w c|A B p IHp g IHg]; intros s n f; simpl.
  - unfold m_ret; simpl; lia.
  - unfold m_fail; simpl; lia.
  - unfold m_read; simpl; lia.
  - unfold m_write. destruct (hits n f); [simpl; lia|].
    destruct (w s); simpl; lia.
  - unfold m_bind. destruct (run p s n f) as [[r s1] n1] eqn:E.
    pose proof (IHp s n f) as Hp. rewrite E in Hp. simpl in Hp.
    destruct r as [a|e]; simpl; [|lia].
    pose proof (IHg a s1 n1 f) as Hg. lia.
Qed.

Lemma hits_none n : hits n None = false.
Proof. reflexivity. Qed.

Lemma hits_some n k : hits n (Some k) = Nat.eqb k n.
Proof. reflexivity. Qed.

(** The central statement.  Let [n0] be the value of the call counter after
    the fault-free run started at counter [n].
    - a fault index outside [n, n0) is invisible: same result, same store,
      same counter;
    - a fault index inside [n, n0) makes the run end with [Err Injected] right
      after call number [k]. *)
Theorem run_fault_spec : forall A (p : prog A) s n k,
  (k < n \/ snd (run p s n None) <= k -> run p s n (Some k) = run p s n None) /\
  (n <= k < snd (run p s n None) -> exists s', run p s n (Some k) = (Err Injected, s', S k)).
Proof.
  induction p as [A a|A c|A r|w c|A B p IHp g IHg]; intros s n k; simpl.
  - unfold m_ret; simpl. split; [reflexivity|lia].
  - unfold m_fail; simpl. split; [reflexivity|lia].
  - unfold m_read; simpl. split; [reflexivity|lia].
  - unfold m_write. rewrite hits_none, hits_some.
    assert (Hn : snd (match w s with
                      | Some s' => (@Ok unit tt, s', S n)
                      | None => (Err (OpErr c), s, S n)
                      end) = S n) by (destruct (w s); reflexivity).
    rewrite Hn. split.
    + intros Hk. destruct (Nat.eqb_spec k n) as [->|Hne]; [lia|reflexivity].
    + intros Hk. assert (k = n) as -> by lia. rewrite Nat.eqb_refl. eauto.
  - unfold m_bind.
    destruct (run p s n None) as [[r0 s0] n0] eqn:E0.
    pose proof (run_counter_mono _ p s n None) as Hm0. rewrite E0 in Hm0. simpl in Hm0.
    destruct (IHp s n k) as [IHp1 IHp2]. rewrite E0 in IHp1, IHp2. simpl in IHp1, IHp2.
    destruct r0 as [a|e].
    + (* the first part succeeds in the fault-free run *)
      pose proof (run_counter_mono _ (g a) s0 n0 None) as Hm1.
      destruct (IHg a s0 n0 k) as [IHg1 IHg2].
      split.
      * intros Hk. rewrite IHp1 by lia. apply IHg1. lia.
      * intros Hk. destruct (Nat.lt_ge_cases k n0) as [Hlt|Hge].
        -- destruct IHp2 as [s' Hs']; [lia|]. rewrite Hs'. eauto.
        -- rewrite IHp1 by lia. apply IHg2. lia.
    + (* the first part fails by itself *)
      simpl. split.
      * intros Hk. rewrite IHp1 by lia. reflexivity.
      * intros Hk. destruct IHp2 as [s' Hs']; [lia|]. rewrite Hs'. eauto.
Qed.

(** ** Corollaries in the form of the property *)

(** error, or: the fault lies beyond the last write and nothing differs from
    the fault-free run - never [Ok] after a strict prefix of the writes. *)
Theorem fault_error_or_full_effect : forall A (p : prog A) s k,
  match run p s O (Some k) with
  | (Ok r, s', n) => writes p s <= k /\ (Ok r, s', n) = run p s O None
  | (Err _, _, _) => True
  end.
Proof.
  intros A p s k.
  destruct (run_fault_spec A p s O k) as [H1 H2].
  destruct (Nat.lt_ge_cases k (writes p s)) as [Hlt|Hge].
  - destruct H2 as [s' Hs']; [unfold writes, clean in Hlt; lia|]. rewrite Hs'. exact I.
  - rewrite H1 by (right; exact Hge).
    destruct (run p s O None) as [[r s'] n] eqn:E. destruct r; [|exact I].
    split; [exact Hge|reflexivity].
Qed.

Theorem fault_within_writes_is_reported : forall A (p : prog A) s k,
  k < writes p s -> exists s', run p s O (Some k) = (Err Injected, s', S k).
Proof.
  intros A p s k Hk. apply (proj2 (run_fault_spec A p s O k)).
  unfold writes, clean in Hk. lia.
Qed.

Theorem fault_beyond_writes_is_invisible : forall A (p : prog A) s k,
  writes p s <= k -> run p s O (Some k) = run p s O None.
Proof.
  intros A p s k Hk. apply (proj1 (run_fault_spec A p s O k)). right. exact Hk.
Qed.

(** A successful faulty run made exactly the writes of the fault-free run:
    same store. *)
Theorem ok_means_all_writes_applied : forall A (p : prog A) s k r s' n,
  run p s O (Some k) = (Ok r, s', n) ->
  run p s O None = (Ok r, s', n) /\ n = writes p s.
Proof.
  intros A p s k r s' n H.
  pose proof (fault_error_or_full_effect A p s k) as Hs. rewrite H in Hs.
  destruct Hs as [_ Heq]. split; [symmetry; exact Heq|].
  unfold writes, clean. rewrite <- Heq. reflexivity.
Qed.

(** ** Transactions *)

Theorem rollback_restores : forall A (p : prog A) s f e s',
  update p s f = (Err e, s') -> s' = s.
Proof.
  intros A p s f e s'. unfold update.
  destruct (run p s O f) as [[r s1] n1]. destruct r; intros H; inversion H; reflexivity.
Qed.

Theorem update_error_or_full_effect : forall A (p : prog A) s k,
  match update p s (Some k) with
  | (Ok r, s') => writes p s <= k /\ (Ok r, s') = update p s None
  | (Err _, s') => s' = s
  end.
Proof.
  intros A p s k. unfold update.
  pose proof (fault_error_or_full_effect A p s k) as H.
  destruct (run p s O (Some k)) as [[r s1] n1]. destruct r as [a|e]; [|reflexivity].
  destruct H as [Hk Heq]. split; [exact Hk|]. rewrite <- Heq. reflexivity.
Qed.

(** After a faulty attempt (rolled back when it failed), running the
    operation again without fault gives what a run without the fault would
    have given. *)
Theorem retry_equals_clean_run : forall A (p : prog A) s k,
  match update p s (Some k) with
  | (Err _, s1) => update p s1 None = update p s None
  | (Ok r, s1) => (Ok r, s1) = update p s None
  end.
Proof.
  intros A p s k.
  pose proof (update_error_or_full_effect A p s k) as H.
  destruct (update p s (Some k)) as [r s1]. destruct r as [a|e].
  - exact (proj2 H).
  - rewrite H. reflexivity.
Qed.

(** ** Operations with memory (memory-after-disk ordering) *)

Theorem op_error_restores_memory_and_store : forall Mem R (o : op Mem R) m s f e m' s',
  run_op o m s f = (Err e, m', s') -> m' = m /\ s' = s.
Proof.
  intros Mem R o m s f e m' s'. unfold run_op.
  destruct (update (disk o m) s f) as [r s1] eqn:E. destruct r as [a|x]; intros H; inversion H; subst.
  split; [reflexivity|]. exact (rollback_restores _ _ _ _ _ _ E).
Qed.

Theorem op_error_or_full_effect : forall Mem R (o : op Mem R) m s k,
  match run_op o m s (Some k) with
  | (Ok r, m', s') => writes (disk o m) s <= k /\ (Ok r, m', s') = run_op o m s None
  | (Err _, m', s') => m' = m /\ s' = s
  end.
Proof.
  intros Mem R o m s k. unfold run_op.
  pose proof (update_error_or_full_effect _ (disk o m) s k) as H.
  destruct (update (disk o m) s (Some k)) as [r s1]. destruct r as [a|e].
  - destruct H as [Hk Heq]. split; [exact Hk|]. rewrite <- Heq. reflexivity.
  - split; [reflexivity|exact H].
Qed.

Theorem op_retry_equals_clean_run : forall Mem R (o : op Mem R) m s k,
  match run_op o m s (Some k) with
  | (Err _, m1, s1) => run_op o m1 s1 None = run_op o m s None
  | (Ok r, m1, s1) => (Ok r, m1, s1) = run_op o m s None
  end.
Proof.
  intros Mem R o m s k.
  pose proof (op_error_or_full_effect Mem R o m s k) as H.
  destruct (run_op o m s (Some k)) as [[r m1] s1]. destruct r as [a|e].
  - exact (proj2 H).
  - destruct H as [-> ->]. reflexivity.
Qed.

(** ** Loops: how [writes] decomposes (used to read off write counts) *)

Lemma run_bind : forall A B (p : prog A) (g : A -> prog B) s n f,
  run (Bind p g) s n f =
  match run p s n f with
  | (Ok a, s1, n1) => run (g a) s1 n1 f
  | (Err e, s1, n1) => (Err e, s1, n1)
  end.
Proof. reflexivity. Qed.

(** Eager steps: the store part is still a program of the language, so the
    store is handled as above; the memory is what is not restored. *)
Lemma run_eager_store_is_a_program : forall Mem (steps : list (eager_step Mem)) m s n f,
  exists p : prog unit,
    let '(r, _, s', n') := run_eager steps m s n f in run p s n f = (r, s', n').
Proof.
  induction steps as [|[d e] rest IH]; intros m s n f; simpl.
  - exists (Ret tt). reflexivity.
  - destruct (run (d m) s n f) as [[r s1] n1] eqn:E. destruct r as [u|x].
    + destruct (IH (e m) s1 n1 f) as [q Hq].
      exists (Bind (d m) (fun _ => q)). rewrite run_bind, E.
      destruct (run_eager rest (e m) s1 n1 f) as [[[r2 m2] s2] n2]. exact Hq.
    + exists (d m). exact E.
Qed.

Theorem update_eager_store_restored : forall Mem (steps : list (eager_step Mem)) m s f x m' s',
  update_eager steps m s f = (Err x, m', s') -> s' = s.
Proof.
  intros Mem steps m s f x m' s'. unfold update_eager.
  destruct (run_eager steps m s O f) as [[[r m1] s1] n1]. destruct r; intros H; inversion H; reflexivity.
Qed.
