(** C10 - proofs about the fault-injection monad.

    Everything below is proved for a program [p] and a table [T] under the
    hypothesis [sites_propagate T p]: every call site the program can reach
    is Propagated in [T].  Without it the statements are FALSE (see
    [dropped_site_refutes] at the end): the hypothesis is used, in the [Call]
    case of every induction.  [uses_only L p] + [sites_ok T L = true] gives the
    hypothesis; the first is a fact about the transcription, the second is
    decided by computation on the regenerated table (Properties/C10.v). *)
From stdpp Require Import gmap.
From Coq Require Import ZArith List Lia String.
From Verif Require Import Fault.Fault.
Import ListNotations.

(** ** Sites *)

Lemma mem_site_In s L : mem_site s L = true -> In s L.
Proof.
  unfold mem_site. rewrite existsb_exists. intros [x [Hin Heq]].
  apply String.eqb_eq in Heq. subst. exact Hin.
Qed.

Lemma sites_ok_In T L s : sites_ok T L = true -> In s L -> propagates (T s) = true.
Proof.
  unfold sites_ok. rewrite forallb_forall. auto.
Qed.

Lemma incl_sites_mem L L' s : incl_sites L L' = true -> mem_site s L = true -> mem_site s L' = true.
Proof.
  unfold incl_sites. rewrite forallb_forall. intros H Hm. apply H. apply mem_site_In. exact Hm.
Qed.

Theorem uses_only_mono : forall L L' A (p : prog A),
  uses_only L p -> incl_sites L L' = true -> uses_only L' p.
Proof.
  intros L L' A p. induction p as [A a|A c|A r|w c|A B p IHp g IHg|A st p IHp d]; simpl; auto.
  - intros [Hp Hg] Hi. split; [auto|]. intros a. apply IHg; auto.
  - intros [Hm Hp] Hi. split; [eapply incl_sites_mem; eauto|auto].
Qed.

Theorem uses_only_sites_propagate : forall T L A (p : prog A),
  uses_only L p -> sites_ok T L = true -> sites_propagate T p.
Proof.
  intros T L A p. induction p as [A a|A c|A r|w c|A B p IHp g IHg|A st p IHp d]; simpl; auto.
  - intros [Hp Hg] Hok. split; [auto|]. intros a. apply IHg; auto.
  - intros [Hm Hp] Hok. split; [|auto]. eapply sites_ok_In; eauto. apply mem_site_In. exact Hm.
Qed.

Lemma uses_only_for_each : forall L X (l : list X) (body : X -> prog unit),
  (forall x, uses_only L (body x)) -> uses_only L (for_each l body).
Proof.
  intros L X l body H. induction l as [|x l IH]; simpl; auto.
Qed.

Lemma uses_only_fold_prog : forall L X S (l : list X) (acc : S) (body : S -> X -> prog S),
  (forall a x, uses_only L (body a x)) -> uses_only L (fold_prog l acc body).
Proof.
  intros L X S l. induction l as [|x l IH]; intros acc body H; simpl; auto.
Qed.

Lemma all_propagate_sites : forall A (p : prog A), sites_propagate all_propagate p.
Proof.
  intros A p. induction p as [A a|A c|A r|w c|A B p IHp g IHg|A st p IHp d]; simpl; auto.
Qed.

(** ** The run *)

(** The call counter never decreases. *)
Lemma run_counter_mono : forall T A (p : prog A) s n f, n <= snd (run T p s n f).
Proof.
  intros T A p.
  induction p as [A a|A c|A r|w c|A B p IHp g IHg|A st p IHp d]; intros s n f; simpl.
  - unfold m_ret; simpl; lia.
  - unfold m_fail; simpl; lia.
  - unfold m_read; simpl; lia.
  - unfold m_write. destruct (hits n f); [simpl; lia|].
    destruct (w s); simpl; lia.
  - unfold m_bind. destruct (run T p s n f) as [[r s1] n1] eqn:E.
    pose proof (IHp s n f) as Hp. rewrite E in Hp. simpl in Hp.
    destruct r as [a|e]; simpl; [|lia].
    pose proof (IHg a s1 n1 f) as Hg. lia.
  - unfold m_call. destruct (run T p s n f) as [[r s1] n1] eqn:E.
    pose proof (IHp s n f) as Hp. rewrite E in Hp. simpl in Hp.
    destruct r as [a|e]; simpl; [lia|].
    destruct e; simpl; try lia; destruct (on_err (T st)); simpl; lia.
Qed.

(** With every site propagating, no function ever "returns nil early". *)
Lemma no_swallow : forall T A (p : prog A), sites_propagate T p ->
  forall s n f, fst (fst (run T p s n f)) <> Err Swallowed.
Proof.
  intros T A p.
  induction p as [A a|A c|A r|w c|A B p IHp g IHg|A st p IHp d]; intros Hsp s n f; simpl.
  - discriminate.
  - discriminate.
  - discriminate.
  - unfold m_write. destruct (hits n f); [discriminate|]. destruct (w s); discriminate.
  - destruct Hsp as [Hp Hg]. unfold m_bind.
    destruct (run T p s n f) as [[r s1] n1] eqn:E.
    destruct r as [a|e].
    + apply IHg. apply Hg.
    + pose proof (IHp Hp s n f) as H. rewrite E in H. simpl in *.
      intros Heq. apply H. inversion Heq. reflexivity.
  - destruct Hsp as [Hst Hp]. unfold m_call.
    destruct (run T p s n f) as [[r s1] n1] eqn:E.
    pose proof (IHp Hp s n f) as H. rewrite E in H. simpl in H.
    destruct r as [a|e]; [discriminate|].
    destruct e; try (exfalso; apply H; reflexivity);
      destruct (T st); simpl in *; try discriminate.
Qed.

(** A propagated call is transparent. *)
Lemma run_call_propagated : forall T A st (p : prog A) d, sites_propagate T (Call st p d) ->
  forall s n f, run T (Call st p d) s n f = run T p s n f.
Proof.
  intros T A st p d [Hst Hp] s n f. simpl. unfold m_call.
  pose proof (no_swallow T A p Hp s n f) as H.
  destruct (run T p s n f) as [[r s1] n1]. simpl in H.
  destruct r as [a|e]; [reflexivity|].
  destruct e; try reflexivity; try (exfalso; apply H; reflexivity);
    destruct (T st); simpl in *; try discriminate; reflexivity.
Qed.

(** Under the hypothesis the table does not matter any more: the run is the
    run of the reading in which every call propagates. *)
Theorem run_table_irrelevant : forall T A (p : prog A), sites_propagate T p ->
  forall s n f, run T p s n f = run all_propagate p s n f.
Proof.
  intros T A p.
  induction p as [A a|A c|A r|w c|A B p IHp g IHg|A st p IHp d]; intros Hsp s n f; try reflexivity.
  - destruct Hsp as [Hp Hg]. simpl. unfold m_bind. rewrite (IHp Hp).
    destruct (run all_propagate p s n f) as [[r s1] n1]. destruct r; [|reflexivity].
    apply IHg. apply Hg.
  - rewrite (run_call_propagated T A st p d Hsp).
    rewrite (run_call_propagated all_propagate A st p d (all_propagate_sites _ _)).
    apply IHp. apply Hsp.
Qed.

Lemma hits_none n : hits n None = false.
Proof. reflexivity. Qed.

Lemma hits_some n k : hits n (Some k) = Nat.eqb k n.
Proof. reflexivity. Qed.

(** The central statement.  Let [n0] be the value of the call counter after
    the fault-free run started at counter [n].
    - a fault index outside [n, n0) is invisible: same result, same store,
      same counter;
    - a fault index inside [n, n0) makes the run end with [Err Injected] right
      after call number [k]. *)
Theorem run_fault_spec : forall T A (p : prog A), sites_propagate T p -> forall s n k,
  (k < n \/ snd (run T p s n None) <= k -> run T p s n (Some k) = run T p s n None) /\
  (n <= k < snd (run T p s n None) -> exists s', run T p s n (Some k) = (Err Injected, s', S k)).
Proof.
  intros T A p.
  induction p as [A a|A c|A r|w c|A B p IHp g IHg|A st p IHp d]; intros Hsp s n k.
  - simpl. unfold m_ret; simpl. split; [reflexivity|lia].
  - simpl. unfold m_fail; simpl. split; [reflexivity|lia].
  - simpl. unfold m_read; simpl. split; [reflexivity|lia].
  - simpl. unfold m_write. rewrite hits_none, hits_some.
    assert (Hn : snd (match w s with
                      | Some s' => (@Ok unit tt, s', S n)
                      | None => (Err (OpErr c), s, S n)
                      end) = S n) by (destruct (w s); reflexivity).
    rewrite Hn. split.
    + intros Hk. destruct (Nat.eqb_spec k n) as [->|Hne]; [lia|reflexivity].
    + intros Hk. assert (k = n) as -> by lia. rewrite Nat.eqb_refl. eauto.
  - destruct Hsp as [Hp Hg]. simpl. unfold m_bind.
    destruct (run T p s n None) as [[r0 s0] n0] eqn:E0.
    pose proof (run_counter_mono T _ p s n None) as Hm0. rewrite E0 in Hm0. simpl in Hm0.
    destruct (IHp Hp s n k) as [IHp1 IHp2]. rewrite E0 in IHp1, IHp2. simpl in IHp1, IHp2.
    destruct r0 as [a|e].
    + (* the first part succeeds in the fault-free run *)
      pose proof (run_counter_mono T _ (g a) s0 n0 None) as Hm1.
      destruct (IHg a (Hg a) s0 n0 k) as [IHg1 IHg2].
      split.
      * intros Hk. rewrite IHp1 by lia. apply IHg1. lia.
      * intros Hk. destruct (Nat.lt_ge_cases k n0) as [Hlt|Hge].
        -- destruct IHp2 as [s' Hs']; [lia|]. rewrite Hs'. eauto.
        -- rewrite IHp1 by lia. apply IHg2. lia.
    + (* the first part fails by itself *)
      simpl. split.
      * intros Hk. rewrite IHp1 by lia. reflexivity.
      * intros Hk. destruct IHp2 as [s' Hs']; [lia|]. rewrite Hs'. eauto.
  - (* a call: transparent, BECAUSE its site propagates *)
    rewrite !(run_call_propagated T A st p d Hsp). apply IHp. apply Hsp.
Qed.

(** ** Corollaries in the form of the property *)

(** error, or: the fault lies beyond the last write and nothing differs from
    the fault-free run - never [Ok] after a strict prefix of the writes. *)
Theorem fault_error_or_full_effect : forall T A (p : prog A), sites_propagate T p -> forall s k,
  match run T p s O (Some k) with
  | (Ok r, s', n) => writes T p s <= k /\ (Ok r, s', n) = run T p s O None
  | (Err _, _, _) => True
  end.
Proof.
  intros T A p Hsp s k.
  destruct (run_fault_spec T A p Hsp s O k) as [H1 H2].
  destruct (Nat.lt_ge_cases k (writes T p s)) as [Hlt|Hge].
  - destruct H2 as [s' Hs']; [unfold writes, clean in Hlt; lia|]. rewrite Hs'. exact I.
  - rewrite H1 by (right; exact Hge).
    destruct (run T p s O None) as [[r s'] n] eqn:E. destruct r; [|exact I].
    split; [exact Hge|reflexivity].
Qed.

Theorem fault_within_writes_is_reported : forall T A (p : prog A), sites_propagate T p -> forall s k,
  k < writes T p s -> exists s', run T p s O (Some k) = (Err Injected, s', S k).
Proof.
  intros T A p Hsp s k Hk. apply (proj2 (run_fault_spec T A p Hsp s O k)).
  unfold writes, clean in Hk. lia.
Qed.

Theorem fault_beyond_writes_is_invisible : forall T A (p : prog A), sites_propagate T p -> forall s k,
  writes T p s <= k -> run T p s O (Some k) = run T p s O None.
Proof.
  intros T A p Hsp s k Hk. apply (proj1 (run_fault_spec T A p Hsp s O k)). right. exact Hk.
Qed.

(** the model's search for a failing input finds nothing *)
Theorem no_bad_position : forall T A (p : prog A), sites_propagate T p -> forall s,
  bad_positions T p s = [].
Proof.
  intros T A p Hsp s. unfold bad_positions.
  assert (H : forall l, (forall k, In k l -> k < writes T p s) ->
            filter (fun k => is_ok (fst (fst (run T p s O (Some k))))) l = []).
  { induction l as [|k l IH]; intros Hl; [reflexivity|]. simpl.
    destruct (fault_within_writes_is_reported T A p Hsp s k) as [s' Hs']; [apply Hl; left; reflexivity|].
    rewrite Hs'. simpl. apply IH. intros k' Hk'. apply Hl. right. exact Hk'. }
  apply H. intros k Hk. apply in_seq in Hk. lia.
Qed.

(** A successful faulty run made exactly the writes of the fault-free run:
    same store. *)
Theorem ok_means_all_writes_applied : forall T A (p : prog A), sites_propagate T p -> forall s k r s' n,
  run T p s O (Some k) = (Ok r, s', n) ->
  run T p s O None = (Ok r, s', n) /\ n = writes T p s.
Proof.
  intros T A p Hsp s k r s' n H.
  pose proof (fault_error_or_full_effect T A p Hsp s k) as Hs. rewrite H in Hs.
  destruct Hs as [_ Heq]. split; [symmetry; exact Heq|].
  unfold writes, clean. rewrite <- Heq. reflexivity.
Qed.

(** ** Transactions *)

Theorem rollback_restores : forall T A (p : prog A) s f e s',
  update T p s f = (Err e, s') -> s' = s.
Proof.
  intros T A p s f e s'. unfold update.
  destruct (run T p s O f) as [[r s1] n1]. destruct r; intros H; inversion H; reflexivity.
Qed.

Theorem update_error_or_full_effect : forall T A (p : prog A), sites_propagate T p -> forall s k,
  match update T p s (Some k) with
  | (Ok r, s') => writes T p s <= k /\ (Ok r, s') = update T p s None
  | (Err _, s') => s' = s
  end.
Proof.
  intros T A p Hsp s k. unfold update.
  pose proof (fault_error_or_full_effect T A p Hsp s k) as H.
  destruct (run T p s O (Some k)) as [[r s1] n1]. destruct r as [a|e]; [|reflexivity].
  destruct H as [Hk Heq]. split; [exact Hk|]. rewrite <- Heq. reflexivity.
Qed.

(** After a faulty attempt (rolled back when it failed), running the
    operation again without fault gives what a run without the fault would
    have given. *)
Theorem retry_equals_clean_run : forall T A (p : prog A), sites_propagate T p -> forall s k,
  match update T p s (Some k) with
  | (Err _, s1) => update T p s1 None = update T p s None
  | (Ok r, s1) => (Ok r, s1) = update T p s None
  end.
Proof.
  intros T A p Hsp s k.
  pose proof (update_error_or_full_effect T A p Hsp s k) as H.
  destruct (update T p s (Some k)) as [r s1]. destruct r as [a|e].
  - exact (proj2 H).
  - rewrite H. reflexivity.
Qed.

(** ** Operations with memory (memory-after-disk ordering) *)

Theorem op_error_restores_memory_and_store : forall T Mem R (o : op Mem R) m s f e m' s',
  run_op T o m s f = (Err e, m', s') -> m' = m /\ s' = s.
Proof.
  intros T Mem R o m s f e m' s'. unfold run_op.
  destruct (update T (disk o m) s f) as [r s1] eqn:E. destruct r as [a|x]; intros H; inversion H; subst.
  split; [reflexivity|]. exact (rollback_restores _ _ _ _ _ _ _ E).
Qed.

Theorem op_error_or_full_effect : forall T Mem R (o : op Mem R) m, sites_propagate T (disk o m) -> forall s k,
  match run_op T o m s (Some k) with
  | (Ok r, m', s') => writes T (disk o m) s <= k /\ (Ok r, m', s') = run_op T o m s None
  | (Err _, m', s') => m' = m /\ s' = s
  end.
Proof.
  intros T Mem R o m Hsp s k. unfold run_op.
  pose proof (update_error_or_full_effect T _ (disk o m) Hsp s k) as H.
  destruct (update T (disk o m) s (Some k)) as [r s1]. destruct r as [a|e].
  - destruct H as [Hk Heq]. split; [exact Hk|]. rewrite <- Heq. reflexivity.
  - split; [reflexivity|exact H].
Qed.

Theorem op_retry_equals_clean_run : forall T Mem R (o : op Mem R) m, sites_propagate T (disk o m) -> forall s k,
  match run_op T o m s (Some k) with
  | (Err _, m1, s1) => run_op T o m1 s1 None = run_op T o m s None
  | (Ok r, m1, s1) => (Ok r, m1, s1) = run_op T o m s None
  end.
Proof.
  intros T Mem R o m Hsp s k.
  pose proof (op_error_or_full_effect T Mem R o m Hsp s k) as H.
  destruct (run_op T o m s (Some k)) as [[r m1] s1]. destruct r as [a|e].
  - exact (proj2 H).
  - destruct H as [-> ->]. reflexivity.
Qed.

(** ** Several calls in one transaction *)

Lemma run_bind : forall T A B (p : prog A) (g : A -> prog B) s n f,
  run T (Bind p g) s n f =
  match run T p s n f with
  | (Ok a, s1, n1) => run T (g a) s1 n1 f
  | (Err e, s1, n1) => (Err e, s1, n1)
  end.
Proof. reflexivity. Qed.

(** the explicit-memory run and the program [steps_prog] agree on result,
    store and counter: the theorems about programs apply to the disk side of
    a whole transaction *)
Lemma run_steps_is_steps_prog : forall T Mem (steps : list (step Mem)) idx m pend s n f,
  let '(r, _, _, s', n', _) := run_steps T steps idx m pend s n f in
  run T (steps_prog steps m) s n f = (r, s', n').
Proof.
  intros T Mem steps. induction steps as [|st rest IH]; intros idx m pend s n f; simpl.
  - reflexivity.
  - unfold m_bind. destruct (run T (st_disk st (mem_before st m)) s n f) as [[r s1] n1].
    destruct r as [a|e]; [|reflexivity]. apply IH.
Qed.

Theorem update_steps_is_update : forall T Mem (steps : list (step Mem)) m s f,
  let '(r, _, s', _) := update_steps T steps m s f in
  update T (steps_prog steps m) s f = (r, s').
Proof.
  intros T Mem steps m s f. unfold update_steps, update.
  pose proof (run_steps_is_steps_prog T Mem steps O m [] s O f) as H.
  destruct (run_steps T steps O m [] s O f) as [[[[[r m1] pend] s1] n1] i1].
  rewrite H. destruct r as [[]|e]; reflexivity.
Qed.

(** the store is always restored, whatever the shapes *)
Theorem update_steps_store_restored : forall T Mem (steps : list (step Mem)) m s f x m' s' i,
  update_steps T steps m s f = (Err x, m', s', i) -> s' = s.
Proof.
  intros T Mem steps m s f x m' s' i. unfold update_steps.
  destruct (run_steps T steps O m [] s O f) as [[[[[r m1] pend] s1] n1] i1].
  destruct r; intros H; inversion H; reflexivity.
Qed.

(** One call in its own transaction, of a shape other than BeforeOwnWrites,
    is an operation in the sense of [run_op]: its memory effect is applied
    exactly when the transaction commits. *)
Definition step_op {Mem} (st : step Mem) : op Mem (list key) :=
  {| disk := st_disk st; mem_after := st_mem st |}.

Theorem single_step_is_op : forall T Mem (st : step Mem) m s f,
  st_shape st <> BeforeOwnWrites ->
  let '(r, m', s', _) := update_steps T [st] m s f in
  match run_op T (step_op st) m s f with
  | (Ok _, m2, s2) => r = Ok tt /\ m' = m2 /\ s' = s2
  | (Err e, m2, s2) => r = Err e /\ m' = m2 /\ s' = s2
  end.
Proof.
  intros T Mem st m s f Hsh. unfold update_steps, run_op, update, mem_before, mem_done. simpl.
  unfold mem_before, mem_done.
  destruct (st_shape st) eqn:Esh; try congruence;
    destruct (run T (st_disk st m) s O f) as [[r s1] n1]; destruct r as [a|e]; simpl; auto.
Qed.

(** The memory after a failed transaction is the memory after the effects of
    the calls COMPLETED before the failing one that have shape AfterOwnWrites
    or BeforeOwnWrites, plus the failing call's own effect when its shape is
    BeforeOwnWrites: nothing else can leak.  In particular: *)
Lemma run_steps_first_failure : forall T Mem (st : step Mem) rest idx m pend s n f x m' pend' s' n',
  run_steps T (st :: rest) idx m pend s n f = (Err x, m', pend', s', n', idx) ->
  m' = mem_before st m.
Proof.
  intros T Mem st rest idx m pend s n f x m' pend' s' n' H. simpl in H.
  destruct (run T (st_disk st (mem_before st m)) s n f) as [[r s1] n1]. destruct r as [a|e].
  - exfalso.
    assert (Hidx : forall (steps : list (step Mem)) i m0 pend0 s0 n0 r0 m1 p1 s2 n2 j,
               run_steps T steps i m0 pend0 s0 n0 f = (r0, m1, p1, s2, n2, j) -> i <= j).
    { induction steps as [|st' rest' IH]; intros i m0 pend0 s0 n0 r0 m1 p1 s2 n2 j Hr; simpl in Hr.
      - inversion Hr. lia.
      - destruct (run T (st_disk st' (mem_before st' m0)) s0 n0 f) as [[r' s1'] n1'].
        destruct r' as [a'|e']; [apply IH in Hr; lia|inversion Hr; lia]. }
    apply Hidx in H. lia.
  - inversion H. reflexivity.
Qed.

(** when the FIRST call fails and its shape is not BeforeOwnWrites, nothing
    leaks: memory and store are as before the transaction *)
Theorem first_step_failure_leaks_nothing : forall T Mem (st : step Mem) rest m s f x m' s',
  st_shape st <> BeforeOwnWrites ->
  update_steps T (st :: rest) m s f = (Err x, m', s', O) -> m' = m /\ s' = s.
Proof.
  intros T Mem st rest m s f x m' s' Hsh H. unfold update_steps in H.
  destruct (run_steps T (st :: rest) O m [] s O f) as [[[[[r m1] pend] s1] n1] i1] eqn:E.
  destruct r as [u|e]; inversion H; subst.
  apply run_steps_first_failure in E. subst. unfold mem_before.
  destruct (st_shape st); try congruence; split; reflexivity.
Qed.

(** ** Why the hypothesis is needed: one dropped site refutes the statement *)
Local Open Scope string_scope.
Local Open Scope Z_scope.

Definition T_dropped : table := fun s => if String.eqb s "x:f>db.Put" then DroppedReturn else Propagated.
Definition two_puts : prog unit :=
  Call "" (call "x:f>db.Put" (put 0 [0] [1]) ;;; call "x:f>db.Put2" (put 0 [1] [1])) tt.

Example dropped_site_refutes :
  writes T_dropped two_puts ∅ = 2%nat /\
  fst (fst (run T_dropped two_puts ∅ O (Some O))) = Ok tt /\
  bad_positions T_dropped two_puts ∅ = [O] /\
  bad_positions all_propagate two_puts ∅ = [].
Proof. vm_compute. repeat split. Qed.
