(** Executable model of the block loop of the bitcoind client's rescan
    (property C15: a wallet that starts against a bitcoind backend is brought
    up to the node's tip by BitcoindClient.rescan, which notifies every block
    above the wallet's synced block and must itself follow a reorganisation of
    the best chain that happens WHILE it walks it):

      chain/bitcoind_client.go   rescan: for i := start+1 .. best height:
                                 fetch the best chain's block at i; while its
                                 parent is not the previously processed block:
                                 BlockDisconnected(previous), step down, take
                                 the best chain's block there, pop the header
                                 list (or ask the node below the start block);
                                 then record the block as processed and
                                 notify it (filterBlock: BlockConnected).

    The node's best chain as the loop sees it at height [i] is a zipper:
    [above] = hashes at heights i, i+1, ... (ascending), [below] = hashes at
    heights i-1, i-2, ... (descending); GetBlockHash(i) is the head of
    [above], stepping down moves the head of [below] onto [above].  The tree
    (Sync/BitcoindReorg.v) answers getblock / getblockheader for every block
    ever seen.  The header list is a stack of (hash, Height field), the
    Height field being what the loop WROTE when it pushed the entry.

    One fact is regenerated from the source (Generated/SyncFacts.v):
    [bitcoind_rescan_steps_down] - the walk back decrements the loop height
    for every block it disconnects and asks the node for the header below the
    start block as soon as the list is empty.  With [false] the model is the
    pinned code: the height stays, the block one below is fetched again and
    again, and an emptied list keeps the removed header for one more round.

    RescanProgress / RescanFinished, the birthday short-cut (headers only
    before the birthday) and the refresh of the best height at the end of the
    loop are outside this model.  No proofs here. *)
From stdpp Require Import gmap list numbers.
From Coq Require Import ZArith NArith.
From Verif Require Import Generated.SyncFacts Sync.Sync Sync.BitcoindReorg.
Local Open Scope Z_scope.

Record rstate := {
  r_prev : N;                 (* previousHeader.Hash *)
  r_prevh : Z;                (* previousHeader.Height *)
  r_stack : list (N * Z);     (* headers list, back first *)
  r_i : Z;                    (* loop variable *)
  r_below : list N;           (* best chain at heights i-1, i-2, ... *)
  r_above : list N;           (* best chain at heights i, i+1, ... *)
}.

Definition time_of (t : tree) (x : N) : Z := match t !! x with Some hd => p_time hd | None => 0 end.

(** The walk back.  [blk] is the block being examined (hash); returns the
    state, the block to record, and the notifications. *)
Fixpoint rwalk (steps_down : bool) (t : tree) (fuel : nat) (s : rstate) (blk : N) (out : list ntfn)
  : option (rstate * N * list ntfn) :=
  match t !! blk with
  | None => None
  | Some bhd =>
    if (p_prev bhd =? r_prev s)%N then Some (s, blk, out)
    else
      match fuel with
      | O => None
      | S fuel' =>
        let out' := out ++ [NDisconnect {| m_height := r_prevh s; m_hash := r_prev s; m_time := time_of t (r_prev s) |}] in
        match r_below s with
        | [] => None                                   (* GetBlockHash below genesis *)
        | b :: below' =>
          (* which block is examined next, and where the loop stands *)
          let '(i', below2, above2) :=
            if steps_down then (r_i s - 1, below', b :: r_above s) else (r_i s, r_below s, r_above s) in
          (* the header list *)
          let fetch_below (p : N) : option (N * Z) :=
            match t !! p with
            | None => None
            | Some phd => match t !! p_prev phd with
                          | None => None
                          | Some qhd => Some (p_prev phd, p_height qhd)
                          end
            end in
          let popped : option (N * Z * list (N * Z)) :=
            if steps_down then
              let st' := tl (r_stack s) in
              match st' with
              | (x, h) :: _ => Some (x, h, st')
              | [] => match fetch_below (r_prev s) with Some (x, h) => Some (x, h, []) | None => None end
              end
            else
              match r_stack s with
              | _ :: st' =>
                match st' with
                | (x, h) :: _ => Some (x, h, st')
                | [] => Some (r_prev s, r_prevh s, [])
                end
              | [] => match fetch_below (r_prev s) with Some (x, h) => Some (x, h, []) | None => None end
              end in
          match popped with
          | None => None
          | Some (x, h, st') =>
            rwalk steps_down t fuel'
              {| r_prev := x; r_prevh := h; r_stack := st'; r_i := i'; r_below := below2; r_above := above2 |}
              b out'
          end
        end
      end
  end.

(** The loop over the heights. *)
Fixpoint rscan (steps_down : bool) (t : tree) (fuel : nat) (s : rstate) (out : list ntfn) : option (list ntfn * rstate) :=
  match r_above s with
  | [] => Some (out, s)
  | hash :: _ =>
    match fuel with
    | O => None
    | S fuel' =>
      match rwalk steps_down t (length (r_below s) + length (r_stack s) + 2) s hash out with
      | None => None
      | Some (s1, blk, out1) =>
        let m := {| m_height := r_i s1; m_hash := blk; m_time := time_of t blk |} in
        match r_above s1 with
        | [] => None
        | top :: above' =>
          rscan steps_down t fuel'
            {| r_prev := blk; r_prevh := r_i s1; r_stack := (blk, r_i s1) :: r_stack s1;
               r_i := r_i s1 + 1; r_below := top :: r_below s1; r_above := above' |}
            (out1 ++ [NConnect m])
        end
      end
    end
  end.

Definition rescan_with (steps_down : bool) (t : tree) (s : rstate) : option (list ntfn * rstate) :=
  rscan steps_down t (length (r_below s) + length (r_above s) + 1) s [].

Definition rescan := rescan_with bitcoind_rescan_steps_down.
