(** Composition of the chain-following model (Sync/Sync.v) with the
    transaction-store development (Tx/): what the notification handlers do to
    the store, as a history of [Tx.Hist.event]s, so that the clause "no
    transaction is reported confirmed in a block that is no longer on the best
    chain" becomes a statement about the store model [Tx.Store] (through the
    refinement [Store ⊑ Ledger] and the abstract validating node of
    [Tx/Node.v]) instead of the (txid ↦ block) projection kept in
    [Sync.wallet].

    1. [store_events], [startup_events]: the store history of a notification
       / of the start-up rollback, from the wallet state before it.
    2. [agrees]: the projection component ([mined], [unmined]) of the wallet
       state evolves as the ledger facts of [spec_run] over the store events
       ([f_conf] exactly; [f_unconf] ⊆ [unmined]: the ledger - like the real
       store - additionally removes the unconfirmed transactions that conflict
       with a newly confirmed one, with their descendants, and the unconfirmed
       descendants of a coinbase transaction of a detached block; the
       projection does not model these removals).
    3. Placed chains: every block carries its wallet-relevant members.  The
       store events of a valid evolution, with stale disconnects interleaved
       anywhere, of an idle unconfirmed notification, and of a stop / evolve /
       start period are transitions of the abstract node, whose chain stays
       the placed best chain; hence ([NodeProofs.reachable_inv]) the history is
       [chain_consistent] and the ledger's confirmed facts are exactly the
       members of the placed best chain, and ([Corollaries.c13_holds],
       [c01_holds]) so are the blocks reported by [Store.tx_details] and the
       balance of the store model.

    Tx modules are required without import (their names clash with Sync's). *)
From stdpp Require Import gmap list numbers sorting.
From Coq Require Import ZArith NArith Lia.
From Verif Require Tx.Store Tx.Ledger Tx.Hist Tx.Inv Tx.Corollaries Tx.Node Tx.NodeProofs.
From Verif Require Import Generated.SyncFacts Sync.Sync Sync.SyncProofs.
Local Open Scope Z_scope.
Local Arguments insert_tx : simpl never.
Local Arguments put_synced_to : simpl never.

Notation event := Hist.event (only parsing).
Notation universe := (gmap N Store.tx) (only parsing).
Notation facts := Ledger.facts (only parsing).
Notation f_conf := Ledger.f_conf (only parsing).
Notation f_unconf := Ledger.f_unconf (only parsing).

(** * 1. The store history of a notification *)

(** [disconnectBlock] reaches [TxStore.Rollback] and its transaction commits:
    the wallet is synced, the height is known, the stored hash is the
    notified one, the parent's hash and header are available and SetSyncedTo
    succeeds (whatever hash it is given). *)
Definition disconnect_commits (hdr : headers) (b : bmeta) (w : wallet) : bool :=
  chain_synced w && (m_height b <=? m_height (synced w)) &&
  match hashes w !! m_height b with
  | None => false
  | Some hash =>
    (hash =? m_hash b)%N &&
    match hashes w !! (m_height b - 1) with
    | None => false
    | Some parent =>
      match hdr !! parent with
      | None => false
      | Some t =>
        match put_synced_to {| m_height := m_height b - 1; m_hash := parent; m_time := t |} w with
        | Some _ => true
        | None => false
        end
      end
    end
  end.

Definition store_events (hdr : headers) (n : ntfn) (w : wallet) : list event :=
  match n with
  | NConnect _ => []
  | NDisconnect b => if disconnect_commits hdr b w then [Hist.Disconnect (m_height b)] else []
  | NTx t _ (Some m) => [Hist.Confirm t (m_height m) (m_hash m) (m_time m)]
  | NTx t _ None => [Hist.Seen t]
  end.

(** The start-up loop rolls the store back from the height above the block it
    stopped at - if it had to walk down and SetSyncedTo succeeds. *)
Definition startup_events (backend : chain) (hdr : headers) (w : wallet) : list event :=
  match walk (walk_fuel w) backend hdr w (m_height (synced w)) false with
  | WFound stamp true =>
    match put_synced_to stamp w with
    | Some _ => [Hist.Disconnect (m_height stamp + 1)]
    | None => []
    end
  | _ => []
  end.

(** Store history of a whole notification stream (handlers as generated). *)
Fixpoint run_events (hdr : headers) (l : list ntfn) (w : wallet) : list event :=
  match l with
  | [] => []
  | n :: l' => store_events hdr n w ++ run_events hdr l' (handle hdr n w).1
  end.

Lemma run_events_app hdr l1 l2 w :
  run_events hdr (l1 ++ l2) w = run_events hdr l1 w ++ run_events hdr l2 (run hdr l1 w).1.
Proof.
  revert w. induction l1 as [|n l1 IH]; intros w; simpl; [done|].
  rewrite IH, <- app_assoc. do 2 f_equal.
  unfold run, handle. simpl. destruct (handle_with _ hdr n w) as [w1 e1]. simpl.
  by destruct (run_with _ hdr l1 w1).
Qed.

(** ** What the handlers do to the projection *)

Lemma put_synced_to_hash_irrel bs bs' w :
  m_height bs = m_height bs' ->
  match put_synced_to bs w with Some _ => true | None => false end
  = match put_synced_to bs' w with Some _ => true | None => false end.
Proof.
  intros E. unfold put_synced_to. rewrite E. by destruct (_ && _).
Qed.

Lemma put_synced_to_txs bs w w' :
  put_synced_to bs w = Some w' -> mined w' = mined w /\ unmined w' = unmined w.
Proof. unfold put_synced_to. destruct (_ && _); [discriminate|]. by intros [= <-]. Qed.

Lemma disconnect_txs fact hdr b w :
  let w' := (disconnect_block_with fact hdr b w).1 in
  if disconnect_commits hdr b w
  then mined w' = mined (rollback (m_height b) w) /\ unmined w' = unmined (rollback (m_height b) w)
  else mined w' = mined w /\ unmined w' = unmined w.
Proof.
  unfold disconnect_block_with, disconnect_commits.
  destruct (chain_synced w); simpl; [|done].
  destruct (m_height b <=? m_height (synced w)); simpl; [|done].
  destruct (hashes w !! m_height b) as [hash|]; [|done].
  destruct (hash =? m_hash b)%N; simpl; [|done].
  destruct (hashes w !! (m_height b - 1)) as [parent|]; [|done].
  destruct (hdr !! parent) as [t|]; [|done].
  pose proof (put_synced_to_hash_irrel
    {| m_height := m_height b - 1; m_hash := if fact then parent else 0%N; m_time := t |}
    {| m_height := m_height b - 1; m_hash := parent; m_time := t |} w eq_refl) as Hirr.
  destruct (put_synced_to {| m_height := m_height b - 1; m_hash := if fact then parent else 0%N; m_time := t |} w)
    as [w1|] eqn:E1;
  destruct (put_synced_to {| m_height := m_height b - 1; m_hash := parent; m_time := t |} w) as [w2|] eqn:E2;
  try discriminate; [|done].
  destruct (put_synced_to_txs _ _ _ E1) as [Em Eu]. simpl.
  unfold rollback. simpl. by rewrite Em, Eu.
Qed.

Lemma handle_txs fact hdr n w :
  let w' := (handle_with fact hdr n w).1 in
  match n with
  | NConnect _ => mined w' = mined w /\ unmined w' = unmined w
  | NDisconnect b =>
    if disconnect_commits hdr b w
    then mined w' = mined (rollback (m_height b) w) /\ unmined w' = unmined (rollback (m_height b) w)
    else mined w' = mined w /\ unmined w' = unmined w
  | NTx t cb m => w' = insert_tx t cb m w
  end.
Proof.
  destruct n as [b|b|t cb m]; simpl.
  - unfold connect_block. destruct (put_synced_to b w) as [w1|] eqn:E; simpl; [|done].
    by apply put_synced_to_txs in E.
  - apply disconnect_txs.
  - done.
Qed.

Lemma sync_rollback_txs backend hdr w :
  let w' := (sync_rollback backend hdr w).1 in
  match startup_events backend hdr w with
  | [Hist.Disconnect h] => mined w' = mined (rollback h w) /\ unmined w' = unmined (rollback h w)
  | _ => mined w' = mined w /\ unmined w' = unmined w
  end.
Proof.
  unfold sync_rollback, startup_events.
  destruct (walk _ _ _ _ _ _) as [| |stamp [|]]; simpl; try done.
  destruct (put_synced_to stamp w) as [w1|] eqn:E; simpl; [|done].
  destruct (put_synced_to_txs _ _ _ E) as [Em Eu].
  destruct (reset_birthday_same stamp w1) as (_ & _ & Rm & Ru & _ & _).
  unfold rollback. simpl. by rewrite Rm, Ru, Em, Eu.
Qed.

(** * 2. The projection evolves as the ledger facts of the store history *)

Definition rec_of (t : N) (h : Z) (hash : N) (cb : bool) : txrec :=
  {| r_tx := t; r_height := h; r_hash := hash; r_cb := cb |}.

Record agrees (U : universe) (w : wallet) (F : facts) : Prop := {
  (* confirmed: exactly the ledger's confirmed facts *)
  ag_conf : forall t h hash, (exists cb, rec_of t h hash cb ∈ mined w) <-> f_conf F !! t = Some (h, hash);
  (* the coinbase flag the handler was given is the universe's *)
  ag_cb : forall r, r ∈ mined w -> r_cb r = Ledger.is_coinbase U (r_tx r);
  (* unconfirmed: the ledger may have removed more (conflicts, descendants of coinbases) *)
  ag_unconf : forall t, t ∈ f_unconf F -> t ∈ unmined w;
}.

Lemma has_rec_spec t h hash l :
  has_rec t h hash l = true <-> exists cb, rec_of t h hash cb ∈ l.
Proof.
  unfold has_rec. rewrite existsb_exists. split.
  - intros (r & Hr & E). apply andb_prop in E as [E E3]. apply andb_prop in E as [E1 E2].
    apply N.eqb_eq in E1, E3. apply Z.eqb_eq in E2. exists (r_cb r).
    apply elem_of_list_In in Hr. destruct r; simpl in *; by subst.
  - intros (cb & Hr). exists (rec_of t h hash cb). split; [by apply elem_of_list_In|].
    simpl. by rewrite !N.eqb_refl, Z.eqb_refl.
Qed.

Lemma has_tx_spec t l : has_tx t l = true <-> exists r, r ∈ l /\ r_tx r = t.
Proof.
  unfold has_tx. rewrite existsb_exists. split.
  - intros (r & Hr & E). apply N.eqb_eq in E. exists r. split; [by apply elem_of_list_In|done].
  - intros (r & Hr & E). exists r. split; [by apply elem_of_list_In|]. by apply N.eqb_eq.
Qed.

Lemma mem_N_spec t l : mem_N t l = true <-> t ∈ l.
Proof.
  unfold mem_N. rewrite existsb_exists. split.
  - intros (x & Hx & E). apply N.eqb_eq in E. subst. by apply elem_of_list_In.
  - intros H. exists t. split; [by apply elem_of_list_In|apply N.eqb_refl].
Qed.

Lemma elem_of_add_N t x l : t ∈ add_N x l <-> t ∈ l \/ t = x.
Proof.
  unfold add_N. destruct (mem_N x l) eqn:E.
  - apply mem_N_spec in E. split; [auto|]. intros [H| ->]; done.
  - rewrite elem_of_app, elem_of_list_singleton. done.
Qed.

Lemma elem_of_del_N t x l : t ∈ del_N x l <-> t ∈ l /\ t <> x.
Proof.
  unfold del_N. rewrite elem_of_list_filter. split.
  - intros [H1 H2]. split; [done|]. intros ->. rewrite N.eqb_refl in H1. done.
  - intros [H1 H2]. split; [|done]. destruct (t =? x)%N eqn:E; [|done]. by apply N.eqb_eq in E.
Qed.

Lemma elem_of_fold_add_N t back : forall l,
  t ∈ fold_left (fun u x => add_N x u) back l <-> t ∈ l \/ t ∈ back.
Proof.
  induction back as [|x back IH]; intros l; simpl.
  - rewrite elem_of_nil. tauto.
  - rewrite IH, elem_of_add_N, elem_of_cons. tauto.
Qed.

Lemma known_spec F t :
  Ledger.known F t = true <-> is_Some (f_conf F !! t) \/ t ∈ f_unconf F.
Proof.
  unfold Ledger.known. rewrite orb_true_iff, !bool_decide_eq_true. done.
Qed.

Section agree.
  Context (U : universe).

  (** re-delivery of a confirmation names the same block (part of
      [Hist.event_ok]) *)
  Definition conf_ok (F : facts) (t : N) (h : Z) (hash : N) : Prop :=
    forall b, f_conf F !! t = Some b -> b = (h, hash).

  Lemma agrees_seen w F t cb :
    agrees U w F -> agrees U (insert_tx t cb None w) (Ledger.spec_seen U F t).
  Proof.
    intros Ha. pose proof Ha as [Hc Hcb Hu]. unfold insert_tx, Ledger.spec_seen.
    destruct (Ledger.known F t) eqn:Ek.
    - assert (mem_N t (unmined w) || has_tx t (mined w) = true) as ->; [|done].
      apply known_spec in Ek as [[[h hash] Hk]|Hk].
      + apply Hc in Hk as [cb' Hr]. apply orb_true_iff. right. apply has_tx_spec. eauto.
      + apply orb_true_iff. left. apply mem_N_spec. by apply Hu.
    - assert (Hnk : f_conf F !! t = None /\ t ∉ f_unconf F).
      { destruct (f_conf F !! t) eqn:E1.
        - assert (Ledger.known F t = true) by (apply known_spec; left; eauto). congruence.
        - split; [done|]. intros Hin. assert (Ledger.known F t = true) by (apply known_spec; by right). congruence. }
      destruct Hnk as [Hn1 Hn2].
      assert (Hht : has_tx t (mined w) = false).
      { destruct (has_tx t (mined w)) eqn:E; [|done]. apply has_tx_spec in E as (r & Hr & Er).
        assert (f_conf F !! t = Some (r_height r, r_hash r)); [|congruence].
        apply Hc. exists (r_cb r). destruct r; simpl in *. by subst. }
      rewrite Hht, orb_false_r.
      destruct (mem_N t (unmined w)) eqn:Em.
      + apply mem_N_spec in Em. split; simpl; [done|done|].
        intros t'. rewrite elem_of_union, elem_of_singleton. intros [->|H]; [done|by apply Hu].
      + split; simpl; [done|done|]. intros t'.
        rewrite elem_of_union, elem_of_singleton, elem_of_app, elem_of_list_singleton.
        intros [->|H]; [by right|left; by apply Hu].
  Qed.

  Lemma agrees_confirm w F t cb m :
    agrees U w F -> cb = Ledger.is_coinbase U t -> conf_ok F t (m_height m) (m_hash m) ->
    agrees U (insert_tx t cb (Some m) w) (Ledger.spec_confirm U F t (m_height m, m_hash m)).
  Proof.
    intros Ha Ecb Hok. pose proof Ha as [Hc Hcb Hu]. unfold insert_tx.
    destruct (f_conf F !! t) as [b|] eqn:Ef.
    - rewrite (Hok b Ef) in Ef.
      assert (has_rec t (m_height m) (m_hash m) (mined w) = true) as ->.
      { apply has_rec_spec. by apply Hc. }
      unfold Ledger.spec_confirm. rewrite Ef. done.
    - assert (has_rec t (m_height m) (m_hash m) (mined w) = false) as ->.
      { destruct (has_rec _ _ _ _) eqn:E; [|done]. apply has_rec_spec in E. apply Hc in E. congruence. }
      destruct (Corollaries.spec_confirm_char U F t (m_height m, m_hash m) Ef) as (Hconf & Hunc & _).
      split; simpl.
      + intros t' h hash. rewrite Hconf. setoid_rewrite elem_of_app. setoid_rewrite elem_of_list_singleton.
        destruct (decide (t' = t)) as [->|Hn].
        * rewrite lookup_insert. split.
          -- intros (cb' & [Hr|Hr]).
             ++ exfalso. assert (f_conf F !! t = Some (h, hash)) by (apply Hc; eauto). congruence.
             ++ by injection Hr as -> -> _.
          -- intros [= <- <-]. exists cb. by right.
        * rewrite lookup_insert_ne by done. rewrite <- Hc. split.
          -- intros (cb' & [Hr|Hr]); [eauto|]. by injection Hr as -> _.
          -- intros (cb' & Hr). eauto.
      + intros r. rewrite elem_of_app, elem_of_list_singleton. intros [Hr| ->]; [by apply Hcb|done].
      + intros t' Ht'. apply Hunc in Ht' as (H1 & H2 & _). apply elem_of_del_N. split; [by apply Hu|done].
  Qed.

  Lemma agrees_disconnect w F h :
    agrees U w F -> agrees U (rollback h w) (Ledger.spec_disconnect U F h).
  Proof.
    intros [Hc Hcb Hu].
    destruct (Corollaries.spec_disconnect_char U F h) as (Hconf & Hunc & _).
    split; simpl.
    - intros t hh hash. rewrite Hconf, <- Hc. setoid_rewrite elem_of_list_filter. split.
      + intros (cb & Hlt & Hr). simpl in Hlt. split; [eauto|].
        destruct (hh <? h) eqn:E; [lia|done].
      + intros [(cb & Hr) Hlt]. exists cb. split; [|done]. simpl.
        destruct (hh <? h) eqn:E; [done|lia].
    - intros r Hr. apply elem_of_list_filter in Hr as [_ Hr]. by apply Hcb.
    - intros t Ht. apply Hunc in Ht as [[Ht|(hh & bh & Hf & Hge & Hncb)] _];
        apply elem_of_fold_add_N; [left; by apply Hu|right].
      apply Hc in Hf as (cb & Hr). apply elem_of_list_fmap. exists (rec_of t hh bh cb). split; [done|].
      apply elem_of_list_filter. split.
      + rewrite (Hcb _ Hr). simpl. by rewrite Hncb.
      + apply elem_of_list_filter. split; [|done]. simpl. destruct (h <=? hh) eqn:E; [done|lia].
  Qed.

  (** One store event, in the words of the handlers. *)
  Definition flag_ok (n : ntfn) : Prop :=
    match n with NTx t cb _ => cb = Ledger.is_coinbase U t | _ => True end.

  Lemma event_ok_conf_ok F t h hash bt :
    Hist.event_ok U F (Hist.Confirm t h hash bt) = true -> conf_ok F t h hash.
  Proof.
    simpl. destruct (U !! t); [|discriminate]. intros H b Hb. rewrite Hb in H.
    apply andb_prop in H as [_ H]. by apply bool_decide_eq_true in H.
  Qed.

  Lemma agrees_ext w w' F :
    mined w' = mined w -> unmined w' = unmined w -> agrees U w F -> agrees U w' F.
  Proof. intros E1 E2 [? ? ?]. split; rewrite ?E1, ?E2; done. Qed.

  Lemma agrees_handle fact hdr n w m :
    agrees U w (Hist.fs m) -> flag_ok n ->
    Hist.consistent_from U m (store_events hdr n w) = true ->
    agrees U (handle_with fact hdr n w).1 (Hist.fs (foldl (Hist.spec_step U) m (store_events hdr n w))).
  Proof.
    intros Ha Hf Hcons. pose proof (handle_txs fact hdr n w) as Htx. cbv zeta in Htx.
    destruct n as [b|b|t cb [mb|]]; simpl store_events in *.
    - destruct Htx as [E1 E2]. by apply (agrees_ext w).
    - destruct (disconnect_commits hdr b w); destruct Htx as [E1 E2]; simpl.
      + apply (agrees_ext (rollback (m_height b) w)); [done|done|]. by apply agrees_disconnect.
      + by apply (agrees_ext w).
    - rewrite Htx. simpl. apply agrees_confirm; [done|exact Hf|].
      cbn [Hist.consistent_from] in Hcons. apply andb_prop in Hcons as [Hcons _].
      exact (event_ok_conf_ok _ _ _ _ _ Hcons).
    - rewrite Htx. simpl. by apply agrees_seen.
  Qed.

  Lemma consistent_from_app m l1 l2 :
    Hist.consistent_from U m (l1 ++ l2) =
    Hist.consistent_from U m l1 && Hist.consistent_from U (foldl (Hist.spec_step U) m l1) l2.
  Proof.
    revert m. induction l1 as [|e l1 IH]; intros m; simpl; [done|]. by rewrite IH, andb_assoc.
  Qed.

  (** (2) for a whole stream: as long as the store history is one a
      validating node could emit, the projection is the ledger. *)
  Theorem projection_follows_ledger hdr l : forall w m,
    agrees U w (Hist.fs m) -> Forall flag_ok l ->
    Hist.consistent_from U m (run_events hdr l w) = true ->
    agrees U (run hdr l w).1 (Hist.fs (foldl (Hist.spec_step U) m (run_events hdr l w))).
  Proof.
    induction l as [|n l IH]; intros w m Ha Hfl Hcons; simpl in *; [done|].
    inversion Hfl as [|? ? Hf Hfl']; subst.
    rewrite consistent_from_app in Hcons. apply andb_prop in Hcons as [Hc1 Hc2].
    rewrite foldl_app.
    pose proof (agrees_handle disconnect_records_parent_hash hdr n w m Ha Hf Hc1) as Ha1.
    specialize (IH _ _ Ha1 Hfl' Hc2).
    unfold run, handle in *. simpl.
    destruct (handle_with _ hdr n w) as [w1 e1]. simpl in *.
    by destruct (run_with _ hdr l w1).
  Qed.

  Lemma startup_events_shape backend hdr w :
    startup_events backend hdr w = [] \/ exists h, startup_events backend hdr w = [Hist.Disconnect h].
  Proof.
    unfold startup_events. destruct (walk _ _ _ _ _ _) as [| |stamp [|]]; auto.
    destruct (put_synced_to stamp w); eauto.
  Qed.

  Lemma agrees_startup backend hdr w m :
    agrees U w (Hist.fs m) ->
    agrees U (sync_rollback backend hdr w).1
      (Hist.fs (foldl (Hist.spec_step U) m (startup_events backend hdr w))).
  Proof.
    intros Ha. pose proof (sync_rollback_txs backend hdr w) as Htx. cbv zeta in Htx.
    destruct (startup_events_shape backend hdr w) as [E|(h & E)]; rewrite E in *; simpl.
    - destruct Htx as [E1 E2]. by apply (agrees_ext w).
    - destruct Htx as [E1 E2]. apply (agrees_ext (rollback h w)); [done|done|]. by apply agrees_disconnect.
  Qed.

  Lemma agrees_init g : agrees U (new_wallet g) Ledger.empty_facts.
  Proof.
    split; simpl.
    - intros t h hash. rewrite lookup_empty. split; [|done]. intros (cb & H). by apply elem_of_nil in H.
    - intros r H. by apply elem_of_nil in H.
    - intros t H. by apply elem_of_empty in H.
  Qed.
End agree.

(** * 3. The store history of a valid evolution *)

(** ** The store events in terms of the chain the notifications describe *)

Definition spec_events (s : nstate) (n : ntfn) : list event :=
  match n with
  | NConnect _ => []
  | NDisconnect b =>
    if on_chainb (nc s) (m_height b) (m_hash b) then [Hist.Disconnect (m_height b)] else []
  | NTx t _ (Some m) => [Hist.Confirm t (m_height m) (m_hash m) (m_time m)]
  | NTx t _ None => [Hist.Seen t]
  end.

Fixpoint nevents (hdr : headers) (s : nstate) (l : list ntfn) : list event :=
  match l with
  | [] => []
  | n :: l' =>
    spec_events s n ++ match nstep hdr s n with Some s1 => nevents hdr s1 l' | None => [] end
  end.

Lemma nevents_app hdr l1 : forall s l2,
  nevents hdr s (l1 ++ l2)
  = nevents hdr s l1 ++ match nrun hdr s l1 with Some s1 => nevents hdr s1 l2 | None => [] end.
Proof.
  induction l1 as [|n l1 IH]; intros s l2; simpl; [done|].
  destruct (nstep hdr s n) as [s1|]; [|by rewrite !app_nil_r].
  by rewrite IH, app_assoc.
Qed.

(** Under the invariant an admissible BlockDisconnected reaches the store
    exactly when it names a block of the described chain. *)
Lemma store_events_spec hdr s w n s' :
  Inv hdr s w -> chain_synced w = true -> nstep hdr s n = Some s' ->
  store_events hdr n w = spec_events s n.
Proof.
  intros [Htr Htx] Hcs Hstep. destruct n as [b|b|t cb [m|]]; try done.
  simpl in *. destruct Htr as [Hh Hhash Hlo Hpr Hhs Hhdr].
  unfold disconnect_commits. rewrite Hcs. simpl.
  destruct (on_chainb (nc s) (m_height b) (m_hash b)) eqn:Eon.
  - destruct (no_pend (npend s) && disc_ok (nlo s) (m_height b)) eqn:E; [|discriminate].
    apply andb_prop in E as [_ Hok].
    apply on_chainb_spec in Eon as (x & Hx & Ex).
    assert (Hd : nlo s <= m_height b - 2 \/ (nlo s = 0 /\ m_height b = 1)).
    { unfold disc_ok in Hok. lia. }
    pose proof (chain_at_range _ _ _ Hx) as Hr.
    destruct (chain_at_is_Some (nc s) (m_height b - 1)) as [p Hp]; [lia|].
    destruct (m_height b <=? m_height (synced w)) eqn:E; [|lia].
    rewrite (Hhs (m_height b) x ltac:(lia) Hx). rewrite Ex, N.eqb_refl. simpl.
    rewrite (Hhs (m_height b - 1) p ltac:(lia) Hp).
    destruct (Hhdr p (chain_at_elem _ _ _ Hp)) as [t Ht]. rewrite Ht.
    destruct (put_synced_to_Some {| m_height := m_height b - 1; m_hash := bh p; m_time := t |} w) as [w1 ->]; [|done].
    simpl. destruct Hd as [Hd|[Hd1 Hd2]]; [|left; lia].
    right; right. destruct (chain_at_is_Some (nc s) (m_height b - 1 - 1)) as [q Hq]; [lia|].
    rewrite (Hhs (m_height b - 1 - 1) q ltac:(lia) Hq). eauto.
  - destruct (nlo s <=? m_height b) eqn:E; [|discriminate].
    destruct (m_height b <=? m_height (synced w)) eqn:E2; [|done].
    destruct (chain_at_is_Some (nc s) (m_height b)) as [x Hx]; [lia|].
    rewrite (Hhs (m_height b) x ltac:(lia) Hx).
    destruct (bh x =? m_hash b)%N eqn:E3; [|done].
    exfalso. unfold on_chainb in Eon. rewrite Hx in Eon. congruence.
Qed.

Lemma run_events_nevents hdr l :
  disconnect_records_parent_hash = true ->
  forall s w s', Inv hdr s w -> chain_synced w = true -> nrun hdr s l = Some s' ->
  run_events hdr l w = nevents hdr s l.
Proof.
  intros Hfact. induction l as [|n l IH]; intros s w s' Hinv Hcs Hrun; simpl in *; [done|].
  destruct (nstep hdr s n) as [s1|] eqn:E; [|discriminate].
  rewrite (store_events_spec hdr s w n s1 Hinv Hcs E). f_equal.
  destruct (handle_inv hdr s w n s1 Hinv Hcs E) as (w1 & H1 & Hinv1 & Hcs1).
  unfold handle. rewrite Hfact, H1. simpl. by eapply IH.
Qed.

(** ** Stale disconnects leave no trace in the store history *)

Inductive stale_noisy (hdr : headers) : nstate -> list ntfn -> list ntfn -> Prop :=
| sn_nil s : stale_noisy hdr s [] []
| sn_keep s n s1 l l' :
    nstep hdr s n = Some s1 -> stale_noisy hdr s1 l l' -> stale_noisy hdr s (n :: l) (n :: l')
| sn_stale s b l l' :
    on_chainb (nc s) (m_height b) (m_hash b) = false -> nlo s <= m_height b ->
    stale_noisy hdr s l l' -> stale_noisy hdr s l (NDisconnect b :: l').

Lemma stale_nstep hdr s b :
  on_chainb (nc s) (m_height b) (m_hash b) = false -> nlo s <= m_height b ->
  nstep hdr s (NDisconnect b) = Some s.
Proof.
  intros E1 E2. simpl. rewrite E1. destruct (nlo s <=? m_height b) eqn:E; [done|lia].
Qed.

Lemma stale_noisy_refl hdr l : forall s s', nrun hdr s l = Some s' -> stale_noisy hdr s l l.
Proof.
  induction l as [|n l IH]; intros s s' H; simpl in H; [constructor|].
  destruct (nstep hdr s n) as [s1|] eqn:E; [|discriminate].
  eapply sn_keep; [done|]. by eapply IH.
Qed.

Lemma stale_noisy_noisy hdr s l l' : stale_noisy hdr s l l' -> noisy hdr s l l'.
Proof.
  induction 1 as [s|s n s1 l l' Hn _ IH|s b l l' E1 E2 _ IH].
  - constructor.
  - by eapply noisy_keep.
  - apply noisy_add; [by apply stale_nstep|done].
Qed.

Lemma stale_noisy_events hdr s l l' : stale_noisy hdr s l l' -> nevents hdr s l' = nevents hdr s l.
Proof.
  induction 1 as [s|s n s1 l l' Hn _ IH|s b l l' E1 E2 _ IH]; simpl.
  - done.
  - by rewrite Hn, IH.
  - rewrite E1. simpl. destruct (nlo s <=? m_height b) eqn:E; [done|lia].
Qed.

(** ** The store events of the notifications of an evolution *)

Definition confirms (m : bmeta) (l : list (N * bool)) : list event :=
  map (fun t => Hist.Confirm t.1 (m_height m) (m_hash m) (m_time m)) l.

Fixpoint conn_events (h : Z) (new : list nblk) : list event :=
  match new with
  | [] => []
  | nb :: rest => confirms (meta_of h (nb_blk nb)) (nb_pre nb ++ nb_post nb) ++ conn_events (h + 1) rest
  end.

Fixpoint disc_events (c : chain) (d : nat) : list event :=
  match d with
  | O => []
  | S d' =>
    match list.last c with
    | None => []
    | Some _ => Hist.Disconnect (tip_height c) :: disc_events (take (length c - 1) c) d'
    end
  end.

Lemma nevents_txs hdr m (txs : list (N * bool)) : forall s s',
  nrun hdr s (map (fun t => NTx t.1 t.2 (Some m)) txs) = Some s' ->
  nevents hdr s (map (fun t => NTx t.1 t.2 (Some m)) txs) = confirms m txs.
Proof.
  induction txs as [|t txs IH]; intros s s' Hrun; [done|].
  cbn [map nrun nevents] in *. destruct (nstep hdr s _) as [s1|]; [|discriminate].
  simpl. f_equal. by eapply IH.
Qed.

Lemma nevents_disconnects hdr d : forall c lo,
  (d < length c)%nat -> (d = 0%nat \/ disc_ok lo (tip_height c - Z.of_nat d + 1) = true) ->
  nevents hdr {| nc := c; npend := None; nlo := lo |} (emit_disconnects c d) = disc_events c d.
Proof.
  induction d as [|d IH]; intros c lo Hd Hok; simpl; [done|].
  destruct Hok as [Hok|Hok]; [done|].
  assert (Hc : c <> []) by (destruct c; simpl in Hd; [lia|done]).
  pose proof (chain_at_tip c Hc) as Htip.
  destruct (list.last c) as [b|] eqn:El; [|done].
  simpl. unfold on_chainb. simpl. rewrite Htip. simpl. rewrite N.eqb_refl. simpl. f_equal.
  assert (Hk : disc_ok lo (tip_height c) = true).
  { apply (disc_ok_mono _ _ _ Hok). unfold tip_height in *. unfold disc_ok in Hok. lia. }
  rewrite Hk.
  replace (Z.to_nat (tip_height c)) with (length c - 1)%nat by (unfold tip_height; lia).
  apply IH.
  - rewrite take_length. lia.
  - destruct d as [|d']; [by left|right].
    rewrite tip_height_take by lia. unfold tip_height in *.
    replace (Z.of_nat (length c - 1) - 1 - Z.of_nat (S d') + 1)
      with (Z.of_nat (length c) - 1 - Z.of_nat (S (S d')) + 1) by lia. done.
Qed.

Lemma nevents_connects hdr new : forall c lo,
  c <> [] -> headers_known hdr (map nb_blk new) ->
  nevents hdr {| nc := c; npend := None; nlo := lo |} (emit_connects (tip_height c + 1) new)
  = conn_events (tip_height c + 1) new.
Proof.
  induction new as [|nb new IH]; intros c lo Hc Hk; simpl; [done|].
  set (m := meta_of (tip_height c + 1) (nb_blk nb)).
  unfold confirms. rewrite map_app, <- app_assoc. fold (confirms m (nb_pre nb)). fold (confirms m (nb_post nb)).
  rewrite nevents_app.
  destruct (nrun_pre hdr c lo m (nb_pre nb) None) as (p' & Hpre & Hp'); [done|done|].
  rewrite (nevents_txs hdr m (nb_pre nb) _ _ Hpre), Hpre. f_equal.
  simpl. rewrite Z.eqb_refl. simpl in Hp'. rewrite Hp'. simpl.
  assert (Hkn : known hdr (bh (nb_blk nb)) = true).
  { unfold known. destruct (Hk (nb_blk nb)) as [t ->]; [|done]. simpl. apply elem_of_list_here. }
  rewrite Hkn.
  assert (Hblk : blk_of m = nb_blk nb) by (destruct nb as [[]]; done).
  rewrite Hblk.
  assert (Htip : tip_height (c ++ [nb_blk nb]) = tip_height c + 1).
  { rewrite tip_height_app. simpl. lia. }
  assert (Hpost : nrun hdr {| nc := c ++ [nb_blk nb]; npend := None;
                              nlo := Z.max lo (tip_height c + 1 - max_reorg_depth + 1) |}
                    (map (fun t => NTx t.1 t.2 (Some m)) (nb_post nb))
                  = Some {| nc := c ++ [nb_blk nb]; npend := None;
                            nlo := Z.max lo (tip_height c + 1 - max_reorg_depth + 1) |}).
  { apply nrun_post. exists (nb_blk nb). split; [|done]. simpl. rewrite chain_at_app_r by lia.
    replace (tip_height c + 1 - tip_height c - 1) with 0 by lia. done. }
  rewrite nevents_app, (nevents_txs hdr m (nb_post nb) _ _ Hpost), Hpost. f_equal.
  replace (tip_height c + 1 + 1) with (tip_height (c ++ [nb_blk nb]) + 1) by lia.
  apply IH.
  - by destruct c.
  - intros b Hb. apply Hk. simpl. by apply elem_of_list_further.
Qed.

Lemma nevents_emit hdr c lo e :
  valid_evo hdr c lo e ->
  nevents hdr {| nc := c; npend := None; nlo := lo |} (emit c e)
  = disc_events c (e_depth e) ++ conn_events (tip_height c - Z.of_nat (e_depth e) + 1) (e_new e).
Proof.
  intros (Hd & Hok & Hk). unfold emit. rewrite nevents_app.
  rewrite nevents_disconnects by done. f_equal.
  rewrite emit_disconnects_nrun by done.
  assert (Htip : tip_height (take (length c - e_depth e) c) = tip_height c - Z.of_nat (e_depth e)).
  { rewrite tip_height_take by lia. unfold tip_height. lia. }
  rewrite <- Htip. apply nevents_connects; [|done].
  intros E. apply (f_equal length) in E. rewrite take_length in E. simpl in E. lia.
Qed.

(** ** Placed chains and the abstract node *)

(** A placed chain is a list of [nblk] (head = genesis, index = height): every
    block with the wallet-relevant transactions it contains, in block order
    ([nb_pre] then [nb_post]). *)
Definition members (nb : nblk) : list N := map fst (nb_pre nb ++ nb_post nb).
Definition chain_of (pc : list nblk) : chain := map nb_blk pc.

Definition node_block (h : Z) (nb : nblk) : Node.nblock :=
  {| Node.nb_height := h; Node.nb_hash := bh (nb_blk nb); Node.nb_time := bt (nb_blk nb);
     Node.nb_txs := members nb |}.

(** oldest first, heights [h], [h+1], ... *)
Fixpoint node_blocks (h : Z) (l : list nblk) : list Node.nblock :=
  match l with
  | [] => []
  | nb :: l' => node_block h nb :: node_blocks (h + 1) l'
  end.

(** The node's chain (tip first): all blocks above the genesis block (which
    holds no wallet transaction). *)
Definition node_chain (pc : list nblk) : list Node.nblock := rev (node_blocks 1 (tail pc)).

Definition papply (pc : list nblk) (e : evo) : list nblk :=
  take (length pc - e_depth e) pc ++ e_new e.

Lemma chain_of_papply pc e : chain_of (papply pc e) = apply_evo (chain_of pc) e.
Proof.
  unfold chain_of, papply, apply_evo. rewrite map_app, map_length.
  by rewrite firstn_map.
Qed.

Lemma node_blocks_app h l1 l2 :
  node_blocks h (l1 ++ l2) = node_blocks h l1 ++ node_blocks (h + Z.of_nat (length l1)) l2.
Proof.
  revert h. induction l1 as [|x l1 IH]; intros h; simpl.
  - by rewrite Z.add_0_r.
  - rewrite IH. do 3 f_equal. lia.
Qed.

Lemma node_chain_app pc l :
  pc <> [] ->
  node_chain (pc ++ l) = rev (node_blocks (Z.of_nat (length pc)) l) ++ node_chain pc.
Proof.
  intros Hpc. destruct pc as [|g T]; [done|]. unfold node_chain. simpl tail.
  rewrite node_blocks_app, rev_app_distr. do 3 f_equal. simpl length. lia.
Qed.

Lemma node_chain_snoc pc nb :
  pc <> [] -> node_chain (pc ++ [nb]) = node_block (Z.of_nat (length pc)) nb :: node_chain pc.
Proof. intros Hpc. by rewrite node_chain_app. Qed.

Lemma node_blocks_heights h l b : b ∈ node_blocks h l -> h <= Node.nb_height b < h + Z.of_nat (length l).
Proof.
  revert h. induction l as [|x l IH]; intros h; simpl; [by intros ?%elem_of_nil|].
  intros [->|Hb]%elem_of_cons; [simpl; lia|]. apply IH in Hb. lia.
Qed.

Lemma node_tip_lt pc : pc <> [] -> Node.tip_height (node_chain pc) < Z.of_nat (length pc).
Proof.
  intros Hpc. destruct pc as [|g T]; [done|]. unfold node_chain. simpl tail.
  destruct (rev (node_blocks 1 T)) as [|b r] eqn:E; simpl; [lia|].
  assert (Hb : b ∈ node_blocks 1 T).
  { apply elem_of_list_In, in_rev. rewrite E. by left. }
  apply node_blocks_heights in Hb. lia.
Qed.

(** a block of the node's chain is a block of the placed chain at its height *)
Lemma node_blocks_chain_at h l b :
  b ∈ node_blocks h l -> 0 <= h ->
  exists nb, l !! Z.to_nat (Node.nb_height b - h) = Some nb /\ Node.nb_hash b = bh (nb_blk nb) /\
             Node.nb_txs b = members nb.
Proof.
  revert h. induction l as [|x l IH]; intros h; simpl; [by intros ?%elem_of_nil|].
  intros [->|Hb]%elem_of_cons Hh.
  - exists x. simpl. by rewrite Z.sub_diag.
  - pose proof (node_blocks_heights _ _ _ Hb) as Hr.
    destruct (IH _ Hb ltac:(lia)) as (nb & Hnb & E). exists nb. split; [|done].
    replace (Z.to_nat (Node.nb_height b - h)) with (S (Z.to_nat (Node.nb_height b - (h + 1)))) by lia.
    done.
Qed.

Lemma node_chain_on_chain pc b :
  b ∈ node_chain pc ->
  1 <= Node.nb_height b /\
  exists nb, pc !! Z.to_nat (Node.nb_height b) = Some nb /\ Node.nb_hash b = bh (nb_blk nb) /\
             Node.nb_txs b = members nb.
Proof.
  unfold node_chain. intros Hb. apply elem_of_list_In, in_rev, elem_of_list_In in Hb.
  pose proof (node_blocks_heights _ _ _ Hb) as Hr. split; [lia|].
  destruct (node_blocks_chain_at _ _ _ Hb ltac:(lia)) as (nb & Hnb & E). exists nb. split; [|done].
  destruct pc as [|g T]; [by apply elem_of_nil in Hb|]. simpl in *.
  replace (Z.to_nat (Node.nb_height b)) with (S (Z.to_nat (Node.nb_height b - 1))) by lia. done.
Qed.

Lemma disc_events_snoc (c : chain) (b : blk) d :
  disc_events (c ++ [b]) (S d) = Hist.Disconnect (tip_height (c ++ [b])) :: disc_events c d.
Proof.
  cbn [disc_events]. rewrite last_snoc. f_equal. f_equal. rewrite app_length. simpl.
  replace (length c + 1 - 1)%nat with (length c) by lia. by rewrite take_app.
Qed.

Section node_sim.
  Context (U : universe).

  (** *** Disconnects: one single-block reorg of the node per notification *)
  Lemma disc_sim d : forall pc s,
    (d < length pc)%nat -> Node.n_chain s = node_chain pc ->
    exists s', Node.nsteps U s (disc_events (chain_of pc) d) s' /\
               Node.n_chain s' = node_chain (take (length pc - d) pc).
  Proof.
    induction d as [|d IH]; intros pc s Hd Hs.
    - exists s. split; [constructor|]. by rewrite Nat.sub_0_r, firstn_all.
    - destruct pc as [|nb pc' _] using rev_ind; [simpl in Hd; lia|].
      rewrite app_length in Hd. simpl in Hd.
      assert (Hpc' : pc' <> []) by (destruct pc'; simpl in Hd; [lia|done]).
      assert (Ec : chain_of (pc' ++ [nb]) = chain_of pc' ++ [nb_blk nb]).
      { unfold chain_of. by rewrite map_app. }
      rewrite Ec, disc_events_snoc.
      rewrite node_chain_snoc in Hs by done.
      set (h := tip_height (chain_of pc' ++ [nb_blk nb])).
      assert (Eh : h = Z.of_nat (length pc')).
      { unfold h, tip_height, chain_of. rewrite app_length, map_length. simpl. lia. }
      (* the node drops its tip *)
      set (s1 := {| Node.n_chain := drop 1 (Node.n_chain s);
                    Node.n_pool := Node.reorg_pool U (Node.n_pool s) (take 1 (Node.n_chain s));
                    Node.n_w := Node.wallet_after U (Node.n_w s) (map Hist.Disconnect [h]) |}).
      assert (Hstep : Node.nstep U s [Hist.Disconnect h] s1).
      { apply (Node.ns_reorg U s 1 [h]).
        - rewrite Hs. simpl. lia.
        - rewrite Hs. simpl. apply NodeProofs.disc_ok_single.
          + rewrite Eh. by apply node_tip_lt.
          + constructor; [simpl; lia|constructor]. }
      assert (Hs1 : Node.n_chain s1 = node_chain pc') by (simpl; by rewrite Hs).
      destruct (IH pc' s1) as (s' & Hsteps & Hs'); [lia|done|].
      exists s'. split.
      + change (Hist.Disconnect h :: disc_events (chain_of pc') d)
          with ([Hist.Disconnect h] ++ disc_events (chain_of pc') d).
        by eapply NodeProofs.nsteps_cons.
      + rewrite Hs'. f_equal. rewrite app_length. simpl.
        replace (length pc' + 1 - S d)%nat with (length pc' - d)%nat by lia.
        rewrite take_app_le by lia. done.
  Qed.

  (** *** Connects: the node mines one block per new block *)
  Lemma confirm_seq_plain blk m (l : list (N * bool)) :
    m_height m = Node.nb_height blk -> m_hash m = Node.nb_hash blk -> m_time m = Node.nb_time blk ->
    Node.confirm_seq blk (map fst l) (confirms m l).
  Proof.
    intros E1 E2 E3. induction l as [|t l IH]; simpl; [constructor|].
    rewrite E1, E2, E3.
    change (Hist.Confirm t.1 (Node.nb_height blk) (Node.nb_hash blk) (Node.nb_time blk) :: confirms m l)
      with (replicate 1 (Hist.Confirm t.1 (Node.nb_height blk) (Node.nb_hash blk) (Node.nb_time blk)) ++ confirms m l).
    by constructor.
  Qed.

  Lemma conn_sim new : forall pc s,
    pc <> [] -> Node.n_chain s = node_chain pc ->
    Node.chain_ok U (node_chain (pc ++ new)) ->
    NoDup (Node.chain_hashes (node_chain (pc ++ new))) ->
    exists s', Node.nsteps U s (conn_events (Z.of_nat (length pc)) new) s' /\
               Node.n_chain s' = node_chain (pc ++ new).
  Proof.
    induction new as [|nb new IH]; intros pc s Hpc Hs Hok Hnd; simpl.
    - exists s. split; [constructor|]. by rewrite app_nil_r.
    - assert (Hsplit : pc ++ nb :: new = (pc ++ [nb]) ++ new) by (by rewrite <- app_assoc).
      rewrite Hsplit in Hok, Hnd. pose proof Hok as Hok0. pose proof Hnd as Hnd0.
      assert (Hpc1 : pc ++ [nb] <> []) by (by destruct pc).
      rewrite (node_chain_app (pc ++ [nb]) new Hpc1) in Hok, Hnd.
      apply NodeProofs.chain_ok_app in Hok.
      unfold Node.chain_hashes in Hnd. rewrite map_app in Hnd. apply NoDup_app in Hnd as (_ & _ & Hnd).
      rewrite node_chain_snoc in Hok, Hnd by done.
      set (blk := node_block (Z.of_nat (length pc)) nb) in *.
      set (evs := confirms (meta_of (Z.of_nat (length pc)) (nb_blk nb)) (nb_pre nb ++ nb_post nb)).
      set (s1 := {| Node.n_chain := blk :: Node.n_chain s;
                    Node.n_pool := Node.mine_pool U (Node.n_pool s) blk;
                    Node.n_w := Node.wallet_after U (Node.n_w s) evs |}).
      assert (Hstep : Node.nstep U s evs s1).
      { apply Node.ns_mine.
        - by rewrite Hs.
        - rewrite Hs. simpl in Hnd. by apply NoDup_cons in Hnd as [Hnd _].
        - apply confirm_seq_plain; done. }
      destruct (IH (pc ++ [nb]) s1) as (s' & Hsteps & Hs'); [done| |exact Hok0|exact Hnd0|].
      + simpl. by rewrite Hs, node_chain_snoc.
      + exists s'. split.
        * rewrite app_length in Hsteps. simpl in Hsteps.
          replace (Z.of_nat (length pc + 1)) with (Z.of_nat (length pc) + 1) in Hsteps by lia.
          by eapply NodeProofs.nsteps_cons.
        * by rewrite Hs', Hsplit.
  Qed.
End node_sim.

Lemma node_blocks_elem h l i nb :
  l !! i = Some nb -> node_block (h + Z.of_nat i) nb ∈ node_blocks h l.
Proof.
  revert h i. induction l as [|x l IH]; intros h i; [done|]. destruct i as [|i]; cbn [lookup list_lookup node_blocks].
  - intros [= ->]. rewrite Z.add_0_r. by left.
  - intros Hi. right. replace (h + Z.of_nat (S i)) with (h + 1 + Z.of_nat i) by lia.
    apply (IH (h + 1) i Hi).
Qed.

Lemma node_chain_elem pc h nb :
  1 <= h -> pc !! Z.to_nat h = Some nb -> node_block h nb ∈ node_chain pc.
Proof.
  intros Hh Hnb. unfold node_chain. apply elem_of_list_In. rewrite <- in_rev. apply elem_of_list_In.
  destruct pc as [|g T]; [done|]. simpl.
  replace (Z.to_nat h) with (S (Z.to_nat (h - 1))) in Hnb by lia. simpl in Hnb.
  replace h with (1 + Z.of_nat (Z.to_nat (h - 1))) at 1 by lia. by apply node_blocks_elem.
Qed.

Lemma consistent_set_chain_synced hdr c lo w b :
  consistent hdr c lo w -> consistent hdr c lo (set_chain_synced b w).
Proof. intros [Htr Htx]. split; [by apply (Tracks_ext _ _ _ w)|done]. Qed.

Lemma catch_up_blocks_txs hdr bs : forall i w w',
  catch_up_blocks hdr i bs w = Some w' -> mined w' = mined w /\ unmined w' = unmined w.
Proof.
  induction bs as [|b bs IH]; intros i w w'; simpl; [by intros [= <-]|].
  destruct (hdr !! bh b) as [t|]; [|discriminate].
  destruct (put_synced_to _ w) as [w1|] eqn:E; [|discriminate]. intros H.
  apply IH in H as [-> ->]. by apply put_synced_to_txs in E.
Qed.

Lemma rescan_finished_txs backend hdr h w :
  mined (rescan_finished backend hdr h w).1 = mined w /\
  unmined (rescan_finished backend hdr h w).1 = unmined w.
Proof.
  unfold rescan_finished, catch_up.
  destruct (h <=? m_height (synced w)); [done|]. destruct (_ <? 0); [done|].
  destruct (_ <? _)%nat; [done|].
  destruct (catch_up_blocks _ _ _ w) as [w'|] eqn:E; [|done]. simpl. by apply catch_up_blocks_txs in E.
Qed.

(** * The composition *)

Section compose.
  Context (U : universe) (hdr : headers).
  Hypothesis Hfact : disconnect_records_parent_hash = true.

  (** The placement side conditions, in the abstract node's words
      ([Node.chain_ok]): every transaction of the placed best chain is a
      universe transaction and occurs once; no outpoint is spent twice on
      it; universe parents come first; a coinbase transaction can only be the
      first member of its block.  Block hashes are unique. *)
  Definition placed_ok (pc : list nblk) : Prop :=
    Node.chain_ok U (node_chain pc) /\ NoDup (Node.chain_hashes (node_chain pc)).

  (** wallet state [w] and store history [evs] after following the placed
      chain [pc] *)
  Record SimInv (pc : list nblk) (lo : Z) (w : wallet) (evs : list event) : Prop := {
    si_cons : consistent hdr (chain_of pc) lo w;
    si_synced : chain_synced w = true;
    si_node : exists s, Node.reachable U evs s /\ Node.n_chain s = node_chain pc;
  }.

  Lemma SimInv_init g :
    is_Some (hdr !! bh (nb_blk g)) ->
    SimInv [g] 0 (set_chain_synced true (new_wallet (nb_blk g))) [].
  Proof.
    intros Hg. split.
    - apply consistent_set_chain_synced. by apply (new_wallet_consistent hdr (nb_blk g) eq_refl).
    - done.
    - exists Node.init_nstate. split; [constructor|done].
  Qed.

  Lemma SimInv_nonempty pc lo w evs : SimInv pc lo w evs -> pc <> [].
  Proof.
    intros [[[_ _ Hlo _ _ _] _] _ _] ->. simpl in Hlo. unfold tip_height in Hlo. simpl in Hlo. lia.
  Qed.

  (** One evolution, stale disconnects interleaved anywhere. *)
  Theorem evolution_sim pc lo w evs e stream :
    SimInv pc lo w evs ->
    valid_evo hdr (chain_of pc) lo e -> placed_ok (papply pc e) ->
    stale_noisy hdr {| nc := chain_of pc; npend := None; nlo := lo |} (emit (chain_of pc) e) stream ->
    exists w', run hdr stream w = (w', false) /\
      SimInv (papply pc e)
             (Z.max lo (tip_height (chain_of (papply pc e)) - max_reorg_depth + 1)) w'
             (evs ++ run_events hdr stream w).
  Proof.
    intros Hsim Hv [Hok Hnd] Hn. pose proof (SimInv_nonempty _ _ _ _ Hsim) as Hpc.
    destruct Hsim as [Hc Hcs (s & Hreach & Hs)].
    destruct (follows_evolution hdr Hfact _ _ _ _ _ Hc Hcs Hv (stale_noisy_noisy _ _ _ _ Hn))
      as (w' & Hrun & Hcs' & Hc').
    exists w'. split; [done|]. split; [by rewrite !chain_of_papply|done|].
    (* the store history *)
    pose proof (emit_nrun hdr _ _ _ Hv) as Hnr.
    pose proof (noisy_nrun _ _ _ _ _ (stale_noisy_noisy _ _ _ _ Hn) Hnr) as Hnr'.
    rewrite (run_events_nevents hdr stream Hfact _ _ _ Hc Hcs Hnr').
    rewrite (stale_noisy_events _ _ _ _ Hn), (nevents_emit hdr _ _ _ Hv).
    (* the node follows *)
    destruct Hv as (Hd & _ & _). unfold chain_of in Hd. rewrite map_length in Hd.
    destruct (disc_sim U (e_depth e) pc s Hd Hs) as (s1 & Hsteps1 & Hs1).
    assert (Hne : take (length pc - e_depth e) pc <> []).
    { intros E. apply (f_equal length) in E. rewrite take_length in E. simpl in E. lia. }
    destruct (conn_sim U (e_new e) _ s1 Hne Hs1 Hok Hnd) as (s2 & Hsteps2 & Hs2).
    exists s2. split; [|done].
    eapply NodeProofs.nsteps_app; [exact Hreach|].
    eapply NodeProofs.nsteps_app; [exact Hsteps1|].
    replace (tip_height (chain_of pc) - Z.of_nat (e_depth e) + 1)
      with (Z.of_nat (length (take (length pc - e_depth e) pc))); [exact Hsteps2|].
    rewrite take_length. unfold tip_height, chain_of. rewrite map_length. lia.
  Qed.

  (** An unconfirmed-transaction notification between two evolutions. *)
  Theorem unmined_sim pc lo w evs t cb x :
    SimInv pc lo w evs -> U !! t = Some x -> Store.t_coinbase x = false ->
    (Ledger.known (Hist.fs (Hist.spec_run U evs)) t = true \/
     (t ∉ Node.chain_txs (node_chain pc) /\
      forall op c, op ∈ Store.t_ins x -> c ∈ Node.chain_txs (node_chain pc) -> op ∉ Ledger.tx_ins U c)) ->
    exists w', run hdr [NTx t cb None] w = (w', false) /\ SimInv pc lo w' (evs ++ [Hist.Seen t]).
  Proof.
    intros [Hc Hcs (s & Hreach & Hs)] HU Hncb Hside.
    destruct (follows_stream hdr Hfact {| nc := chain_of pc; npend := None; nlo := lo |} w
                [NTx t cb None] _ Hc Hcs eq_refl) as (w' & Hrun & Hinv & Hcs').
    exists w'. split; [done|]. split; [done|done|].
    destruct (NodeProofs.reachable_inv U evs s Hreach) as (_ & Hw & _ & _).
    exists {| Node.n_chain := Node.n_chain s; Node.n_pool := Node.n_pool s;
              Node.n_w := Node.wallet_after U (Node.n_w s) [Hist.Seen t] |}.
    split; [|exact Hs].
    eapply Node.nsteps_step; [exact Hreach|].
    apply (Node.ns_stale_seen U s t x HU Hncb). rewrite Hw, Hs. exact Hside.
  Qed.

  (** *** What the invariant says about the ledger and the store model *)

  Lemma sim_facts pc lo w evs :
    SimInv pc lo w evs ->
    Hist.chain_consistent U evs = true /\
    forall t h hash,
      f_conf (Hist.fs (Hist.spec_run U evs)) !! t = Some (h, hash) <->
      1 <= h /\ exists nb, pc !! Z.to_nat h = Some nb /\ bh (nb_blk nb) = hash /\ t ∈ members nb.
  Proof.
    intros [Hc Hcs (s & Hreach & Hs)].
    destruct (NodeProofs.reachable_inv U evs s Hreach) as (_ & _ & Hcoup & Hcons).
    split; [done|]. intros t h hash. rewrite (NodeProofs.wc_conf U _ _ Hcoup), Hs. split.
    - intros (b & Hb & Ht & <- & <-). destruct (node_chain_on_chain _ _ Hb) as (Hh & nb & Hnb & Eh & Et).
      split; [done|]. exists nb. rewrite <- Et. done.
    - intros (Hh & nb & Hnb & <- & Ht). exists (node_block h nb). split; [by apply node_chain_elem|done].
  Qed.

  Lemma placed_on_chain pc h nb :
    0 <= h -> pc !! Z.to_nat h = Some nb -> on_chain (chain_of pc) h (bh (nb_blk nb)).
  Proof.
    intros Hh Hnb. exists (nb_blk nb). split; [|done]. unfold chain_at, chain_of.
    destruct (h <? 0) eqn:E; [lia|]. by rewrite list_lookup_fmap, Hnb.
  Qed.

  (** The block [Store.tx_details] reports for a transaction - in the model of
      the REAL store, run on the store history of the handlers - is a block of
      the backend's best chain, and the one the transaction is a member of. *)
  Theorem store_confirmed_only_on_best_chain pc lo w evs t d h hash :
    Hist.wf_universe U = true -> SimInv pc lo w evs ->
    Store.tx_details U (Hist.st (Hist.run U evs)) t = Some d ->
    Store.d_block d = Some (h, hash) ->
    on_chain (chain_of pc) h hash /\
    (exists nb, pc !! Z.to_nat h = Some nb /\ bh (nb_blk nb) = hash /\ t ∈ members nb) /\
    1 <= h <= m_height (synced w).
  Proof.
    intros Hwf Hsim Hd Hb. destruct (sim_facts _ _ _ _ Hsim) as [Hcons Hconf].
    destruct (Corollaries.c13_holds U evs evs t Hwf Hcons ltac:(done)) as (Hdet & _ & _).
    cbv zeta in Hdet. rewrite Hdet in Hd. unfold Ledger.spec_details in Hd.
    destruct (negb _); [discriminate|]. destruct (U !! t) as [x|]; [|discriminate].
    injection Hd as <-. simpl in Hb. apply Hconf in Hb as (Hh & nb & Hnb & <- & Ht).
    split; [apply placed_on_chain; [lia|done]|]. split; [eauto|].
    split; [done|]. destruct Hsim as [[[Hsh _ _ _ _ _] _] _ _]. simpl in Hsh. rewrite Hsh.
    apply lookup_lt_Some in Hnb. unfold tip_height, chain_of. rewrite map_length. lia.
  Qed.

  (** The balance and the spendable set of the store model are the ledger's,
      whose confirmed facts are exactly the members of the placed best chain
      ([sim_facts]); the wallet's own synced-to height is an admissible sync
      height. *)
  Theorem wallet_balance_is_ledger_balance pc lo w evs minconf :
    Hist.wf_universe U = true -> SimInv pc lo w evs -> 0 <= minconf ->
    let s := Hist.st (Hist.run U evs) in
    let F := Hist.fs (Hist.spec_run U evs) in
    let now := Hist.clock (Hist.run U evs) in
    Store.balance U s minconf (m_height (synced w)) now
      = Ledger.spec_balance U F minconf (m_height (synced w)) now /\
    Store.unspent_outputs U s now ≡ₚ Ledger.spec_utxos U F now.
  Proof.
    intros Hwf Hsim Hmc. destruct (sim_facts _ _ _ _ Hsim) as [Hcons Hconf].
    destruct (Corollaries.c01_holds U evs evs Hwf Hcons ltac:(done)) as [Hbal Hut]. cbv zeta in *.
    split; [|done]. apply Hbal; [done|].
    intros t hh b Hf. apply Hconf in Hf as (Hh & nb & Hnb & _).
    destruct Hsim as [[[Hsh _ _ _ _ _] _] _ _]. simpl in Hsh. rewrite Hsh.
    apply lookup_lt_Some in Hnb. unfold tip_height, chain_of. rewrite map_length. lia.
  Qed.
End compose.

(** * Stop / evolve / start *)

(** The rescan after the rollback delivers every wallet transaction of the
    blocks above the common prefix, block by block. *)
Fixpoint rescan_txs (h : Z) (l : list nblk) : list ntfn :=
  match l with
  | [] => []
  | nb :: rest =>
    map (fun t => NTx t.1 t.2 (Some (meta_of h (nb_blk nb)))) (nb_pre nb ++ nb_post nb) ++ rescan_txs (h + 1) rest
  end.

Lemma run_events_txs hdr m (txs : list (N * bool)) w :
  run_events hdr (map (fun t => NTx t.1 t.2 (Some m)) txs) w = confirms m txs.
Proof. revert w. induction txs as [|t txs IH]; intros w; simpl; [done|]. by rewrite IH. Qed.

Lemma run_events_rescan hdr l : forall h w, run_events hdr (rescan_txs h l) w = conn_events h l.
Proof.
  induction l as [|nb l IH]; intros h w; simpl; [done|].
  by rewrite run_events_app, run_events_txs, IH.
Qed.

Lemma rescan_txs_on_chain (p : list blk) l : forall (done_ : list nblk),
  Forall (rescan_ntfn (p ++ chain_of done_ ++ chain_of l))
         (rescan_txs (tip_height p + 1 + Z.of_nat (length done_)) l).
Proof.
  induction l as [|nb l IH]; intros dn; simpl; [constructor|].
  apply Forall_app. split.
  - apply Forall_forall. intros n Hn. apply elem_of_list_fmap in Hn as (t & -> & _). simpl.
    exists (nb_blk nb). split; [|done]. rewrite app_assoc.
    rewrite chain_at_app_r.
    2:{ rewrite tip_height_app. unfold chain_of. rewrite map_length. lia. }
    rewrite tip_height_app. unfold chain_of at 1. rewrite map_length.
    replace (tip_height p + 1 + Z.of_nat (length dn) - (tip_height p + Z.of_nat (length dn)) - 1) with 0 by lia.
    done.
  - specialize (IH (dn ++ [nb])). rewrite app_length in IH. simpl in IH.
    replace (tip_height p + 1 + Z.of_nat (length dn + 1)) with (tip_height p + 1 + Z.of_nat (length dn) + 1) in IH by lia.
    unfold chain_of in *. rewrite map_app, <- app_assoc in IH. exact IH.
Qed.

Lemma node_blocks_length h l : length (node_blocks h l) = length l.
Proof. revert h. induction l as [|x l IH]; intros h; simpl; [done|]. by rewrite IH. Qed.

Section offline.
  Context (U : universe) (hdr : headers).
  Hypothesis Hfact : disconnect_records_parent_hash = true.

  (** Under the premises of the start-up theorem the store is rolled back
      from exactly the height above the common prefix, or not at all. *)
  Lemma startup_events_spec (p a b : list blk) lo w :
    consistent hdr (p ++ a) lo w -> p <> [] -> diverge a b -> (length a <= length b)%nat ->
    headers_known hdr (p ++ b) -> (a = [] \/ disc_ok lo (tip_height p + 1) = true) ->
    startup_events (p ++ b) hdr w = if decide (a = []) then [] else [Hist.Disconnect (tip_height p + 1)].
  Proof.
    intros Hc Hp Hdiv Hlen Hk Hok.
    destruct (sync_rollback_spec hdr p a b lo w Hc Hp Hdiv Hlen Hk Hok) as (w' & Hsr & _).
    destruct Hc as [Htr _]. simpl in Htr.
    pose proof (tip_height_nonneg p Hp) as Hp0.
    assert (Hlo : lo <= tip_height p).
    { destruct Hok as [->|Hok'].
      - rewrite app_nil_r in Htr. by destruct Htr as [_ _ [_ ?] _ _ _].
      - unfold disc_ok in Hok'. lia. }
    unfold startup_events, sync_rollback, walk_fuel in *.
    pose proof (tr_height _ _ _ _ Htr) as Hh. rewrite Hh, tip_height_app in *.
    destruct (walk_down hdr p a b lo w Htr Hp Hdiv Hlen Hk Hlo (length a)
                (Z.to_nat (tip_height p + Z.of_nat (length a)) + 2)%nat false)
      as (x & t & Ex & Et & Hwalk); [lia|lia|].
    rewrite Hwalk in *. simpl in *. destruct a as [|a0 a]; simpl in *.
    - done.
    - destruct (put_synced_to _ w); [done|]. discriminate.
  Qed.

  Theorem offline_sim (p a b : list nblk) lo w evs :
    SimInv U hdr (p ++ a) lo w evs -> p <> [] ->
    diverge (chain_of a) (chain_of b) -> (length a <= length b)%nat ->
    headers_known hdr (chain_of (p ++ b)) ->
    (a = [] \/ disc_ok lo (tip_height (chain_of p) + 1) = true) ->
    placed_ok U (p ++ b) ->
    let w_off := set_chain_synced false w in                    (* stopped and reopened *)
    let B := chain_of (p ++ b) in
    let txs := rescan_txs (tip_height (chain_of p) + 1) b in
    exists w0 w1 w2,
      sync_rollback B hdr w_off = (w0, false) /\
      run hdr txs w0 = (w1, false) /\
      rescan_finished B hdr (tip_height B) w1 = (w2, false) /\
      SimInv U hdr (p ++ b) (Z.max lo (tip_height B - max_reorg_depth + 1)) w2
             (evs ++ startup_events B hdr w_off ++ run_events hdr txs w0).
  Proof.
    intros [Hc Hcs (s & Hreach & Hs)] Hp Hdiv Hlen Hk Hok [Hpok Hnd]. cbv zeta.
    assert (Hcp : chain_of p <> []) by (by destruct p).
    assert (Hc_off : consistent hdr (chain_of p ++ chain_of a) lo (set_chain_synced false w)).
    { apply consistent_set_chain_synced. unfold chain_of in *. by rewrite <- map_app. }
    assert (EB : chain_of (p ++ b) = chain_of p ++ chain_of b) by (unfold chain_of; by rewrite map_app).
    rewrite EB in *.
    assert (Hlen' : (length (chain_of a) <= length (chain_of b))%nat).
    { unfold chain_of. by rewrite !map_length. }
    assert (Hok' : chain_of a = [] \/ disc_ok lo (tip_height (chain_of p) + 1) = true).
    { destruct Hok as [->|?]; [by left|by right]. }
    assert (Htxs : Forall (rescan_ntfn (chain_of p ++ chain_of b)) (rescan_txs (tip_height (chain_of p) + 1) b)).
    { pose proof (rescan_txs_on_chain (chain_of p) b []) as H. simpl in H.
      by rewrite Z.add_0_r in H. }
    destruct (startup_follows hdr Hfact _ _ _ lo _ _ Hc_off Hcp Hdiv Hlen' Hk Hok' Htxs)
      as (w0 & w1 & w2 & Hw0 & Hw1 & Hw2 & Hcs2 & Hc2).
    exists w0, w1, w2. split; [done|]. split; [done|]. split; [done|].
    split; [by rewrite EB|done|].
    (* store history *)
    rewrite (startup_events_spec _ _ _ lo _ Hc_off Hcp Hdiv Hlen' Hk Hok'), run_events_rescan.
    assert (Etip : tip_height (chain_of p) + 1 = Z.of_nat (length p)).
    { unfold tip_height, chain_of. rewrite map_length. lia. }
    rewrite Etip.
    (* the node: one reorg to the common prefix (if needed), then the new blocks *)
    assert (Hnode : exists s1, Node.nsteps U s
              (if decide (chain_of a = []) then [] else [Hist.Disconnect (Z.of_nat (length p))]) s1 /\
              Node.n_chain s1 = node_chain p).
    { destruct (decide (chain_of a = [])) as [Ea|Ea].
      - exists s. split; [constructor|]. destruct a; [|done]. by rewrite app_nil_r in Hs.
      - rewrite node_chain_app in Hs by done.
        set (R := rev (node_blocks (Z.of_nat (length p)) a)) in *.
        assert (HlenR : length R = length a) by (unfold R; by rewrite rev_length, node_blocks_length).
        exists {| Node.n_chain := drop (length a) (Node.n_chain s);
                  Node.n_pool := Node.reorg_pool U (Node.n_pool s) (take (length a) (Node.n_chain s));
                  Node.n_w := Node.wallet_after U (Node.n_w s) (map Hist.Disconnect [Z.of_nat (length p)]) |}.
        split.
        + rewrite <- (app_nil_l [Hist.Disconnect _]). eapply Node.nsteps_step; [constructor|].
          apply (Node.ns_reorg U s (length a) [Z.of_nat (length p)]).
          * rewrite Hs, app_length, HlenR. destruct a; [done|]. simpl. lia.
          * rewrite Hs, <- HlenR, take_app, drop_app. apply NodeProofs.disc_ok_single.
            -- by apply node_tip_lt.
            -- apply Forall_forall. intros x Hx. unfold R in Hx.
               apply elem_of_list_In, in_rev, elem_of_list_In in Hx.
               apply node_blocks_heights in Hx. lia.
        + simpl. by rewrite Hs, <- HlenR, drop_app. }
    destruct Hnode as (s1 & Hsteps1 & Hs1).
    destruct (conn_sim U b p s1 Hp Hs1 Hpok Hnd) as (s2 & Hsteps2 & Hs2).
    exists s2. split; [|done].
    eapply NodeProofs.nsteps_app; [exact Hreach|].
    eapply NodeProofs.nsteps_app; [exact Hsteps1|exact Hsteps2].
  Qed.
End offline.

(** * End to end: every history of the wallet following a placed chain *)

Section end_to_end.
  Context (U : universe) (hdr : headers).
  Hypothesis Hfact : disconnect_records_parent_hash = true.

  (** [follows pc lo w evs]: starting from a freshly created wallet on the
      genesis block and an empty store, the wallet went through any number of
      - valid evolutions of the best chain (reorganisations of any depth inside
        the stored window), notified tip-down / upward with stale, repeated
        and future-height disconnects interleaved anywhere,
      - unconfirmed-transaction notifications between evolutions,
      - offline periods (stop, the chain evolves, start-up rollback + rescan),
      the wallet transactions being placed consistently with the universe
      ([placed_ok]); its state is [w], the store history of its handlers is
      [evs], the backend's placed best chain is [pc]. *)
  Inductive follows : list nblk -> Z -> wallet -> list event -> Prop :=
  | fo_init g :
      is_Some (hdr !! bh (nb_blk g)) ->
      follows [g] 0 (set_chain_synced true (new_wallet (nb_blk g))) []
  | fo_evolve pc lo w evs e stream w' :
      follows pc lo w evs ->
      valid_evo hdr (chain_of pc) lo e -> placed_ok U (papply pc e) ->
      stale_noisy hdr {| nc := chain_of pc; npend := None; nlo := lo |} (emit (chain_of pc) e) stream ->
      Forall (flag_ok U) stream ->
      run hdr stream w = (w', false) ->
      follows (papply pc e) (Z.max lo (tip_height (chain_of (papply pc e)) - max_reorg_depth + 1)) w'
              (evs ++ run_events hdr stream w)
  | fo_unmined pc lo w evs t x w' :
      follows pc lo w evs ->
      U !! t = Some x -> Store.t_coinbase x = false ->
      (Ledger.known (Hist.fs (Hist.spec_run U evs)) t = true \/
       (t ∉ Node.chain_txs (node_chain pc) /\
        forall op c, op ∈ Store.t_ins x -> c ∈ Node.chain_txs (node_chain pc) -> op ∉ Ledger.tx_ins U c)) ->
      run hdr [NTx t false None] w = (w', false) ->
      follows pc lo w' (evs ++ [Hist.Seen t])
  | fo_offline p a b lo w evs w0 w1 w2 :
      follows (p ++ a) lo w evs -> p <> [] ->
      diverge (chain_of a) (chain_of b) -> (length a <= length b)%nat ->
      headers_known hdr (chain_of (p ++ b)) ->
      (a = [] \/ disc_ok lo (tip_height (chain_of p) + 1) = true) ->
      placed_ok U (p ++ b) ->
      Forall (flag_ok U) (rescan_txs (tip_height (chain_of p) + 1) b) ->
      sync_rollback (chain_of (p ++ b)) hdr (set_chain_synced false w) = (w0, false) ->
      run hdr (rescan_txs (tip_height (chain_of p) + 1) b) w0 = (w1, false) ->
      rescan_finished (chain_of (p ++ b)) hdr (tip_height (chain_of (p ++ b))) w1 = (w2, false) ->
      follows (p ++ b) (Z.max lo (tip_height (chain_of (p ++ b)) - max_reorg_depth + 1)) w2
              (evs ++ startup_events (chain_of (p ++ b)) hdr (set_chain_synced false w)
                   ++ run_events hdr (rescan_txs (tip_height (chain_of p) + 1) b) w0).

  Lemma spec_run_app evs l :
    Hist.spec_run U (evs ++ l) = foldl (Hist.spec_step U) (Hist.spec_run U evs) l.
  Proof. unfold Hist.spec_run. by rewrite foldl_app. Qed.

  Lemma consistent_split evs l :
    Hist.chain_consistent U (evs ++ l) = true ->
    Hist.consistent_from U (Hist.spec_run U evs) l = true.
  Proof.
    unfold Hist.chain_consistent. rewrite consistent_from_app. intros H.
    apply andb_prop in H as [_ H]. exact H.
  Qed.

  Theorem follows_sim pc lo w evs :
    follows pc lo w evs ->
    SimInv U hdr pc lo w evs /\ agrees U w (Hist.fs (Hist.spec_run U evs)).
  Proof.
    induction 1 as [g Hg
                   |pc lo w evs e stream w' _ [IHs IHa] Hv Hpl Hn Hfl Hrun
                   |pc lo w evs t x w' _ [IHs IHa] HU Hncb Hside Hrun
                   |p a b lo w evs w0 w1 w2 _ [IHs IHa] Hp Hdiv Hlen Hk Hok Hpl Hfl Hw0 Hw1 Hw2].
    - split; [by apply SimInv_init|]. apply (agrees_ext U (new_wallet (nb_blk g))); [done|done|].
      apply agrees_init.
    - destruct (evolution_sim U hdr Hfact _ _ _ _ _ _ IHs Hv Hpl Hn) as (w'' & Hrun' & Hs').
      rewrite Hrun in Hrun'. injection Hrun' as <-. split; [done|].
      destruct (sim_facts U hdr _ _ _ _ Hs') as [Hcons _].
      rewrite spec_run_app.
      pose proof (projection_follows_ledger U hdr stream w _ IHa Hfl (consistent_split _ _ Hcons)) as Ha.
      by rewrite Hrun in Ha.
    - destruct (unmined_sim U hdr Hfact _ _ _ _ t false x IHs HU Hncb Hside) as (w'' & Hrun' & Hs').
      rewrite Hrun in Hrun'. injection Hrun' as <-. split; [done|].
      destruct (sim_facts U hdr _ _ _ _ Hs') as [Hcons _].
      rewrite spec_run_app.
      assert (Hfl : Forall (flag_ok U) [NTx t false None]).
      { constructor; [|constructor]. simpl. unfold Ledger.is_coinbase. by rewrite HU, Hncb. }
      pose proof (projection_follows_ledger U hdr [NTx t false None] w _ IHa Hfl) as Ha.
      rewrite Hrun in Ha. simpl in Ha. apply Ha. apply (consistent_split _ _ Hcons).
    - destruct (offline_sim U hdr Hfact p a b lo w evs IHs Hp Hdiv Hlen Hk Hok Hpl)
        as (w0' & w1' & w2' & Hw0' & Hw1' & Hw2' & Hs').
      cbv zeta in *. rewrite Hw0 in Hw0'. injection Hw0' as <-.
      rewrite Hw1 in Hw1'. injection Hw1' as <-. rewrite Hw2 in Hw2'. injection Hw2' as <-.
      split; [done|].
      destruct (sim_facts U hdr _ _ _ _ Hs') as [Hcons _].
      set (su := startup_events (chain_of (p ++ b)) hdr (set_chain_synced false w)) in *.
      set (txs := rescan_txs (tip_height (chain_of p) + 1) b) in *.
      apply consistent_split in Hcons. rewrite consistent_from_app in Hcons.
      apply andb_prop in Hcons as [Hc1 Hc2].
      rewrite !spec_run_app, foldl_app.
      assert (Ha_off : agrees U (set_chain_synced false w) (Hist.fs (Hist.spec_run U evs))).
      { by apply (agrees_ext U w). }
      pose proof (agrees_startup U (chain_of (p ++ b)) hdr _ _ Ha_off) as Ha0.
      fold su in Ha0. rewrite Hw0 in Ha0. simpl in Ha0.
      pose proof (projection_follows_ledger U hdr txs w0 _ Ha0 Hfl Hc2) as Ha1.
      rewrite Hw1 in Ha1. simpl in Ha1.
      destruct (rescan_finished_txs (chain_of (p ++ b)) hdr (tip_height (chain_of (p ++ b))) w1) as [E1 E2].
      rewrite Hw2 in E1, E2. simpl in E1, E2.
      by apply (agrees_ext U w1).
  Qed.

  (** The store history of the handlers is one the abstract validating node
      emits - hence chain-consistent, the hypothesis of C01 / C02 / C13. *)
  Corollary follows_emits pc lo w evs :
    follows pc lo w evs -> Node.emits U evs /\ Hist.chain_consistent U evs = true.
  Proof.
    intros H. destruct (follows_sim _ _ _ _ H) as [Hs _].
    destruct (sim_facts U hdr _ _ _ _ Hs) as [Hcons _]. split; [|done].
    destruct Hs as [_ _ (s & Hr & _)]. by exists s.
  Qed.
End end_to_end.
