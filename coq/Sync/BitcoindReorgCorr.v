(** Correspondence check for Sync/BitcoindReorg.v: the model's notification
    stream on the block notifications the real poller handed to the real
    BitcoindClient, compared with the stream the real client emitted
    (harness/cmd/c15bd).  Block ids are interned hashes shifted by one (0 is
    the all-zero hash). *)
From stdpp Require Import gmap list numbers.
From Coq Require Import ZArith NArith.
From Verif Require Import Generated.SyncFacts Sync.Sync Sync.BitcoindReorg.
Local Open Scope Z_scope.

Definition bmk (h : Z) (hash : N) (t : Z) : bmeta := {| m_height := h; m_hash := hash; m_time := t |}.
Definition nc (h : Z) (hash : N) (t : Z) : ntfn := NConnect (bmk h hash t).
Definition nd (h : Z) (hash : N) (t : Z) : ntfn := NDisconnect (bmk h hash t).

Definition bmeta_eqb (a b : bmeta) : bool :=
  (m_height a =? m_height b) && (m_hash a =? m_hash b)%N && (m_time a =? m_time b).
Definition ntfn_eqb (a b : ntfn) : bool :=
  match a, b with
  | NConnect x, NConnect y => bmeta_eqb x y
  | NDisconnect x, NDisconnect y => bmeta_eqb x y
  | _, _ => false
  end.
Fixpoint ntfns_eqb (a b : list ntfn) : bool :=
  match a, b with
  | [], [] => true
  | x :: a', y :: b' => ntfn_eqb x y && ntfns_eqb a' b'
  | _, _ => false
  end.

(** One step: the blocks handed over, the notifications observed, the
    client's best block afterwards (its hash). *)
Record bstep := { bs_handed : list N; bs_ntfns : list ntfn; bs_best : N }.
Record bcase := { bc_tree : list (N * N * Z * Z); bc_best : bmeta; bc_steps : list bstep }.

(** Indices of the steps on which the model (with the regenerated fact)
    differs from what was observed: 1 = the model reports a failed node
    request, 2 = notifications differ, 3 = best block differs. *)
Fixpoint run_steps (t : gmap N bhdr) (best : bmeta) (i : nat) (l : list bstep) : list (nat * nat) :=
  match l with
  | [] => []
  | s :: rest =>
    match on_blocks t best (bs_handed s) with
    | None => [(i, 1%nat)]
    | Some (out, best') =>
      (if ntfns_eqb out (bs_ntfns s) then [] else [(i, 2%nat)]) ++
      (if (m_hash best' =? bs_best s)%N then [] else [(i, 3%nat)]) ++
      run_steps t best' (S i) rest
    end
  end.

Definition check_case (c : bcase) : list (nat * nat) :=
  run_steps (tree_of (bc_tree c)) (bc_best c) 0 (bc_steps c).

Fixpoint check_from (i : nat) (l : list bcase) : list (nat * nat * nat) :=
  match l with
  | [] => []
  | c :: rest => map (fun x => (i, x.1, x.2)) (check_case c) ++ check_from (S i) rest
  end.
Definition bd_failures := check_from 0.

(** * The rescan loop (Sync/BitcoindRescan.v)

    Phase 1: the loop on the node's chain as it was when the rescan started,
    up to the last block fetched before the node reorganised ([rc_old_above]);
    phase 2: the same loop state continued against the reorganised best chain
    (zipper [rc_new_below] / [rc_new_above] at the loop's height). *)
From Verif Require Import Sync.BitcoindRescan.

Record rcase := {
  rc_tree : list (N * N * Z * Z);
  rc_start : N; rc_start_h : Z;
  rc_old_below : list N;      (* old chain at heights start, start-1, ... *)
  rc_old_above : list N;      (* old chain at heights start+1 .. last block fetched before the reorganisation *)
  rc_new_below : list N;      (* new best chain at heights i-1, i-2, ... where i = start + |old_above| + 1 *)
  rc_new_above : list N;      (* new best chain at heights i, i+1, ... *)
  rc_ntfns : list ntfn;       (* observed *)
}.

Definition rcase_run (c : rcase) : option (list ntfn) :=
  let t := tree_of (rc_tree c) in
  let s0 := {| r_prev := rc_start c; r_prevh := rc_start_h c; r_stack := [(rc_start c, rc_start_h c)];
               r_i := rc_start_h c + 1; r_below := rc_old_below c; r_above := rc_old_above c |} in
  match rescan t s0 with
  | None => None
  | Some (out1, s1) =>
    match rscan bitcoind_rescan_steps_down t (length (rc_new_below c) + length (rc_new_above c) + 1)
            {| r_prev := r_prev s1; r_prevh := r_prevh s1; r_stack := r_stack s1; r_i := r_i s1;
               r_below := rc_new_below c; r_above := rc_new_above c |} out1 with
    | None => None
    | Some (out2, _) => Some out2
    end
  end.

(** 0 = agrees; 1 = the model reports a failed node request; 2 = streams differ *)
Definition rcase_code (c : rcase) : nat :=
  match rcase_run c with
  | None => 1
  | Some out => if ntfns_eqb out (rc_ntfns c) then 0 else 2
  end.

Fixpoint rcheck_from (i : nat) (l : list rcase) : list (nat * nat) :=
  match l with
  | [] => []
  | c :: rest => (match rcase_code c with O => [] | k => [(i, k)] end) ++ rcheck_from (S i) rest
  end.
Definition rescan_failures := rcheck_from 0.
