(** Correspondence check for Sync/BitcoindReorg.v: the model's notification
    stream on the block notifications the real poller handed to the real
    BitcoindClient, compared with the stream the real client emitted
    (harness/cmd/c15bd).  Block ids are interned hashes shifted by one (0 is
    the all-zero hash). *)
From stdpp Require Import gmap list numbers.
From Coq Require Import ZArith NArith.
From Verif Require Import Generated.SyncFacts Sync.Sync Sync.BitcoindReorg.
Local Open Scope Z_scope.

Definition bmk (h : Z) (hash : N) (t : Z) : bmeta := {| m_height := h; m_hash := hash; m_time := t |}.
Definition nc (h : Z) (hash : N) (t : Z) : ntfn := NConnect (bmk h hash t).
Definition nd (h : Z) (hash : N) (t : Z) : ntfn := NDisconnect (bmk h hash t).

Definition bmeta_eqb (a b : bmeta) : bool :=
  (m_height a =? m_height b) && (m_hash a =? m_hash b)%N && (m_time a =? m_time b).
Definition ntfn_eqb (a b : ntfn) : bool :=
  match a, b with
  | NConnect x, NConnect y => bmeta_eqb x y
  | NDisconnect x, NDisconnect y => bmeta_eqb x y
  | _, _ => false
  end.
Fixpoint ntfns_eqb (a b : list ntfn) : bool :=
  match a, b with
  | [], [] => true
  | x :: a', y :: b' => ntfn_eqb x y && ntfns_eqb a' b'
  | _, _ => false
  end.

(** One step: the blocks handed over, the notifications observed, the
    client's best block afterwards (its hash). *)
Record bstep := { bs_handed : list N; bs_ntfns : list ntfn; bs_best : N }.
Record bcase := { bc_tree : list (N * N * Z * Z); bc_best : bmeta; bc_steps : list bstep }.

(** Indices of the steps on which the model (with the regenerated fact)
    differs from what was observed: 1 = the model reports a failed node
    request, 2 = notifications differ, 3 = best block differs. *)
Fixpoint run_steps (t : gmap N bhdr) (best : bmeta) (i : nat) (l : list bstep) : list (nat * nat) :=
  match l with
  | [] => []
  | s :: rest =>
    match on_blocks t best (bs_handed s) with
    | None => [(i, 1%nat)]
    | Some (out, best') =>
      (if ntfns_eqb out (bs_ntfns s) then [] else [(i, 2%nat)]) ++
      (if (m_hash best' =? bs_best s)%N then [] else [(i, 3%nat)]) ++
      run_steps t best' (S i) rest
    end
  end.

Definition check_case (c : bcase) : list (nat * nat) :=
  run_steps (tree_of (bc_tree c)) (bc_best c) 0 (bc_steps c).

Fixpoint check_from (i : nat) (l : list bcase) : list (nat * nat * nat) :=
  match l with
  | [] => []
  | c :: rest => map (fun x => (i, x.1, x.2)) (check_case c) ++ check_from (S i) rest
  end.
Definition bd_failures := check_from 0.
