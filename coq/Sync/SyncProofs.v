(** Proofs for property C15 over the model Sync/Sync.v.

    Specification side: [nstate] is the chain "as the notifications delivered
    so far describe it" ([nc]), the block whose transactions are being
    notified ahead of its block-connected notification ([npend]) and the
    lowest height from which the wallet remembers the chain ([nlo]: where it
    started following, raised by the pruning of PutSyncedTo).  [nstep] says
    which notifications are admissible in a state and how they change it;
    [Inv] relates such a state to a wallet state.

    Main results:
      handle_inv / run_inv     every admissible notification (stream) keeps [Inv]
      emit_nrun                the notifications of a chain evolution are
                               admissible and describe the evolved chain
      noisy_nrun               so is the stream with stale notifications added
      follows_evolution(s)     C15, online part
      sync_rollback_spec       C15, start-up rollback (also across the birthday block)
      startup_complete         rescan notifications + catchUpHashes after it
      first_startup_spec / first_sync_follows
                               C15, first synchronisation (birthdayStamp == nil)
      sync_rollback_birthday   what the birthday-reset branch is for
      sync_rollback_backend_lower, sync_rollback_fork_below_window, first_sync_repeated
                               where the start-up gives up (the _partial theorems)
    All results about [handle]/[run] take the regenerated fact
    [disconnect_records_parent_hash = true] as a premise; [max_reorg_depth]
    stays symbolic ([0 < max_reorg_depth] follows from [Tracks]; it is a
    premise only where a first consistent state is built). *)
From stdpp Require Import gmap list numbers.
From Coq Require Import ZArith NArith Lia.
From Verif Require Import Generated.SyncFacts Sync.Sync.
Local Open Scope Z_scope.
Local Arguments insert_tx : simpl never.
Local Arguments put_synced_to : simpl never.

(** * Chains *)

Lemma chain_at_range c h b : chain_at c h = Some b -> 0 <= h <= tip_height c.
Proof.
  unfold chain_at, tip_height. destruct (h <? 0) eqn:E; [discriminate|].
  intros H. apply lookup_lt_Some in H. lia.
Qed.

Lemma chain_at_is_Some c h : 0 <= h <= tip_height c -> is_Some (chain_at c h).
Proof.
  unfold chain_at, tip_height. intros H. destruct (h <? 0) eqn:E; [lia|].
  apply lookup_lt_is_Some. lia.
Qed.

Lemma chain_at_elem c h b : chain_at c h = Some b -> b ∈ c.
Proof.
  unfold chain_at. destruct (h <? 0); [discriminate|]. apply elem_of_list_lookup_2.
Qed.

Lemma chain_at_app_l c l h : h <= tip_height c -> chain_at (c ++ l) h = chain_at c h.
Proof.
  unfold chain_at, tip_height. intros H. destruct (h <? 0) eqn:E; [done|].
  apply lookup_app_l. lia.
Qed.

Lemma chain_at_app_r c l h :
  tip_height c < h -> chain_at (c ++ l) h = l !! Z.to_nat (h - tip_height c - 1).
Proof.
  unfold chain_at, tip_height. intros H. destruct (h <? 0) eqn:E; [lia|].
  rewrite lookup_app_r by lia. f_equal. lia.
Qed.

Lemma chain_at_take c n h : h < Z.of_nat n -> chain_at (take n c) h = chain_at c h.
Proof.
  unfold chain_at. intros H. destruct (h <? 0) eqn:E; [done|].
  apply lookup_take. lia.
Qed.

Lemma tip_height_app c l : tip_height (c ++ l) = tip_height c + Z.of_nat (length l).
Proof. unfold tip_height. rewrite app_length. lia. Qed.

Lemma tip_height_take c n : (n <= length c)%nat -> tip_height (take n c) = Z.of_nat n - 1.
Proof. unfold tip_height. intros. rewrite take_length. lia. Qed.

Lemma chain_at_tip c : c <> [] -> chain_at c (tip_height c) = list.last c.
Proof.
  intros Hc. unfold chain_at, tip_height.
  assert (0 < length c)%nat by (destruct c; simpl; [done|lia]).
  destruct (_ <? 0) eqn:E; [lia|].
  rewrite last_lookup. f_equal. lia.
Qed.

Lemma tip_height_nonneg c : c <> [] -> 0 <= tip_height c.
Proof. unfold tip_height. destruct c; [done|]. simpl. lia. Qed.

(** * Specification side: the chain the notifications describe *)

Definition on_chain (c : chain) (h : Z) (hash : N) : Prop :=
  exists b, chain_at c h = Some b /\ bh b = hash.
Definition on_chainb (c : chain) (h : Z) (hash : N) : bool :=
  match chain_at c h with Some b => (bh b =? hash)%N | None => false end.

Lemma on_chainb_spec c h hash : on_chainb c h hash = true <-> on_chain c h hash.
Proof.
  unfold on_chainb, on_chain. destruct (chain_at c h) as [b|]; split.
  - intros H. exists b. split; [done|]. by apply N.eqb_eq.
  - intros (b' & [= <-] & H). by apply N.eqb_eq.
  - discriminate.
  - intros (b' & H & _). discriminate.
Qed.

Lemma on_chain_app c l h hash : on_chain c h hash -> on_chain (c ++ l) h hash.
Proof.
  intros (b & Hb & E). exists b. split; [|done].
  rewrite chain_at_app_l; [done|]. apply chain_at_range in Hb. lia.
Qed.

Lemma on_chain_take c n h hash : h < Z.of_nat n -> on_chain c h hash -> on_chain (take n c) h hash.
Proof. intros Hh (b & Hb & E). exists b. split; [|done]. by rewrite chain_at_take. Qed.

Record nstate := { nc : chain; npend : option (Z * N); nlo : Z }.

(** A disconnect of height [h] stays inside the stored window: the parent
    ([h-1]) and, for the predecessor check of PutSyncedTo, the grandparent
    ([h-2]) are remembered - or the parent is the genesis block of a wallet
    that follows the chain from genesis. *)
Definition disc_ok (lo h : Z) : bool := (lo <=? h - 2) || ((lo =? 0) && (h =? 1)).

Definition pend_ok (p : option (Z * N)) (h : Z) (hash : N) : bool :=
  match p with None => true | Some q => (q.1 =? h) && (q.2 =? hash)%N end.
Definition no_pend (p : option (Z * N)) : bool :=
  match p with None => true | Some _ => false end.
Definition known (hdr : headers) (hash : N) : bool :=
  match hdr !! hash with Some _ => true | None => false end.

(** Admissible notifications.
    - BlockConnected: the successor of the described tip (the block whose
      transactions were announced, if any), header known to the backend.
    - BlockDisconnected for a block of the described chain (the tip in a real
      evolution; any height is allowed: "this block and all after it"): no
      block is half-announced, and it stays inside the window.
    - BlockDisconnected for a block that is NOT on the described chain (stale,
      repeated, unknown hash, future height), at a height from the window up:
      admissible at any time, describes nothing.
    - RelevantTx: unmined; or in a block of the described chain; or in the
      next block, ahead of its BlockConnected. *)
Definition nstep (hdr : headers) (s : nstate) (n : ntfn) : option nstate :=
  match n with
  | NConnect b =>
    if (m_height b =? tip_height (nc s) + 1) && pend_ok (npend s) (m_height b) (m_hash b)
       && known hdr (m_hash b)
    then Some {| nc := nc s ++ [blk_of b]; npend := None;
                 nlo := Z.max (nlo s) (m_height b - max_reorg_depth + 1) |}
    else None
  | NDisconnect b =>
    if on_chainb (nc s) (m_height b) (m_hash b) then
      if no_pend (npend s) && disc_ok (nlo s) (m_height b)
      then Some {| nc := take (Z.to_nat (m_height b)) (nc s); npend := None; nlo := nlo s |}
      else None
    else if nlo s <=? m_height b then Some s else None
  | NTx _ _ None => Some s
  | NTx _ _ (Some b) =>
    if on_chainb (nc s) (m_height b) (m_hash b) then Some s
    else if (m_height b =? tip_height (nc s) + 1) && pend_ok (npend s) (m_height b) (m_hash b)
    then Some {| nc := nc s; npend := Some (m_height b, m_hash b); nlo := nlo s |}
    else None
  end.

Fixpoint nrun (hdr : headers) (s : nstate) (l : list ntfn) : option nstate :=
  match l with
  | [] => Some s
  | n :: l' => match nstep hdr s n with Some s1 => nrun hdr s1 l' | None => None end
  end.

Lemma nrun_app hdr s l1 l2 :
  nrun hdr s (l1 ++ l2) = match nrun hdr s l1 with Some s1 => nrun hdr s1 l2 | None => None end.
Proof.
  revert s. induction l1 as [|n l1 IH]; intros s; simpl; [done|].
  destruct (nstep hdr s n); [apply IH|done].
Qed.

(** * The invariant *)

(** The wallet's sync state follows chain [c] from height [lo] up. *)
Record Tracks (hdr : headers) (c : chain) (lo : Z) (w : wallet) : Prop := {
  tr_height : m_height (synced w) = tip_height c;
  tr_hash : on_chain c (tip_height c) (m_hash (synced w));
  tr_lo : 0 <= lo <= tip_height c;
  tr_prune : tip_height c - max_reorg_depth < lo;
  tr_hashes : forall h b, lo <= h -> chain_at c h = Some b -> hashes w !! h = Some (bh b);
  tr_hdr : forall b, b ∈ c -> is_Some (hdr !! bh b);
}.

(** Every confirmed record names a block of [c] (or the announced block). *)
Definition TxOn (c : chain) (p : option (Z * N)) (w : wallet) : Prop :=
  forall r, r ∈ mined w -> on_chain c (r_height r) (r_hash r) \/ p = Some (r_height r, r_hash r).

Definition Inv (hdr : headers) (s : nstate) (w : wallet) : Prop :=
  Tracks hdr (nc s) (nlo s) w /\ TxOn (nc s) (npend s) w.

Definition consistent (hdr : headers) (c : chain) (lo : Z) (w : wallet) : Prop :=
  Inv hdr {| nc := c; npend := None; nlo := lo |} w.

(** * waddrmgr: PutSyncedTo *)

Lemma put_synced_to_Some bs w :
  m_height bs <= 0 \/ birthday_set w = false \/ is_Some (hashes w !! (m_height bs - 1)) ->
  exists w', put_synced_to bs w = Some w'.
Proof.
  intros H. unfold put_synced_to, has_height.
  destruct (0 <? m_height bs) eqn:E1; simpl; [|eauto].
  destruct (birthday_set w) eqn:E2; simpl; [|eauto].
  destruct H as [H|[H|[x H]]]; [lia|done|]. rewrite H. simpl. eauto.
Qed.

Lemma put_synced_to_spec bs w w' :
  put_synced_to bs w = Some w' ->
  synced w' = bs /\ mined w' = mined w /\ unmined w' = unmined w /\
  chain_synced w' = chain_synced w /\ birthday_set w' = birthday_set w /\
  (forall x, x <> m_height bs - max_reorg_depth \/ m_height bs - max_reorg_depth <= 0 ->
     hashes w' !! x = if decide (x = m_height bs) then Some (m_hash bs) else hashes w !! x).
Proof.
  unfold put_synced_to. destruct (_ && _); [discriminate|]. intros [= <-]. simpl.
  repeat split; try done. intros x Hx. unfold stale_height.
  destruct (0 <? m_height bs - max_reorg_depth) eqn:E.
  - destruct Hx as [Hx|Hx]; [|lia]. rewrite lookup_delete_ne by done.
    destruct (decide (x = m_height bs)) as [->|Hn].
    + by rewrite lookup_insert.
    + by rewrite lookup_insert_ne.
  - destruct (decide (x = m_height bs)) as [->|Hn].
    + by rewrite lookup_insert.
    + by rewrite lookup_insert_ne.
Qed.

(** * wtxmgr, projected *)

Lemma rollback_mined h w : mined (rollback h w) = filter (fun r => r_height r <? h) (mined w).
Proof. done. Qed.

Lemma rollback_sync h w :
  synced (rollback h w) = synced w /\ hashes (rollback h w) = hashes w /\
  chain_synced (rollback h w) = chain_synced w /\ birthday_set (rollback h w) = birthday_set w.
Proof. done. Qed.

Lemma insert_tx_sync t cb b w :
  synced (insert_tx t cb b w) = synced w /\ hashes (insert_tx t cb b w) = hashes w /\
  chain_synced (insert_tx t cb b w) = chain_synced w /\ birthday_set (insert_tx t cb b w) = birthday_set w.
Proof.
  unfold insert_tx. destruct b as [m|].
  - destruct (has_rec _ _ _ _); done.
  - destruct (_ || _); done.
Qed.

Lemma insert_tx_mined t cb b w r :
  r ∈ mined (insert_tx t cb b w) ->
  r ∈ mined w \/ exists m, b = Some m /\ r_height r = m_height m /\ r_hash r = m_hash m.
Proof.
  unfold insert_tx. destruct b as [m|].
  - destruct (has_rec _ _ _ _); simpl; [eauto|].
    rewrite elem_of_app, elem_of_list_singleton. intros [H| ->]; [eauto|].
    right. exists m. done.
  - destruct (_ || _); simpl; eauto.
Qed.

Lemma Tracks_ext hdr c lo w w' :
  synced w' = synced w -> hashes w' = hashes w -> Tracks hdr c lo w -> Tracks hdr c lo w'.
Proof. intros E1 E2 [? ? ? ? ? ?]. split; rewrite ?E1, ?E2; done. Qed.

Lemma reset_birthday_same stamp w :
  synced (reset_birthday stamp w) = synced w /\ hashes (reset_birthday stamp w) = hashes w /\
  mined (reset_birthday stamp w) = mined w /\ unmined (reset_birthday stamp w) = unmined w /\
  chain_synced (reset_birthday stamp w) = chain_synced w /\
  birthday_set (reset_birthday stamp w) = birthday_set w.
Proof.
  unfold reset_birthday, crosses_birthday. destruct (birthday_set w) eqn:E; simpl; [|done].
  destruct (_ && _); done.
Qed.

Lemma put_synced_to_bday bs w w' : put_synced_to bs w = Some w' -> bday w' = bday w.
Proof. unfold put_synced_to. destruct (_ && _); [discriminate|]. by intros [= <-]. Qed.

(** * The handlers keep the invariant *)

Section handlers.
  Context (hdr : headers).

  Lemma connect_tracks c lo w b :
    Tracks hdr c lo w -> m_height b = tip_height c + 1 -> known hdr (m_hash b) = true ->
    exists w', put_synced_to b w = Some w' /\
      Tracks hdr (c ++ [blk_of b]) (Z.max lo (m_height b - max_reorg_depth + 1)) w' /\
      mined w' = mined w /\ unmined w' = unmined w /\ chain_synced w' = chain_synced w /\
      birthday_set w' = birthday_set w.
  Proof.
    intros [Hh Hhash Hlo Hpr Hhs Hhdr] Hb Hk.
    destruct (chain_at_is_Some c (tip_height c)) as [bt' Hbt]; [lia|].
    destruct (put_synced_to_Some b w) as [w' Hw'].
    { right; right. rewrite Hb. replace (tip_height c + 1 - 1) with (tip_height c) by lia.
      rewrite (Hhs (tip_height c) bt' ltac:(lia) Hbt). eauto. }
    exists w'. split; [done|].
    destruct (put_synced_to_spec _ _ _ Hw') as (Es & Em & Eu & Ec & Eb & Ehs).
    split; [|done].
    assert (Htip : tip_height (c ++ [blk_of b]) = m_height b).
    { rewrite tip_height_app. simpl. lia. }
    assert (Hat : chain_at (c ++ [blk_of b]) (m_height b) = Some (blk_of b)).
    { rewrite chain_at_app_r by lia. replace (m_height b - tip_height c - 1) with 0 by lia. done. }
    split.
    - by rewrite Es, Htip.
    - rewrite Es, Htip. exists (blk_of b). done.
    - rewrite Htip. lia.
    - rewrite Htip. lia.
    - intros h x Hh' Hx. rewrite Ehs by lia.
      destruct (decide (h = m_height b)) as [->|Hn].
      + rewrite Hat in Hx. by injection Hx as <-.
      + apply Hhs; [lia|]. rewrite <- Hx. symmetry. apply chain_at_app_l.
        apply chain_at_range in Hx. rewrite Htip in Hx. lia.
    - intros x. rewrite elem_of_app, elem_of_list_singleton. intros [Hx| ->]; [by apply Hhdr|].
      simpl. unfold known in Hk. destruct (hdr !! m_hash b); [eauto|discriminate].
  Qed.

  Lemma disconnect_tracks c lo w b :
    Tracks hdr c lo w -> chain_synced w = true ->
    on_chain c (m_height b) (m_hash b) -> disc_ok lo (m_height b) = true ->
    exists w', disconnect_block_with true hdr b w = (w', false) /\
      Tracks hdr (take (Z.to_nat (m_height b)) c) lo w' /\
      mined w' = filter (fun r => r_height r <? m_height b) (mined w) /\
      chain_synced w' = true.
  Proof.
    intros [Hh Hhash Hlo Hpr Hhs Hhdr] Hcs (x & Hx & Ex) Hok.
    assert (Hd : lo <= m_height b - 2 \/ (lo = 0 /\ m_height b = 1)).
    { unfold disc_ok in Hok. lia. }
    pose proof (chain_at_range _ _ _ Hx) as Hr.
    assert (Hh1 : 1 <= m_height b) by lia.
    destruct (chain_at_is_Some c (m_height b - 1)) as [p Hp]; [lia|].
    unfold disconnect_block_with. rewrite Hcs. simpl.
    destruct (m_height b <=? m_height (synced w)) eqn:E; [|lia].
    rewrite (Hhs (m_height b) x ltac:(lia) Hx). rewrite Ex, N.eqb_refl.
    rewrite (Hhs (m_height b - 1) p ltac:(lia) Hp).
    destruct (Hhdr p (chain_at_elem _ _ _ Hp)) as [t Ht]. rewrite Ht.
    set (bs := {| m_height := m_height b - 1; m_hash := bh p; m_time := t |}).
    destruct (put_synced_to_Some bs w) as [w1 Hw1].
    { simpl. destruct Hd as [Hd|[Hd1 Hd2]]; [|left; lia].
      right; right. destruct (chain_at_is_Some c (m_height b - 1 - 1)) as [q Hq]; [lia|].
      rewrite (Hhs (m_height b - 1 - 1) q ltac:(lia) Hq). eauto. }
    rewrite Hw1. eexists. split; [done|].
    destruct (put_synced_to_spec _ _ _ Hw1) as (Es & Em & Eu & Ec & Eb & Ehs).
    assert (Hlen : (Z.to_nat (m_height b) <= length c)%nat).
    { unfold tip_height in Hr. lia. }
    assert (Htip : tip_height (take (Z.to_nat (m_height b)) c) = m_height b - 1).
    { rewrite tip_height_take by done. lia. }
    split; [|split].
    - apply (Tracks_ext _ _ _ w1); [done|done|]. split.
      + by rewrite Es, Htip.
      + rewrite Es, Htip. exists p. split; [|done]. rewrite chain_at_take by lia. done.
      + rewrite Htip. lia.
      + rewrite Htip. lia.
      + intros h y Hh' Hy. pose proof (chain_at_range _ _ _ Hy) as Hry. rewrite Htip in Hry.
        rewrite chain_at_take in Hy by lia.
        rewrite Ehs by (simpl; lia). simpl.
        destruct (decide (h = m_height b - 1)) as [->|Hn].
        * rewrite Hp in Hy. by injection Hy as <-.
        * by apply Hhs.
      + intros y Hy. apply Hhdr. apply elem_of_take in Hy as (i & Hi & _). by eapply elem_of_list_lookup_2.
    - rewrite rollback_mined. by rewrite Em.
    - simpl. by rewrite Ec.
  Qed.

  Lemma stale_disconnect_unchanged c lo w b :
    Tracks hdr c lo w -> ~ on_chain c (m_height b) (m_hash b) -> lo <= m_height b ->
    disconnect_block_with true hdr b w = (w, false).
  Proof.
    intros [Hh Hhash Hlo Hpr Hhs Hhdr] Hn Hb.
    unfold disconnect_block_with. destruct (negb (chain_synced w)); [done|].
    destruct (m_height b <=? m_height (synced w)) eqn:E; [|done].
    destruct (chain_at_is_Some c (m_height b)) as [x Hx]; [lia|].
    rewrite (Hhs _ _ Hb Hx).
    destruct (bh x =? m_hash b)%N eqn:E2; [|done].
    exfalso. apply Hn. exists x. split; [done|]. by apply N.eqb_eq.
  Qed.

  Lemma handle_inv s w n s' :
    Inv hdr s w -> chain_synced w = true -> nstep hdr s n = Some s' ->
    exists w', handle_with true hdr n w = (w', false) /\ Inv hdr s' w' /\ chain_synced w' = true.
  Proof.
    intros [Htr Htx] Hcs Hstep. destruct n as [b|b|t cb [b|]]; simpl in Hstep.
    - (* BlockConnected *)
      destruct (_ && _) eqn:E; [|discriminate]. injection Hstep as <-.
      apply andb_prop in E as [E Hk]. apply andb_prop in E as [Hb Hp].
      apply Z.eqb_eq in Hb.
      destruct (connect_tracks _ _ _ _ Htr Hb Hk) as (w' & Hw' & Htr' & Em & Eu & Ec & Eb).
      exists w'. simpl. unfold connect_block. rewrite Hw'. split; [done|].
      split; [|by rewrite Ec]. split; [done|]. simpl.
      intros r Hr. rewrite Em in Hr. left. destruct (Htx r Hr) as [Hon|Hpe].
      + by apply on_chain_app.
      + rewrite Hpe in Hp. simpl in Hp. apply andb_prop in Hp as [Hp1 Hp2].
        apply Z.eqb_eq in Hp1. apply N.eqb_eq in Hp2.
        exists (blk_of b). split; [|done]. rewrite Hp1.
        rewrite chain_at_app_r by lia. replace (m_height b - tip_height (nc s) - 1) with 0 by lia. done.
    - (* BlockDisconnected *)
      destruct (on_chainb _ _ _) eqn:Eon.
      + destruct (_ && _) eqn:E; [|discriminate]. injection Hstep as <-.
        apply andb_prop in E as [Hnp Hok]. apply on_chainb_spec in Eon.
        destruct (disconnect_tracks _ _ _ _ Htr Hcs Eon Hok) as (w' & Hw' & Htr' & Em & Ec).
        exists w'. split; [done|]. split; [|done]. split; [done|]. simpl.
        intros r Hr. rewrite Em in Hr. apply elem_of_list_filter in Hr as [Hlt Hr].
        left. destruct (Htx r Hr) as [Hon|Hpe].
        * destruct Eon as (x & Hx & _). apply chain_at_range in Hx.
          apply on_chain_take; [|done].
          destruct (r_height r <? m_height b) eqn:E'; [lia|done].
        * rewrite Hpe in Hnp. discriminate.
      + destruct (nlo s <=? m_height b) eqn:E; [|discriminate]. injection Hstep as <-.
        exists w. split; [|done]. simpl. apply (stale_disconnect_unchanged _ _ _ _ Htr); [|lia].
        intros Hon. apply on_chainb_spec in Hon. congruence.
    - (* RelevantTx in a block *)
      exists (insert_tx t cb (Some b) w). split; [done|].
      destruct (insert_tx_sync t cb (Some b) w) as (E1 & E2 & E3 & E4).
      split; [|by rewrite E3].
      destruct (on_chainb _ _ _) eqn:Eon.
      + injection Hstep as <-. split; [by apply (Tracks_ext _ _ _ w)|].
        intros r Hr. apply insert_tx_mined in Hr as [Hr|(m & [= <-] & Eh & Eha)]; [by apply Htx|].
        left. rewrite Eh, Eha. by apply on_chainb_spec.
      + destruct (_ && _) eqn:E; [|discriminate]. injection Hstep as <-.
        apply andb_prop in E as [Hb Hp]. split; [by apply (Tracks_ext _ _ _ w)|]. simpl.
        intros r Hr. apply insert_tx_mined in Hr as [Hr|(m & [= <-] & Eh & Eha)].
        * destruct (Htx r Hr) as [Hon|Hpe]; [by left|]. right.
          rewrite Hpe in Hp. simpl in Hp. apply andb_prop in Hp as [Hp1 Hp2].
          apply Z.eqb_eq in Hp1. apply N.eqb_eq in Hp2. by rewrite Hp1, Hp2.
        * right. by rewrite Eh, Eha.
    - (* RelevantTx, unmined *)
      injection Hstep as <-. exists (insert_tx t cb None w). split; [done|].
      destruct (insert_tx_sync t cb None w) as (E1 & E2 & E3 & E4).
      split; [|by rewrite E3]. split; [by apply (Tracks_ext _ _ _ w)|].
      intros r Hr. apply insert_tx_mined in Hr as [Hr|(m & [=] & _)]. by apply Htx.
  Qed.

  Lemma run_inv l : forall s w s',
    Inv hdr s w -> chain_synced w = true -> nrun hdr s l = Some s' ->
    exists w', run_with true hdr l w = (w', false) /\ Inv hdr s' w' /\ chain_synced w' = true.
  Proof.
    induction l as [|n l IH]; intros s w s' Hinv Hcs Hrun; simpl in *.
    - injection Hrun as <-. exists w. done.
    - destruct (nstep hdr s n) as [s1|] eqn:E; [|discriminate].
      destruct (handle_inv _ _ _ _ Hinv Hcs E) as (w1 & H1 & Hinv1 & Hcs1).
      destruct (IH _ _ _ Hinv1 Hcs1 Hrun) as (w2 & H2 & Hinv2 & Hcs2).
      exists w2. rewrite H1, H2. done.
  Qed.
End handlers.

(** * The notifications of an evolution describe the evolved chain *)

Lemma disc_ok_mono lo h h' : disc_ok lo h = true -> 1 <= h <= h' -> disc_ok lo h' = true.
Proof. unfold disc_ok. lia. Qed.

Definition headers_known (hdr : headers) (c : chain) : Prop := forall b, b ∈ c -> is_Some (hdr !! bh b).

(** An evolution is valid in the window: the genesis block stays, the lowest
    replaced block is inside the stored window, the backend knows the
    headers of the new blocks. *)
Definition valid_evo (hdr : headers) (c : chain) (lo : Z) (e : evo) : Prop :=
  (e_depth e < length c)%nat /\
  (e_depth e = 0%nat \/ disc_ok lo (tip_height c - Z.of_nat (e_depth e) + 1) = true) /\
  headers_known hdr (map nb_blk (e_new e)).

Lemma emit_disconnects_nrun hdr d : forall c lo,
  (d < length c)%nat -> (d = 0%nat \/ disc_ok lo (tip_height c - Z.of_nat d + 1) = true) ->
  nrun hdr {| nc := c; npend := None; nlo := lo |} (emit_disconnects c d)
  = Some {| nc := take (length c - d) c; npend := None; nlo := lo |}.
Proof.
  induction d as [|d IH]; intros c lo Hd Hok; simpl.
  - rewrite Nat.sub_0_r, firstn_all. done.
  - destruct Hok as [Hok|Hok]; [done|].
    assert (Hc : c <> []) by (destruct c; simpl in Hd; [lia|done]).
    pose proof (chain_at_tip c Hc) as Htip.
    destruct (list.last c) as [b|] eqn:El.
    2:{ apply last_None in El. done. }
    simpl. unfold on_chainb. simpl. rewrite Htip. simpl. rewrite N.eqb_refl. simpl.
    assert (Hk : disc_ok lo (tip_height c) = true).
    { apply (disc_ok_mono _ _ _ Hok). unfold tip_height in *. unfold disc_ok in Hok. lia. }
    rewrite Hk.
    replace (Z.to_nat (tip_height c)) with (length c - 1)%nat by (unfold tip_height; lia).
    rewrite IH.
    + rewrite take_take, take_length. do 3 f_equal. lia.
    + rewrite take_length. lia.
    + destruct d as [|d']; [by left|right].
      rewrite tip_height_take by lia. unfold tip_height in *.
      replace (Z.of_nat (length c - 1) - 1 - Z.of_nat (S d') + 1)
        with (Z.of_nat (length c) - 1 - Z.of_nat (S (S d')) + 1) by lia. done.
Qed.

Lemma nrun_pre hdr c lo m (pre : list (N * bool)) : forall p,
  m_height m = tip_height c + 1 -> pend_ok p (m_height m) (m_hash m) = true ->
  exists p', nrun hdr {| nc := c; npend := p; nlo := lo |} (map (fun t => NTx t.1 t.2 (Some m)) pre)
             = Some {| nc := c; npend := p'; nlo := lo |} /\
             pend_ok p' (m_height m) (m_hash m) = true.
Proof.
  induction pre as [|t pre IH]; intros p Hm Hp; simpl.
  - eauto.
  - unfold on_chainb. simpl.
    assert (chain_at c (m_height m) = None) as ->.
    { destruct (chain_at c (m_height m)) eqn:E; [|done]. apply chain_at_range in E. lia. }
    rewrite Hm, Z.eqb_refl. rewrite <- Hm, Hp. simpl.
    apply IH; [done|]. simpl. by rewrite Z.eqb_refl, N.eqb_refl.
Qed.

Lemma nrun_post hdr c lo m (post : list (N * bool)) :
  on_chain c (m_height m) (m_hash m) ->
  nrun hdr {| nc := c; npend := None; nlo := lo |} (map (fun t => NTx t.1 t.2 (Some m)) post)
  = Some {| nc := c; npend := None; nlo := lo |}.
Proof.
  intros Hon. apply on_chainb_spec in Hon. induction post as [|t post IH]; simpl; [done|].
  by rewrite Hon.
Qed.

(** [lo] after connecting [n] blocks on top of height [tip]. *)
Definition lo_ext (lo tip : Z) (n : nat) : Z :=
  match n with O => lo | S _ => Z.max lo (tip + Z.of_nat n - max_reorg_depth + 1) end.

Lemma emit_connects_nrun hdr new : forall c lo,
  c <> [] -> headers_known hdr (map nb_blk new) ->
  nrun hdr {| nc := c; npend := None; nlo := lo |} (emit_connects (tip_height c + 1) new)
  = Some {| nc := c ++ map nb_blk new; npend := None; nlo := lo_ext lo (tip_height c) (length new) |}.
Proof.
  induction new as [|nb new IH]; intros c lo Hc Hk; simpl.
  - by rewrite app_nil_r.
  - set (m := meta_of (tip_height c + 1) (nb_blk nb)).
    rewrite nrun_app.
    destruct (nrun_pre hdr c lo m (nb_pre nb) None) as (p' & -> & Hp'); [done|done|].
    simpl. rewrite Z.eqb_refl. simpl in Hp'. rewrite Hp'. simpl.
    assert (Hkn : known hdr (bh (nb_blk nb)) = true).
    { unfold known. destruct (Hk (nb_blk nb)) as [t ->]; [|done]. simpl. apply elem_of_list_here. }
    rewrite Hkn. rewrite nrun_app.
    assert (Hblk : blk_of m = nb_blk nb) by (destruct nb as [[]]; done).
    rewrite Hblk.
    assert (Htip : tip_height (c ++ [nb_blk nb]) = tip_height c + 1).
    { rewrite tip_height_app. simpl. lia. }
    rewrite nrun_post.
    2:{ exists (nb_blk nb). split; [|done]. simpl. rewrite chain_at_app_r by lia.
        replace (tip_height c + 1 - tip_height c - 1) with 0 by lia. done. }
    replace (tip_height c + 1 + 1) with (tip_height (c ++ [nb_blk nb]) + 1) by lia.
    rewrite IH.
    + rewrite <- app_assoc. simpl. f_equal. f_equal. rewrite Htip. unfold lo_ext.
      destruct new as [|? new']; simpl length; cbv iota beta; lia.
    + by destruct c.
    + intros b Hb. apply Hk. simpl. by apply elem_of_list_further.
Qed.

Lemma emit_nrun hdr c lo e :
  valid_evo hdr c lo e ->
  nrun hdr {| nc := c; npend := None; nlo := lo |} (emit c e)
  = Some {| nc := apply_evo c e; npend := None;
            nlo := lo_ext lo (tip_height c - Z.of_nat (e_depth e)) (length (e_new e)) |}.
Proof.
  intros (Hd & Hok & Hk). unfold emit, apply_evo. rewrite nrun_app.
  rewrite emit_disconnects_nrun by done.
  assert (Htip : tip_height (take (length c - e_depth e) c) = tip_height c - Z.of_nat (e_depth e)).
  { rewrite tip_height_take by lia. unfold tip_height. lia. }
  rewrite <- Htip. apply emit_connects_nrun; [|done].
  intros E. apply (f_equal length) in E. rewrite take_length in E. simpl in E. lia.
Qed.

(** Stale / redundant notifications: anything admissible that describes no
    change may be inserted anywhere. *)
Inductive noisy (hdr : headers) : nstate -> list ntfn -> list ntfn -> Prop :=
| noisy_nil s : noisy hdr s [] []
| noisy_keep s n s1 l l' : nstep hdr s n = Some s1 -> noisy hdr s1 l l' -> noisy hdr s (n :: l) (n :: l')
| noisy_add s n l l' : nstep hdr s n = Some s -> noisy hdr s l l' -> noisy hdr s l (n :: l').

Lemma noisy_refl hdr l : forall s s', nrun hdr s l = Some s' -> noisy hdr s l l.
Proof.
  induction l as [|n l IH]; intros s s' H; simpl in H; [constructor|].
  destruct (nstep hdr s n) as [s1|] eqn:E; [|discriminate].
  eapply noisy_keep; [done|]. by eapply IH.
Qed.

Lemma noisy_nrun hdr s l l' s' : noisy hdr s l l' -> nrun hdr s l = Some s' -> nrun hdr s l' = Some s'.
Proof.
  induction 1 as [s|s n s1 l l' Hn _ IH|s n l l' Hn _ IH]; simpl; intros H.
  - done.
  - rewrite Hn in *. by apply IH.
  - rewrite Hn. by apply IH.
Qed.

(** * C15, online part *)

Section online.
  Context (hdr : headers).
  Hypothesis Hfact : disconnect_records_parent_hash = true.

  Lemma run_fact l w : run hdr l w = run_with true hdr l w.
  Proof. unfold run. by rewrite Hfact. Qed.

  Theorem follows_stream s w l s' :
    Inv hdr s w -> chain_synced w = true -> nrun hdr s l = Some s' ->
    exists w', run hdr l w = (w', false) /\ Inv hdr s' w' /\ chain_synced w' = true.
  Proof. rewrite run_fact. by apply run_inv. Qed.

  Theorem follows_evolution c lo w e stream :
    consistent hdr c lo w -> chain_synced w = true ->
    valid_evo hdr c lo e ->
    noisy hdr {| nc := c; npend := None; nlo := lo |} (emit c e) stream ->
    exists w', run hdr stream w = (w', false) /\ chain_synced w' = true /\
      consistent hdr (apply_evo c e) (Z.max lo (tip_height (apply_evo c e) - max_reorg_depth + 1)) w'.
  Proof.
    intros Hc Hcs Hv Hn.
    pose proof (emit_nrun hdr c lo e Hv) as Hrun.
    apply (noisy_nrun _ _ _ _ _ Hn) in Hrun.
    destruct (follows_stream _ _ _ _ Hc Hcs Hrun) as (w' & Hw' & Hinv & Hcs').
    exists w'. split; [done|]. split; [done|].
    unfold consistent.
    replace (Z.max lo (tip_height (apply_evo c e) - max_reorg_depth + 1))
      with (lo_ext lo (tip_height c - Z.of_nat (e_depth e)) (length (e_new e))); [done|].
    destruct Hc as [[_ _ _ Hpr _ _] _]. simpl in Hpr. destruct Hv as (Hd & _).
    unfold apply_evo. rewrite tip_height_app, map_length, tip_height_take by lia.
    unfold lo_ext, tip_height in *. destruct (length (e_new e)); lia.
  Qed.

  (** Any number of evolutions, each with its (noisy) notification stream. *)
  Inductive evolves : chain -> Z -> wallet -> chain -> Z -> wallet -> Prop :=
  | ev_done c lo w : evolves c lo w c lo w
  | ev_step c lo w e stream w1 c2 lo2 w2 :
      valid_evo hdr c lo e ->
      noisy hdr {| nc := c; npend := None; nlo := lo |} (emit c e) stream ->
      run hdr stream w = (w1, false) ->
      evolves (apply_evo c e) (Z.max lo (tip_height (apply_evo c e) - max_reorg_depth + 1)) w1 c2 lo2 w2 ->
      evolves c lo w c2 lo2 w2.

  Theorem follows_evolutions c lo w c2 lo2 w2 :
    consistent hdr c lo w -> chain_synced w = true -> evolves c lo w c2 lo2 w2 ->
    consistent hdr c2 lo2 w2 /\ chain_synced w2 = true.
  Proof.
    intros Hc Hcs Hev. induction Hev as [|c lo w e stream w1 c2 lo2 w2 Hv Hn Hr _ IH]; [done|].
    destruct (follows_evolution _ _ _ _ _ Hc Hcs Hv Hn) as (w' & Hw' & Hcs' & Hc').
    rewrite Hr in Hw'. injection Hw' as <-. by apply IH.
  Qed.

  (** Every step of the run succeeds (no handler returns an error). *)
  Theorem evolution_no_error c lo w e stream :
    consistent hdr c lo w -> chain_synced w = true -> valid_evo hdr c lo e ->
    noisy hdr {| nc := c; npend := None; nlo := lo |} (emit c e) stream ->
    (run hdr stream w).2 = false.
  Proof.
    intros Hc Hcs Hv Hn. destruct (follows_evolution _ _ _ _ _ Hc Hcs Hv Hn) as (w' & -> & _). done.
  Qed.
End online.

(** What [consistent] says, clause by clause (the text of the property). *)
Lemma consistent_clauses hdr c lo w :
  consistent hdr c lo w ->
  (* synced-to = backend tip *)
  m_height (synced w) = tip_height c /\
  (exists b, chain_at c (tip_height c) = Some b /\ m_hash (synced w) = bh b) /\
  (* the remembered hashes, from [lo] up to the tip, are the best chain's; [lo] is inside the reorg-safe window *)
  (forall h b, lo <= h -> chain_at c h = Some b -> hashes w !! h = Some (bh b)) /\
  0 <= lo <= tip_height c /\ tip_height c - max_reorg_depth < lo /\
  (* no transaction confirmed in a block that is not on the best chain *)
  (forall r, r ∈ mined w -> exists b, chain_at c (r_height r) = Some b /\ bh b = r_hash r).
Proof.
  intros [[Hh (b & Hb & E) Hlo Hpr Hhs _] Htx]. simpl in *.
  split; [done|]. split; [eauto|]. split; [done|]. split; [done|]. split; [done|].
  intros r Hr. destruct (Htx r Hr) as [H|H]; [done|discriminate].
Qed.

(** The wallet right after creation follows the chain that consists of the genesis block. *)
Lemma new_wallet_consistent hdr g :
  0 < max_reorg_depth -> is_Some (hdr !! bh g) -> consistent hdr [g] 0 (new_wallet g).
Proof.
  intros Hm Hg. split; [split|]; simpl.
  - done.
  - exists g. done.
  - unfold tip_height. simpl. lia.
  - unfold tip_height. simpl. lia.
  - intros h b Hh Hb. pose proof (chain_at_range _ _ _ Hb) as Hr. unfold tip_height in Hr. simpl in Hr.
    assert (h = 0) as -> by lia. unfold chain_at in Hb. simpl in Hb. injection Hb as <-.
    by rewrite lookup_singleton.
  - intros b Hb. apply elem_of_list_singleton in Hb as ->. done.
  - intros r Hr. by apply elem_of_nil in Hr.
Qed.

(** * C15, start-up: the rollback loop of syncWithChain *)

(** The loop never runs out of the fuel [walk_fuel] gives it: below height 0
    the backend has no block and the loop stops with an error. *)
Lemma walk_no_fuel backend hdr w : forall fuel height rb,
  (Z.to_nat (height + 1) + 1 <= fuel)%nat -> walk fuel backend hdr w height rb <> WFuel.
Proof.
  induction fuel as [|f IH]; intros height rb Hf; simpl; [lia|].
  destruct (hashes w !! height); [|done].
  destruct (chain_at backend height) as [cb|] eqn:E; [|done].
  destruct (hdr !! bh cb); [|done].
  destruct (_ =? _)%N; [done|].
  apply chain_at_range in E. apply IH. lia.
Qed.

(** Chains [p ++ a] (the wallet's) and [p ++ b] (the backend's) share exactly
    the prefix [p]: blocks at the same height above it differ (block hashes
    commit to their ancestors). *)
Definition diverge (a b : chain) : Prop :=
  forall i x y, a !! i = Some x -> b !! i = Some y -> bh x <> bh y.

Section startup.
  Context (hdr : headers).

  Lemma walk_down p a b lo w :
    Tracks hdr (p ++ a) lo w -> p <> [] -> diverge a b -> (length a <= length b)%nat ->
    headers_known hdr (p ++ b) -> lo <= tip_height p ->
    forall k fuel rb, (k <= length a)%nat -> (k + 1 <= fuel)%nat ->
    exists x t, list.last p = Some x /\ hdr !! bh x = Some t /\
      walk fuel (p ++ b) hdr w (tip_height p + Z.of_nat k) rb
      = WFound {| m_height := tip_height p; m_hash := bh x; m_time := t |} (rb || negb (k =? 0)%nat).
  Proof.
    intros Htr Hp Hdiv Hlen Hk Hlo.
    destruct Htr as [Hh Hhash Hlo' Hpr Hhs Hhdr].
    pose proof (tip_height_nonneg p Hp) as Hp0.
    destruct (list.last p) as [x|] eqn:El.
    2:{ apply last_None in El. done. }
    assert (Hx : chain_at p (tip_height p) = Some x) by (by rewrite chain_at_tip).
    destruct (Hk x) as [t Ht].
    { apply elem_of_app. left. by eapply chain_at_elem. }
    induction k as [|k IH]; intros fuel rb Hka Hf.
    - exists x, t. split; [done|]. split; [done|].
      destruct fuel as [|f]; [lia|]. simpl.
      rewrite Z.add_0_r.
      rewrite (Hhs (tip_height p) x Hlo).
      2:{ rewrite chain_at_app_l by lia. done. }
      rewrite chain_at_app_l by lia. rewrite Hx, Ht, N.eqb_refl. by rewrite orb_false_r.
    - destruct fuel as [|f]; [lia|]. simpl.
      assert (Hi : tip_height p < tip_height p + Z.of_nat (S k)) by lia.
      destruct (lookup_lt_is_Some_2 a k) as [ya Hya]; [lia|].
      destruct (lookup_lt_is_Some_2 b k) as [yb Hyb]; [lia|].
      assert (Hidx : Z.to_nat (tip_height p + Z.of_nat (S k) - tip_height p - 1) = k) by lia.
      rewrite (Hhs (tip_height p + Z.of_nat (S k)) ya ltac:(lia)).
      2:{ rewrite chain_at_app_r by done. by rewrite Hidx. }
      rewrite chain_at_app_r by done. rewrite Hidx, Hyb.
      destruct (Hk yb) as [tb ->].
      { apply elem_of_app. right. by eapply elem_of_list_lookup_2. }
      destruct (bh ya =? bh yb)%N eqn:E.
      { apply N.eqb_eq in E. by destruct (Hdiv k ya yb). }
      replace (tip_height p + Z.of_nat (S k) - 1) with (tip_height p + Z.of_nat k) by lia.
      destruct (IH f true) as (x' & t' & Ex & Et & ->); [lia|lia|].
      exists x', t'. split; [done|]. split; [done|]. simpl. by rewrite orb_true_r.
  Qed.

  (** The start-up loop ends at the last common block; if the wallet's tip is
      on the backend's chain nothing changes, otherwise synced-to becomes the
      last common block and the store is rolled back from exactly the height
      above it.  The stored birthday block becomes the last common block when
      the rollback went to or below its height and it is another block
      ([crosses_birthday]); that never makes the transaction fail. *)
  Theorem sync_rollback_spec p a b lo w :
    consistent hdr (p ++ a) lo w -> p <> [] -> diverge a b -> (length a <= length b)%nat ->
    headers_known hdr (p ++ b) ->
    (a = [] \/ disc_ok lo (tip_height p + 1) = true) ->
    exists w', sync_rollback (p ++ b) hdr w = (w', false) /\
      (a = [] -> w' = w) /\
      (a <> [] ->
         m_height (synced w') = tip_height p /\
         mined w' = filter (fun r => r_height r <? tip_height p + 1) (mined w) /\
         chain_synced w' = chain_synced w /\
         consistent hdr p lo w').
  Proof.
    intros [Htr Htx] Hp Hdiv Hlen Hk Hok. simpl in *.
    pose proof (tip_height_nonneg p Hp) as Hp0.
    assert (Hlo : lo <= tip_height p).
    { destruct Hok as [->|Hok].
      - rewrite app_nil_r in Htr. by destruct Htr as [_ _ [_ ?] _ _ _].
      - unfold disc_ok in Hok. lia. }
    unfold sync_rollback, walk_fuel.
    pose proof (tr_height _ _ _ _ Htr) as Hh. rewrite Hh, tip_height_app.
    destruct (walk_down p a b lo w Htr Hp Hdiv Hlen Hk Hlo (length a)
                (Z.to_nat (tip_height p + Z.of_nat (length a)) + 2)%nat false)
      as (x & t & Ex & Et & ->); [lia|lia|].
    simpl. destruct a as [|a0 a].
    - (* the wallet's tip is on the backend's chain *)
      simpl. exists w. done.
    - simpl negb. cbv iota.
      destruct Hok as [Hok|Hok]; [done|].
      set (bs := {| m_height := tip_height p; m_hash := bh x; m_time := t |}).
      destruct Htr as [_ Hhash Hlo' Hpr Hhs Hhdr].
      assert (Hx : chain_at p (tip_height p) = Some x) by (by rewrite chain_at_tip).
      destruct (put_synced_to_Some bs w) as [w1 Hw1].
      { simpl. unfold disc_ok in Hok.
        destruct (decide (tip_height p = 0)) as [E0|E0]; [left; lia|].
        right; right. destruct (chain_at_is_Some p (tip_height p - 1)) as [q Hq]; [lia|].
        rewrite (Hhs (tip_height p - 1) q ltac:(lia)); [eauto|].
        rewrite chain_at_app_l by lia. done. }
      rewrite Hw1. eexists. split; [done|]. split; [done|]. intros _.
      destruct (put_synced_to_spec _ _ _ Hw1) as (Es & Em & Eu & Ec & Eb & Ehs).
      destruct (reset_birthday_same bs w1) as (Rs & Rh & Rm & Ru & Rc & Rb).
      split; [by rewrite (proj1 (rollback_sync _ _)), Rs, Es|].
      split; [by rewrite rollback_mined, Rm, Em|].
      split; [simpl; by rewrite Rc, Ec|].
      rewrite tip_height_app in Hpr, Hlo'.
      split; simpl.
      + apply (Tracks_ext _ _ _ w1); [done|done|]. split.
        * by rewrite Es.
        * rewrite Es. exists x. done.
        * lia.
        * lia.
        * intros h y Hh' Hy. pose proof (chain_at_range _ _ _ Hy) as Hr.
          rewrite Ehs by (simpl; lia). simpl.
          destruct (decide (h = tip_height p)) as [->|Hn].
          -- rewrite Hx in Hy. by injection Hy as <-.
          -- apply Hhs; [done|]. rewrite chain_at_app_l by lia. done.
        * intros y Hy. apply Hk. apply elem_of_app. by left.
      + intros r Hr. rewrite rollback_mined, Rm, Em in Hr.
        apply elem_of_list_filter in Hr as [Hlt Hr]. left.
        destruct (Htx r Hr) as [(y & Hy & Ey)|Hpe]; [|discriminate].
        exists y. split; [|done]. rewrite <- Hy. symmetry. apply chain_at_app_l.
        destruct (r_height r <? tip_height p + 1) eqn:E'; [lia|done].
  Qed.

  (** After the rollback: the rescan's relevant-transaction notifications
      (all for blocks of the backend's chain [B], of which the wallet follows
      the prefix [p]) and then catchUpHashes bring the wallet to [B]. *)
  Definition rescan_ntfn (B : chain) (n : ntfn) : Prop :=
    match n with
    | NTx _ _ None => True
    | NTx _ _ (Some m) => on_chain B (m_height m) (m_hash m)
    | _ => False
    end.

  Lemma rescan_txs_inv B c lo l : forall w,
    Tracks hdr c lo w -> TxOn B None w -> Forall (rescan_ntfn B) l ->
    exists w', run_with true hdr l w = (w', false) /\ Tracks hdr c lo w' /\ TxOn B None w' /\
               chain_synced w' = chain_synced w.
  Proof.
    induction l as [|n l IH]; intros w Htr Htx Hl; simpl.
    - exists w. done.
    - inversion Hl as [|n' l' Hn Hl']; subst.
      destruct n as [?|?|t cb m]; simpl in Hn; try done.
      simpl. destruct (insert_tx_sync t cb m w) as (E1 & E2 & E3 & E4).
      destruct (IH (insert_tx t cb m w)) as (w' & Hw' & Htr' & Htx' & Ecs); [| |done|].
      + by apply (Tracks_ext _ _ _ w).
      + intros r Hr. apply insert_tx_mined in Hr as [Hr|(m' & -> & Eh & Eha)]; [by apply Htx|].
        left. by rewrite Eh, Eha.
      + exists w'. rewrite Hw'. split; [done|]. split; [done|]. split; [done|]. by rewrite Ecs.
  Qed.

  Lemma catch_up_blocks_tracks bs : forall c lo w,
    Tracks hdr c lo w -> headers_known hdr bs ->
    exists w', catch_up_blocks hdr (tip_height c + 1) bs w = Some w' /\
      Tracks hdr (c ++ bs) (lo_ext lo (tip_height c) (length bs)) w' /\
      mined w' = mined w /\ chain_synced w' = chain_synced w.
  Proof.
    induction bs as [|b bs IH]; intros c lo w Htr Hk; simpl.
    - exists w. by rewrite app_nil_r.
    - destruct (Hk b) as [t Ht]; [apply elem_of_list_here|]. rewrite Ht.
      set (m := {| m_height := tip_height c + 1; m_hash := bh b; m_time := t |}).
      destruct (connect_tracks hdr c lo w m Htr) as (w1 & Hw1 & Htr1 & Em & Eu & Ec & Eb); [done| |].
      { unfold known. simpl. by rewrite Ht. }
      rewrite Hw1.
      assert (Hblk : c ++ [blk_of m] = c ++ [{| bh := bh b; bt := t |}]) by done.
      (* the block stored in the chain carries the header time the backend reports *)
      assert (Htr1' : Tracks hdr (c ++ [b]) (Z.max lo (tip_height c + 1 - max_reorg_depth + 1)) w1).
      { destruct Htr1 as [H1 H2 H3 H4 H5 H6]. simpl in *.
        assert (Htip : tip_height (c ++ [blk_of m]) = tip_height (c ++ [b])) by (by rewrite !tip_height_app).
        assert (Hat : forall h y, chain_at (c ++ [b]) h = Some y ->
                      exists y', chain_at (c ++ [blk_of m]) h = Some y' /\ bh y' = bh y).
        { intros h y Hy. destruct (decide (h <= tip_height c)).
          - rewrite chain_at_app_l in Hy by done. exists y. by rewrite chain_at_app_l.
          - rewrite chain_at_app_r in Hy by lia. rewrite chain_at_app_r by lia.
            destruct (Z.to_nat (h - tip_height c - 1)) as [|i]; simpl in *; [|by destruct i].
            injection Hy as <-. eauto. }
        split.
        - by rewrite <- Htip.
        - rewrite <- Htip. destruct H2 as (y & Hy & Ey).
          destruct (chain_at_is_Some (c ++ [b]) (tip_height (c ++ [blk_of m]))) as [y2 Hy2].
          { rewrite Htip. pose proof (tip_height_nonneg (c ++ [b])). destruct c; simpl in *; lia. }
          destruct (Hat _ _ Hy2) as (y' & Hy' & E'). exists y2. split; [done|]. congruence.
        - by rewrite <- Htip.
        - by rewrite <- Htip.
        - intros h y Hh Hy. destruct (Hat _ _ Hy) as (y' & Hy' & E'). rewrite <- E'. by apply H5.
        - intros y. rewrite elem_of_app, elem_of_list_singleton. intros [Hy| ->].
          + apply H6. apply elem_of_app. by left.
          + eauto. }
      destruct (IH (c ++ [b]) _ w1 Htr1') as (w' & Hw' & Htr' & Em' & Ec').
      { intros y Hy. apply Hk. by apply elem_of_list_further. }
      assert (Htip : tip_height (c ++ [b]) = tip_height c + 1).
      { rewrite tip_height_app. simpl. lia. }
      rewrite Htip in Hw'. exists w'. split; [done|].
      split; [|by rewrite Em', Ec'].
      rewrite <- app_assoc in Htr'.
      assert (Elo : lo_ext lo (tip_height c) (S (length bs))
        = lo_ext (Z.max lo (tip_height c + 1 - max_reorg_depth + 1)) (tip_height (c ++ [b])) (length bs)).
      { rewrite Htip. unfold lo_ext. destruct bs; simpl length; cbv iota beta; lia. }
      change (Tracks hdr (c ++ [b] ++ bs) (lo_ext lo (tip_height c) (S (length bs))) w'). rewrite Elo. exact Htr'.
  Qed.

  Theorem startup_complete p b lo w txs :
    consistent hdr p lo w -> p <> [] -> headers_known hdr (p ++ b) ->
    Forall (rescan_ntfn (p ++ b)) txs ->
    exists w1 w2, run_with true hdr txs w = (w1, false) /\
      rescan_finished (p ++ b) hdr (tip_height (p ++ b)) w1 = (w2, false) /\
      chain_synced w2 = true /\
      consistent hdr (p ++ b) (Z.max lo (tip_height (p ++ b) - max_reorg_depth + 1)) w2.
  Proof.
    intros [Htr Htx] Hp Hk Htxs. simpl in *.
    assert (HtxB : TxOn (p ++ b) None w).
    { intros r Hr. destruct (Htx r Hr) as [H|H]; [|discriminate]. left. by apply on_chain_app. }
    destruct (rescan_txs_inv (p ++ b) p lo txs w Htr HtxB Htxs) as (w1 & Hw1 & Htr1 & Htx1 & Ecs1).
    exists w1. 
    destruct (catch_up_blocks_tracks b p lo w1 Htr1) as (w2 & Hw2 & Htr2 & Em2 & Ecs2).
    { intros y Hy. apply Hk. apply elem_of_app. by right. }
    exists (set_chain_synced true w2). split; [done|].
    pose proof (tr_height _ _ _ _ Htr1) as Hh1.
    pose proof (tip_height_nonneg p Hp) as Hp0.
    unfold rescan_finished, catch_up. rewrite Hh1, tip_height_app.
    destruct (tip_height p + Z.of_nat (length b) <=? tip_height p) eqn:E.
    - (* nothing to catch up *)
      assert (b = []) as ->. { destruct b as [|b0 b']; [done|]. simpl length in E. apply Z.leb_le in E. exfalso. lia. }
      simpl in Hw2. injection Hw2 as <-. split; [done|]. split; [done|].
      rewrite app_nil_r in *. simpl in Htr2.
      simpl length.
      replace (Z.max lo (tip_height p + Z.of_nat 0 - max_reorg_depth + 1)) with lo
        by (destruct Htr1 as [_ _ _ ? _ _]; lia).
      split; simpl.
      + apply (Tracks_ext _ _ _ w1); [done|done|exact Htr1].
      + exact Htx1.
    - apply Z.leb_gt in E. destruct (tip_height p + 1 <? 0) eqn:E2; [apply Z.ltb_lt in E2; lia|].
      replace (Z.to_nat (tip_height p + Z.of_nat (length b) - tip_height p)) with (length b) by lia.
      replace (Z.to_nat (tip_height p + 1)) with (length p) by (unfold tip_height; lia).
      rewrite drop_app, firstn_all.
      rewrite Nat.ltb_irrefl.
      rewrite Hw2. split; [done|]. split; [done|].
      replace (Z.max lo (tip_height p + Z.of_nat (length b) - max_reorg_depth + 1))
        with (lo_ext lo (tip_height p) (length b)).
      2:{ unfold lo_ext. destruct b; simpl length in *; cbv iota beta; lia. }
      split; simpl.
      + apply (Tracks_ext _ _ _ w2); [done|done|exact Htr2].
      + intros r Hr. simpl in Hr. rewrite Em2 in Hr. by apply Htx1.
  Qed.
End startup.

(** * C15, start-up: the first synchronisation, the birthday reset, and where
      the loop gives up *)

Lemma chain_at_None c h : tip_height c < h -> chain_at c h = None.
Proof.
  intros H. destruct (chain_at c h) as [b|] eqn:E; [|done]. apply chain_at_range in E. lia.
Qed.

Section startup_more.
  Context (hdr : headers).

  (** First synchronisation of a wallet that has no birthday block yet (and no
      confirmed record): synced-to becomes the backend's block at the located
      height, the located block is stored as (verified) birthday block, and
      the wallet is consistent with the backend's chain cut at that height,
      followed from that height. *)
  Lemma first_sync_spec B loc w :
    birthday_set w = false -> mined w = [] -> 0 < max_reorg_depth ->
    headers_known hdr B -> 0 <= m_height loc <= tip_height B ->
    exists w0, first_sync B hdr loc w = (w0, false) /\
      birthday_set w0 = true /\ bday w0 = loc /\ mined w0 = [] /\ unmined w0 = unmined w /\
      chain_synced w0 = chain_synced w /\ m_height (synced w0) = m_height loc /\
      consistent hdr (take (S (Z.to_nat (m_height loc))) B) (m_height loc) w0.
  Proof.
    intros Hb Hm Hd Hk Hr. unfold first_sync.
    destruct (chain_at_is_Some B (m_height loc) Hr) as [cb Hcb]. rewrite Hcb.
    destruct (Hk cb (chain_at_elem _ _ _ Hcb)) as [t Ht]. rewrite Ht.
    set (bs := {| m_height := m_height loc; m_hash := bh cb; m_time := t |}).
    destruct (put_synced_to_Some bs w) as [w1 Hw1]; [by right; left|].
    rewrite Hw1. eexists. split; [done|].
    destruct (put_synced_to_spec _ _ _ Hw1) as (Es & Em & Eu & Ec & Eb & Ehs).
    simpl. rewrite Em, Eu, Ec, Es. repeat (split; [done|]).
    set (n := S (Z.to_nat (m_height loc))).
    assert (Hn : (n <= length B)%nat) by (unfold tip_height in Hr; lia).
    assert (Htip : tip_height (take n B) = m_height loc) by (rewrite tip_height_take by done; lia).
    assert (Hat : chain_at (take n B) (m_height loc) = Some cb) by (rewrite chain_at_take by lia; done).
    split; [split|]; simpl.
    - by rewrite Es, Htip.
    - rewrite Es, Htip. exists cb. done.
    - rewrite Htip. lia.
    - rewrite Htip. lia.
    - intros h y Hh Hy. pose proof (chain_at_range _ _ _ Hy) as Hry. rewrite Htip in Hry.
      assert (h = m_height loc) as -> by lia.
      rewrite Ehs by (simpl; lia). simpl. rewrite decide_True by done.
      rewrite Hat in Hy. by injection Hy as <-.
    - intros y Hy. apply Hk. apply elem_of_take in Hy as (i & Hi & _). by eapply elem_of_list_lookup_2.
    - intros r Hr'. simpl in Hr'. rewrite Em, Hm in Hr'. by apply elem_of_nil in Hr'.
  Qed.

  (** The whole first start-up attempt: the rollback loop that follows finds
      the block just stored and changes nothing. *)
  Theorem first_startup_spec B loc w :
    birthday_set w = false -> mined w = [] -> 0 < max_reorg_depth ->
    headers_known hdr B -> 0 <= m_height loc <= tip_height B ->
    exists w0, startup true B hdr loc w = (w0, false) /\
      birthday_set w0 = true /\ bday w0 = loc /\ mined w0 = [] /\ unmined w0 = unmined w /\
      chain_synced w0 = chain_synced w /\ m_height (synced w0) = m_height loc /\
      consistent hdr (take (S (Z.to_nat (m_height loc))) B) (m_height loc) w0.
  Proof.
    intros Hb Hm Hd Hk Hr.
    destruct (first_sync_spec B loc w Hb Hm Hd Hk Hr) as (w0 & Hw0 & H1 & H2 & H3 & H4 & H5 & H6 & Hc).
    exists w0. split; [|done].
    unfold startup. rewrite Hw0.
    set (n := S (Z.to_nat (m_height loc))) in *.
    assert (Hn : (n <= length B)%nat) by (unfold tip_height in Hr; lia).
    destruct (sync_rollback_spec hdr (take n B) [] (drop n B) (m_height loc) w0) as (w' & Hw' & Hnil & _).
    - by rewrite app_nil_r.
    - intros E. pose proof (take_length B n) as HL. rewrite E in HL. change (length (@nil blk)) with 0%nat in HL. unfold n in *. lia.
    - intros i x y Hx. done.
    - simpl. lia.
    - by rewrite take_drop.
    - by left.
    - rewrite take_drop in Hw'. rewrite Hw'. by rewrite (Hnil eq_refl).
  Qed.

  (** The backend's best chain is LOWER than the wallet's synced-to height:
      the first GetBlockHash of the loop fails, the transaction fails, nothing
      changes (waitForSync repeats the attempt after syncRetryInterval). *)
  Theorem sync_rollback_backend_lower B w :
    tip_height B < m_height (synced w) -> sync_rollback B hdr w = (w, true).
  Proof.
    intros H. unfold sync_rollback, walk_fuel.
    replace (Z.to_nat (m_height (synced w)) + 2)%nat with (S (Z.to_nat (m_height (synced w)) + 1)) by lia.
    simpl. destruct (hashes w !! m_height (synced w)); [|done].
    by rewrite (chain_at_None _ _ H).
  Qed.

  Theorem startup_backend_lower B loc w :
    tip_height B < m_height (synced w) -> startup false B hdr loc w = (w, true).
  Proof. intros H. unfold startup. by apply sync_rollback_backend_lower. Qed.

  (** A repetition of a first synchronisation whose first Update has already
      committed (the attempt failed later: NotifyBlocks, the rescan request):
      SetSyncedTo(birthday block) now runs under the predecessor check of
      PutSyncedTo, and the hash of the height below the birthday block was
      never stored. *)
  Theorem first_sync_repeated B loc w :
    birthday_set w = true -> 0 < m_height loc -> hashes w !! (m_height loc - 1) = None ->
    first_sync B hdr loc w = (w, true) /\ startup true B hdr loc w = (w, true).
  Proof.
    intros Hb Hh Hn.
    assert (E : first_sync B hdr loc w = (w, true)).
    { unfold first_sync. destruct (chain_at B (m_height loc)) as [cb|]; [|done].
      destruct (hdr !! bh cb) as [t|]; [|done].
      unfold put_synced_to, has_height. simpl. rewrite Hb, Hn.
      destruct (0 <? m_height loc) eqn:E; [done|lia]. }
    split; [done|]. unfold startup. by rewrite E.
  Qed.

  (** The fork point lies below the heights the wallet remembers ([lo] is
      above the last common block and no hash is stored for [lo - 1]): the
      loop walks down to [lo - 1], BlockHash fails there, the transaction
      fails, nothing changes - in every later attempt too, as long as the
      backend stays on that branch. *)
  Lemma walk_below_window p a b lo w :
    Tracks hdr (p ++ a) lo w -> diverge a b -> (length a <= length b)%nat ->
    headers_known hdr (p ++ b) -> tip_height p < lo -> hashes w !! (lo - 1) = None ->
    forall n fuel rb, lo - 1 + Z.of_nat n <= tip_height (p ++ a) -> (n + 1 <= fuel)%nat ->
      walk fuel (p ++ b) hdr w (lo - 1 + Z.of_nat n) rb = WErr.
  Proof.
    intros [Hh Hhash Hlo Hpr Hhs Hhdr] Hdiv Hlen Hk Hp Hnone.
    induction n as [|n IH]; intros fuel rb Hr Hf; (destruct fuel as [|f]; [lia|]); simpl.
    - rewrite Z.add_0_r, Hnone. done.
    - set (h := lo - 1 + Z.of_nat (S n)) in *.
      rewrite tip_height_app in Hr.
      assert (Hi : tip_height p < h) by lia.
      set (i := Z.to_nat (h - tip_height p - 1)).
      destruct (lookup_lt_is_Some_2 a i) as [ya Hya]; [lia|].
      destruct (lookup_lt_is_Some_2 b i) as [yb Hyb]; [lia|].
      rewrite (Hhs h ya ltac:(lia)).
      2:{ rewrite chain_at_app_r by done. done. }
      rewrite chain_at_app_r by done. fold i. rewrite Hyb.
      destruct (Hk yb) as [tb ->].
      { apply elem_of_app. right. by eapply elem_of_list_lookup_2. }
      destruct (bh ya =? bh yb)%N eqn:E.
      { apply N.eqb_eq in E. by destruct (Hdiv i ya yb). }
      replace (h - 1) with (lo - 1 + Z.of_nat n) by lia.
      apply IH; [rewrite tip_height_app|]; lia.
  Qed.

  Theorem sync_rollback_fork_below_window p a b lo w :
    consistent hdr (p ++ a) lo w -> diverge a b -> (length a <= length b)%nat ->
    headers_known hdr (p ++ b) -> tip_height p < lo -> hashes w !! (lo - 1) = None ->
    sync_rollback (p ++ b) hdr w = (w, true).
  Proof.
    intros [Htr _] Hdiv Hlen Hk Hp Hnone. simpl in Htr.
    pose proof (tr_height _ _ _ _ Htr) as Hh. pose proof (tr_lo _ _ _ _ Htr) as Hlo.
    unfold sync_rollback, walk_fuel. rewrite Hh.
    set (T := tip_height (p ++ a)) in *.
    replace T with (lo - 1 + Z.of_nat (Z.to_nat (T - lo + 1))) at 2 by lia.
    rewrite (walk_below_window p a b lo w Htr Hdiv Hlen Hk Hp Hnone); [done|lia|lia].
  Qed.

  (** What the start-up rollback does to the stored birthday block: if it was
      a block of the wallet's chain, it is a block of the common prefix
      afterwards (the last common block itself when the rollback went to or
      below the old birthday block). *)
  Lemma sync_rollback_shape p a b lo w :
    consistent hdr (p ++ a) lo w -> p <> [] -> diverge a b -> (length a <= length b)%nat ->
    headers_known hdr (p ++ b) -> a <> [] -> disc_ok lo (tip_height p + 1) = true ->
    exists x t w1, list.last p = Some x /\ hdr !! bh x = Some t /\
      let stamp := {| m_height := tip_height p; m_hash := bh x; m_time := t |} in
      put_synced_to stamp w = Some w1 /\
      sync_rollback (p ++ b) hdr w = (rollback (tip_height p + 1) (reset_birthday stamp w1), false).
  Proof.
    intros [Htr Htx] Hp Hdiv Hlen Hk Ha Hok. simpl in *.
    pose proof (tip_height_nonneg p Hp) as Hp0.
    assert (Hlo : lo <= tip_height p) by (unfold disc_ok in Hok; lia).
    unfold sync_rollback, walk_fuel.
    pose proof (tr_height _ _ _ _ Htr) as Hh. rewrite Hh, tip_height_app.
    destruct (walk_down hdr p a b lo w Htr Hp Hdiv Hlen Hk Hlo (length a)
                (Z.to_nat (tip_height p + Z.of_nat (length a)) + 2)%nat false)
      as (x & t & Ex & Et & ->); [lia|lia|].
    exists x, t. destruct a as [|a0 a]; [done|]. simpl negb. cbv iota. simpl orb. cbv iota.
    set (bs := {| m_height := tip_height p; m_hash := bh x; m_time := t |}).
    destruct Htr as [_ Hhash Hlo' Hpr Hhs Hhdr].
    destruct (put_synced_to_Some bs w) as [w1 Hw1].
    { simpl. unfold disc_ok in Hok.
      destruct (decide (tip_height p = 0)) as [E0|E0]; [left; lia|].
      right; right. destruct (chain_at_is_Some p (tip_height p - 1)) as [q Hq]; [lia|].
      rewrite (Hhs (tip_height p - 1) q ltac:(lia)); [eauto|].
      rewrite chain_at_app_l by lia. done. }
    exists w1. split; [done|]. split; [done|]. cbv zeta. split; [done|]. by rewrite Hw1.
  Qed.

  Theorem sync_rollback_birthday p a b lo w w' :
    consistent hdr (p ++ a) lo w -> p <> [] -> diverge a b -> (length a <= length b)%nat ->
    headers_known hdr (p ++ b) -> a <> [] -> disc_ok lo (tip_height p + 1) = true ->
    birthday_set w = true ->
    (forall h1 h2 b1 b2, chain_at (p ++ a) h1 = Some b1 -> chain_at (p ++ a) h2 = Some b2 ->
                         bh b1 = bh b2 -> h1 = h2) ->
    on_chain (p ++ a) (m_height (bday w)) (m_hash (bday w)) ->
    sync_rollback (p ++ b) hdr w = (w', false) ->
    birthday_set w' = true /\ on_chain p (m_height (bday w')) (m_hash (bday w')).
  Proof.
    intros Hc Hp Hdiv Hlen Hk Ha Hok Hbs Hinj Hon Hsr.
    destruct (sync_rollback_shape p a b lo w Hc Hp Hdiv Hlen Hk Ha Hok) as (x & t & w1 & Ex & Et & Hw1 & Hsr').
    cbv zeta in *. rewrite Hsr in Hsr'. injection Hsr' as ->.
    set (stamp := {| m_height := tip_height p; m_hash := bh x; m_time := t |}) in *.
    pose proof (put_synced_to_bday _ _ _ Hw1) as Eb.
    destruct (put_synced_to_spec _ _ _ Hw1) as (_ & _ & _ & _ & Ebs & _).
    pose proof (tip_height_nonneg p Hp) as Hp0.
    assert (Hx : chain_at p (tip_height p) = Some x) by (by rewrite chain_at_tip).
    destruct (reset_birthday_same stamp w1) as (_ & _ & _ & _ & _ & Rb).
    split; [simpl; by rewrite Rb, Ebs|].
    change (bday (rollback (tip_height p + 1) (reset_birthday stamp w1))) with (bday (reset_birthday stamp w1)).
    unfold reset_birthday, crosses_birthday. rewrite Ebs, Hbs, Eb. simpl.
    destruct (tip_height p <=? m_height (bday w)) eqn:E1; simpl.
    - destruct (bh x =? m_hash (bday w))%N eqn:E2; simpl.
      + (* same hash: then the same height *)
        apply N.eqb_eq in E2. destruct Hon as (y & Hy & Ey).
        assert (Hx' : chain_at (p ++ a) (tip_height p) = Some x) by (rewrite chain_at_app_l by lia; done).
        assert (m_height (bday w) = tip_height p) as Eh.
        { apply (Hinj _ _ y x Hy Hx'). congruence. }
        rewrite Eb, Eh. exists x. split; [done|]. done.
      + exists x. done.
    - rewrite Eb. apply Z.leb_gt in E1. destruct Hon as (y & Hy & Ey). exists y. split; [|done].
      rewrite <- Hy. symmetry. apply chain_at_app_l. lia.
  Qed.

  (** RescanProgress / RescanFinished for a height the wallet has already
      reached: catchUpHashes has nothing to do. *)
  Lemma catch_up_behind B height w :
    height <= m_height (synced w) -> catch_up B hdr height w = (w, false).
  Proof. intros H. unfold catch_up. destruct (height <=? m_height (synced w)) eqn:E; [done|lia]. Qed.
End startup_more.

(** * C15, start-up with a recovery window *)

Lemma insert_tx_keeps t cb b w r : r ∈ mined w -> r ∈ mined (insert_tx t cb b w).
Proof.
  intros Hr. unfold insert_tx. destruct b as [m|].
  - destruct (has_rec _ _ _ _); simpl; [done|]. apply elem_of_app. by left.
  - destruct (_ || _); done.
Qed.

Lemma last_drop {A} (l : list A) n : (n < length l)%nat -> list.last (drop n l) = list.last l.
Proof. intros H. rewrite !last_lookup, drop_length, lookup_drop. f_equal. lia. Qed.

Section recovery.
  Context (hdr : headers).

  (** Recording transactions of blocks of [B] changes nothing in the sync
      state and keeps every confirmed record. *)
  Lemma insert_all_inv B c lo (txs : list rtx) : forall w,
    Tracks hdr c lo w -> TxOn B None w ->
    Forall (fun x : rtx => on_chain B (m_height x.2) (m_hash x.2)) txs ->
    let w' := insert_all txs w in
    Tracks hdr c lo w' /\ TxOn B None w' /\ chain_synced w' = chain_synced w /\
    birthday_set w' = birthday_set w /\ synced w' = synced w /\
    (forall r, r ∈ mined w -> r ∈ mined w').
  Proof.
    induction txs as [|x txs IH]; intros w Htr Htx Hl; simpl.
    - done.
    - inversion Hl as [|x' l' Hx Hl']; subst.
      destruct (insert_tx_sync x.1.1 x.1.2 (Some x.2) w) as (E1 & E2 & E3 & E4).
      destruct (IH (insert_tx x.1.1 x.1.2 (Some x.2) w)) as (H1 & H2 & H3 & H4 & H5 & H6); [| |done|].
      + by apply (Tracks_ext _ _ _ w).
      + intros r Hr. apply insert_tx_mined in Hr as [Hr|(m' & [= <-] & Eh & Eha)]; [by apply Htx|].
        left. by rewrite Eh, Eha.
      + split; [done|]. split; [done|]. split; [by rewrite H3|]. split; [by rewrite H4|].
        split; [by rewrite H5|]. intros r Hr. apply H6. by apply insert_tx_keeps.
  Qed.

  (** Recovery on a backend [B] that continues the chain [c] the wallet
      follows with the blocks [bs]: the wallet then follows [c ++ bs]. *)
  Lemma recover_tracks B c bs lo w (txs : list rtx) :
    Tracks hdr c lo w -> TxOn (c ++ bs) None w -> c <> [] ->
    length B = (length c + length bs)%nat -> drop (length c) B = bs ->
    headers_known hdr bs ->
    Forall (fun x : rtx => on_chain B (m_height x.2) (m_hash x.2)) txs ->
    exists w', recover B hdr txs w = (w', false) /\
      Tracks hdr (c ++ bs) (lo_ext lo (tip_height c) (length bs)) w' /\
      TxOn (c ++ bs) None w' /\ chain_synced w' = chain_synced w /\
      (forall r, r ∈ mined w -> r ∈ mined w').
  Proof.
    intros Htr Htx Hc HlenB Hdrop Hk Htxs.
    pose proof (tr_height _ _ _ _ Htr) as Hh.
    pose proof (tip_height_nonneg c Hc) as Hc0.
    assert (HtipB : tip_height B = tip_height c + Z.of_nat (length bs)) by (unfold tip_height; lia).
    unfold recover. rewrite Hh, HtipB.
    destruct (tip_height c + Z.of_nat (length bs) <=? tip_height c) eqn:E.
    - apply Z.leb_le in E. assert (bs = []) as -> by (destruct bs; [done|simpl length in E; lia]).
      exists w. rewrite app_nil_r in *. simpl. done.
    - apply Z.leb_gt in E.
      set (ftxs := filter (fun x => scanned w x) txs).
      (* the recorded transactions are in blocks of [c ++ bs] *)
      assert (Hon : Forall (fun x : rtx => on_chain (c ++ bs) (m_height x.2) (m_hash x.2)) ftxs).
      { apply list.Forall_forall. intros x Hx. apply elem_of_list_filter in Hx as [Hsc Hx].
        rewrite list.Forall_forall in Htxs. destruct (Htxs x Hx) as (y & Hy & Ey).
        unfold scanned in Hsc. rewrite Hh in Hsc. apply andb_prop_elim in Hsc as [Hsc _].
        apply Is_true_eq_true in Hsc. apply Z.ltb_lt in Hsc.
        exists y. split; [|done]. rewrite chain_at_app_r by done.
        unfold chain_at in Hy. destruct (m_height x.2 <? 0) eqn:E0; [lia|].
        rewrite <- Hdrop, lookup_drop. rewrite <- Hy. f_equal. unfold tip_height in *. lia. }
      destruct (insert_all_inv (c ++ bs) c lo ftxs w Htr Htx Hon) as (Htr1 & Htx1 & Ecs1 & _ & Es1 & Hkeep1).
      set (w1 := insert_all ftxs w) in *.
      destruct (catch_up_blocks_tracks hdr bs c lo w1 Htr1 Hk) as (w2 & Hw2 & Htr2 & Em2 & Ecs2).
      exists w2.
      unfold catch_up. rewrite Es1, Hh.
      destruct (tip_height c + Z.of_nat (length bs) <=? tip_height c) eqn:E'; [lia|].
      destruct (tip_height c + 1 <? 0) eqn:E2; [lia|].
      replace (Z.to_nat (tip_height c + Z.of_nat (length bs) - tip_height c)) with (length bs) by lia.
      replace (Z.to_nat (tip_height c + 1)) with (length c) by (unfold tip_height; lia).
      rewrite Hdrop, firstn_all, Nat.ltb_irrefl, Hw2.
      split; [done|]. split; [done|].
      split; [intros r Hr; rewrite Em2 in Hr; by apply Htx1|].
      split; [by rewrite Ecs2|]. intros r Hr. rewrite Em2. by apply Hkeep1.
  Qed.

  (** Recovery BEFORE the rollback loop, after the best chain was
      reorganised (from above the common prefix [p]) AND extended beyond the
      wallet's height while the wallet was stopped: recovery moves synced-to
      onto the backend's new blocks above the wallet's old tip, the loop then
      finds the wallet's tip on the backend's chain and rolls nothing back.
      The attempt succeeds, and the wallet is consistent with the chain
      [p ++ a ++ drop (length a) b] - the wallet's OLD branch [a] up to its
      old tip, the backend's blocks above - not with the backend's [p ++ b]:
      the hashes of [a] stay stored, every confirmed record stays. *)
  Theorem startup_recovery_first p a b lo w loc (txs : list rtx) :
    consistent hdr (p ++ a) lo w -> p <> [] -> (length a < length b)%nat ->
    headers_known hdr (p ++ b) ->
    Forall (fun x : rtx => on_chain (p ++ b) (m_height x.2) (m_hash x.2)) txs ->
    let F := p ++ a ++ drop (length a) b in
    exists w', startup_rec_with true false true (p ++ b) hdr loc txs w = (w', false) /\
      consistent hdr F (lo_ext lo (tip_height (p ++ a)) (length b - length a)) w' /\
      m_height (synced w') = tip_height (p ++ b) /\
      chain_synced w' = chain_synced w /\
      (forall r, r ∈ mined w -> r ∈ mined w').
  Proof.
    intros [Htr Htx] Hp Hlen Hk Htxs F. simpl in Htr, Htx.
    set (bs := drop (length a) b).
    assert (Hbs : length bs = (length b - length a)%nat) by (unfold bs; by rewrite drop_length).
    assert (Hc : p ++ a <> []) by (destruct p; done).
    destruct (recover_tracks (p ++ b) (p ++ a) bs lo w txs Htr) as (w1 & Hw1 & Htr1 & Htx1 & Ecs1 & Hkeep1).
    - intros r Hr. destruct (Htx r Hr) as [H|H]; [|discriminate]. left. by apply on_chain_app.
    - done.
    - rewrite !app_length. lia.
    - rewrite app_length, drop_app_ge by lia. unfold bs. f_equal. lia.
    - intros y Hy. apply Hk. apply elem_of_app. right. unfold bs in Hy.
      apply elem_of_list_lookup in Hy as (i & Hi). rewrite lookup_drop in Hi. by eapply elem_of_list_lookup_2.
    - done.
    - unfold startup_rec_with. simpl. rewrite Hw1. simpl.
      (* the loop: the tip just stored is the backend's tip *)
      assert (HF : F = (p ++ a) ++ bs) by (unfold F; by rewrite app_assoc).
      rewrite <- HF, Hbs in Htr1. rewrite <- HF in Htx1.
      pose proof (tr_height _ _ _ _ Htr1) as Hh1.
      assert (HtF : tip_height F = tip_height (p ++ b)).
      { rewrite HF. unfold tip_height. rewrite !app_length, Hbs. lia. }
      assert (HFne : F <> []) by (rewrite HF; destruct (p ++ a); done).
      pose proof (tip_height_nonneg F HFne) as HF0.
      destruct (chain_at_is_Some F (tip_height F)) as [y Hy]; [lia|].
      assert (Hlast : list.last F = list.last (p ++ b)).
      { rewrite HF, !last_app. unfold bs. rewrite last_drop by lia.
        destruct (list.last b) eqn:El; [done|]. apply last_None in El. subst b. simpl in Hlen. lia. }
      assert (HyB : chain_at (p ++ b) (tip_height F) = Some y).
      { rewrite HtF, chain_at_tip by (destruct p; done). rewrite <- Hlast, <- chain_at_tip by done. done. }
      exists w1. split.
      + unfold sync_rollback, walk_fuel. rewrite Hh1.
        replace (Z.to_nat (tip_height F) + 2)%nat with (S (Z.to_nat (tip_height F) + 1)) by lia.
        simpl. rewrite (tr_hashes _ _ _ _ Htr1 (tip_height F) y); [|by destruct (tr_lo _ _ _ _ Htr1)|done].
        rewrite HyB. destruct (tr_hdr _ _ _ _ Htr1 y (chain_at_elem _ _ _ Hy)) as [t ->].
        by rewrite N.eqb_refl.
      + split; [done|]. split; [by rewrite Hh1|]. done.
  Qed.

  (** Without a recovery window the attempt is [startup]. *)
  Lemma startup_rec_no_window o first B loc (txs : list rtx) w :
    startup_rec_with o first false B hdr loc txs w = startup first B hdr loc w.
  Proof.
    unfold startup_rec_with, startup. destruct first; simpl; [|done].
    destruct (first_sync B hdr loc w) as [w1 [|]]; done.
  Qed.

  (** The other order (rollback loop first, recovery after it): under the
      premises of [sync_rollback_spec] the wallet ends consistent with the
      backend's chain. *)
  Theorem startup_rollback_first p a b lo w loc (txs : list rtx) :
    consistent hdr (p ++ a) lo w -> p <> [] -> diverge a b -> (length a <= length b)%nat ->
    headers_known hdr (p ++ b) -> (a = [] \/ disc_ok lo (tip_height p + 1) = true) ->
    Forall (fun x : rtx => on_chain (p ++ b) (m_height x.2) (m_hash x.2)) txs ->
    exists w', startup_rec_with false false true (p ++ b) hdr loc txs w = (w', false) /\
      consistent hdr (p ++ b) (lo_ext lo (tip_height p) (length b)) w' /\
      chain_synced w' = chain_synced w.
  Proof.
    intros Hc Hp Hdiv Hlen Hk Hok Htxs.
    destruct (sync_rollback_spec hdr p a b lo w Hc Hp Hdiv Hlen Hk Hok) as (w0 & Hw0 & Hnil & Hcons).
    assert (Hc0 : consistent hdr p lo w0 /\ chain_synced w0 = chain_synced w).
    { destruct a as [|a0 a'].
      - rewrite (Hnil eq_refl). by rewrite app_nil_r in Hc.
      - by destruct Hcons as (_ & _ & ? & ?). }
    destruct Hc0 as [[Htr0 Htx0] Ecs0]. simpl in Htr0, Htx0.
    destruct (recover_tracks (p ++ b) p b lo w0 txs Htr0) as (w1 & Hw1 & Htr1 & Htx1 & Ecs1 & _).
    - intros r Hr. destruct (Htx0 r Hr) as [H|H]; [|discriminate]. left. by apply on_chain_app.
    - done.
    - by rewrite app_length.
    - by rewrite drop_app.
    - intros y Hy. apply Hk. apply elem_of_app. by right.
    - done.
    - exists w1. unfold startup_rec_with. simpl. rewrite Hw0. simpl. rewrite Hw1.
      split; [done|]. split; [by split|]. by rewrite Ecs1.
  Qed.
End recovery.

(** Stop / evolve / start: rollback loop, rescan notifications, catchUpHashes. *)
Section offline.
  Context (hdr : headers).
  Hypothesis Hfact : disconnect_records_parent_hash = true.

  Theorem startup_follows p a b lo w txs :
    consistent hdr (p ++ a) lo w -> p <> [] -> diverge a b -> (length a <= length b)%nat ->
    headers_known hdr (p ++ b) -> (a = [] \/ disc_ok lo (tip_height p + 1) = true) ->
    Forall (rescan_ntfn (p ++ b)) txs ->
    exists w0 w1 w2,
      sync_rollback (p ++ b) hdr w = (w0, false) /\
      run hdr txs w0 = (w1, false) /\
      rescan_finished (p ++ b) hdr (tip_height (p ++ b)) w1 = (w2, false) /\
      chain_synced w2 = true /\
      consistent hdr (p ++ b) (Z.max lo (tip_height (p ++ b) - max_reorg_depth + 1)) w2.
  Proof.
    intros Hc Hp Hdiv Hlen Hk Hok Htxs.
    destruct (sync_rollback_spec hdr p a b lo w Hc Hp Hdiv Hlen Hk Hok) as (w0 & Hw0 & Hnil & Hcons).
    assert (Hc0 : consistent hdr p lo w0).
    { destruct a as [|a0 a'].
      - rewrite (Hnil eq_refl). by rewrite app_nil_r in Hc.
      - by destruct Hcons as (_ & _ & _ & ?). }
    destruct (startup_complete hdr p b lo w0 txs Hc0 Hp Hk Htxs) as (w1 & w2 & Hw1 & Hw2 & Hcs & Hc2).
    exists w0, w1, w2. rewrite (run_fact hdr Hfact). done.
  Qed.

  (** First start of a wallet: locate (given), store, loop, rescan
      notifications, RescanFinished - the wallet is consistent with the
      backend's chain, followed from the located height. *)
  Theorem first_sync_follows B loc w txs :
    birthday_set w = false -> mined w = [] -> 0 < max_reorg_depth ->
    headers_known hdr B -> 0 <= m_height loc <= tip_height B ->
    Forall (rescan_ntfn B) txs ->
    exists w0 w1 w2,
      startup true B hdr loc w = (w0, false) /\
      m_height (synced w0) = m_height loc /\ birthday_set w0 = true /\ bday w0 = loc /\
      run hdr txs w0 = (w1, false) /\
      rescan_finished B hdr (tip_height B) w1 = (w2, false) /\
      chain_synced w2 = true /\
      consistent hdr B (Z.max (m_height loc) (tip_height B - max_reorg_depth + 1)) w2.
  Proof.
    intros Hb Hm Hd Hk Hr Htxs.
    destruct (first_startup_spec hdr B loc w Hb Hm Hd Hk Hr) as (w0 & Hw0 & H1 & H2 & _ & _ & _ & H6 & Hc).
    set (n := S (Z.to_nat (m_height loc))) in *.
    assert (Hn : (n <= length B)%nat) by (unfold tip_height in Hr; lia).
    destruct (startup_complete hdr (take n B) (drop n B) (m_height loc) w0 txs Hc) as (w1 & w2 & Hw1 & Hw2 & Hcs & Hc2).
    - intros E. pose proof (take_length B n) as HL. rewrite E in HL. change (length (@nil blk)) with 0%nat in HL. unfold n in *. lia.
    - by rewrite take_drop.
    - by rewrite take_drop.
    - rewrite take_drop in *. exists w0, w1, w2. rewrite (run_fact hdr Hfact). done.
  Qed.
End offline.
