(** Proofs about the rescan loop of the bitcoind client
    (Sync/BitcoindRescan.v, the repaired walk back): when the best chain is
    reorganised below blocks the rescan has already notified, it disconnects
    exactly those blocks, tip first, each with its own hash and height, and
    then connects the new branch upward - the stream [Sync.emit] specifies. *)
From stdpp Require Import gmap list numbers.
From Coq Require Import ZArith NArith Lia.
From Verif Require Import Generated.SyncFacts Sync.Sync Sync.BitcoindReorg Sync.BitcoindReorgProofs Sync.BitcoindRescan.
Local Open Scope Z_scope.

(** Ascending chains: [l] lists blocks upward, the first at height [h] with
    parent [prev]. *)
Fixpoint alinked (t : gmap N bhdr) (prev : N) (h : Z) (l : list blk) : Prop :=
  match l with
  | [] => True
  | b :: r => t !! bh b = Some {| p_prev := prev; p_height := h; p_time := bt b |} /\ alinked t (bh b) (h + 1) r
  end.

Lemma alinked_app t : forall l1 l2 prev h,
  alinked t prev h (l1 ++ l2) ->
  alinked t prev h l1 /\
  alinked t (match rev l1 with [] => prev | b :: _ => bh b end) (h + Z.of_nat (length l1)) l2.
Proof.
  induction l1 as [|b l1 IH]; intros l2 prev h Ha.
  - cbn. rewrite Z.add_0_r. auto.
  - cbn [app alinked] in Ha. destruct Ha as [Hb Ha]. destruct (IH l2 (bh b) (h + 1) Ha) as [H1 H2].
    split; [split; assumption|].
    cbn [rev length].
    replace (h + Z.of_nat (S (length l1))) with (h + 1 + Z.of_nat (length l1)) by lia.
    destruct (rev l1) as [|x xs] eqn:E; cbn [app]; exact H2.
Qed.

(** An ascending chain read downwards. *)
Lemma alinked_dlinked t : forall l prev h,
  alinked t prev h (rev l) -> dlinked t l (h + Z.of_nat (length l) - 1) prev.
Proof.
  induction l as [|b l IH]; intros prev h Ha; [exact I|].
  cbn [rev] in Ha. apply alinked_app in Ha. destruct Ha as [Hl Hb].
  rewrite rev_involutive in Hb. rewrite rev_length in Hb.
  cbn [alinked] in Hb. destruct Hb as [Hb _].
  cbn [dlinked length]. split.
  - replace (h + Z.of_nat (S (length l)) - 1) with (h + Z.of_nat (length l)) by lia.
    destruct l; exact Hb.
  - replace (h + Z.of_nat (S (length l)) - 1 - 1) with (h + Z.of_nat (length l) - 1) by lia.
    apply IH. exact Hl.
Qed.

Lemma dlinked_time t l h base b :
  dlinked t l h base -> b ∈ l -> time_of t (bh b) = bt b.
Proof.
  intros Hd Hb. destruct (dlinked_lookup t l h base b Hd Hb) as (hd & Hhd & Ht).
  unfold time_of. rewrite Hhd. exact Ht.
Qed.

(** The header list entries of blocks listed downwards from height [h]. *)
Fixpoint stk (h : Z) (l : list blk) : list (N * Z) :=
  match l with
  | [] => []
  | b :: r => (bh b, h) :: stk (h - 1) r
  end.

(** Different hashes at equal heights. *)
Fixpoint differ2 (os ns : list blk) : Prop :=
  match os, ns with
  | o :: os', n :: ns' => bh o <> bh n /\ differ2 os' ns'
  | [], [] => True
  | _, _ => False
  end.

Definition top_hash (l : list blk) (base : N) : N := match l with [] => base | b :: _ => bh b end.

(** ** The walk back *)
Lemma rwalk_spec t fork rest deeper : forall old_top new_low h blk atl out fuel,
  dlinked t old_top h (bh fork) ->
  dlinked t (blk :: new_low) (h + 1) (bh fork) ->
  differ2 old_top new_low ->
  (length old_top < fuel)%nat ->
  rwalk true t fuel
    {| r_prev := top_hash old_top (bh fork); r_prevh := h;
       r_stack := stk h old_top ++ (bh fork, h - Z.of_nat (length old_top)) :: rest;
       r_i := h + 1; r_below := map bh new_low ++ bh fork :: deeper; r_above := bh blk :: atl |}
    (bh blk) out =
  Some ({| r_prev := bh fork; r_prevh := h - Z.of_nat (length old_top);
           r_stack := (bh fork, h - Z.of_nat (length old_top)) :: rest;
           r_i := h + 1 - Z.of_nat (length old_top); r_below := bh fork :: deeper;
           r_above := map bh (rev (blk :: new_low)) ++ atl |},
        top_hash (rev (blk :: new_low)) (bh blk),
        out ++ discs h old_top).
Proof.
  induction old_top as [|o os IH]; intros new_low h blk atl out fuel Hold Hnew Hdiff Hfuel.
  - destruct new_low as [|n ns]; [|destruct Hdiff].
    destruct Hnew as [Hb _]. cbn [top_hash stk app length map rev discs].
    destruct fuel as [|fuel]; [cbn in Hfuel; lia|].
    cbn [rwalk]. rewrite Hb. cbn [p_prev r_prev]. rewrite N.eqb_refl.
    rewrite !Z.sub_0_r, app_nil_r. reflexivity.
  - destruct new_low as [|n ns]; [destruct Hdiff|]. destruct Hdiff as [Hne Hdiff].
    destruct fuel as [|fuel]; [cbn in Hfuel; lia|].
    assert (Hb := Hnew). destruct Hb as [Hb Hnew'].
    cbn [rwalk top_hash]. rewrite Hb. cbn [p_prev r_prev].
    destruct (N.eqb_spec (bh n) (bh o)) as [E|_]; [congruence|].
    cbn [r_below map app r_prevh r_i r_above r_stack stk tl].
    assert (Htime : time_of t (bh o) = bt o) by (eapply dlinked_time; [exact Hold|left]).
    rewrite Htime.
    destruct Hold as [_ Hold'].
    replace (h + 1 - 1) with (h - 1 + 1) by lia.
    assert (Hpop : match stk (h - 1) os ++ (bh fork, h - Z.of_nat (length (o :: os))) :: rest with
                   | [] => None (A := N * Z * list (N * Z))
                   | (x, hh) :: _ => Some (x, hh, stk (h - 1) os ++ (bh fork, h - Z.of_nat (length (o :: os))) :: rest)
                   end =
                   Some (top_hash os (bh fork), h - 1,
                         stk (h - 1) os ++ (bh fork, h - 1 - Z.of_nat (length os)) :: rest)).
    { replace (h - Z.of_nat (length (o :: os))) with (h - 1 - Z.of_nat (length os)) by (cbn [length]; lia).
      destruct os as [|o' os']; cbn [stk app top_hash length].
      - rewrite Z.sub_0_r. reflexivity.
      - reflexivity. }
    match goal with |- match ?X with _ => _ end = _ =>
      replace X with (Some (top_hash os (bh fork), h - 1,
                         stk (h - 1) os ++ (bh fork, h - 1 - Z.of_nat (length os)) :: rest)) end.
    2:{ symmetry. destruct (stk (h - 1) os ++ (bh fork, h - Z.of_nat (length (o :: os))) :: rest) as [|[x hh] l] eqn:E.
        - exfalso. destruct os; discriminate E.
        - rewrite <- E. rewrite <- Hpop. rewrite E. reflexivity. }
    replace (h + 1) with (h - 1 + 1 + 1) in Hnew' by lia.
    replace (h - 1 + 1 + 1 - 1) with (h - 1 + 1) in Hnew' by lia.
    rewrite (IH ns (h - 1) n (bh blk :: atl) (out ++ [NDisconnect {| m_height := h; m_hash := bh o; m_time := bt o |}]) fuel
               Hold' Hnew' Hdiff); [|cbn [length] in Hfuel; lia].
    f_equal. f_equal; [f_equal|].
    + f_equal; try (cbn [length]; lia).
      * f_equal. f_equal. cbn [length]. lia.
      * cbn [rev]. rewrite !map_app, <- !app_assoc. reflexivity.
    + cbn [rev]. destruct (rev ns ++ [n]) as [|x xs] eqn:E; [destruct (rev ns); discriminate E|].
      cbn [top_hash app]. reflexivity.
    + rewrite <- app_assoc. cbn [app discs]. unfold meta_of. reflexivity.
Qed.

(** ** The loop along a chain that extends the last processed block *)
Lemma rscan_linear t : forall l prev ph st bl h out fuel,
  alinked t prev h l -> (length l <= fuel)%nat ->
  exists s', rscan true t fuel
    {| r_prev := prev; r_prevh := ph; r_stack := st; r_i := h; r_below := bl; r_above := map bh l |} out =
    Some (out ++ conns h l, s').
Proof.
  induction l as [|b l IH]; intros prev ph st bl h out fuel Ha Hf.
  - destruct fuel; cbn; rewrite app_nil_r; eauto.
  - destruct fuel as [|fuel]; [cbn in Hf; lia|].
    destruct Ha as [Hb Ha].
    cbn [map rscan r_above r_below r_stack].
    destruct (length bl + length st + 2)%nat as [|k]; cbn [rwalk]; rewrite Hb; cbn [p_prev r_prev]; rewrite N.eqb_refl.
    all: cbn [r_above r_i r_stack r_below].
    all: assert (Ht : time_of t (bh b) = bt b) by (unfold time_of; rewrite Hb; reflexivity); rewrite Ht.
    all: destruct (IH (bh b) h ((bh b, h) :: st) (bh b :: bl) (h + 1)
              (out ++ [NConnect {| m_height := h; m_hash := bh b; m_time := bt b |}]) fuel Ha) as [s' Hs']; [cbn [length] in Hf; lia|].
    all: exists s'; rewrite Hs'; rewrite <- app_assoc; reflexivity.
Qed.

(** ** The rescan across a reorganisation

    The rescan has notified the old branch up to height [j]: [old_top] lists
    the blocks above the common ancestor [fork], tip first; they are the top
    of the header list.  The node's best chain is now [fork], then
    [rev new_low] (the new blocks at the heights of [old_top]), then
    [new_high] (non-empty: the block the loop asks for next). *)
Theorem rescan_follows_reorg t fork rest deeper old_top new_low nb new_high j :
  dlinked t old_top j (bh fork) ->
  alinked t (bh fork) (j - Z.of_nat (length old_top) + 1) (rev new_low ++ nb :: new_high) ->
  differ2 old_top new_low ->
  exists s',
    rescan_with true t
      {| r_prev := top_hash old_top (bh fork); r_prevh := j;
         r_stack := stk j old_top ++ (bh fork, j - Z.of_nat (length old_top)) :: rest;
         r_i := j + 1; r_below := map bh new_low ++ bh fork :: deeper; r_above := map bh (nb :: new_high) |} =
    Some (discs j old_top ++ conns (j - Z.of_nat (length old_top) + 1) (rev new_low ++ nb :: new_high), s').
Proof.
  intros Hold Hnew Hdiff.
  assert (Hlen : length old_top = length new_low).
  { clear - Hdiff. revert new_low Hdiff. induction old_top as [|o os IH]; intros [|n ns] Hd; try destruct Hd; cbn [length]; auto. }
  (* the new branch read downwards from nb *)
  assert (Hdown : dlinked t (nb :: new_low) (j + 1) (bh fork)).
  { pose proof (alinked_app t (rev new_low ++ [nb]) new_high (bh fork) (j - Z.of_nat (length old_top) + 1)) as Hs.
    rewrite <- app_assoc in Hs. cbn [app] in Hs. destruct (Hs Hnew) as [Hs1 _].
    pose proof (alinked_dlinked t (nb :: new_low) (bh fork) (j - Z.of_nat (length old_top) + 1)) as Hd.
    cbn [rev] in Hd. specialize (Hd Hs1). cbn [length] in Hd.
    replace (j - Z.of_nat (length old_top) + 1 + Z.of_nat (S (length new_low)) - 1) with (j + 1) in Hd by lia.
    exact Hd. }
  unfold rescan_with. cbn [r_below r_above map length].
  set (F := (length (map bh new_low ++ bh fork :: deeper) + S (length (map bh new_high)) + 1)%nat).
  assert (HF : exists F', F = S F' /\ (length new_low + length new_high <= F')%nat).
  { unfold F. rewrite app_length, !map_length. cbn [length]. eexists. split; [rewrite Nat.add_1_r; reflexivity|]. lia. }
  destruct HF as (F' & -> & HF').
  cbn [rscan r_above map].
  rewrite (rwalk_spec t fork rest deeper old_top new_low j nb (map bh new_high) [] _ Hold Hdown Hdiff).
  2:{ cbn [r_below r_stack]. rewrite !app_length, map_length. cbn [length]. lia. }
  cbn [r_above r_i r_stack r_below app].
  (* the block recorded after the walk back is the lowest new block *)
  destruct (rev (nb :: new_low)) as [|x xs] eqn:Erev.
  { exfalso. apply (f_equal (@length _)) in Erev. rewrite rev_length in Erev. cbn in Erev. lia. }
  cbn [map app top_hash].
  (* the rest of the new branch extends it *)
  assert (Hsplit : rev new_low ++ nb :: new_high = x :: (xs ++ new_high)).
  { cbn [rev] in Erev.
    change (rev new_low ++ nb :: new_high) with (rev new_low ++ ([nb] ++ new_high)).
    rewrite app_assoc, Erev. reflexivity. }
  rewrite Hsplit in Hnew. cbn [alinked] in Hnew. destruct Hnew as [Hx Hrest].
  assert (Ht : time_of t (bh x) = bt x) by (unfold time_of; rewrite Hx; reflexivity).
  rewrite Ht.
  destruct (rscan_linear t (xs ++ new_high) (bh x) (j + 1 - Z.of_nat (length old_top))
              ((bh x, j + 1 - Z.of_nat (length old_top)) :: (bh fork, j - Z.of_nat (length old_top)) :: rest)
              (bh x :: bh fork :: deeper) (j + 1 - Z.of_nat (length old_top) + 1)
              (([] ++ discs j old_top) ++ [NConnect {| m_height := j + 1 - Z.of_nat (length old_top); m_hash := bh x; m_time := bt x |}])
              F') as [s' Hs'].
  { replace (j + 1 - Z.of_nat (length old_top) + 1) with (j - Z.of_nat (length old_top) + 1 + 1) by lia. exact Hrest. }
  { rewrite app_length. apply (f_equal (@length _)) in Erev. rewrite rev_length in Erev. cbn [length] in Erev. lia. }
  exists s'. rewrite <- map_app. cbn [app] in Hs'. rewrite Hs'.
  f_equal. f_equal. rewrite Hsplit. cbn [conns]. rewrite <- app_assoc. cbn [app].
  unfold meta_of.
  replace (j + 1 - Z.of_nat (length old_top)) with (j - Z.of_nat (length old_top) + 1) by lia.
  reflexivity.
Qed.

(** ** In the vocabulary of Sync.v *)
Theorem rescan_is_emit t anc fork rest deeper old_top new_low nb new_high :
  let c := anc ++ rev old_top in
  let j := tip_height c in
  let new := rev new_low ++ nb :: new_high in
  let e := evo_of old_top (rev new) in
  dlinked t old_top j (bh fork) ->
  alinked t (bh fork) (j - Z.of_nat (length old_top) + 1) new ->
  differ2 old_top new_low ->
  exists s',
    rescan_with true t
      {| r_prev := top_hash old_top (bh fork); r_prevh := j;
         r_stack := stk j old_top ++ (bh fork, j - Z.of_nat (length old_top)) :: rest;
         r_i := j + 1; r_below := map bh new_low ++ bh fork :: deeper; r_above := map bh (nb :: new_high) |} =
    Some (emit c e, s').
Proof.
  intros c j new e Hold Hnew Hdiff.
  destruct (rescan_follows_reorg t fork rest deeper old_top new_low nb new_high j Hold Hnew Hdiff) as [s' Hs'].
  exists s'. rewrite Hs'. f_equal. f_equal.
  unfold emit, e, evo_of, c. cbn [e_depth e_new].
  rewrite emit_disconnects_discs. rewrite rev_involutive, emit_connects_conns.
  fold c. fold j. fold new. reflexivity.
Qed.

(** ** What the pinned code did *)

(** The rescan started at block 1 (height 0) and has notified the old branch
    2,3,4,5; the node switched to 1,2,3,6,7,8.  With the fact [false] (the
    code before the repair) the walk back never leaves height 5: it
    disconnects 5, 4, 3, 2 and 1 - every block down to the genesis block,
    common ancestors included - and then fails on the request below genesis;
    the repaired loop disconnects 5 and 4 and connects 6, 7, 8. *)
Definition rs_ex : rstate :=
  {| r_prev := 5%N; r_prevh := 4; r_stack := [(5%N, 4); (4%N, 3); (3%N, 2); (2%N, 1); (1%N, 0)];
     r_i := 5; r_below := [7%N; 6%N; 3%N; 2%N; 1%N]; r_above := [8%N] |}.

Fixpoint disconnected (l : list ntfn) : list (Z * N) :=
  match l with
  | [] => []
  | NDisconnect m :: r => (m_height m, m_hash m) :: disconnected r
  | _ :: r => disconnected r
  end.

(** The pinned loop reports the failure as an error AFTER having emitted the
    disconnects; [rwalk]'s accumulated output at the point of failure is
    observed through a walk with just enough fuel removed. *)
Lemma rescan_refuted_at_pinned :
  rescan_with false t_ex rs_ex = None /\
  (exists s' out, rescan_with true t_ex rs_ex = Some (out, s') /\
     disconnected out = [(4, 5%N); (3, 4%N)] /\
     out = [NDisconnect {| m_height := 4; m_hash := 5%N; m_time := 104 |};
            NDisconnect {| m_height := 3; m_hash := 4%N; m_time := 103 |};
            NConnect {| m_height := 3; m_hash := 6%N; m_time := 113 |};
            NConnect {| m_height := 4; m_hash := 7%N; m_time := 114 |};
            NConnect {| m_height := 5; m_hash := 8%N; m_time := 115 |}]).
Proof.
  split; [vm_compute; reflexivity|].
  eexists. eexists. split; [vm_compute; reflexivity|]. split; reflexivity.
Qed.

(** ** The general case: the reorganisation may reach below the block the
    rescan started from

    The header list then runs out during the walk back and the loop asks the
    node for the headers below.  [stack_agrees st h l fork]: as far as the header
    list [st] goes, its entries are the blocks of [l] (downwards from height
    [h]) and then [fork]; it may stop anywhere (the rescan started there). *)
Fixpoint stack_agrees (st : list (N * Z)) (h : Z) (l : list blk) (fork : blk) : Prop :=
  match st with
  | [] => True
  | (x, hh) :: st' =>
    match l with
    | [] => x = bh fork /\ hh = h
    | o :: os => x = bh o /\ hh = h /\ stack_agrees st' (h - 1) os fork
    end
  end.

Lemma rwalk_spec_gen t fork deeper : forall old_top new_low st h blk atl out fuel fhd,
  t !! bh fork = Some fhd -> p_height fhd = h - Z.of_nat (length old_top) ->
  dlinked t old_top h (bh fork) ->
  dlinked t (blk :: new_low) (h + 1) (bh fork) ->
  differ2 old_top new_low ->
  stack_agrees st h old_top fork ->
  (length old_top < fuel)%nat ->
  exists st',
  rwalk true t fuel
    {| r_prev := top_hash old_top (bh fork); r_prevh := h; r_stack := st;
       r_i := h + 1; r_below := map bh new_low ++ bh fork :: deeper; r_above := bh blk :: atl |}
    (bh blk) out =
  Some ({| r_prev := bh fork; r_prevh := h - Z.of_nat (length old_top); r_stack := st';
           r_i := h + 1 - Z.of_nat (length old_top); r_below := bh fork :: deeper;
           r_above := map bh (rev (blk :: new_low)) ++ atl |},
        top_hash (rev (blk :: new_low)) (bh blk),
        out ++ discs h old_top).
Proof.
  induction old_top as [|o os IH]; intros new_low st h blk atl out fuel fhd Hf Hfh Hold Hnew Hdiff Hag Hfuel.
  - destruct new_low as [|n ns]; [|destruct Hdiff].
    destruct Hnew as [Hb _]. cbn [top_hash length map rev discs app].
    destruct fuel as [|fuel]; [cbn in Hfuel; lia|].
    exists st. cbn [rwalk]. rewrite Hb. cbn [p_prev r_prev]. rewrite N.eqb_refl.
    rewrite !Z.sub_0_r, app_nil_r. reflexivity.
  - destruct new_low as [|n ns]; [destruct Hdiff|]. destruct Hdiff as [Hne Hdiff].
    destruct fuel as [|fuel]; [cbn in Hfuel; lia|].
    assert (Hb := Hnew). destruct Hb as [Hb Hnew'].
    assert (Ho := Hold). destruct Ho as [Ho Hold'].
    assert (Htime : time_of t (bh o) = bt o) by (unfold time_of; rewrite Ho; reflexivity).
    (* the header below the current one, wherever it comes from *)
    assert (Hbelow : exists qhd, t !! top_hash os (bh fork) = Some qhd /\ p_height qhd = h - 1).
    { destruct os as [|o' os']; cbn [top_hash].
      - exists fhd. split; [exact Hf|]. cbn [length] in Hfh. lia.
      - destruct Hold' as [Ho' _]. eexists. split; [exact Ho'|]. reflexivity. }
    destruct Hbelow as (qhd & Hq & Hqh).
    assert (Hpop : exists st1,
      (let st' := tl st in
       match st' with
       | (x, hh) :: _ => Some (x, hh, st')
       | [] => match (match t !! bh o with
                      | None => None
                      | Some phd => match t !! p_prev phd with
                                    | None => None
                                    | Some qhd0 => Some (p_prev phd, p_height qhd0)
                                    end
                      end) with Some (x, hh) => Some (x, hh, []) | None => None end
       end) = Some (top_hash os (bh fork), h - 1, st1) /\ stack_agrees st1 (h - 1) os fork).
    { unfold top_hash in Hq |- *.
      destruct st as [|[x0 h0] st0]; cbn [tl].
      - rewrite Ho. cbn [p_prev]. rewrite Hq, Hqh. exists []. split; [reflexivity|exact I].
      - cbn [stack_agrees] in Hag. destruct Hag as (_ & _ & Hag').
        destruct st0 as [|[x1 h1] st1].
        + rewrite Ho. cbn [p_prev]. rewrite Hq, Hqh. exists []. split; [reflexivity|exact I].
        + exists ((x1, h1) :: st1). split; [|exact Hag'].
          cbn [stack_agrees] in Hag'. destruct os as [|o' os'].
          * destruct Hag' as [-> ->]. reflexivity.
          * destruct Hag' as (-> & -> & _). reflexivity. }
    destruct Hpop as (st1 & Hpop & Hag1).
    replace (h + 1) with (h - 1 + 1 + 1) in Hnew' by lia.
    replace (h - 1 + 1 + 1 - 1) with (h - 1 + 1) in Hnew' by lia.
    assert (Hfh' : p_height fhd = h - 1 - Z.of_nat (length os)) by (cbn [length] in Hfh; lia).
    destruct (IH ns st1 (h - 1) n (bh blk :: atl)
                (out ++ [NDisconnect {| m_height := h; m_hash := bh o; m_time := bt o |}]) fuel fhd
                Hf Hfh' Hold' Hnew' Hdiff Hag1) as [st' Hrec]; [cbn [length] in Hfuel; lia|].
    exists st'.
    cbn [rwalk top_hash]. rewrite Hb. cbn [p_prev r_prev].
    destruct (N.eqb_spec (bh n) (bh o)) as [E|_]; [congruence|].
    cbn [r_below map app r_prevh r_i r_above r_stack].
    rewrite Htime.
    cbv zeta in Hpop. rewrite Hpop.
    replace (h + 1 - 1) with (h - 1 + 1) by lia.
    rewrite Hrec.
    f_equal. f_equal; [f_equal|].
    + f_equal; try (cbn [length]; lia).
      cbn [rev]. rewrite !map_app, <- !app_assoc. reflexivity.
    + cbn [rev]. destruct (rev ns ++ [n]) as [|x xs] eqn:E; [destruct (rev ns); discriminate E|].
      cbn [top_hash app]. reflexivity.
    + rewrite <- app_assoc. cbn [app discs]. unfold meta_of. reflexivity.
Qed.

Theorem rescan_follows_reorg_gen t fork fhd deeper old_top new_low nb new_high j st :
  t !! bh fork = Some fhd -> p_height fhd = j - Z.of_nat (length old_top) ->
  dlinked t old_top j (bh fork) ->
  alinked t (bh fork) (j - Z.of_nat (length old_top) + 1) (rev new_low ++ nb :: new_high) ->
  differ2 old_top new_low ->
  stack_agrees st j old_top fork ->
  exists s',
    rescan_with true t
      {| r_prev := top_hash old_top (bh fork); r_prevh := j; r_stack := st;
         r_i := j + 1; r_below := map bh new_low ++ bh fork :: deeper; r_above := map bh (nb :: new_high) |} =
    Some (discs j old_top ++ conns (j - Z.of_nat (length old_top) + 1) (rev new_low ++ nb :: new_high), s').
Proof.
  intros Hf Hfh Hold Hnew Hdiff Hag.
  assert (Hlen : length old_top = length new_low).
  { clear - Hdiff. revert new_low Hdiff. induction old_top as [|o os IH]; intros [|n ns] Hd; try destruct Hd; cbn [length]; auto. }
  assert (Hdown : dlinked t (nb :: new_low) (j + 1) (bh fork)).
  { pose proof (alinked_app t (rev new_low ++ [nb]) new_high (bh fork) (j - Z.of_nat (length old_top) + 1)) as Hs.
    rewrite <- app_assoc in Hs. cbn [app] in Hs. destruct (Hs Hnew) as [Hs1 _].
    pose proof (alinked_dlinked t (nb :: new_low) (bh fork) (j - Z.of_nat (length old_top) + 1)) as Hd.
    cbn [rev] in Hd. specialize (Hd Hs1). cbn [length] in Hd.
    replace (j - Z.of_nat (length old_top) + 1 + Z.of_nat (S (length new_low)) - 1) with (j + 1) in Hd by lia.
    exact Hd. }
  unfold rescan_with. cbn [r_below r_above map length].
  set (F := (length (map bh new_low ++ bh fork :: deeper) + S (length (map bh new_high)) + 1)%nat).
  assert (HF : exists F', F = S F' /\ (length new_low + length new_high <= F')%nat).
  { unfold F. rewrite app_length, !map_length. cbn [length]. eexists. split; [rewrite Nat.add_1_r; reflexivity|]. lia. }
  destruct HF as (F' & -> & HF').
  cbn [rscan r_above map].
  destruct (rwalk_spec_gen t fork deeper old_top new_low st j nb (map bh new_high) []
              (length (r_below {| r_prev := top_hash old_top (bh fork); r_prevh := j; r_stack := st; r_i := j + 1;
                                  r_below := map bh new_low ++ bh fork :: deeper; r_above := bh nb :: map bh new_high |}) +
               length (r_stack {| r_prev := top_hash old_top (bh fork); r_prevh := j; r_stack := st; r_i := j + 1;
                                  r_below := map bh new_low ++ bh fork :: deeper; r_above := bh nb :: map bh new_high |}) + 2)
              fhd Hf Hfh Hold Hdown Hdiff Hag) as [st' Hw].
  { cbn [r_below r_stack]. rewrite !app_length, map_length. cbn [length]. lia. }
  rewrite Hw.
  cbn [r_above r_i r_stack r_below app].
  destruct (rev (nb :: new_low)) as [|x xs] eqn:Erev.
  { exfalso. apply (f_equal (@length _)) in Erev. rewrite rev_length in Erev. cbn in Erev. lia. }
  cbn [map app top_hash].
  assert (Hsplit : rev new_low ++ nb :: new_high = x :: (xs ++ new_high)).
  { cbn [rev] in Erev.
    change (rev new_low ++ nb :: new_high) with (rev new_low ++ ([nb] ++ new_high)).
    rewrite app_assoc, Erev. reflexivity. }
  rewrite Hsplit in Hnew. cbn [alinked] in Hnew. destruct Hnew as [Hx Hrest].
  assert (Ht : time_of t (bh x) = bt x) by (unfold time_of; rewrite Hx; reflexivity).
  rewrite Ht.
  destruct (rscan_linear t (xs ++ new_high) (bh x) (j + 1 - Z.of_nat (length old_top))
              ((bh x, j + 1 - Z.of_nat (length old_top)) :: st')
              (bh x :: bh fork :: deeper) (j + 1 - Z.of_nat (length old_top) + 1)
              (([] ++ discs j old_top) ++ [NConnect {| m_height := j + 1 - Z.of_nat (length old_top); m_hash := bh x; m_time := bt x |}])
              F') as [s' Hs'].
  { replace (j + 1 - Z.of_nat (length old_top) + 1) with (j - Z.of_nat (length old_top) + 1 + 1) by lia. exact Hrest. }
  { rewrite app_length. apply (f_equal (@length _)) in Erev. rewrite rev_length in Erev. cbn [length] in Erev. lia. }
  exists s'. rewrite <- map_app. cbn [app] in Hs'. rewrite Hs'.
  f_equal. f_equal. rewrite Hsplit. cbn [conns]. rewrite <- app_assoc. cbn [app].
  unfold meta_of.
  replace (j + 1 - Z.of_nat (length old_top)) with (j - Z.of_nat (length old_top) + 1) by lia.
  reflexivity.
Qed.

Theorem rescan_is_emit_gen t anc fork fhd deeper old_top new_low nb new_high st :
  let c := anc ++ rev old_top in
  let j := tip_height c in
  let new := rev new_low ++ nb :: new_high in
  let e := evo_of old_top (rev new) in
  t !! bh fork = Some fhd -> p_height fhd = j - Z.of_nat (length old_top) ->
  dlinked t old_top j (bh fork) ->
  alinked t (bh fork) (j - Z.of_nat (length old_top) + 1) new ->
  differ2 old_top new_low ->
  stack_agrees st j old_top fork ->
  exists s',
    rescan_with true t
      {| r_prev := top_hash old_top (bh fork); r_prevh := j; r_stack := st;
         r_i := j + 1; r_below := map bh new_low ++ bh fork :: deeper; r_above := map bh (nb :: new_high) |} =
    Some (emit c e, s').
Proof.
  intros c j new e Hf Hfh Hold Hnew Hdiff Hag.
  destruct (rescan_follows_reorg_gen t fork fhd deeper old_top new_low nb new_high j st Hf Hfh Hold Hnew Hdiff Hag) as [s' Hs'].
  exists s'. rewrite Hs'. f_equal. f_equal.
  unfold emit, e, evo_of, c. cbn [e_depth e_new].
  rewrite emit_disconnects_discs. rewrite rev_involutive, emit_connects_conns.
  fold c. fold j. fold new. reflexivity.
Qed.

(** ** The poller's hand-over as a whole

    The height-based poller hands over one block per height above the
    client's: after a reorganisation the first one is off the client's
    branch (the reorg procedure runs up to its height), the others are
    successors.  The stream is that of the evolution to the whole new branch. *)
Lemma successors_connect t : forall rest best,
  alinked t (m_hash best) (m_height best + 1) rest ->
  on_blocks_with true t best (map bh rest) =
  Some (conns (m_height best + 1) rest,
        match list.last rest with
        | None => best
        | Some b => meta_of (m_height best + Z.of_nat (length rest)) b
        end).
Proof.
  induction rest as [|b rest IH]; intros best Ha; [reflexivity|].
  destruct Ha as [Hb Ha].
  cbn [map on_blocks_with]. unfold on_block_with. rewrite Hb. cbn [p_prev p_time].
  rewrite N.eqb_refl.
  specialize (IH {| m_height := m_height best + 1; m_hash := bh b; m_time := bt b |}).
  cbn [m_hash m_height] in IH. rewrite (IH Ha).
  cbn [app conns]. apply f_equal. apply f_equal2; [reflexivity|].
  destruct rest as [|b' rest']; cbn [list.last length].
  - unfold meta_of; f_equal; try lia.
  - change (list.last (b :: b' :: rest')) with (list.last (b' :: rest')).
    destruct (list.last (b' :: rest')) eqn:E; [|apply last_None in E; discriminate].
    unfold meta_of; f_equal; cbn [length]; try lia.
Qed.

Theorem poller_handover_emits t o os b1 nsame ns rest h base :
  0 <= h - Z.of_nat (length os) ->
  dlinked t (o :: os) h base ->
  dlinked t ([b1] ++ nsame :: ns) (h + 1) base ->
  differ os ns -> bh nsame <> bh o ->
  alinked t (bh b1) (h + 2) rest ->
  exists best,
    on_blocks_with true t (meta_of h o) (map bh (b1 :: rest)) =
    Some (discs h (o :: os) ++ conns (h - Z.of_nat (length os)) (rev (b1 :: nsame :: ns) ++ rest), best) /\
    m_hash best = bh (match list.last rest with Some b => b | None => b1 end).
Proof.
  intros Hh Hold Hnew Hdiff Hne Hrest.
  pose proof (reorg_emits t o os [b1] nsame ns h base Hh Hold) as Hr.
  cbn [length new_tip app] in Hr. specialize (Hr Hnew Hdiff). cbv zeta in Hr.
  assert (Hb1 : t !! bh b1 = Some {| p_prev := bh nsame; p_height := h + 1; p_time := bt b1 |}).
  { destruct Hnew as [Hb _]. exact Hb. }
  cbn [map on_blocks_with]. unfold on_block_with. rewrite Hb1. cbn [p_prev meta_of m_hash].
  destruct (N.eqb_spec (bh nsame) (bh o)) as [E|_]; [congruence|].
  change {| m_height := h; m_hash := bh o; m_time := bt o |} with (meta_of h o).
  rewrite Hr.
  pose proof (successors_connect t rest (meta_of (h + Z.of_nat 1) b1)) as Hs.
  cbn [meta_of m_hash m_height] in Hs.
  replace (h + Z.of_nat 1 + 1) with (h + 2) in Hs by lia.
  unfold meta_of in Hs |- *. rewrite (Hs Hrest).
  eexists. split.
  - f_equal. f_equal. rewrite <- app_assoc. f_equal.
    (* conns over the concatenation *)
    assert (Hc : forall l1 l2 z, conns z (l1 ++ l2) = conns z l1 ++ conns (z + Z.of_nat (length l1)) l2).
    { clear. induction l1 as [|x l1 IH]; intros l2 z; cbn [app conns length].
      - rewrite Z.add_0_r. reflexivity.
      - rewrite IH. do 2 f_equal. f_equal. lia. }
    rewrite Hc. f_equal. f_equal.
    assert (Hl : length os = length ns) by (apply differ_length; exact Hdiff).
    rewrite rev_length. cbn [length app]. lia.
  - destruct (list.last rest); reflexivity.
Qed.
