(** Proofs about the bitcoind client's notification producer
    (Sync/BitcoindReorg.v): for every block tree that knows both branches, the
    reorg procedure emits exactly the notifications [Sync.emit] specifies for
    the evolution old branch -> new branch, and ends on the new tip. *)
From stdpp Require Import gmap list numbers.
From Coq Require Import ZArith NArith Lia.
From Verif Require Import Generated.SyncFacts Sync.Sync Sync.SyncProofs Sync.BitcoindReorg.
Local Open Scope Z_scope.

(** ** Auxiliary facts about [dlinked] *)

Lemma dlinked_lookup t l h base b :
  dlinked t l h base -> b ∈ l -> exists hd, t !! bh b = Some hd /\ p_time hd = bt b.
Proof.
  revert h. induction l as [|x l IH]; intros h Hd Hin; [inversion Hin|].
  destruct Hd as [Hx Hrest]. apply elem_of_cons in Hin as [->|Hin].
  - eexists; split; [exact Hx|reflexivity].
  - eapply IH; eauto.
Qed.

Lemma last_rev_head (l : list blk) : list.last (rev l) = head l.
Proof. destruct l as [|x l]; [reflexivity|]. cbn [rev head]. apply last_snoc. Qed.

Lemma dlinked_app_r t l1 : forall l2 h base,
  dlinked t (l1 ++ l2) h base -> dlinked t l2 (h - Z.of_nat (length l1)) base.
Proof.
  induction l1 as [|x l1 IH]; intros l2 h base Hd.
  - cbn [app length] in *. replace (h - Z.of_nat 0) with h by lia. exact Hd.
  - cbn [app length] in *. destruct Hd as [_ Hd].
    replace (h - Z.of_nat (S (length l1))) with (h - 1 - Z.of_nat (length l1)) by lia.
    apply IH. exact Hd.
Qed.

Lemma dlinked_app_l t l1 : forall l2 h base,
  dlinked t (l1 ++ l2) h base ->
  dlinked t l1 h (match l2 with [] => base | b :: _ => bh b end).
Proof.
  induction l1 as [|x l1 IH]; intros l2 h base Hd; [exact I|].
  cbn [app] in *. destruct Hd as [Hx Hd]. split.
  - destruct l1; exact Hx.
  - apply IH. exact Hd.
Qed.

(** ** First loop: collecting the new branch down to the client's height *)

(** [l] lists blocks tip first (the first at height [h]); gathering
    [length l] steps starting from the first block's hash pushes them all, the
    lowest ending up in front, and stops at [base]. *)
Lemma gather_spec t l : forall h base acc,
  dlinked t l h base ->
  gather t (length l) (match l with [] => base | b :: _ => bh b end) acc =
  Some (base, map bh (rev l) ++ acc).
Proof.
  induction l as [|b l IH]; intros h base acc Hd; [reflexivity|].
  destruct Hd as [Hb Hrest]. cbn [length gather]. rewrite Hb. cbn [p_prev].
  rewrite (IH (h - 1) base (bh b :: acc) Hrest).
  cbn [rev]. rewrite map_app, <- app_assoc. reflexivity.
Qed.

(** ** Second loop: walking back to the common ancestor *)

(** Pairwise different hashes at equal heights: [os] without its head against
    [ns]. *)
Fixpoint differ (os ns : list blk) : Prop :=
  match os, ns with
  | o :: os', n :: ns' => bh o <> bh n /\ differ os' ns'
  | [], [] => True
  | _, _ => False
  end.

Lemma differ_length : forall os ns, differ os ns -> length os = length ns.
Proof. induction os as [|x os IH]; intros [|n ns] Hd; try destruct Hd; cbn [length]; auto. Qed.

(** State at the loop head: the current block is [o] at height [h], followed
    downwards by [os]; the new branch below height [h] is [ns] (tip first);
    both end on [base].  The loop disconnects [o] and all of [os] but the
    last, and collects [ns]. *)
Lemma walk_back_spec t : forall ns o os h base fuel acc out,
  dlinked t (o :: os) h base ->
  dlinked t ns (h - 1) base ->
  differ os ns ->
  (length os < fuel)%nat ->
  exists o1 pre,
    o :: os = pre ++ [o1] /\
    walk_back true t fuel (meta_of h o)
      {| p_prev := match os with [] => base | b' :: _ => bh b' end; p_height := h; p_time := bt o |}
      (match ns with [] => base | n :: _ => bh n end) acc out =
    Some (meta_of (h - Z.of_nat (length os)) o1,
          {| p_prev := base; p_height := h - Z.of_nat (length os); p_time := bt o1 |},
          map bh (rev ns) ++ acc,
          out ++ discs h pre).
Proof.
  induction ns as [|n ns IH]; intros o os h base fuel acc out Hos Hns Hdiff Hfuel.
  - destruct os as [|o' os]; [|destruct Hdiff].
    exists o, []. split; [reflexivity|].
    destruct fuel as [|fuel]; [cbn in Hfuel; lia|].
    cbn [walk_back p_prev]. rewrite N.eqb_refl.
    cbn [length rev map app discs]. rewrite Z.sub_0_r, app_nil_r. reflexivity.
  - destruct os as [|o' os]; [destruct Hdiff|]. destruct Hdiff as [Hne Hdiff].
    destruct fuel as [|fuel]; [cbn in Hfuel; lia|].
    destruct Hos as [Ho Hos']. destruct Hns as [Hn Hns'].
    assert (Ho' := Hos'). destruct Ho' as [Ho' _].
    cbn [walk_back p_prev].
    destruct (N.eqb_spec (bh n) (bh o')) as [E|_]; [congruence|].
    rewrite Ho', Hn. cbn [p_prev p_time m_height meta_of].
    destruct (IH o' os (h - 1) base fuel (bh n :: acc) (out ++ [NDisconnect (meta_of h o)]) Hos' Hns' Hdiff)
      as (o1 & pre & Hsplit & Hwb); [cbn [length] in Hfuel; lia|].
    exists o1, (o :: pre). split; [rewrite Hsplit; reflexivity|].
    unfold meta_of in Hwb |- *. cbn [m_height m_hash m_time bh bt] in Hwb |- *.
    rewrite Hwb. cbn [length rev map discs].
    rewrite map_app, <- !app_assoc. cbn [map app].
    replace (h - 1 - Z.of_nat (length os)) with (h - Z.of_nat (S (length os))) by lia.
    reflexivity.
Qed.

(** ** Third loop: fast-forward *)

Lemma forward_spec t : forall l cur out,
  (forall b, b ∈ l -> exists hd, t !! bh b = Some hd /\ p_time hd = bt b) ->
  forward t cur (map bh l) out =
  Some (match list.last l with
        | None => cur
        | Some b => meta_of (m_height cur + Z.of_nat (length l)) b
        end,
        out ++ conns (m_height cur + 1) l).
Proof.
  induction l as [|b l IH]; intros cur out Hk.
  - cbn. rewrite app_nil_r. reflexivity.
  - destruct (Hk b) as (hd & Hhd & Ht); [left|].
    cbn [map forward]. rewrite Hhd, Ht.
    rewrite IH; [|intros b' Hb'; apply Hk; right; exact Hb'].
    cbn [m_height length conns]. rewrite <- app_assoc. cbn [app].
    apply f_equal. apply f_equal2; [|reflexivity].
    destruct l as [|b' l']; cbn [list.last].
    + unfold meta_of; f_equal; try lia.
    + change (list.last (b :: b' :: l')) with (list.last (b' :: l')).
      destruct (list.last (b' :: l')) eqn:E; [|apply last_None in E; discriminate].
      unfold meta_of; f_equal; cbn [length]; try lia.
Qed.

(** ** The procedure as a whole *)

(** The old branch above the common ancestor is [o :: os] (tip first, [o] at
    height [h]); the new branch is [nhi] (blocks above height [h], tip first,
    possibly empty), [nsame] (its block at height [h]) and [ns] (below, down to
    the ancestor).  The block that caused the reorg is the new tip. *)
Definition new_tip (nhi : list blk) (nsame : blk) : blk :=
  match nhi with [] => nsame | b :: _ => b end.

Theorem reorg_emits t o os nhi nsame ns h base :
  0 <= h - Z.of_nat (length os) ->
  dlinked t (o :: os) h base ->
  dlinked t (nhi ++ nsame :: ns) (h + Z.of_nat (length nhi)) base ->
  differ os ns ->
  let new := rev (nhi ++ nsame :: ns) in
  reorg_with true t (meta_of h o) (bh (new_tip nhi nsame)) =
  Some (discs h (o :: os) ++ conns (h - Z.of_nat (length os)) new,
        meta_of (h + Z.of_nat (length nhi)) (new_tip nhi nsame)).
Proof.
  intros Hh Hold Hnew Hdiff new.
  (* the tree knows the new tip *)
  assert (Htip : exists pv, t !! bh (new_tip nhi nsame) =
            Some {| p_prev := pv; p_height := h + Z.of_nat (length nhi); p_time := bt (new_tip nhi nsame) |} /\
            gather t (length nhi) pv [bh (new_tip nhi nsame)] =
            Some (match ns with [] => base | n :: _ => bh n end,
                  map bh (rev (nhi ++ [nsame])))).
  { destruct nhi as [|b nhi].
    - cbn [app length new_tip] in *. destruct Hnew as [Hn _]. rewrite Z.add_0_r in Hn.
      eexists; split; [rewrite Z.add_0_r; exact Hn|]. reflexivity.
    - cbn [app new_tip length] in *. destruct Hnew as [Hb Hrest].
      eexists; split; [exact Hb|].
      (* gather over the rest of nhi and nsame *)
      assert (Hsplit : exists hh, dlinked t (nhi ++ [nsame]) hh (match ns with [] => base | n :: _ => bh n end)).
      { eexists. apply (dlinked_app_l t (nhi ++ [nsame]) ns).
        rewrite <- app_assoc. exact Hrest. }
      destruct Hsplit as [hh Hl].
      pose proof (gather_spec t (nhi ++ [nsame]) hh _ [bh b] Hl) as Hg.
      rewrite app_length in Hg. cbn [length] in Hg.
      replace (length nhi + 1)%nat with (S (length nhi)) in Hg by lia.
      assert (Hhead : match nhi ++ [nsame] with [] => match ns with [] => base | n :: _ => bh n end | b0 :: _ => bh b0 end =
                      match nhi ++ nsame :: ns with [] => base | b' :: _ => bh b' end).
      { destruct nhi; reflexivity. }
      rewrite Hhead in Hg. rewrite Hg.
      cbn [rev]. rewrite map_app. reflexivity. }
  destruct Htip as (pv & Hnb & Hgather).
  unfold reorg_with. rewrite Hnb. cbn [p_height p_prev meta_of m_height m_hash].
  destruct (Z.ltb_spec (h + Z.of_nat (length nhi)) h) as [Hlt|_]; [lia|].
  replace (Z.to_nat (h + Z.of_nat (length nhi) - h)) with (length nhi) by lia.
  rewrite Hgather.
  assert (Ho := Hold). destruct Ho as [Ho _]. rewrite Ho.
  (* the part of the new branch below height h *)
  assert (Hns : dlinked t ns (h - 1) base).
  { pose proof (dlinked_app_r t (nhi ++ [nsame]) ns (h + Z.of_nat (length nhi)) base) as Hr.
    rewrite <- app_assoc in Hr. specialize (Hr Hnew).
    rewrite app_length in Hr. cbn [length] in Hr.
    replace (h + Z.of_nat (length nhi) - Z.of_nat (length nhi + 1)) with (h - 1) in Hr by lia.
    exact Hr. }
  destruct (walk_back_spec t ns o os h base (Z.to_nat h + 1) (map bh (rev (nhi ++ [nsame]))) [] Hold Hns Hdiff)
    as (o1 & pre & Hsplit & Hwb); [lia|].
  rewrite Hwb. unfold meta_of at 1 2 3 4. cbn [m_height m_hash m_time p_time app].
  (* forward over the whole new branch *)
  assert (Hacc : map bh (rev ns) ++ map bh (rev (nhi ++ [nsame])) = map bh new).
  { unfold new. rewrite <- map_app, <- rev_app_distr, <- app_assoc. reflexivity. }
  rewrite Hacc.
  rewrite forward_spec.
  2:{ intros b Hb. unfold new in Hb. apply elem_of_list_In in Hb. apply <- in_rev in Hb. apply elem_of_list_In in Hb.
      eapply dlinked_lookup; [exact Hnew|exact Hb]. }
  cbn [m_height]. f_equal. f_equal.
  - (* notifications *)
    rewrite Hsplit.
    assert (Hd : forall pre z, discs z (pre ++ [o1]) = discs z pre ++ [NDisconnect (meta_of (z - Z.of_nat (length pre)) o1)]).
    { clear. induction pre as [|x pre IH]; intros z; cbn [app discs length].
      - rewrite Z.sub_0_r. reflexivity.
      - rewrite IH. replace (z - Z.of_nat (S (length pre))) with (z - 1 - Z.of_nat (length pre)) by lia. reflexivity. }
    rewrite Hd. rewrite <- app_assoc. cbn [app].
    assert (Hlen : length pre = length os).
    { apply (f_equal (@length _)) in Hsplit. rewrite app_length in Hsplit. cbn [length] in Hsplit. lia. }
    rewrite Hlen. unfold meta_of. cbn [bh bt m_hash].
    replace (h - Z.of_nat (length os) - 1 + 1) with (h - Z.of_nat (length os)) by lia.
    rewrite <- app_assoc. reflexivity.
  - (* best block *)
    unfold new. rewrite last_rev_head, rev_length.
    pose proof (differ_length _ _ Hdiff) as Hl2.
    destruct nhi as [|b nhi]; cbn [app head new_tip length].
    + unfold meta_of. f_equal. lia.
    + unfold meta_of. f_equal. rewrite app_length. cbn [length]. lia.
Qed.

(** ** In the vocabulary of Sync.v: the emitted stream is [emit c e] *)

Lemma emit_disconnects_discs : forall (l : list blk) (anc : list blk),
  emit_disconnects (anc ++ rev l) (length l) = discs (tip_height (anc ++ rev l)) l.
Proof.
  induction l as [|b l IH]; intros anc; [reflexivity|].
  cbn [length emit_disconnects rev]. rewrite app_assoc, last_snoc.
  cbn [discs]. f_equal.
  rewrite app_length. cbn [length].
  replace (length (anc ++ rev l) + 1 - 1)%nat with (length (anc ++ rev l)) by lia.
  rewrite take_app. rewrite IH. f_equal.
  unfold tip_height. rewrite !app_length. cbn [length]. lia.
Qed.

Lemma emit_connects_conns : forall (l : list blk) h,
  emit_connects h (map bare l) = conns h l.
Proof. induction l as [|b l IH]; intros h; [reflexivity|]. cbn. rewrite IH. reflexivity. Qed.

(** The evolution "replace the old branch by the new one". *)
Definition evo_of (old_top new_top : list blk) : evo :=
  {| e_depth := length old_top; e_new := map bare (rev new_top) |}.

Theorem reorg_is_emit t anc o os nhi nsame ns base :
  let h := tip_height (anc ++ rev (o :: os)) in
  anc <> [] ->
  dlinked t (o :: os) h base ->
  dlinked t (nhi ++ nsame :: ns) (h + Z.of_nat (length nhi)) base ->
  differ os ns ->
  let c := anc ++ rev (o :: os) in
  let e := evo_of (o :: os) (nhi ++ nsame :: ns) in
  reorg_with true t (meta_of h o) (bh (new_tip nhi nsame)) =
  Some (emit c e, meta_of (tip_height (apply_evo c e)) (new_tip nhi nsame)) /\
  apply_evo c e = anc ++ rev (nhi ++ nsame :: ns).
Proof.
  intros h Hanc Hold Hnew Hdiff c e.
  pose proof (differ_length _ _ Hdiff) as Hlen.
  assert (Hh : h = Z.of_nat (length anc) + Z.of_nat (length os)).
  { unfold h, tip_height. rewrite app_length, rev_length. cbn [length]. lia. }
  assert (Happly : apply_evo c e = anc ++ rev (nhi ++ nsame :: ns)).
  { unfold apply_evo, c, e, evo_of. cbn [e_depth e_new].
    rewrite app_length, rev_length.
    replace (length anc + length (o :: os) - length (o :: os))%nat with (length anc) by lia.
    rewrite take_app. rewrite map_map. cbn [nb_blk bare]. rewrite map_id. reflexivity. }
  split; [|exact Happly].
  rewrite (reorg_emits t o os nhi nsame ns h base); [|destruct anc; [congruence|cbn [length] in Hh; lia]|exact Hold|exact Hnew|exact Hdiff].
  f_equal. f_equal.
  - unfold emit, c, e, evo_of. cbn [e_depth e_new].
    rewrite emit_disconnects_discs, emit_connects_conns. fold h.
    do 2 f_equal. cbn [length]. lia.
  - rewrite Happly. unfold tip_height. rewrite app_length, rev_length, app_length. cbn [length].
    f_equal. rewrite Hh. lia.
Qed.

(** ** Composition with the wallet's handlers (Sync/SyncProofs.v) *)

Theorem wallet_follows_bitcoind_reorg hdr t anc o os nhi nsame ns base lo w :
  disconnect_records_parent_hash = true ->
  let h := tip_height (anc ++ rev (o :: os)) in
  let c := anc ++ rev (o :: os) in
  let e := evo_of (o :: os) (nhi ++ nsame :: ns) in
  anc <> [] ->
  dlinked t (o :: os) h base ->
  dlinked t (nhi ++ nsame :: ns) (h + Z.of_nat (length nhi)) base ->
  differ os ns ->
  consistent hdr c lo w -> chain_synced w = true -> valid_evo hdr c lo e ->
  exists stream best w',
    reorg_with true t (meta_of h o) (bh (new_tip nhi nsame)) = Some (stream, best) /\
    m_hash best = bh (new_tip nhi nsame) /\
    run hdr stream w = (w', false) /\ chain_synced w' = true /\
    consistent hdr (anc ++ rev (nhi ++ nsame :: ns))
      (Z.max lo (tip_height (anc ++ rev (nhi ++ nsame :: ns)) - max_reorg_depth + 1)) w'.
Proof.
  intros Hfact h c e Hanc Hold Hnew Hdiff Hc Hcs Hv.
  destruct (reorg_is_emit t anc o os nhi nsame ns base Hanc Hold Hnew Hdiff) as [Hr Happly].
  fold h c e in Hr, Happly.
  destruct (follows_evolution hdr Hfact c lo w e (emit c e) Hc Hcs Hv) as (w' & Hrun & Hcs' & Hcons).
  { pose proof (emit_nrun hdr c lo e Hv) as Hs'. eapply noisy_refl. exact Hs'. }
  exists (emit c e), (meta_of (tip_height (apply_evo c e)) (new_tip nhi nsame)), w'.
  split; [exact Hr|]. split; [reflexivity|]. split; [exact Hrun|]. split; [exact Hcs'|].
  rewrite <- Happly. exact Hcons.
Qed.

(** ** What the pinned code did: the hash of the block one below *)

Definition t_ex : tree := tree_of
  [(1%N, 0%N, 0, 100); (2%N, 1%N, 1, 101); (3%N, 2%N, 2, 102); (4%N, 3%N, 3, 103); (5%N, 4%N, 4, 104);
   (6%N, 3%N, 3, 113); (7%N, 6%N, 4, 114); (8%N, 7%N, 5, 115)].

(** Old branch 4,5 above block 3; new branch 6,7,8.  With the fact [false]
    (the code before the repair) the second BlockDisconnected carries hash 3 -
    the common ancestor - at height 3 instead of hash 4. *)
Lemma reorg_refuted_at_pinned :
  reorg_with false t_ex {| m_height := 4; m_hash := 5%N; m_time := 104 |} 8%N =
  Some ([NDisconnect {| m_height := 4; m_hash := 5%N; m_time := 104 |};
         NDisconnect {| m_height := 3; m_hash := 3%N; m_time := 103 |};
         NConnect {| m_height := 3; m_hash := 6%N; m_time := 113 |};
         NConnect {| m_height := 4; m_hash := 7%N; m_time := 114 |};
         NConnect {| m_height := 5; m_hash := 8%N; m_time := 115 |}],
        {| m_height := 5; m_hash := 8%N; m_time := 115 |}) /\
  reorg_with true t_ex {| m_height := 4; m_hash := 5%N; m_time := 104 |} 8%N =
  Some ([NDisconnect {| m_height := 4; m_hash := 5%N; m_time := 104 |};
         NDisconnect {| m_height := 3; m_hash := 4%N; m_time := 103 |};
         NConnect {| m_height := 3; m_hash := 6%N; m_time := 113 |};
         NConnect {| m_height := 4; m_hash := 7%N; m_time := 114 |};
         NConnect {| m_height := 5; m_hash := 8%N; m_time := 115 |}],
        {| m_height := 5; m_hash := 8%N; m_time := 115 |}).
Proof. split; vm_compute; reflexivity. Qed.
