(** Executable model of the wallet's chain-tip tracking (property C15):

      wallet/chainntfns.go   connectBlock, disconnectBlock, addRelevantTx,
                             catchUpHashes (RescanFinished)
      wallet/wallet.go       syncWithChain: the first synchronisation
                             (birthdayStamp == nil: SetSyncedTo(birthday
                             block) + SetBirthdayBlock), the start-up rollback
                             loop and the birthday-reset branch after it
      waddrmgr/sync.go       SetSyncedTo, SyncedTo, BlockHash
      waddrmgr/db.go         PutSyncedTo (predecessor check, height -> hash
                             entry, pruning of the entry MaxReorgDepth below),
                             fetchBlockHash
      wtxmgr                 only the "confirmed in which block" facts of the
                             transaction store: InsertTxCheckIfExists and
                             Rollback, projected to (txid, height, block hash)

    and of the backend: a best chain evolving by extension and reorganisation,
    and the notifications it emits.

    Heights and times are [Z] (Go's int32/uint32 wrap is outside the model;
    the harness stays in range); block hashes and txids are interned to [N],
    the all-zero hash is [0].  Every handler runs inside one walletdb.Update:
    an error leaves the state unchanged (all-or-nothing is property C11).

    Two facts are regenerated from the source (Generated/SyncFacts.v): whether
    disconnectBlock hands the parent's hash to SetSyncedTo, and MaxReorgDepth.
    No proofs here. *)
From stdpp Require Import gmap list numbers.
From Coq Require Import ZArith NArith.
From Verif Require Import Generated.SyncFacts.
Local Open Scope Z_scope.

(** * Backend: the best chain *)

Record blk := { bh : N; bt : Z }.                 (* block hash id, header time *)
Notation chain := (list blk) (only parsing).      (* index = height; head = genesis *)

Definition chain_at (c : chain) (h : Z) : option blk :=
  if h <? 0 then None else c !! Z.to_nat h.
Definition tip_height (c : chain) : Z := Z.of_nat (length c) - 1.

(** What GetBlockHeader knows: every block ever created (stale ones too). *)
Notation headers := (gmap N Z) (only parsing).    (* hash -> header time *)

(** Block stamp / block meta: height, hash, time. *)
Record bmeta := { m_height : Z; m_hash : N; m_time : Z }.
Definition meta_of (h : Z) (b : blk) : bmeta := {| m_height := h; m_hash := bh b; m_time := bt b |}.
Definition blk_of (m : bmeta) : blk := {| bh := m_hash m; bt := m_time m |}.

(** A new block together with the wallet-relevant transactions it contains:
    [(txid, is_coinbase)] notified before (btcd order) or after (bitcoind
    order) the block-connected notification. *)
Record nblk := { nb_blk : blk; nb_pre : list (N * bool); nb_post : list (N * bool) }.

(** Evolution of the best chain: replace the top [d] blocks by new ones
    ([d = 0]: extension). *)
Record evo := { e_depth : nat; e_new : list nblk }.
Definition apply_evo (c : chain) (e : evo) : chain :=
  take (length c - e_depth e) c ++ map nb_blk (e_new e).

(** * Notifications *)
Inductive ntfn :=
| NConnect (b : bmeta)                             (* chain.BlockConnected *)
| NDisconnect (b : bmeta)                          (* chain.BlockDisconnected *)
| NTx (t : N) (cb : bool) (b : option bmeta).      (* chain.RelevantTx; None = unmined *)

(** Disconnects of the top [d] blocks, tip first. *)
Fixpoint emit_disconnects (c : chain) (d : nat) : list ntfn :=
  match d with
  | O => []
  | S d' =>
    match list.last c with
    | None => []
    | Some b => NDisconnect (meta_of (tip_height c) b) :: emit_disconnects (take (length c - 1) c) d'
    end
  end.

(** Connects upward from height [h] (the height of the first new block). *)
Fixpoint emit_connects (h : Z) (new : list nblk) : list ntfn :=
  match new with
  | [] => []
  | nb :: rest =>
    let m := meta_of h (nb_blk nb) in
    map (fun t => NTx t.1 t.2 (Some m)) (nb_pre nb) ++ NConnect m ::
    map (fun t => NTx t.1 t.2 (Some m)) (nb_post nb) ++ emit_connects (h + 1) rest
  end.

Definition emit (c : chain) (e : evo) : list ntfn :=
  emit_disconnects c (e_depth e) ++
  emit_connects (tip_height c - Z.of_nat (e_depth e) + 1) (e_new e).

(** * Wallet state *)
Record txrec := { r_tx : N; r_height : Z; r_hash : N; r_cb : bool }.

Record wallet := {
  synced : bmeta;               (* Manager.SyncedTo() *)
  hashes : gmap Z N;            (* sync bucket: height -> hash (Manager.BlockHash) *)
  birthday_set : bool;          (* a birthday block is stored (enables the predecessor check) *)
  bday : bmeta;                 (* the stored birthday block (meaningful when [birthday_set]) *)
  chain_synced : bool;          (* Wallet.ChainSynced() *)
  mined : list txrec;           (* transaction records confirmed in a block *)
  unmined : list N;             (* unconfirmed transaction records *)
}.

Definition set_sync (bs : bmeta) (hs : gmap Z N) (w : wallet) : wallet :=
  {| synced := bs; hashes := hs; birthday_set := birthday_set w; bday := bday w; chain_synced := chain_synced w;
     mined := mined w; unmined := unmined w |}.
Definition set_txs (m : list txrec) (u : list N) (w : wallet) : wallet :=
  {| synced := synced w; hashes := hashes w; birthday_set := birthday_set w; bday := bday w;
     chain_synced := chain_synced w; mined := m; unmined := u |}.
Definition set_chain_synced (b : bool) (w : wallet) : wallet :=
  {| synced := synced w; hashes := hashes w; birthday_set := birthday_set w; bday := bday w; chain_synced := b;
     mined := mined w; unmined := unmined w |}.
Definition set_birthday (b : bool) (w : wallet) : wallet :=
  {| synced := synced w; hashes := hashes w; birthday_set := b; bday := bday w; chain_synced := chain_synced w;
     mined := mined w; unmined := unmined w |}.
(** [Manager.SetBirthdayBlock]. *)
Definition set_bday (b : bmeta) (w : wallet) : wallet :=
  {| synced := synced w; hashes := hashes w; birthday_set := true; bday := b; chain_synced := chain_synced w;
     mined := mined w; unmined := unmined w |}.

(** The wallet right after creation on a chain whose genesis block is [g]
    (waddrmgr.Create: synced to the genesis block, its hash stored). *)
Definition new_wallet (g : blk) : wallet :=
  {| synced := meta_of 0 g; hashes := {[ 0 := bh g ]}; birthday_set := false;
     bday := {| m_height := 0; m_hash := 0%N; m_time := 0 |}; chain_synced := false;
     mined := []; unmined := [] |}.

(** * waddrmgr *)

Definition stale_height (h : Z) : Z := h - max_reorg_depth.

Definition has_height (h : Z) (w : wallet) : bool :=
  match hashes w !! h with Some _ => true | None => false end.

(** [PutSyncedTo] (+ the memory update of [SetSyncedTo]); [None] = ErrBlockNotFound. *)
Definition put_synced_to (bs : bmeta) (w : wallet) : option wallet :=
  let h := m_height bs in
  if (0 <? h) && birthday_set w && negb (has_height (h - 1) w) then None
  else
    let hs := <[h := m_hash bs]> (hashes w) in
    let hs := if 0 <? stale_height h then delete (stale_height h) hs else hs in
    Some (set_sync bs hs w).

(** * wtxmgr, projected *)

Definition has_rec (t : N) (h : Z) (hash : N) (l : list txrec) : bool :=
  existsb (fun r => (r_tx r =? t)%N && (r_height r =? h) && (r_hash r =? hash)%N) l.
Definition has_tx (t : N) (l : list txrec) : bool := existsb (fun r => (r_tx r =? t)%N) l.
Definition mem_N (t : N) (l : list N) : bool := existsb (N.eqb t) l.
Definition add_N (t : N) (l : list N) : list N := if mem_N t l then l else l ++ [t].
Definition del_N (t : N) (l : list N) : list N := filter (fun x => negb (x =? t)%N) l.

(** [InsertTxCheckIfExists]. *)
Definition insert_tx (t : N) (cb : bool) (b : option bmeta) (w : wallet) : wallet :=
  match b with
  | None =>
    if mem_N t (unmined w) || has_tx t (mined w) then w
    else set_txs (mined w) (unmined w ++ [t]) w
  | Some m =>
    if has_rec t (m_height m) (m_hash m) (mined w) then w
    else set_txs (mined w ++ [{| r_tx := t; r_height := m_height m; r_hash := m_hash m; r_cb := cb |}])
                 (del_N t (unmined w)) w
  end.

(** [Store.Rollback height]: every record confirmed at [height] or above
    becomes unconfirmed; coinbase records are deleted. *)
Definition rollback (h : Z) (w : wallet) : wallet :=
  let gone := filter (fun r => h <=? r_height r) (mined w) in
  let back := map r_tx (filter (fun r => negb (r_cb r)) gone) in
  set_txs (filter (fun r => r_height r <? h) (mined w)) (fold_left (fun u t => add_N t u) back (unmined w)) w.

(** * wallet/chainntfns.go *)

(** A handler's result: the new state, and whether the enclosing
    walletdb.Update returned an error (state unchanged then). *)
Definition result := (wallet * bool)%type.
Definition ok (w : wallet) : result := (w, false).
Definition fail (w : wallet) : result := (w, true).

Definition connect_block (b : bmeta) (w : wallet) : result :=
  match put_synced_to b w with
  | Some w' => ok w'
  | None => fail w
  end.

(** [fact] = Generated.SyncFacts.disconnect_records_parent_hash. *)
Definition disconnect_block_with (fact : bool) (hdr : headers) (b : bmeta) (w : wallet) : result :=
  if negb (chain_synced w) then ok w
  else if m_height b <=? m_height (synced w) then
    match hashes w !! m_height b with
    | None => fail w
    | Some hash =>
      if (hash =? m_hash b)%N then
        match hashes w !! (m_height b - 1) with
        | None => fail w
        | Some parent =>
          match hdr !! parent with
          | None => fail w
          | Some t =>
            let bs := {| m_height := m_height b - 1;
                         m_hash := if fact then parent else 0%N;
                         m_time := t |} in
            match put_synced_to bs w with
            | None => fail w
            | Some w' => ok (rollback (m_height b) w')
            end
          end
        end
      else ok w
    end
  else ok w.

Definition disconnect_block := disconnect_block_with disconnect_records_parent_hash.

Definition add_relevant_tx (t : N) (cb : bool) (b : option bmeta) (w : wallet) : result :=
  ok (insert_tx t cb b w).

Definition handle_with (fact : bool) (hdr : headers) (n : ntfn) (w : wallet) : result :=
  match n with
  | NConnect b => connect_block b w
  | NDisconnect b => disconnect_block_with fact hdr b w
  | NTx t cb b => add_relevant_tx t cb b w
  end.
Definition handle := handle_with disconnect_records_parent_hash.

(** All notifications in order; the flag tells whether any handler failed. *)
Fixpoint run_with (fact : bool) (hdr : headers) (l : list ntfn) (w : wallet) : result :=
  match l with
  | [] => ok w
  | n :: l' =>
    let '(w1, e1) := handle_with fact hdr n w in
    let '(w2, e2) := run_with fact hdr l' w1 in
    (w2, e1 || e2)
  end.
Definition run := run_with disconnect_records_parent_hash.

(** * wallet/wallet.go: syncWithChain *)

(** First synchronisation ([birthdayStamp == nil]: no birthday block stored
    yet).  [loc] is the block locateBirthdayBlock returned (which block that
    is, is property C16's business; here only what is done with it).  The
    synced-to stamp is NOT [loc] itself: height [loc]'s hash is asked from the
    backend again (GetBlockHash(startHeight), GetBlockHeader); then, in one
    Update, SetSyncedTo(that stamp) and SetBirthdayBlock(loc, verified). *)
Definition first_sync (backend : chain) (hdr : headers) (loc : bmeta) (w : wallet) : result :=
  match chain_at backend (m_height loc) with
  | None => fail w                                (* GetBlockHash *)
  | Some cb =>
    match hdr !! bh cb with
    | None => fail w                              (* GetBlockHeader *)
    | Some t =>
      match put_synced_to {| m_height := m_height loc; m_hash := bh cb; m_time := t |} w with
      | None => fail w
      | Some w' => ok (set_bday loc w')
      end
    end
  end.

(** The rollback loop. *)

Inductive walk_res :=
| WErr                                   (* BlockHash / GetBlockHash / GetBlockHeader failed *)
| WFuel                                  (* unreachable: see SyncProofs.walk_no_fuel *)
| WFound (stamp : bmeta) (rb : bool).    (* rollbackStamp, rollback *)

Fixpoint walk (fuel : nat) (backend : chain) (hdr : headers) (w : wallet) (height : Z) (rb : bool) : walk_res :=
  match fuel with
  | O => WFuel
  | S f =>
    match hashes w !! height with
    | None => WErr
    | Some hash =>
      match chain_at backend height with
      | None => WErr
      | Some cb =>
        match hdr !! bh cb with
        | None => WErr
        | Some t =>
          let stamp := {| m_height := height; m_hash := bh cb; m_time := t |} in
          if (hash =? bh cb)%N then WFound stamp rb
          else walk f backend hdr w (height - 1) true
        end
      end
    end
  end.

Definition walk_fuel (w : wallet) : nat := Z.to_nat (m_height (synced w)) + 2.

(** The birthday-reset branch: "if the rollback happened to go beyond our
    birthday stamp" ([rollbackStamp.Height <= birthdayStamp.Height &&
    rollbackStamp.Hash != birthdayStamp.Hash]) the rollback stamp becomes the
    birthday block.  [birthdayStamp] is the stored birthday block (the one
    birthdaySanityCheck returned, or the one the first synchronisation just
    stored); it is never nil at that point. *)
Definition crosses_birthday (stamp : bmeta) (w : wallet) : bool :=
  birthday_set w && (m_height stamp <=? m_height (bday w)) && negb (m_hash stamp =? m_hash (bday w))%N.
Definition reset_birthday (stamp : bmeta) (w : wallet) : wallet :=
  if crosses_birthday stamp w then set_bday stamp w else w.

(** One Update: the loop, then - only if it had to walk down -
    SetSyncedTo(rollbackStamp), the birthday reset, TxStore.Rollback(height+1).
    The backend being lower than the wallet's synced-to height makes the very
    first GetBlockHash fail ([chain_at] = None): the Update fails. *)
Definition sync_rollback (backend : chain) (hdr : headers) (w : wallet) : result :=
  match walk (walk_fuel w) backend hdr w (m_height (synced w)) false with
  | WFound _ false => ok w
  | WFound stamp true =>
    match put_synced_to stamp w with
    | None => fail w
    | Some w' => ok (rollback (m_height stamp + 1) (reset_birthday stamp w'))
    end
  | _ => fail w
  end.

(** [catchUpHashes] (RescanProgress / RescanFinished): SetSyncedTo for every
    height above the synced one up to [height] (hash from GetBlockHash, time
    from GetBlockHeader), inside one Update.  [bs] are the backend's blocks
    at heights [i], [i+1], ... *)
Fixpoint catch_up_blocks (hdr : headers) (i : Z) (bs : list blk) (w : wallet) : option wallet :=
  match bs with
  | [] => Some w
  | b :: rest =>
    match hdr !! bh b with
    | None => None
    | Some t =>
      match put_synced_to {| m_height := i; m_hash := bh b; m_time := t |} w with
      | None => None
      | Some w' => catch_up_blocks hdr (i + 1) rest w'
      end
    end
  end.

Definition catch_up (backend : chain) (hdr : headers) (height : Z) (w : wallet) : result :=
  let s := m_height (synced w) in
  if height <=? s then ok w                        (* empty loop *)
  else if s + 1 <? 0 then fail w                   (* GetBlockHash of a negative height *)
  else
    let n := Z.to_nat (height - s) in
    let bs := take n (drop (Z.to_nat (s + 1)) backend) in
    if (length bs <? n)%nat then fail w            (* GetBlockHash beyond the backend's tip *)
    else
      match catch_up_blocks hdr (s + 1) bs w with
      | Some w' => ok w'
      | None => fail w
      end.

(** [Wallet.recovery] (only with a recovery window), reduced to what
    matters here: for the backend's blocks above the synced-to block, up to
    the backend's best height, the wallet transactions the block filter finds
    in them are recorded (addRelevantTx; blocks below the birthday block are
    not filtered) and SetSyncedTo is called block by block - in batches of
    recoveryBatchSize blocks, one Update each.  The model makes it one
    transaction: SetSyncedTo can only fail for the first block (its
    predecessor is the synced-to block; every later predecessor has just been
    stored), so either nothing or everything commits.  [txs] = the wallet
    transactions of the backend's chain, in chain order (which those are is
    property C16's business). *)
Definition rtx := (N * bool * bmeta)%type.
Definition insert_all (txs : list rtx) (w : wallet) : wallet :=
  fold_left (fun w x => insert_tx x.1.1 x.1.2 (Some x.2) w) txs w.
Definition scanned (w : wallet) (x : rtx) : bool :=
  (m_height (synced w) <? m_height x.2) &&
  (negb (birthday_set w) || (m_height (bday w) <=? m_height x.2)).
Definition recover (backend : chain) (hdr : headers) (txs : list rtx) (w : wallet) : result :=
  let best := tip_height backend in
  if best <=? m_height (synced w) then ok w                (* empty loop *)
  else
    match catch_up backend hdr best (insert_all (filter (fun x => scanned w x) txs) w) with
    | (w', false) => ok w'
    | (_, true) => fail w
    end.

(** syncWithChain up to the rescan request, as one attempt of waitForSync.
    [first] = the [birthdayStamp] argument is nil: birthdaySanityCheck found no
    stored birthday block when the backend connected.  waitForSync passes the
    SAME argument to every repetition of a failed attempt, so [first] does
    not follow [birthday_set] once the first-synchronisation Update of an
    earlier attempt has committed.  With [first]: the first-synchronisation
    Update, then the rollback Update; the two are separate transactions, a
    failure of the second keeps what the first stored. *)
Definition startup (first : bool) (backend : chain) (hdr : headers) (loc : bmeta) (w : wallet) : result :=
  if first then
    let '(w1, e1) := first_sync backend hdr loc w in
    if e1 then (w1, true) else sync_rollback backend hdr w1
  else sync_rollback backend hdr w.

(** The same for a wallet opened with a recovery window ([rec]): recovery runs
    between the first synchronisation and the rollback loop
    ([rec_first] = Generated.SyncFacts.recovery_before_rollback, the order of
    the two in the source) - or after the loop.  Each stage is its own
    transaction; a failing stage ends the attempt and keeps the earlier ones. *)
Definition startup_rec_with (rec_first first rec : bool) (backend : chain) (hdr : headers)
    (loc : bmeta) (txs : list rtx) (w : wallet) : result :=
  let s1 := if first then first_sync backend hdr loc w else ok w in
  if s1.2 then s1
  else if negb rec then sync_rollback backend hdr s1.1
  else if rec_first then
    let s2 := recover backend hdr txs s1.1 in
    if s2.2 then s2 else sync_rollback backend hdr s2.1
  else
    let s2 := sync_rollback backend hdr s1.1 in
    if s2.2 then s2 else recover backend hdr txs s2.1.
Definition startup_rec := startup_rec_with recovery_before_rollback.

(** RescanFinished: catch up, then mark the wallet synced (whatever the
    catch-up returned). *)
Definition rescan_finished (backend : chain) (hdr : headers) (height : Z) (w : wallet) : result :=
  let '(w', e) := catch_up backend hdr height w in
  (set_chain_synced true w', e).
