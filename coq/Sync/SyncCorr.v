(** Executable comparison used by the correspondence check of C15: the model
    (Sync.v, with the facts of Generated/SyncFacts.v) is run on the
    notification sequence the implementation processed and compared with what
    the implementation reported after each of them.

    Two kinds of difference: what the theorems of Properties/C15.v speak
    about decides ([obs_diff]); the rest is only counted ([obs_drift]: a
    handler's error flag, the synced-to timestamp, hashes stored outside
    [lo, synced-to height], the birthday block). *)
From stdpp Require Import gmap list numbers.
From Coq Require Import ZArith NArith.
From Verif Require Import Generated.SyncFacts Sync.Sync.
Local Open Scope Z_scope.

(** Compact chains: runs [(n, first id, first time, time step)] of blocks with
    consecutive hash ids and evenly spaced times. *)
Definition seg := (nat * N * Z * Z)%type.
Fixpoint seg_from (n : nat) (id : N) (t dt : Z) : list blk :=
  match n with
  | O => []
  | S n' => {| bh := id; bt := t |} :: seg_from n' (id + 1)%N (t + dt) dt
  end.
Definition seg_blocks (s : seg) : list blk :=
  let '(n, id0, t0, dt) := s in seg_from n id0 t0 dt.
Definition expand (l : list seg) : list blk := flat_map seg_blocks l.
Definition headers_of (l : list seg) : gmap N Z :=
  list_to_map (map (fun b => (bh b, bt b)) (expand l)).

(** What the harness did between two observations. *)
Inductive cop :=
| CNtfn (n : ntfn)                                  (* one notification through the wallet's handler / the dispatch switch *)
| CNtfns (l : list ntfn)                            (* chain.FilteredBlockConnected: the block's relevant transactions,
                                                       one addRelevantTx each inside ONE Update (the model's addRelevantTx
                                                       never fails, so this is the sequence of RelevantTx notifications) *)
| CStartup (first rec : bool) (backend : list seg) (loc : bmeta) (txs : list rtx) (* one attempt of syncWithChain up to the rescan request (observed at
                                                       NotifyBlocks, or - a failed attempt - when waitForSync starts the
                                                       next one); [first] = no birthday block was stored when the backend
                                                       connected; [loc] = what locateBirthdayBlock returns on that backend
                                                       (used only with [first]); [rec] = the wallet was opened with a
                                                       recovery window, [txs] = the wallet transactions of [backend],
                                                       in chain order (used only with [rec]) *)
| CRescanProgress (backend : list seg) (height : Z) (* catchUpHashes *)
| CRescanFinished (backend : list seg) (height : Z) (* catchUpHashes + SetChainSynced(true) *)
| CReopen                                           (* stop, close, reopen: ChainSynced() = false *)
| CSetSynced (b : bool)                             (* Wallet.SetChainSynced *)
| CSetBirthday (b : bmeta).                         (* Manager.SetBirthdayBlock *)

(** Implementation observation (canonical: sets without duplicates). *)
Record iobs := {
  o_err : option bool;                   (* start-up attempt: it did not reach the rescan request;
                                            notification through a hook: the walletdb.Update returned an error;
                                            None: not observable (notification through the dispatch goroutine) *)
  o_synced : bmeta;                      (* Manager.SyncedTo() *)
  o_chain_synced : bool;                 (* Wallet.ChainSynced() *)
  o_bday : option (Z * N);               (* Manager.BirthdayBlock: height, hash *)
  o_probes : list (Z * option N);        (* Manager.BlockHash(h) for probed heights *)
  o_mined : list (N * Z * N);            (* (txid, height, block hash) of confirmed records *)
  o_unmined : list N;                    (* unconfirmed records *)
}.

(** Observations are written by the driver as flat lists of integers (large
    record literals are slow to elaborate):
      [err (0, 1; 2 = not observable); h; hash; time; chain_synced; bday set; bday height; bday hash;
       np; (height, hash+1 | 0)*np; nm; (txid, height, hash)*nm; nu; txid*nu]
    The empty list means "not observed after this event". *)
Definition mk (h hash t : Z) : bmeta := {| m_height := h; m_hash := Z.to_N hash; m_time := t |}.
Definition zbool (z : Z) : bool := negb (z =? 0).

Fixpoint dec_probes (n : nat) (l : list Z) : option (list (Z * option N) * list Z) :=
  match n with
  | O => Some ([], l)
  | S n' =>
    match l with
    | h :: v :: l' =>
      match dec_probes n' l' with
      | Some (ps, r) => Some ((h, if v =? 0 then None else Some (Z.to_N (v - 1))) :: ps, r)
      | None => None
      end
    | _ => None
    end
  end.
Fixpoint dec_mined (n : nat) (l : list Z) : option (list (N * Z * N) * list Z) :=
  match n with
  | O => Some ([], l)
  | S n' =>
    match l with
    | t :: h :: b :: l' =>
      match dec_mined n' l' with
      | Some (ms, r) => Some ((Z.to_N t, h, Z.to_N b) :: ms, r)
      | None => None
      end
    | _ => None
    end
  end.

Inductive decoded := DNone | DBad | DObs (o : iobs).
Definition decode_obs (l : list Z) : decoded :=
  match l with
  | [] => DNone
  | e :: h :: hash :: t :: cs :: bs :: bhh :: bhash :: np :: l1 =>
    match dec_probes (Z.to_nat np) l1 with
    | Some (ps, nm :: l2) =>
      match dec_mined (Z.to_nat nm) l2 with
      | Some (ms, nu :: l3) =>
        if (length l3 =? Z.to_nat nu)%nat then
          DObs {| o_err := if e =? 2 then None else Some (zbool e); o_synced := mk h hash t; o_chain_synced := zbool cs;
                  o_bday := if zbool bs then Some (bhh, Z.to_N bhash) else None;
                  o_probes := ps; o_mined := ms; o_unmined := map Z.to_N l3 |}
        else DBad
      | _ => DBad
      end
    | _ => DBad
    end
  | _ => DBad
  end.

(** Short forms used by the driver. *)
Definition conn (h hash t : Z) : cop := CNtfn (NConnect (mk h hash t)).
Definition disc (h hash t : Z) : cop := CNtfn (NDisconnect (mk h hash t)).
Definition txm (t : Z) (cb : bool) (h hash tm : Z) : cop := CNtfn (NTx (Z.to_N t) cb (Some (mk h hash tm))).
Definition txu (t : Z) : cop := CNtfn (NTx (Z.to_N t) false None).
(** FilteredBlockConnected for block (h, hash, tm) with transactions [(txid, coinbase)]. *)
Definition filt (h hash tm : Z) (txs : list (Z * bool)) : cop :=
  CNtfns (map (fun t => NTx (Z.to_N t.1) t.2 (Some (mk h hash tm))) txs).
Definition sg (n id0 t0 dt : Z) : seg := (Z.to_nat n, Z.to_N id0, t0, dt).
Definition rt (t : Z) (cb : bool) (h hash tm : Z) : rtx := (Z.to_N t, cb, mk h hash tm).

Record scase := {
  sc_init : bmeta;                       (* the new wallet's synced-to stamp (genesis) *)
  sc_headers : list seg;                 (* every block the backend ever had *)
  sc_events : list (cop * list Z);
}.

Definition step (hdr : gmap N Z) (o : cop) (w : wallet) : result :=
  match o with
  | CNtfn n => handle hdr n w
  | CNtfns l => run hdr l w
  | CStartup first rec c loc txs => startup_rec first rec (expand c) hdr loc txs w
  | CRescanProgress c h => catch_up (expand c) hdr h w
  | CRescanFinished c h => rescan_finished (expand c) hdr h w
  | CReopen => ok (set_chain_synced false w)
  | CSetSynced b => ok (set_chain_synced b w)
  | CSetBirthday b => ok (set_bday b w)
  end.

(** The lowest height from which the theorems of C15 speak about the
    remembered hashes ([lo] of [consistent]): where the wallet started to
    follow the chain - genesis for a new wallet, the located birthday height
    after a first synchronisation - raised by the pruning of PutSyncedTo. *)
Definition next_lo (o : cop) (w w' : wallet) (lo : Z) : Z :=
  let lo1 := match o with
             | CStartup true _ _ loc _ => if negb (birthday_set w) && birthday_set w' then m_height loc else lo
             | _ => lo
             end in
  Z.max lo1 (m_height (synced w') - max_reorg_depth + 1).

Definition is_startup (o : cop) : bool := match o with CStartup _ _ _ _ _ => true | _ => false end.

Definition stamp_eqb (a b : bmeta) : bool :=
  (m_height a =? m_height b) && (m_hash a =? m_hash b)%N.
Definition optN_eqb (a b : option N) : bool :=
  match a, b with
  | None, None => true
  | Some x, Some y => (x =? y)%N
  | _, _ => false
  end.
Definition rec3_eqb (a b : N * Z * N) : bool :=
  (a.1.1 =? b.1.1)%N && (a.1.2 =? b.1.2) && (a.2 =? b.2)%N.
Definition set_eqb {A} (eqb : A -> A -> bool) (a b : list A) : bool :=
  (length a =? length b)%nat &&
  forallb (fun x => existsb (eqb x) b) a && forallb (fun x => existsb (eqb x) a) b.

Definition err_eqb (e : bool) (o : option bool) : bool :=
  match o with None => true | Some x => Bool.eqb e x end.
Definition probe_ok (w : wallet) (p : Z * option N) : bool := optN_eqb (hashes w !! p.1) p.2.
Definition in_window (lo : Z) (w : wallet) (p : Z * option N) : bool :=
  (lo <=? p.1) && (p.1 <=? m_height (synced w)).

(** What decides (the observables the theorems of Properties/C15.v speak
    about).  First difference, as a code (0 = agree):
      1 a start-up attempt fails / succeeds ([sync_rollback]'s flag: theorems C15_startup_...),
      2 synced-to height and hash, 3 ChainSynced,
      4 the hash stored for a height from [lo] up to the synced-to height,
      5 confirmed records, 6 unconfirmed records;
      9 = the observation does not decode. *)
Definition obs_diff (st : bool) (lo : Z) (e : bool) (w : wallet) (o : iobs) : nat :=
  if st && negb (err_eqb e (o_err o)) then 1%nat
  else if negb (stamp_eqb (synced w) (o_synced o)) then 2%nat
  else if negb (Bool.eqb (chain_synced w) (o_chain_synced o)) then 3%nat
  else if negb (forallb (fun p => negb (in_window lo w p) || probe_ok w p) (o_probes o)) then 4%nat
  else if negb (set_eqb rec3_eqb (map (fun r => (r_tx r, r_height r, r_hash r)) (mined w)) (o_mined o)) then 5%nat
  else if negb (set_eqb N.eqb (unmined w) (o_unmined o)) then 6%nat
  else 0%nat.

(** What is only counted (model and implementation differ in something no
    theorem of C15 depends on):
      [a handler's error flag; the synced-to timestamp;
       a hash stored outside [lo, synced-to height]; the birthday block]. *)
Definition bday_ok (w : wallet) (o : iobs) : bool :=
  match o_bday o with
  | None => negb (birthday_set w)
  | Some b => birthday_set w && (m_height (bday w) =? b.1) && (m_hash (bday w) =? b.2)%N
  end.
Definition b2n (b : bool) : nat := if b then 1%nat else 0%nat.
Definition obs_drift (st : bool) (lo : Z) (e : bool) (w : wallet) (o : iobs) : list nat :=
  [ b2n (negb st && negb (err_eqb e (o_err o)));
    b2n (negb (m_time (synced w) =? m_time (o_synced o)));
    b2n (negb (forallb (fun p => in_window lo w p || probe_ok w p) (o_probes o)));
    b2n (negb (bday_ok w o)) ].
Definition add_drift (a b : list nat) : list nat :=
  match a, b with
  | [a1; a2; a3; a4], [b1; b2; b3; b4] => [a1 + b1; a2 + b2; a3 + b3; a4 + b4]%nat
  | _, _ => a
  end.
Definition no_drift : list nat := [0; 0; 0; 0]%nat.

(** (event index, code) of the first event after which implementation and
    model differ, and the drift counted up to there. *)
Fixpoint first_diff (hdr : gmap N Z) (i : nat) (evs : list (cop * list Z)) (lo : Z) (w : wallet) (d : list nat)
  : option (nat * nat) * list nat :=
  match evs with
  | [] => (None, d)
  | (o, ob) :: rest =>
    let '(w', e) := step hdr o w in
    let lo' := next_lo o w w' lo in
    match decode_obs ob with
    | DNone => first_diff hdr (S i) rest lo' w' d
    | DBad => (Some (i, 9%nat), d)
    | DObs ob =>
      let d' := add_drift d (obs_drift (is_startup o) lo' e w' ob) in
      match obs_diff (is_startup o) lo' e w' ob with
      | O => first_diff hdr (S i) rest lo' w' d'
      | S c => (Some (i, S c), d')
      end
    end
  end.

Definition init_wallet (c : scase) : wallet :=
  {| synced := sc_init c; hashes := {[ m_height (sc_init c) := m_hash (sc_init c) ]};
     birthday_set := false; bday := {| m_height := 0; m_hash := 0%N; m_time := 0 |};
     chain_synced := false; mined := []; unmined := [] |}.

Definition case_eval (c : scase) : option (nat * nat) * list nat :=
  first_diff (headers_of (sc_headers c)) 0 (sc_events c) (m_height (sc_init c)) (init_wallet c) no_drift.
Definition case_diff (c : scase) : option (nat * nat) := (case_eval c).1.
Definition case_ok (c : scase) : bool :=
  match case_diff c with None => true | Some _ => false end.

Fixpoint eval_from (i : nat) (l : list scase) : list (nat * nat * nat) * list nat :=
  match l with
  | [] => ([], no_drift)
  | c :: l' =>
    let '(r, d) := case_eval c in
    let '(fs, ds) := eval_from (S i) l' in
    (match r with None => fs | Some (ev, code) => (i, ev, code) :: fs end, add_drift d ds)
  end.

(** (case index, event index, code) of every case where implementation and
    model differ in what decides; and the drift counts over all cases. *)
Definition evaluate := eval_from 0.
Definition failures (l : list scase) : list (nat * nat * nat) := (evaluate l).1.
Definition drift (l : list scase) : list nat := (evaluate l).2.
Definition mismatches (l : list scase) : list nat := map (fun x => x.1.1) (failures l).
