(** Executable comparison used by the correspondence check of C15: the model
    (Sync.v, with the facts of Generated/SyncFacts.v) is run on the
    notification sequence the implementation processed and compared with what
    the implementation reported after each of them. *)
From stdpp Require Import gmap list numbers.
From Coq Require Import ZArith NArith.
From Verif Require Import Generated.SyncFacts Sync.Sync.
Local Open Scope Z_scope.

(** Compact chains: runs [(n, first id, first time, time step)] of blocks with
    consecutive hash ids and evenly spaced times. *)
Definition seg := (nat * N * Z * Z)%type.
Definition seg_blocks (s : seg) : list blk :=
  let '(n, id0, t0, dt) := s in
  map (fun i => {| bh := id0 + N.of_nat i; bt := t0 + dt * Z.of_nat i |}) (seq 0 n).
Definition expand (l : list seg) : list blk := flat_map seg_blocks l.
Definition headers_of (l : list seg) : gmap N Z :=
  list_to_map (map (fun b => (bh b, bt b)) (expand l)).

(** What the harness did between two observations. *)
Inductive cop :=
| CNtfn (n : ntfn)                                  (* one notification through the wallet's handler *)
| CStartup (backend : list seg)                     (* syncWithChain up to the rollback (observed at NotifyBlocks) *)
| CRescanFinished (backend : list seg) (height : Z) (* catchUpHashes + SetChainSynced(true) *)
| CReopen                                           (* stop, close, reopen: ChainSynced() = false *)
| CSetSynced (b : bool)                             (* Wallet.SetChainSynced *)
| CSetBirthday.                                     (* Manager.SetBirthdayBlock *)

(** Implementation observation (canonical: sets without duplicates). *)
Record iobs := {
  o_err : bool;                          (* the handler's walletdb.Update returned an error *)
  o_synced : bmeta;                      (* Manager.SyncedTo() *)
  o_chain_synced : bool;                 (* Wallet.ChainSynced() *)
  o_probes : list (Z * option N);        (* Manager.BlockHash(h) for probed heights *)
  o_mined : list (N * Z * N);            (* (txid, height, block hash) of confirmed records *)
  o_unmined : list N;                    (* unconfirmed records *)
}.

Record scase := {
  sc_init : bmeta;                       (* the new wallet's synced-to stamp (genesis) *)
  sc_headers : list seg;                 (* every block the backend ever had *)
  sc_events : list (cop * option iobs);
}.

Definition step (hdr : gmap N Z) (o : cop) (w : wallet) : result :=
  match o with
  | CNtfn n => handle hdr n w
  | CStartup c => sync_rollback (expand c) hdr w
  | CRescanFinished c h => rescan_finished (expand c) hdr h w
  | CReopen => ok (set_chain_synced false w)
  | CSetSynced b => ok (set_chain_synced b w)
  | CSetBirthday => ok (set_birthday true w)
  end.

Definition bmeta_eqb (a b : bmeta) : bool :=
  (m_height a =? m_height b) && (m_hash a =? m_hash b)%N && (m_time a =? m_time b).
Definition optN_eqb (a b : option N) : bool :=
  match a, b with
  | None, None => true
  | Some x, Some y => (x =? y)%N
  | _, _ => false
  end.
Definition rec3_eqb (a b : N * Z * N) : bool :=
  (a.1.1 =? b.1.1)%N && (a.1.2 =? b.1.2) && (a.2 =? b.2)%N.
Definition set_eqb {A} (eqb : A -> A -> bool) (a b : list A) : bool :=
  (length a =? length b)%nat &&
  forallb (fun x => existsb (eqb x) b) a && forallb (fun x => existsb (eqb x) a) b.

(** First difference, as a code (0 = agree):
    1 error flag, 2 synced-to, 3 ChainSynced, 4 stored hashes, 5 confirmed records, 6 unconfirmed records. *)
Definition obs_diff (e : bool) (w : wallet) (o : iobs) : nat :=
  if negb (Bool.eqb e (o_err o)) then 1%nat
  else if negb (bmeta_eqb (synced w) (o_synced o)) then 2%nat
  else if negb (Bool.eqb (chain_synced w) (o_chain_synced o)) then 3%nat
  else if negb (forallb (fun p => optN_eqb (hashes w !! p.1) p.2) (o_probes o)) then 4%nat
  else if negb (set_eqb rec3_eqb (map (fun r => (r_tx r, r_height r, r_hash r)) (mined w)) (o_mined o)) then 5%nat
  else if negb (set_eqb N.eqb (unmined w) (o_unmined o)) then 6%nat
  else 0%nat.

(** (event index, code) of the first event after which implementation and
    model differ. *)
Fixpoint first_diff (hdr : gmap N Z) (i : nat) (evs : list (cop * option iobs)) (w : wallet) : option (nat * nat) :=
  match evs with
  | [] => None
  | (o, ob) :: rest =>
    let '(w', e) := step hdr o w in
    match ob with
    | None => first_diff hdr (S i) rest w'
    | Some ob =>
      match obs_diff e w' ob with
      | O => first_diff hdr (S i) rest w'
      | S c => Some (i, S c)
      end
    end
  end.

Definition init_wallet (c : scase) : wallet :=
  {| synced := sc_init c; hashes := {[ m_height (sc_init c) := m_hash (sc_init c) ]};
     birthday_set := false; chain_synced := false; mined := []; unmined := [] |}.

Definition case_diff (c : scase) : option (nat * nat) :=
  first_diff (headers_of (sc_headers c)) 0 (sc_events c) (init_wallet c).
Definition case_ok (c : scase) : bool :=
  match case_diff c with None => true | Some _ => false end.

Fixpoint failures_from (i : nat) (l : list scase) : list (nat * nat * nat) :=
  match l with
  | [] => []
  | c :: l' =>
    match case_diff c with
    | None => failures_from (S i) l'
    | Some (ev, code) => (i, ev, code) :: failures_from (S i) l'
    end
  end.

(** (case index, event index, code) of every case where implementation and model differ. *)
Definition failures := failures_from 0.
Definition mismatches (l : list scase) : list nat := map (fun x => x.1.1) (failures l).
