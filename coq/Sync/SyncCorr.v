(** Executable comparison used by the correspondence check of C15: the model
    (Sync.v, with the facts of Generated/SyncFacts.v) is run on the
    notification sequence the implementation processed and compared with what
    the implementation reported after each of them. *)
From stdpp Require Import gmap list numbers.
From Coq Require Import ZArith NArith.
From Verif Require Import Generated.SyncFacts Sync.Sync.
Local Open Scope Z_scope.

(** Compact chains: runs [(n, first id, first time, time step)] of blocks with
    consecutive hash ids and evenly spaced times. *)
Definition seg := (nat * N * Z * Z)%type.
Fixpoint seg_from (n : nat) (id : N) (t dt : Z) : list blk :=
  match n with
  | O => []
  | S n' => {| bh := id; bt := t |} :: seg_from n' (id + 1)%N (t + dt) dt
  end.
Definition seg_blocks (s : seg) : list blk :=
  let '(n, id0, t0, dt) := s in seg_from n id0 t0 dt.
Definition expand (l : list seg) : list blk := flat_map seg_blocks l.
Definition headers_of (l : list seg) : gmap N Z :=
  list_to_map (map (fun b => (bh b, bt b)) (expand l)).

(** What the harness did between two observations. *)
Inductive cop :=
| CNtfn (n : ntfn)                                  (* one notification through the wallet's handler *)
| CStartup (backend : list seg)                     (* syncWithChain up to the rollback (observed at NotifyBlocks) *)
| CRescanFinished (backend : list seg) (height : Z) (* catchUpHashes + SetChainSynced(true) *)
| CReopen                                           (* stop, close, reopen: ChainSynced() = false *)
| CSetSynced (b : bool)                             (* Wallet.SetChainSynced *)
| CSetBirthday.                                     (* Manager.SetBirthdayBlock *)

(** Implementation observation (canonical: sets without duplicates). *)
Record iobs := {
  o_err : bool;                          (* the handler's walletdb.Update returned an error *)
  o_synced : bmeta;                      (* Manager.SyncedTo() *)
  o_chain_synced : bool;                 (* Wallet.ChainSynced() *)
  o_probes : list (Z * option N);        (* Manager.BlockHash(h) for probed heights *)
  o_mined : list (N * Z * N);            (* (txid, height, block hash) of confirmed records *)
  o_unmined : list N;                    (* unconfirmed records *)
}.

(** Observations are written by the driver as flat lists of integers (large
    record literals are slow to elaborate):
      [err; h; hash; time; chain_synced; np; (height, hash+1 | 0)*np; nm; (txid, height, hash)*nm; nu; txid*nu]
    The empty list means "not observed after this event". *)
Definition mk (h hash t : Z) : bmeta := {| m_height := h; m_hash := Z.to_N hash; m_time := t |}.
Definition zbool (z : Z) : bool := negb (z =? 0).

Fixpoint dec_probes (n : nat) (l : list Z) : option (list (Z * option N) * list Z) :=
  match n with
  | O => Some ([], l)
  | S n' =>
    match l with
    | h :: v :: l' =>
      match dec_probes n' l' with
      | Some (ps, r) => Some ((h, if v =? 0 then None else Some (Z.to_N (v - 1))) :: ps, r)
      | None => None
      end
    | _ => None
    end
  end.
Fixpoint dec_mined (n : nat) (l : list Z) : option (list (N * Z * N) * list Z) :=
  match n with
  | O => Some ([], l)
  | S n' =>
    match l with
    | t :: h :: b :: l' =>
      match dec_mined n' l' with
      | Some (ms, r) => Some ((Z.to_N t, h, Z.to_N b) :: ms, r)
      | None => None
      end
    | _ => None
    end
  end.

Inductive decoded := DNone | DBad | DObs (o : iobs).
Definition decode_obs (l : list Z) : decoded :=
  match l with
  | [] => DNone
  | e :: h :: hash :: t :: cs :: np :: l1 =>
    match dec_probes (Z.to_nat np) l1 with
    | Some (ps, nm :: l2) =>
      match dec_mined (Z.to_nat nm) l2 with
      | Some (ms, nu :: l3) =>
        if (length l3 =? Z.to_nat nu)%nat then
          DObs {| o_err := zbool e; o_synced := mk h hash t; o_chain_synced := zbool cs;
                  o_probes := ps; o_mined := ms; o_unmined := map Z.to_N l3 |}
        else DBad
      | _ => DBad
      end
    | _ => DBad
    end
  | _ => DBad
  end.

(** Short forms used by the driver. *)
Definition conn (h hash t : Z) : cop := CNtfn (NConnect (mk h hash t)).
Definition disc (h hash t : Z) : cop := CNtfn (NDisconnect (mk h hash t)).
Definition txm (t : Z) (cb : bool) (h hash tm : Z) : cop := CNtfn (NTx (Z.to_N t) cb (Some (mk h hash tm))).
Definition txu (t : Z) : cop := CNtfn (NTx (Z.to_N t) false None).
Definition sg (n id0 t0 dt : Z) : seg := (Z.to_nat n, Z.to_N id0, t0, dt).

Record scase := {
  sc_init : bmeta;                       (* the new wallet's synced-to stamp (genesis) *)
  sc_headers : list seg;                 (* every block the backend ever had *)
  sc_events : list (cop * list Z);
}.

Definition step (hdr : gmap N Z) (o : cop) (w : wallet) : result :=
  match o with
  | CNtfn n => handle hdr n w
  | CStartup c => sync_rollback (expand c) hdr w
  | CRescanFinished c h => rescan_finished (expand c) hdr h w
  | CReopen => ok (set_chain_synced false w)
  | CSetSynced b => ok (set_chain_synced b w)
  | CSetBirthday => ok (set_birthday true w)
  end.

Definition bmeta_eqb (a b : bmeta) : bool :=
  (m_height a =? m_height b) && (m_hash a =? m_hash b)%N && (m_time a =? m_time b).
Definition optN_eqb (a b : option N) : bool :=
  match a, b with
  | None, None => true
  | Some x, Some y => (x =? y)%N
  | _, _ => false
  end.
Definition rec3_eqb (a b : N * Z * N) : bool :=
  (a.1.1 =? b.1.1)%N && (a.1.2 =? b.1.2) && (a.2 =? b.2)%N.
Definition set_eqb {A} (eqb : A -> A -> bool) (a b : list A) : bool :=
  (length a =? length b)%nat &&
  forallb (fun x => existsb (eqb x) b) a && forallb (fun x => existsb (eqb x) a) b.

(** First difference, as a code (0 = agree):
    1 error flag, 2 synced-to, 3 ChainSynced, 4 stored hashes, 5 confirmed records, 6 unconfirmed records;
    9 = the observation does not decode. *)
Definition obs_diff (e : bool) (w : wallet) (o : iobs) : nat :=
  if negb (Bool.eqb e (o_err o)) then 1%nat
  else if negb (bmeta_eqb (synced w) (o_synced o)) then 2%nat
  else if negb (Bool.eqb (chain_synced w) (o_chain_synced o)) then 3%nat
  else if negb (forallb (fun p => optN_eqb (hashes w !! p.1) p.2) (o_probes o)) then 4%nat
  else if negb (set_eqb rec3_eqb (map (fun r => (r_tx r, r_height r, r_hash r)) (mined w)) (o_mined o)) then 5%nat
  else if negb (set_eqb N.eqb (unmined w) (o_unmined o)) then 6%nat
  else 0%nat.

(** (event index, code) of the first event after which implementation and
    model differ. *)
Fixpoint first_diff (hdr : gmap N Z) (i : nat) (evs : list (cop * list Z)) (w : wallet) : option (nat * nat) :=
  match evs with
  | [] => None
  | (o, ob) :: rest =>
    let '(w', e) := step hdr o w in
    match decode_obs ob with
    | DNone => first_diff hdr (S i) rest w'
    | DBad => Some (i, 9%nat)
    | DObs ob =>
      match obs_diff e w' ob with
      | O => first_diff hdr (S i) rest w'
      | S c => Some (i, S c)
      end
    end
  end.

Definition init_wallet (c : scase) : wallet :=
  {| synced := sc_init c; hashes := {[ m_height (sc_init c) := m_hash (sc_init c) ]};
     birthday_set := false; chain_synced := false; mined := []; unmined := [] |}.

Definition case_diff (c : scase) : option (nat * nat) :=
  first_diff (headers_of (sc_headers c)) 0 (sc_events c) (init_wallet c).
Definition case_ok (c : scase) : bool :=
  match case_diff c with None => true | Some _ => false end.

Fixpoint failures_from (i : nat) (l : list scase) : list (nat * nat * nat) :=
  match l with
  | [] => []
  | c :: l' =>
    match case_diff c with
    | None => failures_from (S i) l'
    | Some (ev, code) => (i, ev, code) :: failures_from (S i) l'
    end
  end.

(** (case index, event index, code) of every case where implementation and model differ. *)
Definition failures := failures_from 0.
Definition mismatches (l : list scase) : list nat := map (fun x => x.1.1) (failures l).
