(** Executable model of the block-notification producer of the bitcoind
    backend (property C15: with this backend it is btcwallet's own client that
    turns the node's best-chain changes into the BlockConnected /
    BlockDisconnected stream the wallet follows):

      chain/bitcoind_client.go   ntfnHandler (new block: successor of the
                                 client's best block => filterBlock + advance;
                                 otherwise reorg), reorg (collect the new
                                 branch down to the client's height, walk both
                                 branches back to the common ancestor emitting
                                 one BlockDisconnected per step, disconnect the
                                 last block of the old branch, fast-forward
                                 over the collected blocks emitting one
                                 BlockConnected each, set the best block)
      chain/bitcoind_rpc_events.go  blockEventHandlerRPC (one block per height
                                 above the last height seen)

    The node is a block tree: what getblockheader / getblock answer for every
    block the node has ever seen (best chain or stale): parent hash, height,
    header time.  Hashes are interned to [N] as in Sync/Sync.v; wallet
    transactions inside the blocks are outside this model (the notifications
    filterBlock derives from a block's transactions do not depend on the
    reorg bookkeeping).

    One fact is regenerated from the source (Generated/SyncFacts.v):
    [bitcoind_reorg_disconnects_own_hash] - inside the walk-back loop the hash
    of the next block to disconnect is the hash of that block (the parent of
    the block just disconnected), not the parent of that block.

    A failed node request (an unknown hash) makes the real procedure return an
    error after the notifications emitted so far; here it is [None]: the
    theorems are about trees that know every block of both branches.
    No proofs here. *)
From stdpp Require Import gmap list numbers.
From Coq Require Import ZArith NArith.
From Verif Require Import Generated.SyncFacts Sync.Sync.
Local Open Scope Z_scope.

Record bhdr := { p_prev : N; p_height : Z; p_time : Z }.
Notation tree := (gmap N bhdr) (only parsing).

(** First loop of reorg: from the block that caused the reorg down to the
    client's height, [n] steps; blocks are pushed to the FRONT of the list. *)
Fixpoint gather (t : tree) (n : nat) (previous : N) (acc : list N) : option (N * list N) :=
  match n with
  | O => Some (previous, acc)
  | S n' =>
    match t !! previous with
    | None => None
    | Some b => gather t n' (p_prev b) (previous :: acc)
    end
  end.

(** Second loop: while the new branch's block one below and the parent of the
    current block differ, disconnect the current block and step both down. *)
Fixpoint walk_back (own_hash : bool) (t : tree) (fuel : nat) (cur : bmeta) (curhdr : bhdr)
    (previous : N) (acc : list N) (out : list ntfn)
  : option (bmeta * bhdr * list N * list ntfn) :=
  if (previous =? p_prev curhdr)%N then Some (cur, curhdr, acc, out)
  else
    match fuel with
    | O => None
    | S fuel' =>
      let out' := out ++ [NDisconnect cur] in
      let pb := p_prev curhdr in
      match t !! pb with
      | None => None
      | Some h' =>
        let cur' := {| m_height := m_height cur - 1;
                       m_hash := if own_hash then pb else p_prev h';
                       m_time := p_time h' |} in
        match t !! previous with
        | None => None
        | Some blk => walk_back own_hash t fuel' cur' h' (p_prev blk) (previous :: acc) out'
        end
      end
    end.

(** Fast-forward over the collected blocks. *)
Fixpoint forward (t : tree) (cur : bmeta) (acc : list N) (out : list ntfn) : option (bmeta * list ntfn) :=
  match acc with
  | [] => Some (cur, out)
  | x :: rest =>
    match t !! x with
    | None => None
    | Some hd =>
      let m := {| m_height := m_height cur + 1; m_hash := x; m_time := p_time hd |} in
      forward t m rest (out ++ [NConnect m])
    end
  end.

(** reorg(currentBlock, reorgBlock): the notifications and the new best block. *)
Definition reorg_with (own_hash : bool) (t : tree) (cur : bmeta) (nb : N) : option (list ntfn * bmeta) :=
  match t !! nb with
  | None => None
  | Some nbh =>
    let best_height := p_height nbh in
    if best_height <? m_height cur then Some ([], cur)
    else
      match gather t (Z.to_nat (best_height - m_height cur)) (p_prev nbh) [nb] with
      | None => None
      | Some (previous, acc) =>
        match t !! m_hash cur with
        | None => None
        | Some curhdr =>
          match walk_back own_hash t (Z.to_nat (m_height cur) + 1) cur curhdr previous acc [] with
          | None => None
          | Some (cur', curhdr', acc', out) =>
            let last := {| m_height := m_height cur'; m_hash := m_hash cur'; m_time := p_time curhdr' |} in
            let base := {| m_height := m_height cur' - 1; m_hash := m_hash cur'; m_time := m_time cur' |} in
            match forward t base acc' (out ++ [NDisconnect last]) with
            | None => None
            | Some (best, out') => Some (out', best)
            end
          end
        end
      end
  end.

Definition reorg := reorg_with bitcoind_reorg_disconnects_own_hash.

(** ntfnHandler on one block notification: the notifications and the new best block. *)
Definition on_block_with (own_hash : bool) (t : tree) (best : bmeta) (nb : N) : option (list ntfn * bmeta) :=
  match t !! nb with
  | None => None
  | Some nbh =>
    if (p_prev nbh =? m_hash best)%N then
      let m := {| m_height := m_height best + 1; m_hash := nb; m_time := p_time nbh |} in
      Some ([NConnect m], m)
    else reorg_with own_hash t best nb
  end.

Definition on_block := on_block_with bitcoind_reorg_disconnects_own_hash.

(** A sequence of block notifications (the poller hands over one block per
    height above the last one it saw). *)
Fixpoint on_blocks_with (own_hash : bool) (t : tree) (best : bmeta) (nbs : list N) : option (list ntfn * bmeta) :=
  match nbs with
  | [] => Some ([], best)
  | nb :: rest =>
    match on_block_with own_hash t best nb with
    | None => None
    | Some (out, best') =>
      match on_blocks_with own_hash t best' rest with
      | None => None
      | Some (out', best'') => Some (out ++ out', best'')
      end
    end
  end.

Definition on_blocks := on_blocks_with bitcoind_reorg_disconnects_own_hash.

(** * Specification vocabulary *)

(** [dlinked t l h base]: [l] lists blocks tip first, the first at height [h];
    the tree knows each with its height, its time and the next one (the
    block called [base] after the last) as parent. *)
Fixpoint dlinked (t : tree) (l : list blk) (h : Z) (base : N) : Prop :=
  match l with
  | [] => True
  | b :: rest =>
    t !! bh b = Some {| p_prev := match rest with [] => base | b' :: _ => bh b' end;
                        p_height := h; p_time := bt b |} /\
    dlinked t rest (h - 1) base
  end.

(** One BlockDisconnected per block, tip first, each with its own hash. *)
Fixpoint discs (h : Z) (l : list blk) : list ntfn :=
  match l with
  | [] => []
  | b :: rest => NDisconnect (meta_of h b) :: discs (h - 1) rest
  end.

(** One BlockConnected per block upward; the first at height [h]. *)
Fixpoint conns (h : Z) (l : list blk) : list ntfn :=
  match l with
  | [] => []
  | b :: rest => NConnect (meta_of h b) :: conns (h + 1) rest
  end.

Definition bare (b : blk) : nblk := {| nb_blk := b; nb_pre := []; nb_post := [] |}.

(** Executable comparison used by the correspondence check: the block tree as
    a list of (hash, parent, height, time). *)
Definition tree_of (l : list (N * N * Z * Z)) : tree :=
  list_to_map (map (fun x => (x.1.1.1, {| p_prev := x.1.1.2; p_height := x.1.2; p_time := x.2 |})) l).
