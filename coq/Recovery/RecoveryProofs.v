(** Proofs about the recovery model (property C16). *)
From Verif Require Import Base.Prelude Recovery.Recovery.
Local Open Scope N_scope.

(** * Part 1: the birthday block search *)

Section Birthday.
  Local Open Scope Z_scope.

  Definition ts_at (ts : list Z) (h : Z) : Z := nth (Z.to_nat h) ts 0.

  (** non-decreasing block timestamps *)
  Definition monotone_ts (ts : list Z) : Prop :=
    forall i j, 0 <= i -> i <= j -> j < Z.of_nat (length ts) -> ts_at ts i <= ts_at ts j.

  (** What a returned height satisfies: it lies on the chain and is either
      the genesis block or a block stamped no later than birthday + 2h. *)
  Lemma locate_loop_spec ts bday best :
    forall fuel left right,
      0 <= left -> left <= right -> right <= best ->
      (left = 0 \/ ts_at ts left < bday - birthday_block_delta) ->
      (Z.to_nat (right - left) < fuel)%nat ->
      exists h, locate_loop fuel ts bday best left right = Some h /\
                0 <= h <= best /\
                (h = 0 \/ ts_at ts h <= bday + birthday_block_delta).
  Proof.
    unfold birthday_block_delta.
    induction fuel as [|f IH]; intros left right Hl Hlr Hrb Hleft Hfuel; [lia|].
    simpl. unfold birthday_block_delta.
    set (mid := left + (right - left) / 2).
    assert (Hmid : left <= mid <= right).
    { subst mid. pose proof (Z.div_pos (right - left) 2 ltac:(lia) ltac:(lia)).
      pose proof (Z.div_le_upper_bound (right - left) 2 (right - left) ltac:(lia) ltac:(lia)). lia. }
    destruct ((mid =? 0) || (mid =? best) || (mid =? left)) eqn:Hstop.
    - exists mid. split; [reflexivity|]. split; [lia|].
      apply orb_true_iff in Hstop. destruct Hstop as [Hstop|Hstop].
      + apply orb_true_iff in Hstop. destruct Hstop as [Hstop|Hstop].
        * left. lia.
        * (* mid = best forces left = best *)
          assert (mid = best) by lia.
          assert (left = mid).
          { subst mid. assert (right = best) by lia. subst right.
            assert (Hd : (best - left) / 2 = best - left) by lia.
            destruct (Z.eq_dec (best - left) 0) as [|Hne]; [lia|].
            pose proof (Z.div_lt (best - left) 2 ltac:(lia) ltac:(lia)). lia. }
          destruct Hleft as [Hleft|Hleft]; [left; lia|right].
          replace mid with left by lia. lia.
      + assert (mid = left) by lia.
        destruct Hleft as [Hleft|Hleft]; [left; lia|right].
        replace mid with left by lia. lia.
    - apply orb_false_iff in Hstop. destruct Hstop as [Hstop Hml].
      apply orb_false_iff in Hstop. destruct Hstop as [Hm0 Hmb].
      assert (Hmr : mid < right).
      { subst mid. destruct (Z.eq_dec (right - left) 0) as [Hz|Hne].
        - rewrite Hz in Hml. simpl in Hml. rewrite Z.add_0_r, Z.eqb_refl in Hml. discriminate.
        - pose proof (Z.div_lt (right - left) 2 ltac:(lia) ltac:(lia)). lia. }
      fold (ts_at ts mid).
      destruct (7200 <? ts_at ts mid - bday) eqn:Hlate.
      + apply IH; lia.
      + destruct (ts_at ts mid - bday <? - 7200) eqn:Hearly.
        * apply IH; lia.
        * exists mid. split; [reflexivity|]. split; [lia|]. right. lia.
  Qed.

  (** The search always returns a block of the chain (the fuel never runs
      out), for every timestamp sequence and birthday. *)
  Lemma locate_birthday_total ts bday :
    ts <> [] ->
    exists h, locate_birthday ts bday = Some h /\ 0 <= h < Z.of_nat (length ts) /\
              (h = 0 \/ ts_at ts h <= bday + birthday_block_delta).
  Proof.
    intros Hne. unfold locate_birthday. destruct ts as [|t0 ts']; [congruence|].
    set (l := t0 :: ts').
    assert (Hlen : (0 < length l)%nat) by (subst l; simpl; lia).
    destruct (locate_loop_spec l bday (Z.of_nat (length l) - 1) (S (length l)) 0
                (Z.of_nat (length l) - 1)) as (h & Hh & Hr & Hb); try lia.
    exists h. split; [exact Hh|]. split; [lia|exact Hb].
  Qed.

  Lemma locate_birthday_bound ts bday h :
    locate_birthday ts bday = Some h ->
    0 <= h < Z.of_nat (length ts) /\ (h = 0 \/ ts_at ts h <= bday + birthday_block_delta).
  Proof.
    intros H. destruct ts as [|t0 ts']; [discriminate|].
    destruct (locate_birthday_total (t0 :: ts') bday ltac:(discriminate)) as (h' & Hh' & Hr & Hb).
    rewrite H in Hh'. inversion Hh'; subst. split; assumption.
  Qed.

  (** Hence, on a chain with non-decreasing timestamps, the returned block is
      not later than any block stamped later than birthday + 2h. *)
  Lemma locate_birthday_not_late ts bday h :
    monotone_ts ts ->
    locate_birthday ts bday = Some h ->
    forall j, 0 <= j < Z.of_nat (length ts) ->
      bday + birthday_block_delta < ts_at ts j -> h <= j.
  Proof.
    intros Hmono H j Hj Hlate.
    destruct (locate_birthday_bound ts bday h H) as [Hr [H0|Hb]]; [lia|].
    destruct (Z_le_gt_dec h j) as [|Hgt]; [assumption|].
    pose proof (Hmono j h ltac:(lia) ltac:(lia) ltac:(lia)). lia.
  Qed.
  (** With the production entry (syncWithChain stores the located block as
      synced-to and recovery scans from the next height) the first scanned
      block is [h + 1]: it is still not later than any block (genesis apart,
      which cannot pay a wallet) stamped later than birthday + 2h. *)
  Lemma first_scanned_not_late ts bday h :
    monotone_ts ts ->
    locate_birthday ts bday = Some h ->
    forall j, 1 <= j < Z.of_nat (length ts) ->
      bday + birthday_block_delta < ts_at ts j -> h + 1 <= j.
  Proof.
    intros Hmono H j Hj Hlate.
    destruct (locate_birthday_bound ts bday h H) as [Hr [H0|Hb]]; [lia|].
    destruct (Z_lt_ge_dec h j) as [|Hge]; [lia|].
    pose proof (Hmono j h ltac:(lia) ltac:(lia) ltac:(lia)). lia.
  Qed.

  Lemma nth_firstn_lt {A} (d : A) : forall n i (l : list A), (i < n)%nat -> nth i (firstn n l) d = nth i l d.
  Proof.
    induction n as [|n IH]; intros i l Hi; [lia|].
    destruct l as [|x l]; [destruct i; reflexivity|].
    destruct i as [|i]; [reflexivity|]. simpl. apply IH. lia.
  Qed.

  Lemma monotone_firstn n ts : monotone_ts ts -> monotone_ts (firstn n ts).
  Proof.
    intros Hm i j Hi Hij Hj. rewrite firstn_length in Hj. unfold ts_at.
    rewrite !nth_firstn_lt by lia. apply Hm; lia.
  Qed.

  (** The same for a search run when the backend's chain ended at height
      [c0] and grew afterwards: [ts] are the timestamps of the final chain. *)
  Lemma first_scanned_not_late_truncated ts bday (c0 : nat) h :
    monotone_ts ts ->
    locate_birthday (firstn (S c0) ts) bday = Some h ->
    h <= Z.of_nat c0 /\
    forall j, 1 <= j < Z.of_nat (length ts) ->
      bday + birthday_block_delta < ts_at ts j -> h + 1 <= j.
  Proof.
    intros Hmono H.
    destruct (locate_birthday_bound _ bday h H) as [Hr _]. rewrite firstn_length in Hr.
    split; [lia|]. intros j Hj Hlate.
    destruct (Z_lt_ge_dec (Z.of_nat c0) j) as [|Hle]; [lia|].
    apply (first_scanned_not_late (firstn (S c0) ts) bday h (monotone_firstn _ _ Hmono) H).
    - rewrite firstn_length. lia.
    - unfold ts_at. rewrite nth_firstn_lt by lia. exact Hlate.
  Qed.
End Birthday.

(** * Part 2: small facts about the list-backed sets *)

Lemma bkey_eqb_eq a b : bkey_eqb a b = true <-> a = b.
Proof.
  destruct a as [s1 b1], b as [s2 b2]. unfold bkey_eqb. simpl.
  rewrite andb_true_iff, N.eqb_eq, Bool.eqb_true_iff. split.
  - intros [-> ->]. reflexivity.
  - intros H. inversion H. auto.
Qed.

Lemma bkey_eqb_refl a : bkey_eqb a a = true.
Proof. apply bkey_eqb_eq. reflexivity. Qed.

Lemma bkey_eqb_neq a b : bkey_eqb a b = false <-> a <> b.
Proof.
  split.
  - intros H E. apply bkey_eqb_eq in E. congruence.
  - intros H. destruct (bkey_eqb a b) eqn:E; [apply bkey_eqb_eq in E; congruence|reflexivity].
Qed.

Lemma key_eqb_eq a b : key_eqb a b = true <-> a = b.
Proof.
  destruct a as [k1 i1], b as [k2 i2]. unfold key_eqb. simpl.
  rewrite andb_true_iff, bkey_eqb_eq, N.eqb_eq. split.
  - intros [-> ->]. reflexivity.
  - intros H. inversion H. auto.
Qed.

Lemma op_eqb_eq a b : op_eqb a b = true <-> a = b.
Proof.
  destruct a as [a1 a2], b as [b1 b2]. unfold op_eqb. simpl.
  rewrite andb_true_iff, !N.eqb_eq. split.
  - intros [-> ->]. reflexivity.
  - intros H. inversion H. auto.
Qed.

Lemma memN_In i l : memN i l = true <-> In i l.
Proof.
  unfold memN. rewrite existsb_exists. split.
  - intros (x & Hx & E). apply N.eqb_eq in E. subst. exact Hx.
  - intros H. exists i. split; [exact H|apply N.eqb_refl].
Qed.

Lemma memN_false i l : memN i l = false <-> ~ In i l.
Proof.
  rewrite <- memN_In. destruct (memN i l); split; intros; congruence.
Qed.

Lemma mem_op_In o l : mem_op o l = true <-> In o l.
Proof.
  unfold mem_op. rewrite existsb_exists. split.
  - intros (x & Hx & E). apply op_eqb_eq in E. subst. exact Hx.
  - intros H. exists o. split; [exact H|apply op_eqb_eq; reflexivity].
Qed.

Lemma mem_op_false o l : mem_op o l = false <-> ~ In o l.
Proof.
  rewrite <- mem_op_In. destruct (mem_op o l); split; intros; congruence.
Qed.

Lemma mem_key_In k l : mem_key k l = true <-> In k l.
Proof.
  unfold mem_key. rewrite existsb_exists. split.
  - intros (x & Hx & E). apply key_eqb_eq in E. subst. exact Hx.
  - intros H. exists k. split; [exact H|apply key_eqb_eq; reflexivity].
Qed.

Lemma insN_In i j l : In j (insN i l) <-> j = i \/ In j l.
Proof.
  unfold insN. destruct (memN i l) eqn:E.
  - apply memN_In in E. split; [auto|]. intros [->|H]; assumption.
  - simpl. split; intros [H|H]; auto.
Qed.

Lemma insN_NoDup i l : NoDup l -> NoDup (insN i l).
Proof.
  intros H. unfold insN. destruct (memN i l) eqn:E; [exact H|].
  constructor; [apply memN_false; exact E|exact H].
Qed.

Lemma ins_op_In o x l : In x (ins_op o l) <-> x = o \/ In x l.
Proof.
  unfold ins_op. destruct (mem_op o l) eqn:E.
  - apply mem_op_In in E. split; [auto|]. intros [->|H]; assumption.
  - simpl. split; intros [H|H]; auto.
Qed.

Lemma ins_key_In k x l : In x (ins_key k l) <-> x = k \/ In x l.
Proof.
  unfold ins_key. destruct (mem_key k l) eqn:E.
  - apply mem_key_In in E. split; [auto|]. intros [->|H]; assumption.
  - simpl. split; intros [H|H]; auto.
Qed.

Lemma filter_all_true {A} (f : A -> bool) l :
  (forall x, In x l -> f x = true) -> filter f l = l.
Proof.
  induction l as [|x l IH]; simpl; intros H; [reflexivity|].
  rewrite (H x (or_introl eq_refl)). f_equal. apply IH. intros y Hy. apply H. right. exact Hy.
Qed.

Lemma NoDup_app_disjoint {A} (l1 l2 : list A) x :
  NoDup (l1 ++ l2) -> In x l1 -> In x l2 -> False.
Proof.
  induction l1 as [|a l1 IH]; simpl; intros Hnd H1 H2; [contradiction|].
  inversion Hnd; subst. destruct H1 as [->|H1].
  - apply H3. apply in_or_app. right. exact H2.
  - apply IH; assumption.
Qed.

Lemma NoDup_app_l {A} (l1 l2 : list A) : NoDup (l1 ++ l2) -> NoDup l1.
Proof.
  induction l1 as [|a l1 IH]; simpl; intros H; [constructor|].
  inversion H; subst. constructor.
  - intros Hin. apply H2. apply in_or_app. left. exact Hin.
  - apply IH. exact H3.
Qed.

(** Invariant-style reasoning for left folds. *)
Lemma fold_left_inv {A B} (f : A -> B -> A) (P : list B -> A -> Prop) l a0 :
  P [] a0 ->
  (forall done x rest a, l = done ++ x :: rest -> P done a -> P (done ++ [x]) (f a x)) ->
  P l (fold_left f l a0).
Proof.
  intros H0 Hstep.
  assert (G : forall todo done a, l = done ++ todo -> P done a ->
                                  P (done ++ todo) (fold_left f todo a)).
  { induction todo as [|x todo IH]; intros done a El Hp; simpl.
    - rewrite app_nil_r. exact Hp.
    - replace (done ++ x :: todo) with ((done ++ [x]) ++ todo) by (rewrite <- app_assoc; reflexivity).
      apply IH.
      + rewrite <- app_assoc. exact El.
      + eapply Hstep; eauto. }
  apply (G l [] a0); [reflexivity|exact H0].
Qed.

(** * Part 3: one branch *)

Section Branch.
  Variable invalid_child : scope -> bool -> index -> bool.
  Variable inv_bound : N.
  Hypothesis inv_bounded : forall s b i, invalid_child s b i = true -> i < inv_bound.

  Definition valid (k : bkey) (i : N) : bool := negb (invalid_child (fst k) (snd k) i).

  (** [rank k i] = number of valid child indices below [i] on branch [k]
      (DESIGN A.5 valid_rank). *)
  Definition rank (k : bkey) (i : N) : N :=
    N.peano_rect (fun _ => N) 0 (fun j r => r + (if valid k j then 1 else 0)) i.

  Lemma rank_0 k : rank k 0 = 0.
  Proof. reflexivity. Qed.

  Lemma rank_succ k i : rank k (N.succ i) = rank k i + (if valid k i then 1 else 0).
  Proof. unfold rank. rewrite N.peano_rect_succ. reflexivity. Qed.

  Lemma rank_add k i d : rank k i <= rank k (i + d) /\ rank k (i + d) <= rank k i + d.
  Proof.
    induction d as [|d IH] using N.peano_ind.
    - rewrite N.add_0_r. lia.
    - rewrite N.add_succ_r, rank_succ. destruct (valid k (i + d)); lia.
  Qed.

  Lemma rank_mono k i j : i <= j -> rank k i <= rank k j.
  Proof. intros H. replace j with (i + (j - i)) by lia. apply rank_add. Qed.

  Lemma rank_diff_le k i j : i <= j -> rank k j + i <= rank k i + j.
  Proof.
    intros H. pose proof (rank_add k i (j - i)) as [_ H2].
    replace (i + (j - i)) with j in H2 by lia. lia.
  Qed.

  Lemma rank_lt_index k i j : rank k i < rank k j -> i < j.
  Proof.
    intros H. destruct (N.lt_ge_cases i j) as [|Hge]; [assumption|].
    pose proof (rank_mono k j i Hge). lia.
  Qed.

  (** ** counting the recorded invalid children inside a range *)
  Lemma filter_length_add (P : N -> bool) x l :
    NoDup l -> P x = false ->
    length (filter (fun c => P c || (c =? x)) l) =
    (length (filter P l) + (if memN x l then 1 else 0))%nat.
  Proof.
    intros Hnd Hpx. induction l as [|a l IH]; simpl; [reflexivity|].
    inversion Hnd as [|a' l' Hna Hnd']; subst.
    specialize (IH Hnd').
    destruct (N.eqb_spec a x) as [->|Hne].
    - rewrite Hpx. simpl. rewrite N.eqb_refl. simpl.
      assert (Hm : memN x l = false) by (apply memN_false; exact Hna).
      rewrite Hm in IH. rewrite IH. lia.
    - rewrite orb_false_r.
      replace (x =? a) with false by (symmetry; apply N.eqb_neq; congruence). simpl.
      destruct (P a); simpl; rewrite IH; lia.
  Qed.

  Lemma filter_ext_in' {A} (f g : A -> bool) l :
    (forall x, In x l -> f x = g x) -> filter f l = filter g l.
  Proof.
    induction l as [|a l IH]; simpl; intros H; [reflexivity|].
    rewrite (H a (or_introl eq_refl)). rewrite IH; [reflexivity|].
    intros x Hx. apply H. right. exact Hx.
  Qed.

  (** If the recorded set agrees with [invalid_child] on [lo, hi), the number
      of recorded entries there plus the number of valid indices there is the
      length of the range. *)
  Lemma count_invalid_range k (I : list N) lo :
    NoDup I ->
    forall hi, lo <= hi ->
      (forall i, lo <= i -> i < hi -> (In i I <-> valid k i = false)) ->
      N.of_nat (length (filter (fun c => (lo <=? c) && (c <? hi)) I)) + rank k hi = (hi - lo) + rank k lo.
  Proof.
    intros Hnd hi. induction hi as [|hi IH] using N.peano_ind; intros Hle Hag.
    - assert (lo = 0) by lia. subst lo.
      rewrite (filter_ext_in' _ (fun _ => false)).
      + assert (E : forall l : list N, filter (fun _ => false) l = []) by (induction l; simpl; auto).
        rewrite E. simpl. lia.
      + intros x _. destruct (0 <=? x); simpl; [|reflexivity]. apply N.ltb_ge. lia.
    - destruct (N.eq_dec lo (N.succ hi)) as [->|Hne].
      + rewrite (filter_ext_in' _ (fun _ => false)).
        * assert (E : forall l : list N, filter (fun _ => false) l = []) by (induction l; simpl; auto).
          rewrite E. simpl. lia.
        * intros x _. destruct (N.leb_spec (N.succ hi) x); simpl; [|reflexivity]. apply N.ltb_ge. lia.
      + assert (Hle' : lo <= hi) by lia.
        specialize (IH Hle').
        assert (IH' : N.of_nat (length (filter (fun c => (lo <=? c) && (c <? hi)) I)) + rank k hi =
                      hi - lo + rank k lo).
        { apply IH. intros i H1 H2. apply Hag; lia. }
        rewrite (filter_ext_in' _ (fun c => ((lo <=? c) && (c <? hi)) || (c =? hi))).
        * rewrite filter_length_add; [|exact Hnd|].
          -- rewrite rank_succ.
             pose proof (Hag hi ltac:(lia) ltac:(lia)) as Hhi.
             destruct (memN hi I) eqn:Hm.
             ++ apply memN_In in Hm. apply Hhi in Hm. rewrite Hm. lia.
             ++ apply memN_false in Hm.
                destruct (valid k hi) eqn:Hv; [lia|]. exfalso. apply Hm. apply Hhi. reflexivity.
          -- rewrite N.ltb_irrefl. apply andb_false_r.
        * intros x _. destruct (N.eqb_spec x hi) as [->|Hx].
          -- rewrite orb_true_r. apply andb_true_iff. split; [apply N.leb_le; lia|apply N.ltb_lt; lia].
          -- rewrite orb_false_r. f_equal.
             destruct (N.ltb_spec x (N.succ hi)), (N.ltb_spec x hi); try reflexivity; lia.
  Qed.

  (** ** the derivation loop of expandScopeHorizons *)
  Lemma derive_loop_spec k : forall fuel idx count window st,
    count <= window ->
    (N.to_nat (window - count) + N.to_nat (inv_bound - idx) < fuel)%nat ->
    let st' := derive_loop invalid_child fuel k idx count window st in
    exists idx', idx <= idx' /\
      rank k idx' = rank k idx + (window - count) /\
      b_horizon st' + (window - count) = b_horizon st + (idx' - idx) /\
      b_next st' = b_next st /\ b_window st' = b_window st /\
      (forall i, In i (b_addrs st') <-> In i (b_addrs st) \/ (idx <= i /\ i < idx' /\ valid k i = true)) /\
      (forall i, In i (b_invalid st') <-> In i (b_invalid st) \/ (idx <= i /\ i < idx' /\ valid k i = false)) /\
      (NoDup (b_invalid st) -> NoDup (b_invalid st')).
  Proof.
    induction fuel as [|f IH]; intros idx count window st Hcw Hfuel; [lia|].
    simpl. destruct (N.ltb_spec count window) as [Hlt|Hge].
    - destruct (invalid_child (fst k) (snd k) idx) eqn:Hinv.
      + pose proof (inv_bounded _ _ _ Hinv) as Hb.
        destruct (IH (idx + 1) count window (mark_invalid_child idx st) Hcw ltac:(lia))
          as (idx' & H1 & H2 & H3 & H4 & H5 & H6 & H7 & H8).
        exists idx'. repeat split; try (simpl in *; lia).
        * rewrite H2. replace (idx + 1) with (N.succ idx) by lia. rewrite rank_succ.
          unfold valid. rewrite Hinv. simpl. lia.
        * simpl in H6. intros Hi. apply H6 in Hi. destruct Hi as [Hi|Hi]; [left; exact Hi|right; lia].
        * simpl in H6. intros [Hi|Hi]; apply H6; [left; exact Hi|].
          right. destruct (N.eq_dec i idx) as [->|Hne].
          -- unfold valid in Hi. rewrite Hinv in Hi. simpl in Hi. lia.
          -- lia.
        * simpl in H7. intros Hi. apply H7 in Hi. destruct Hi as [Hi|Hi].
          -- apply insN_In in Hi. destruct Hi as [->|Hi]; [|left; exact Hi].
             right. unfold valid. rewrite Hinv. simpl. lia.
          -- right. lia.
        * simpl in H7. intros [Hi|Hi]; apply H7.
          -- left. apply insN_In. right. exact Hi.
          -- destruct (N.eq_dec i idx) as [->|Hne].
             ++ left. apply insN_In. left. reflexivity.
             ++ right. lia.
        * intros Hnd. apply H8. simpl. apply insN_NoDup. exact Hnd.
      + destruct (IH (idx + 1) (count + 1) window (add_addr idx st) ltac:(lia) ltac:(lia))
          as (idx' & H1 & H2 & H3 & H4 & H5 & H6 & H7 & H8).
        exists idx'. repeat split; try (simpl in *; lia).
        * rewrite H2. replace (idx + 1) with (N.succ idx) by lia. rewrite rank_succ.
          unfold valid. rewrite Hinv. simpl. lia.
        * simpl in H6. intros Hi. apply H6 in Hi. destruct Hi as [Hi|Hi].
          -- apply insN_In in Hi. destruct Hi as [->|Hi]; [|left; exact Hi].
             right. unfold valid. rewrite Hinv. simpl. lia.
          -- right. lia.
        * simpl in H6. intros [Hi|Hi]; apply H6.
          -- left. apply insN_In. right. exact Hi.
          -- destruct (N.eq_dec i idx) as [->|Hne].
             ++ left. apply insN_In. left. reflexivity.
             ++ right. lia.
        * simpl in H7. intros Hi. apply H7 in Hi. destruct Hi as [Hi|Hi]; [left; exact Hi|right; lia].
        * simpl in H7. intros [Hi|Hi]; apply H7; [left; exact Hi|].
          right. destruct (N.eq_dec i idx) as [->|Hne].
          -- unfold valid in Hi. rewrite Hinv in Hi. simpl in Hi. lia.
          -- lia.
        * intros Hnd. apply H8. simpl. exact Hnd.
    - exists idx. repeat split; try lia.
      + intros Hi. left. exact Hi.
      + intros [Hi|Hi]; [exact Hi|lia].
      + intros Hi. left. exact Hi.
      + intros [Hi|Hi]; [exact Hi|lia].
      + auto.
  Qed.

  (** ** branch invariant *)
  Definition br_ok (k : bkey) (W : N) (st : brs) : Prop :=
    b_window st = W /\
    NoDup (b_invalid st) /\
    (forall i, In i (b_addrs st) -> valid k i = true) /\
    (forall i, i < b_horizon st -> valid k i = true -> In i (b_addrs st)) /\
    (forall i, b_next st <= i -> (In i (b_invalid st) <-> valid k i = false /\ i < b_horizon st)).

  (** the look-ahead is fully expanded: at least [window] valid indices are
      watched at and above nextUnfound *)
  Definition br_expanded (k : bkey) (st : brs) : Prop :=
    b_next st <= b_horizon st /\ rank k (b_next st) + b_window st <= rank k (b_horizon st).

  Lemma num_invalid_spec k W st :
    br_ok k W st -> b_next st <= b_horizon st ->
    num_invalid_in_horizon st + rank k (b_horizon st) = (b_horizon st - b_next st) + rank k (b_next st).
  Proof.
    intros (Hw & Hnd & H0 & H1 & H2) Hle. unfold num_invalid_in_horizon.
    apply count_invalid_range; [exact Hnd|exact Hle|].
    intros i Hi1 Hi2. rewrite (H2 i Hi1). split; [intros [? ?]; assumption|intros ?; split; assumption].
  Qed.

  Lemma num_invalid_zero st :
    b_horizon st <= b_next st -> num_invalid_in_horizon st = 0.
  Proof.
    intros Hle. unfold num_invalid_in_horizon.
    rewrite (filter_ext_in' _ (fun _ => false)).
    - assert (E : forall l : list N, filter (fun _ => false) l = []) by (induction l; simpl; auto).
      rewrite E. reflexivity.
    - intros x _. destruct (N.leb_spec (b_next st) x); simpl; [|reflexivity]. apply N.ltb_ge. lia.
  Qed.

  Definition expand_branch' := expand_branch invalid_child inv_bound.

  Lemma expand_branch_ok k W st :
    br_ok k W st ->
    let st' := expand_branch' k st in
    br_ok k W st' /\ br_expanded k st' /\ b_next st' = b_next st /\
    (forall i, In i (b_addrs st) -> In i (b_addrs st')).
  Proof.
    intros Hok. pose proof Hok as (Hw & Hnd & H0 & H1 & H2).
    unfold expand_branch', expand_branch, extend_horizon.
    set (ni := num_invalid_in_horizon st).
    destruct (N.leb_spec (b_next st + b_window st + ni) (b_horizon st)) as [Hle|Hgt].
    - (* the horizon already suffices: nothing is derived *)
      simpl. split; [exact Hok|]. split; [|split; [reflexivity|auto]].
      assert (Hnh : b_next st <= b_horizon st) by lia.
      pose proof (num_invalid_spec k W st Hok Hnh) as Hc. fold ni in Hc.
      split; [exact Hnh|]. lia.
    - set (minv := b_next st + b_window st + ni) in *.
      set (st1 := {| b_window := b_window st; b_horizon := minv; b_next := b_next st;
                     b_addrs := b_addrs st; b_invalid := b_invalid st |}).
      pose proof (derive_loop_spec k (derive_fuel inv_bound (minv - b_horizon st)) (b_horizon st) 0
                  (minv - b_horizon st) st1 ltac:(lia) ltac:(unfold derive_fuel; lia)) as D.
      cbv zeta in D |- *.
      set (st' := derive_loop invalid_child (derive_fuel inv_bound (minv - b_horizon st)) k
                    (b_horizon st) 0 (minv - b_horizon st) st1) in *.
      destruct D as (idx' & D1 & D2 & D3 & D4 & D5 & D6 & D7 & D8).
      subst st1. cbn [b_horizon b_next b_window b_addrs b_invalid] in D3, D4, D5, D6, D7, D8.
      assert (Hh : b_horizon st' = idx') by lia.
      split; [|split; [|split]].
      + unfold br_ok. rewrite D5, Hh. split; [exact Hw|]. split; [apply D8; exact Hnd|].
        split; [|split].
        * intros i Hi. apply D6 in Hi. destruct Hi as [Hi|(_ & _ & Hi)]; [apply H0; exact Hi|exact Hi].
        * intros i Hi Hv. apply D6. destruct (N.lt_ge_cases i (b_horizon st)) as [Hl|Hg].
          -- left. apply H1; assumption.
          -- right. repeat split; assumption.
        * intros i Hi. rewrite D4 in Hi. rewrite D7, (H2 i Hi). split.
          -- intros [[Hv Hl]|(Ha & Hb & Hv)]; split; try assumption. lia.
          -- intros [Hv Hl]. destruct (N.lt_ge_cases i (b_horizon st)) as [Hl'|Hg].
             ++ left. split; assumption.
             ++ right. repeat split; assumption.
      + unfold br_expanded. rewrite D4, D5, Hh.
        destruct (N.le_gt_cases (b_next st) (b_horizon st)) as [Hnh|Hhn].
        * pose proof (num_invalid_spec k W st Hok Hnh) as Hc. fold ni in Hc.
          split; [lia|]. rewrite D2. unfold minv. lia.
        * assert (Hz : ni = 0) by (apply num_invalid_zero; lia).
          pose proof (rank_diff_le k (b_horizon st) (b_next st) ltac:(lia)) as Hr1.
          pose proof (rank_diff_le k (b_horizon st) idx' D1) as Hr2.
          rewrite D2 in *. unfold minv in *. rewrite Hz in *. split; lia.
      + exact D4.
      + intros i Hi. apply D6. left. exact Hi.
  Qed.

  (** expanding an expanded branch changes nothing *)
  Lemma expand_branch_idem k W st :
    br_ok k W st -> br_expanded k st -> expand_branch' k st = st.
  Proof.
    intros Hok [Hnh He]. unfold expand_branch', expand_branch, extend_horizon.
    pose proof (num_invalid_spec k W st Hok Hnh) as Hc.
    destruct (N.leb_spec (b_next st + b_window st + num_invalid_in_horizon st) (b_horizon st)) as [Hle|Hgt].
    - reflexivity.
    - lia.
  Qed.

  Lemma report_found_ok k W st i :
    br_ok k W st ->
    let st' := report_found i st in
    br_ok k W st' /\ b_next st' = N.max (b_next st) (i + 1) /\
    b_addrs st' = b_addrs st /\ b_horizon st' = b_horizon st.
  Proof.
    intros (Hw & Hnd & H0 & H1 & H2). unfold report_found.
    destruct (N.leb_spec (b_next st) i) as [Hle|Hgt].
    - simpl. split; [|split; [lia|split; reflexivity]].
      unfold br_ok. simpl. split; [exact Hw|]. split; [apply NoDup_filter; exact Hnd|].
      split; [exact H0|]. split; [exact H1|].
      intros j Hj. rewrite filter_In. rewrite (H2 j ltac:(lia)). split.
      + intros [H _]. exact H.
      + intros H. split; [exact H|]. apply negb_true_iff. apply N.ltb_ge. lia.
    - split; [exact (conj Hw (conj Hnd (conj H0 (conj H1 H2))))|]. split; [lia|split; reflexivity].
  Qed.

  Definition report_all (idxs : list N) (st : brs) : brs :=
    fold_left (fun br i => report_found i br) idxs st.

  Definition max_next (n : N) (idxs : list N) : N := fold_left (fun n i => N.max n (i + 1)) idxs n.

  Lemma report_all_ok k W idxs : forall st,
    br_ok k W st ->
    br_ok k W (report_all idxs st) /\ b_next (report_all idxs st) = max_next (b_next st) idxs /\
    b_addrs (report_all idxs st) = b_addrs st /\ b_horizon (report_all idxs st) = b_horizon st.
  Proof.
    induction idxs as [|i idxs IH]; intros st Hok; simpl.
    - split; [exact Hok|]. repeat split; reflexivity.
    - destruct (report_found_ok k W st i Hok) as (Hok' & Hn & Ha & Hh).
      destruct (IH _ Hok') as (Hok'' & Hn' & Ha' & Hh').
      unfold report_all in *. simpl. split; [exact Hok''|].
      rewrite Hn', Ha', Hh', Hn, Ha, Hh. repeat split; reflexivity.
  Qed.

  Lemma max_next_cons n i l : max_next n (i :: l) = max_next (N.max n (i + 1)) l.
  Proof. reflexivity. Qed.

  Lemma max_next_spec idxs : forall n,
    n <= max_next n idxs /\
    (forall i, In i idxs -> i < max_next n idxs) /\
    (max_next n idxs = n \/ exists i, In i idxs /\ max_next n idxs = i + 1).
  Proof.
    induction idxs as [|i idxs IH]; intros n.
    - simpl. split; [lia|]. split; [intros i []|left; reflexivity].
    - rewrite max_next_cons. destruct (IH (N.max n (i + 1))) as (H1 & H2 & H3).
      split; [lia|]. split.
      + intros j [->|Hj]; [lia|apply H2; exact Hj].
      + destruct H3 as [H3|(j & Hj & H3)].
        * destruct (N.max_spec n (i + 1)) as [[_ E]|[_ E]].
          -- right. exists i. split; [left; reflexivity|]. rewrite H3. exact E.
          -- left. rewrite H3. exact E.
        * right. exists j. split; [right; exact Hj|exact H3].
  Qed.

  (** the result only depends on the set of reported indices *)
  Lemma max_next_set n l1 l2 :
    (forall i, In i l1 <-> In i l2) -> max_next n l1 = max_next n l2.
  Proof.
    intros Heq.
    destruct (max_next_spec l1 n) as (A1 & A2 & A3), (max_next_spec l2 n) as (B1 & B2 & B3).
    apply N.le_antisymm.
    - destruct A3 as [->|(i & Hi & ->)]; [exact B1|]. apply Heq in Hi. apply B2 in Hi. lia.
    - destruct B3 as [->|(i & Hi & ->)]; [exact A1|]. apply Heq in Hi. apply A2 in Hi. lia.
  Qed.

  (** ** waddrmgr extendAddresses *)
  Lemma next_valid_spec k : forall fuel i,
    (N.to_nat (inv_bound - i) < fuel)%nat ->
    let r := next_valid invalid_child fuel k i in
    i <= r /\ valid k r = true /\ (forall j, i <= j -> j < r -> valid k j = false).
  Proof.
    induction fuel as [|f IH]; intros i Hf; [lia|]. simpl.
    destruct (invalid_child (fst k) (snd k) i) eqn:Hinv.
    - pose proof (inv_bounded _ _ _ Hinv) as Hb.
      destruct (IH (i + 1) ltac:(lia)) as (H1 & H2 & H3).
      split; [lia|]. split; [exact H2|].
      intros j Hj1 Hj2. destruct (N.eq_dec j i) as [->|Hne].
      + unfold valid. rewrite Hinv. reflexivity.
      + apply H3; lia.
    - split; [lia|]. split; [unfold valid; rewrite Hinv; reflexivity|]. intros j; lia.
  Qed.

  Lemma extend_loop_S f k next last :
    extend_loop invalid_child inv_bound (S f) k next last =
    if next <=? last
    then extend_loop invalid_child inv_bound f k
           (next_valid invalid_child (S (N.to_nat inv_bound)) k next + 1) last
    else next.
  Proof. reflexivity. Qed.

  Lemma extend_loop_spec k last : valid k last = true ->
    forall fuel next, next <= last + 1 -> (N.to_nat (last + 1 - next) < fuel)%nat ->
      extend_loop invalid_child inv_bound fuel k next last = last + 1.
  Proof.
    intros Hv. induction fuel as [|f IH]; intros next Hle Hf; [lia|]. rewrite extend_loop_S.
    destruct (N.leb_spec next last) as [Hnl|Hnl]; [|lia].
    destruct (next_valid_spec k (S (N.to_nat inv_bound)) next ltac:(lia)) as (H1 & H2 & H3).
    set (nv := next_valid invalid_child (S (N.to_nat inv_bound)) k next) in *.
    assert (Hnv : nv <= last).
    { destruct (N.le_gt_cases nv last) as [|Hgt]; [assumption|].
      rewrite (H3 last Hnl Hgt) in Hv. discriminate. }
    apply IH; lia.
  Qed.

  (** ** Resurrect, one branch *)
  Lemma resurrect_loop_spec k : forall n i st,
    let st' := resurrect_loop invalid_child n k i st in
    b_next st' = b_next st /\ b_window st' = b_window st /\
    b_horizon st' + rank k (i + N.of_nat n) = b_horizon st + rank k i + N.of_nat n /\
    (forall j, In j (b_addrs st') <-> In j (b_addrs st) \/ (i <= j /\ j < i + N.of_nat n /\ valid k j = true)) /\
    (forall j, In j (b_invalid st') <-> In j (b_invalid st) \/ (i <= j /\ j < i + N.of_nat n /\ valid k j = false)) /\
    (NoDup (b_invalid st) -> NoDup (b_invalid st')).
  Proof.
    induction n as [|n IH]; intros i st; simpl.
    - rewrite N.add_0_r. repeat split; try lia; auto; intros [H|H]; auto; lia.
    - set (st1 := if invalid_child (fst k) (snd k) i then mark_invalid_child i st else add_addr i st).
      destruct (IH (i + 1) st1) as (H1 & H2 & H3 & H4 & H5 & H6).
      replace (i + 1 + N.of_nat n) with (i + N.pos (Pos.of_succ_nat n)) in * by lia.
      replace (rank k (i + 1)) with (rank k (N.succ i)) in H3 by (f_equal; lia). rewrite rank_succ in H3.
      unfold valid at 1 in H3.
      destruct (invalid_child (fst k) (snd k) i) eqn:Hinv; subst st1; simpl in *.
      + repeat split; try lia.
        * intros Hj. apply H4 in Hj. destruct Hj as [Hj|Hj]; [left; exact Hj|right; lia].
        * intros [Hj|Hj]; apply H4; [left; exact Hj|]. right.
          destruct (N.eq_dec j i) as [->|Hne]; [|lia].
          unfold valid in Hj. rewrite Hinv in Hj. simpl in Hj. lia.
        * intros Hj. apply H5 in Hj. destruct Hj as [Hj|Hj].
          -- apply insN_In in Hj. destruct Hj as [->|Hj]; [|left; exact Hj].
             right. unfold valid. rewrite Hinv. simpl. lia.
          -- right. lia.
        * intros [Hj|Hj]; apply H5.
          -- left. apply insN_In. right. exact Hj.
          -- destruct (N.eq_dec j i) as [->|Hne]; [left; apply insN_In; left; reflexivity|right; lia].
        * intros Hnd. apply H6. apply insN_NoDup. exact Hnd.
      + repeat split; try lia.
        * intros Hj. apply H4 in Hj. destruct Hj as [Hj|Hj].
          -- apply insN_In in Hj. destruct Hj as [->|Hj]; [|left; exact Hj].
             right. unfold valid. rewrite Hinv. simpl. lia.
          -- right. lia.
        * intros [Hj|Hj]; apply H4.
          -- left. apply insN_In. right. exact Hj.
          -- destruct (N.eq_dec j i) as [->|Hne]; [left; apply insN_In; left; reflexivity|right; lia].
        * intros Hj. apply H5 in Hj. destruct Hj as [Hj|Hj]; [left; exact Hj|right; lia].
        * intros [Hj|Hj]; apply H5; [left; exact Hj|]. right.
          destruct (N.eq_dec j i) as [->|Hne]; [|lia].
          unfold valid in Hj. rewrite Hinv in Hj. simpl in Hj. lia.
        * exact H6.
  Qed.

  Lemma resurrect_branch_ok k W count :
    let st := resurrect_branch invalid_child k count (new_brs W) in
    br_ok k W st /\ b_next st = count.
  Proof.
    unfold resurrect_branch.
    destruct (resurrect_loop_spec k (N.to_nat count) 0 (new_brs W)) as (H1 & H2 & H3 & H4 & H5 & H6).
    set (st1 := resurrect_loop invalid_child (N.to_nat count) k 0 (new_brs W)) in *.
    simpl in H1, H2, H3, H4, H5, H6. rewrite N2Nat.id in *.
    assert (Hh : b_horizon st1 <= count).
    { pose proof (rank_mono k 0 count ltac:(lia)). rewrite rank_0 in *. lia. }
    destruct (N.ltb_spec 0 count) as [Hpos|Hz].
    - unfold report_found. rewrite H1. cbn [b_next new_brs].
      destruct (N.leb_spec 0 (count - 1)) as [_|Hbad]; [|lia]. cbn [b_next].
      split; [|lia]. unfold br_ok. simpl. split; [exact H2|].
      split; [apply NoDup_filter; apply H6; constructor|]. split; [|split].
      + intros i Hi. apply H4 in Hi. tauto.
      + intros i Hi Hv. apply H4. right. repeat split; lia.
      + intros i Hi. rewrite filter_In, H5. split.
        * intros [[[]|Hj] _]. lia.
        * intros [_ Hj]. lia.
    - assert (count = 0) by lia. subst count.
      split; [|exact H1]. unfold br_ok. split; [exact H2|].
      split; [apply H6; constructor|]. split; [|split].
      + intros i Hi. apply H4 in Hi. tauto.
      + intros i Hi. lia.
      + intros i Hi. rewrite H5. split.
        * intros [[]|Hj]. lia.
        * intros [_ Hj]. lia.
  Qed.

  (** * Part 4: the recovery state as a finite map *)

  Variable scopes : list scope.
  Hypothesis scopes_nodup : NoDup scopes.

  Lemma assoc_scope_set s v l s' :
    assoc_scope s' ((s, v) :: filter (fun p => negb (fst p =? s)) l) =
    if s' =? s then Some v else assoc_scope s' l.
  Proof.
    simpl. rewrite (N.eqb_sym s s'). destruct (N.eqb_spec s' s) as [->|Hne]; [reflexivity|].
    induction l as [|[a w] l IH]; simpl; [reflexivity|].
    destruct (N.eqb_spec a s) as [->|Ha]; simpl.
    - replace (s =? s') with false by (symmetry; apply N.eqb_neq; congruence). exact IH.
    - destruct (a =? s'); [reflexivity|exact IH].
  Qed.

  Lemma state_for_scope_set s v rs s' :
    state_for_scope s' (set_scope s v rs) = if s' =? s then v else state_for_scope s' rs.
  Proof.
    unfold state_for_scope, set_scope. cbn [r_scopes r_window].
    rewrite assoc_scope_set. destruct (s' =? s); reflexivity.
  Qed.

  Lemma branch_set_branch ss b v b' :
    branch (set_branch ss b v) b' = if Bool.eqb b' b then v else branch ss b'.
  Proof. destruct b, b'; reflexivity. Qed.

  Lemma get_branch_set_br k v rs k' :
    get_branch k' (set_br k v rs) = if bkey_eqb k' k then v else get_branch k' rs.
  Proof.
    unfold get_branch, set_br, bkey_eqb. rewrite state_for_scope_set.
    destruct (N.eqb_spec (fst k') (fst k)) as [E|Hne]; simpl; [|reflexivity].
    rewrite branch_set_branch, E. destruct (Bool.eqb (snd k') (snd k)); reflexivity.
  Qed.

  Lemma fold_scopes_get (f : scope -> sstate -> sstate) l : NoDup l -> forall rs,
    let rs' := fold_left (fun rs s => set_scope s (f s (state_for_scope s rs)) rs) l rs in
    (forall s, state_for_scope s rs' = if memN s l then f s (state_for_scope s rs) else state_for_scope s rs) /\
    r_watched rs' = r_watched rs /\ r_window rs' = r_window rs.
  Proof.
    induction 1 as [|a l Hna Hnd IH]; intros rs; simpl.
    - split; [intros s; reflexivity|split; reflexivity].
    - destruct (IH (set_scope a (f a (state_for_scope a rs)) rs)) as (H1 & H2 & H3).
      split; [|split; [rewrite H2; reflexivity|rewrite H3; reflexivity]].
      intros s. rewrite H1, state_for_scope_set.
      destruct (N.eqb_spec s a) as [->|Hne].
      + assert (Hm : memN a l = false) by (apply memN_false; exact Hna). rewrite Hm. reflexivity.
      + reflexivity.
  Qed.

  Definition expand_all' := expand_all invalid_child inv_bound scopes.

  Lemma expand_all_get rs :
    (forall k, get_branch k (expand_all' rs) =
               if memN (fst k) scopes then expand_branch' k (get_branch k rs) else get_branch k rs) /\
    r_watched (expand_all' rs) = r_watched rs /\ r_window (expand_all' rs) = r_window rs.
  Proof.
    unfold expand_all', expand_all.
    destruct (fold_scopes_get (expand_scope_horizons invalid_child inv_bound) scopes scopes_nodup rs)
      as (H1 & H2 & H3).
    split; [|split; assumption].
    intros [s b]. unfold get_branch. simpl. rewrite H1.
    destruct (memN s scopes); [|reflexivity].
    destruct b; reflexivity.
  Qed.

  (** ** the persistent next indices *)
  Lemma assoc_bkey_set k v l q :
    assoc_bkey q ((k, v) :: filter (fun x => negb (bkey_eqb (fst x) k)) l) =
    if bkey_eqb k q then v else assoc_bkey q l.
  Proof.
    simpl. destruct (bkey_eqb k q) eqn:E; [reflexivity|].
    induction l as [|[a w] l IH]; simpl; [reflexivity|].
    destruct (bkey_eqb a k) eqn:Ea; simpl.
    - apply bkey_eqb_eq in Ea. subst a. rewrite E. exact IH.
    - destruct (bkey_eqb a q); [reflexivity|exact IH].
  Qed.

  Lemma get_next_set_next k v p q :
    get_next q (set_next k v p) = if bkey_eqb k q then v else get_next q p.
  Proof. unfold get_next, set_next. cbn [p_next]. apply assoc_bkey_set. Qed.

  Lemma get_next_mark_used x p q : get_next q (mark_used x p) = get_next q p.
  Proof. reflexivity. Qed.

  (** ** extendFoundAddresses *)
  Lemma fold_mark_used k idxs : forall p,
    let p' := fold_left (fun p i => mark_used (k, i) p) idxs p in
    p_next p' = p_next p /\ p_txs p' = p_txs p /\ p_unspent p' = p_unspent p /\ p_synced p' = p_synced p /\
    (forall x, In x (p_used p') <-> In x (p_used p) \/ (fst x = k /\ In (snd x) idxs)).
  Proof.
    induction idxs as [|i idxs IH]; intros p; simpl.
    - repeat split; auto. intros [H|[_ []]]. exact H.
    - destruct (IH (mark_used (k, i) p)) as (H1 & H2 & H3 & H4 & H5).
      split; [rewrite H1; reflexivity|]. split; [rewrite H2; reflexivity|].
      split; [rewrite H3; reflexivity|]. split; [rewrite H4; reflexivity|].
      intros x. rewrite H5. simpl. rewrite ins_key_In. split.
      + intros [[->|H]|[Hk H]]; simpl; tauto.
      + intros [H|[Hk [E|H]]]; [tauto| |tauto].
        left. left. destruct x; simpl in *; subst; reflexivity.
  Qed.

  Definition efb := extend_found_branch invalid_child inv_bound.

  Lemma efb_frame k keys rs p :
    let idxs := found_indices k keys in
    let st' := efb k keys (rs, p) in
    (forall q, get_branch q (fst st') =
               if bkey_eqb q k then report_all idxs (get_branch k rs) else get_branch q rs) /\
    (forall q, bkey_eqb k q = false -> get_next q (snd st') = get_next q p) /\
    r_watched (fst st') = r_watched rs /\ r_window (fst st') = r_window rs /\
    p_txs (snd st') = p_txs p /\ p_unspent (snd st') = p_unspent p /\ p_synced (snd st') = p_synced p /\
    (forall x, In x (p_used (snd st')) <-> In x (p_used p) \/ (fst x = k /\ In (snd x) idxs)).
  Proof.
    unfold efb, extend_found_branch. cbv zeta.
    destruct (found_indices k keys) as [|i0 idxs0] eqn:Eidx.
    - simpl. split.
      { intros q. destruct (bkey_eqb q k) eqn:E; [apply bkey_eqb_eq in E; subst; reflexivity|reflexivity]. }
      repeat split; auto. intros [H|[_ []]]. exact H.
    - set (idxs := i0 :: idxs0) in *. cbn [fst snd].
      set (br := fold_left (fun br i => report_found i br) idxs (get_branch k rs)).
      set (p1 := extend_addresses invalid_child inv_bound k
                   (if 0 <? next_unfound br then next_unfound br - 1 else next_unfound br) p).
      destruct (fold_mark_used k idxs p1) as (H1 & H2 & H3 & H4 & H5).
      assert (Hp1 : p_used p1 = p_used p /\ p_txs p1 = p_txs p /\ p_unspent p1 = p_unspent p /\
                    p_synced p1 = p_synced p /\
                    (forall q, bkey_eqb k q = false -> get_next q p1 = get_next q p)).
      { subst p1. unfold extend_addresses.
        destruct (_ <? get_next k p); [repeat split; reflexivity|].
        repeat split; try reflexivity. intros q Hq. rewrite get_next_set_next, Hq. reflexivity. }
      destruct Hp1 as (U1 & U2 & U3 & U4 & U5).
      split; [|split; [|split; [|split; [|split; [|split; [|split]]]]]].
      + intros q. rewrite get_branch_set_br. reflexivity.
      + intros q Hq. rewrite <- (U5 q Hq). unfold get_next. f_equal. exact H1.
      + reflexivity.
      + reflexivity.
      + exact (eq_trans H2 U2).
      + exact (eq_trans H3 U3).
      + exact (eq_trans H4 U4).
      + intros x. rewrite <- U1. exact (H5 x).
  Qed.

  Lemma efb_next k W keys rs p :
    let idxs := found_indices k keys in
    br_ok k W (get_branch k rs) ->
    get_next k p = b_next (get_branch k rs) ->
    (forall i, In i idxs -> In i (b_addrs (get_branch k rs))) ->
    get_next k (snd (efb k keys (rs, p))) = b_next (report_all idxs (get_branch k rs)).
  Proof.
    intros idxs Hok Hn Hin. unfold efb, extend_found_branch. cbv zeta. fold idxs.
    destruct idxs as [|i0 idxs0] eqn:Eidx.
    - simpl. exact Hn.
    - rewrite <- Eidx in *. cbn [fst snd].
      fold (report_all idxs (get_branch k rs)).
      set (br := report_all idxs (get_branch k rs)).
      destruct (report_all_ok k W idxs _ Hok) as (Hok' & Hn' & Ha' & Hh'). fold br in Hok', Hn', Ha', Hh'.
      destruct (max_next_spec idxs (b_next (get_branch k rs))) as (M1 & M2 & M3).
      rewrite <- Hn' in M1, M2, M3. unfold next_unfound.
      assert (Hpos : 0 < b_next br) by (pose proof (M2 i0 ltac:(rewrite Eidx; left; reflexivity)); lia).
      destruct (N.ltb_spec 0 (b_next br)) as [_|Hbad]; [|lia].
      set (p1 := extend_addresses invalid_child inv_bound k (b_next br - 1) p).
      destruct (fold_mark_used k idxs p1) as (H1 & _).
      transitivity (get_next k p1); [unfold get_next; f_equal; exact H1|].
      subst p1. unfold extend_addresses. rewrite Hn.
      destruct (N.ltb_spec (b_next br - 1) (b_next (get_branch k rs))) as [Hlt|Hge].
      + rewrite Hn. lia.
      + rewrite get_next_set_next, bkey_eqb_refl.
        destruct M3 as [M3|(i & Hi & M3)]; [lia|].
        rewrite extend_loop_spec; try lia.
        replace (b_next br - 1) with i by lia.
        destruct Hok as (_ & _ & H0 & _). apply H0. apply Hin. exact Hi.
  Qed.

  Definition efa := extend_found_addresses invalid_child inv_bound scopes.

  Lemma efb_fold keys L : NoDup L -> forall st,
    let st' := fold_left (fun st k => efb k keys st) L st in
    (forall q, get_branch q (fst st') =
               if existsb (bkey_eqb q) L then report_all (found_indices q keys) (get_branch q (fst st))
               else get_branch q (fst st)) /\
    (forall q, existsb (bkey_eqb q) L = false -> get_next q (snd st') = get_next q (snd st)) /\
    (forall q W, existsb (bkey_eqb q) L = true ->
       br_ok q W (get_branch q (fst st)) ->
       get_next q (snd st) = b_next (get_branch q (fst st)) ->
       (forall i, In i (found_indices q keys) -> In i (b_addrs (get_branch q (fst st)))) ->
       get_next q (snd st') = b_next (report_all (found_indices q keys) (get_branch q (fst st)))) /\
    r_watched (fst st') = r_watched (fst st) /\ r_window (fst st') = r_window (fst st) /\
    p_txs (snd st') = p_txs (snd st) /\ p_unspent (snd st') = p_unspent (snd st) /\
    p_synced (snd st') = p_synced (snd st) /\
    (forall x, In x (p_used (snd st')) <->
               In x (p_used (snd st)) \/ (existsb (bkey_eqb (fst x)) L = true /\ In (snd x) (found_indices (fst x) keys))).
  Proof.
    induction 1 as [|a L Hna Hnd IH]; intros st.
    - simpl. repeat split; auto; try discriminate. intros [H|[H _]]; [exact H|discriminate].
    - cbn [fold_left]. destruct st as [rs p].
      destruct (efb_frame a keys rs p) as (F1 & F2 & F3 & F4 & F5 & F6 & F7 & F8).
      pose proof (efb_next a) as Fn.
      set (st1 := efb a keys (rs, p)) in *.
      destruct (IH st1) as (I1 & I2 & I3 & I4 & I5 & I6 & I7 & I8 & I9).
      assert (Hnotin : existsb (bkey_eqb a) L = false).
      { destruct (existsb (bkey_eqb a) L) eqn:E; [|reflexivity].
        apply existsb_exists in E. destruct E as (x & Hx & E). apply bkey_eqb_eq in E. subst x. contradiction. }
      cbn [fst snd] in *.
      split; [|split; [|split; [|split; [|split; [|split; [|split; [|split]]]]]]].
      + intros q. rewrite I1, F1. cbn [existsb].
        destruct (bkey_eqb q a) eqn:E.
        * apply bkey_eqb_eq in E. subst q. rewrite Hnotin. reflexivity.
        * simpl. reflexivity.
      + intros q Hq. cbn [existsb] in Hq. apply orb_false_iff in Hq. destruct Hq as [Hq1 Hq2].
        rewrite I2 by exact Hq2. apply F2.
        destruct (bkey_eqb a q) eqn:E; [|reflexivity].
        apply bkey_eqb_eq in E. subst q. rewrite bkey_eqb_refl in Hq1. discriminate.
      + intros q W Hq Hok Hn Hin. cbn [existsb] in Hq.
        destruct (bkey_eqb q a) eqn:E.
        * apply bkey_eqb_eq in E. subst q. rewrite I2 by exact Hnotin.
          apply (Fn W keys rs p); assumption.
        * simpl in Hq. assert (Ea : bkey_eqb a q = false).
          { destruct (bkey_eqb a q) eqn:E2; [|reflexivity]. apply bkey_eqb_eq in E2. subst q.
            rewrite bkey_eqb_refl in E. discriminate. }
          rewrite (I3 q W Hq).
          -- rewrite F1, E. reflexivity.
          -- rewrite F1, E. exact Hok.
          -- rewrite F1, E, (F2 q Ea). exact Hn.
          -- rewrite F1, E. exact Hin.
      + rewrite I4. exact F3.
      + rewrite I5. exact F4.
      + rewrite I6. exact F5.
      + rewrite I7. exact F6.
      + rewrite I8. exact F7.
      + intros x. rewrite I9, F8. cbn [existsb]. split.
        * intros [[H|[Hk H]]|[Hk H]].
          -- left. exact H.
          -- right. subst a. rewrite bkey_eqb_refl. simpl. split; [reflexivity|exact H].
          -- right. rewrite Hk, orb_true_r. split; [reflexivity|exact H].
        * intros [H|[Hk H]]; [left; left; exact H|].
          apply orb_true_iff in Hk. destruct Hk as [Hk|Hk].
          -- apply bkey_eqb_eq in Hk. left. right. subst a. split; [reflexivity|exact H].
          -- right. split; [exact Hk|exact H].
  Qed.

  (** * Part 5: the ledger (what the chain says, no windows involved) *)

  Definition out_keys (o : txout) : list key := match o_key o with Some k => [k] | None => [] end.
  Definition tx_keys (t : tx) : list key := flat_map out_keys (t_outs t).
  Definition block_keys (b : block) : list key := flat_map tx_keys b.
  (** indices paid on branch [k] in block [b] *)
  Definition paid_on (k : bkey) (b : block) : list N := found_indices k (block_keys b).

  Definition wallet_outs_from (id : N) (outs : list (N * txout)) : list (outpoint * Z) :=
    flat_map (fun x => match o_key (snd x) with
                       | Some _ => [((id, fst x), o_val (snd x))]
                       | None => []
                       end) outs.
  (** the outputs of [t] that pay a wallet path *)
  Definition wallet_outs (t : tx) : list (outpoint * Z) :=
    wallet_outs_from (t_id t) (number_from 0 (t_outs t)).

  Definition has_keys (t : tx) : bool := match tx_keys t with [] => false | _ => true end.

  (** unspent wallet outputs after [t] *)
  Definition ledger_tx (u : list (outpoint * Z)) (t : tx) : list (outpoint * Z) :=
    filter (fun x => negb (mem_op (fst x) (t_ins t))) u ++ wallet_outs t.

  (** [t] pays the wallet or spends one of its unspent outputs *)
  Definition relevant (u : list (outpoint * Z)) (t : tx) : bool :=
    has_keys t || existsb (fun o => mem_op o (map fst u)) (t_ins t).

  Definition ledger_step (st : list (N * N) * list (outpoint * Z)) (x : N * tx) :=
    ((if relevant (snd st) (snd x) then fst st ++ [(fst x, t_id (snd x))] else fst st),
     ledger_tx (snd st) (snd x)).

  (** (relevant transactions as (height, id) in chain order, unspent wallet outputs) *)
  Definition ledger (txs : list (N * tx)) := fold_left ledger_step txs ([], []).

  Definition txs_of (hb : list (N * block)) : list (N * tx) :=
    flat_map (fun x => map (pair (fst x)) (snd x)) hb.
  Definition created (l : list (N * tx)) : list outpoint :=
    flat_map (fun x => map fst (wallet_outs (snd x))) l.
  Definition inputs (l : list (N * tx)) : list outpoint := flat_map (fun x => t_ins (snd x)) l.
  Definition ids (l : list (N * tx)) : list N := map (fun x => t_id (snd x)) l.

  Lemma ledger_snoc l x : ledger (l ++ [x]) = ledger_step (ledger l) x.
  Proof. unfold ledger. rewrite fold_left_app. reflexivity. Qed.

  Lemma out_keys_numbered (outs : list txout) : forall n,
    flat_map (fun x => out_keys (snd x)) (number_from n outs) = flat_map out_keys outs.
  Proof.
    induction outs as [|o outs IH]; intros n; simpl; [reflexivity|]. rewrite IH. reflexivity.
  Qed.

  Lemma wallet_outs_nil_iff id outs :
    wallet_outs_from id outs = [] <-> flat_map (fun x => out_keys (snd x)) outs = [].
  Proof.
    induction outs as [|[pos o] outs IH]; simpl; [tauto|].
    unfold out_keys at 1. destruct (o_key o); simpl; [split; discriminate|exact IH].
  Qed.

  Lemma has_keys_wallet_outs t : has_keys t = match wallet_outs t with [] => false | _ => true end.
  Proof.
    unfold has_keys, wallet_outs, tx_keys.
    pose proof (wallet_outs_nil_iff (t_id t) (number_from 0 (t_outs t))) as H.
    rewrite out_keys_numbered in H.
    destruct (wallet_outs_from (t_id t) (number_from 0 (t_outs t))) eqn:E1,
             (flat_map out_keys (t_outs t)) eqn:E2; try reflexivity.
    - destruct H as [H _]. specialize (H eq_refl). discriminate.
    - destruct H as [_ H]. specialize (H eq_refl). discriminate.
  Qed.

  (** an irrelevant transaction leaves the ledger unchanged *)
  Lemma ledger_tx_irrelevant u t : relevant u t = false -> ledger_tx u t = u.
  Proof.
    unfold relevant. intros H. apply orb_false_iff in H. destruct H as [Hk Hs].
    unfold ledger_tx. rewrite has_keys_wallet_outs in Hk.
    destruct (wallet_outs t); [|discriminate]. rewrite app_nil_r.
    apply filter_all_true. intros x Hx. apply negb_true_iff. apply mem_op_false. intros Hin.
    assert (E : existsb (fun o => mem_op o (map fst u)) (t_ins t) = true).
    { apply existsb_exists. exists (fst x). split; [exact Hin|]. apply mem_op_In. apply in_map. exact Hx. }
    congruence.
  Qed.

  (** unspent outputs are created ones; created and never spent ones are unspent *)
  Lemma ledger_utxo_created l : forall o, In o (map fst (snd (ledger l))) -> In o (created l).
  Proof.
    induction l as [|x l IH] using rev_ind; intros o Ho; [destruct Ho|].
    rewrite ledger_snoc in Ho. unfold ledger_step, ledger_tx in Ho. cbn [snd] in Ho.
    rewrite map_app, in_app_iff in Ho. unfold created. rewrite flat_map_app, in_app_iff.
    destruct Ho as [Ho|Ho].
    - left. apply IH. rewrite in_map_iff in *. destruct Ho as (y & Ey & Hy).
      apply filter_In in Hy. exists y. split; [exact Ey|apply Hy].
    - right. simpl. rewrite app_nil_r. exact Ho.
  Qed.

  Lemma ledger_utxo_complete l : forall o,
    In o (created l) -> ~ In o (inputs l) -> In o (map fst (snd (ledger l))).
  Proof.
    induction l as [|x l IH] using rev_ind; intros o Hc Hi; [destruct Hc|].
    rewrite ledger_snoc. unfold ledger_step, ledger_tx. cbn [snd].
    rewrite map_app, in_app_iff.
    unfold created in Hc. rewrite flat_map_app, in_app_iff in Hc.
    unfold inputs in Hi. rewrite flat_map_app, in_app_iff in Hi. simpl in Hc, Hi. rewrite app_nil_r in *.
    destruct Hc as [Hc|Hc]; [|right; exact Hc].
    left. assert (Hu : In o (map fst (snd (ledger l)))) by (apply IH; [exact Hc|tauto]).
    rewrite in_map_iff in *. destruct Hu as (y & Ey & Hy). exists y. split; [exact Ey|].
    apply filter_In. split; [exact Hy|]. apply negb_true_iff. apply mem_op_false. subst o. tauto.
  Qed.

  (** * Part 6: the block filter when every paid path of the block is watched *)

  Definition ftx_step (rs : rstate) (id : N) : list key * list outpoint * bool -> N * txout -> list key * list outpoint * bool :=
    fun '(keys, ops, pays) '(pos, o) =>
      match o_key o with
      | Some k => if watched_key scopes rs k
                  then (ins_key k keys, ins_op (id, pos) ops, true)
                  else (keys, ops, pays)
      | None => (keys, ops, pays)
      end.

  Lemma filter_tx_unfold rs acc t :
    filter_tx scopes rs acc t =
    let spends := existsb (fun o => mem_op o (r_watched rs) || mem_op o (f_ops acc)) (t_ins t) in
    let r := fold_left (ftx_step rs (t_id t)) (number_from 0 (t_outs t)) (f_keys acc, f_ops acc, false) in
    {| f_keys := fst (fst r); f_ops := snd (fst r);
       f_txs := if spends || snd r then f_txs acc ++ [t] else f_txs acc |}.
  Proof.
    unfold filter_tx. cbv zeta. fold (ftx_step rs (t_id t)).
    destruct (fold_left (ftx_step rs (t_id t)) (number_from 0 (t_outs t)) (f_keys acc, f_ops acc, false))
      as [[keys ops] pays]. reflexivity.
  Qed.

  Lemma ftx_fold_spec rs id : forall outs keys ops pays,
    (forall x k, In x outs -> o_key (snd x) = Some k -> watched_key scopes rs k = true) ->
    let r := fold_left (ftx_step rs id) outs (keys, ops, pays) in
    (forall x, In x (fst (fst r)) <-> In x keys \/ In x (flat_map (fun y => out_keys (snd y)) outs)) /\
    (forall x, In x (snd (fst r)) <-> In x ops \/ In x (map fst (wallet_outs_from id outs))) /\
    snd r = pays || (match wallet_outs_from id outs with [] => false | _ => true end).
  Proof.
    induction outs as [|[pos o] outs IH]; intros keys ops pays Hw.
    - simpl. split; [intros x; tauto|]. split; [intros x; tauto|]. rewrite orb_false_r. reflexivity.
    - cbn [fold_left]. cbn [flat_map snd fst].
      unfold wallet_outs_from. cbn [flat_map snd fst]. fold (wallet_outs_from id outs).
      destruct (o_key o) as [k|] eqn:Ek.
      + assert (Eo : out_keys o = [k]) by (unfold out_keys; rewrite Ek; reflexivity). rewrite Eo.
        assert (Estep : ftx_step rs id (keys, ops, pays) (pos, o) = (ins_key k keys, ins_op (id, pos) ops, true)).
        { unfold ftx_step. rewrite Ek, (Hw (pos, o) k (or_introl eq_refl) Ek). reflexivity. }
        rewrite Estep.
        destruct (IH (ins_key k keys) (ins_op (id, pos) ops) true) as (H1 & H2 & H3).
        { intros x k' Hx. apply Hw. right. exact Hx. }
        split; [|split].
        * intros x. rewrite H1, ins_key_In. simpl. intuition (subst; auto).
        * intros x. rewrite H2, ins_op_In. simpl. intuition (subst; auto).
        * rewrite H3. simpl. rewrite orb_true_r. reflexivity.
      + assert (Eo : out_keys o = []) by (unfold out_keys; rewrite Ek; reflexivity). rewrite Eo.
        assert (Estep : ftx_step rs id (keys, ops, pays) (pos, o) = (keys, ops, pays)).
        { unfold ftx_step. rewrite Ek. reflexivity. }
        rewrite Estep.
        destruct (IH keys ops pays) as (H1 & H2 & H3).
        { intros x k' Hx. apply Hw. right. exact Hx. }
        simpl. split; [exact H1|]. split; [exact H2|exact H3].
  Qed.

  Lemma filter_tx_spec rs acc t :
    (forall k, In k (tx_keys t) -> watched_key scopes rs k = true) ->
    let acc' := filter_tx scopes rs acc t in
    (forall x, In x (f_keys acc') <-> In x (f_keys acc) \/ In x (tx_keys t)) /\
    (forall x, In x (f_ops acc') <-> In x (f_ops acc) \/ In x (map fst (wallet_outs t))) /\
    f_txs acc' =
      if existsb (fun o => mem_op o (r_watched rs) || mem_op o (f_ops acc)) (t_ins t) || has_keys t
      then f_txs acc ++ [t] else f_txs acc.
  Proof.
    intros Hw. rewrite filter_tx_unfold. cbv zeta.
    destruct (ftx_fold_spec rs (t_id t) (number_from 0 (t_outs t)) (f_keys acc) (f_ops acc) false)
      as (H1 & H2 & H3).
    { intros x k Hx Ek. apply Hw. unfold tx_keys. rewrite <- (out_keys_numbered (t_outs t) 0).
      apply in_flat_map. exists x. split; [exact Hx|]. unfold out_keys. rewrite Ek. left. reflexivity. }
    cbn [f_keys f_ops f_txs]. rewrite out_keys_numbered in H1.
    split; [exact H1|]. split; [exact H2|].
    rewrite H3. simpl. rewrite has_keys_wallet_outs. reflexivity.
  Qed.

  (** * Part 7: recording transactions *)

  Lemma found_indices_In k keys i : In i (found_indices k keys) <-> In (k, i) keys.
  Proof.
    unfold found_indices. rewrite in_map_iff. split.
    - intros (x & Ex & Hx). apply filter_In in Hx. destruct Hx as [Hx Ek].
      apply bkey_eqb_eq in Ek. destruct x as [k' i']. simpl in *. subst. exact Hx.
    - intros H. exists (k, i). split; [reflexivity|]. apply filter_In. split; [exact H|].
      simpl. apply bkey_eqb_refl.
  Qed.

  Definition known' := known invalid_child scopes.

  Lemma known_ext p1 p2 k : p_next p1 = p_next p2 -> known' p1 k = known' p2 k.
  Proof.
    intros E. unfold known', known, get_next. destruct k as [[s b] i]. rewrite E. reflexivity.
  Qed.

  Definition add_credits' := add_credits invalid_child scopes.
  Definition add_relevant_tx' := add_relevant_tx invalid_child scopes.

  Lemma add_credits_cons p id pos o outs :
    add_credits' p id ((pos, o) :: outs) =
    add_credits'
      (match o_key o with
       | Some k =>
           if known' p k then
             mark_used k
               {| p_next := p_next p; p_used := p_used p; p_txs := p_txs p;
                  p_unspent := p_unspent p ++ [((id, pos), o_val o)]; p_synced := p_synced p |}
           else p
       | None => p
       end) id outs.
  Proof. reflexivity. Qed.

  Lemma add_credits_spec id : forall outs p,
    (forall x k, In x outs -> o_key (snd x) = Some k -> known' p k = true) ->
    let p' := add_credits' p id outs in
    p_next p' = p_next p /\ p_txs p' = p_txs p /\ p_synced p' = p_synced p /\
    p_unspent p' = p_unspent p ++ wallet_outs_from id outs /\
    (forall x, In x (p_used p') <-> In x (p_used p) \/ In x (flat_map (fun y => out_keys (snd y)) outs)).
  Proof.
    induction outs as [|[pos o] outs IH]; intros p Hk.
    - simpl. rewrite app_nil_r. repeat split; auto. intros [H|[]]. exact H.
    - rewrite add_credits_cons.
      unfold wallet_outs_from. cbn [flat_map snd fst]. fold (wallet_outs_from id outs).
      destruct (o_key o) as [k|] eqn:Ek.
      + assert (Eo : out_keys o = [k]) by (unfold out_keys; rewrite Ek; reflexivity). rewrite Eo.
        pose proof (Hk (pos, o) k (or_introl eq_refl) Ek) as Hkn. rewrite Hkn.
        set (p1 := mark_used k _).
        destruct (IH p1) as (H1 & H2 & H3 & H4 & H5).
        { intros x k' Hx Ek'. rewrite (known_ext p1 p) by reflexivity. apply (Hk x k'); [right; exact Hx|exact Ek']. }
        split; [rewrite H1; reflexivity|]. split; [rewrite H2; reflexivity|].
        split; [rewrite H3; reflexivity|]. split.
        * rewrite H4. subst p1. cbn [mark_used p_unspent]. rewrite <- app_assoc. reflexivity.
        * intros x. rewrite H5. subst p1. cbn [mark_used p_used]. rewrite ins_key_In. simpl.
          intuition (subst; auto).
      + assert (Eo : out_keys o = []) by (unfold out_keys; rewrite Ek; reflexivity). rewrite Eo.
        destruct (IH p) as (H1 & H2 & H3 & H4 & H5).
        { intros x k' Hx Ek'. apply (Hk x k'); [right; exact Hx|exact Ek']. }
        simpl. exact (conj H1 (conj H2 (conj H3 (conj H4 H5)))).
  Qed.

  Lemma add_relevant_tx_spec h t p :
    ~ In (t_id t) (map snd (p_txs p)) ->
    (forall k, In k (tx_keys t) -> known' p k = true) ->
    let p' := add_relevant_tx' h t p in
    p_next p' = p_next p /\ p_synced p' = p_synced p /\
    p_txs p' = p_txs p ++ [(h, t_id t)] /\
    p_unspent p' = ledger_tx (p_unspent p) t /\
    (forall x, In x (p_used p') <-> In x (p_used p) \/ In x (tx_keys t)).
  Proof.
    intros Hfresh Hk. unfold add_relevant_tx', add_relevant_tx.
    assert (E : existsb (fun r => snd r =? t_id t) (p_txs p) = false).
    { destruct (existsb _ (p_txs p)) eqn:E; [|reflexivity]. exfalso. apply Hfresh.
      apply existsb_exists in E. destruct E as (r & Hr & Er). apply N.eqb_eq in Er.
      apply in_map_iff. exists r. split; [exact Er|exact Hr]. }
    rewrite E. cbv zeta.
    set (p1 := {| p_next := p_next p; p_used := p_used p; p_txs := p_txs p ++ [(h, t_id t)];
                  p_unspent := filter (fun u => negb (mem_op (fst u) (t_ins t))) (p_unspent p);
                  p_synced := p_synced p |}).
    destruct (add_credits_spec (t_id t) (number_from 0 (t_outs t)) p1) as (H1 & H2 & H3 & H4 & H5).
    { intros x k Hx Ek. rewrite (known_ext p1 p) by reflexivity. apply Hk.
      unfold tx_keys. rewrite <- (out_keys_numbered (t_outs t) 0). apply in_flat_map.
      exists x. split; [exact Hx|]. unfold out_keys. rewrite Ek. left. reflexivity. }
    fold add_credits'. rewrite out_keys_numbered in H5.
    split; [exact H1|]. split; [exact H3|]. split; [exact H2|]. split; [exact H4|exact H5].
  Qed.

  (** an unconditional ledger step (the transaction is known to be relevant) *)
  Definition force_step (h : N) (st : list (N * N) * list (outpoint * Z)) (t : tx) :=
    (fst st ++ [(h, t_id t)], ledger_tx (snd st) t).

  Lemma record_fold h : forall L p,
    (forall t, In t L -> ~ In (t_id t) (map snd (p_txs p))) ->
    NoDup (map t_id L) ->
    (forall t k, In t L -> In k (tx_keys t) -> known' p k = true) ->
    let p' := fold_left (fun p t => add_relevant_tx' h t p) L p in
    p_next p' = p_next p /\ p_synced p' = p_synced p /\
    (p_txs p', p_unspent p') = fold_left (force_step h) L (p_txs p, p_unspent p) /\
    (forall x, In x (p_used p') <-> In x (p_used p) \/ In x (flat_map tx_keys L)).
  Proof.
    induction L as [|t L IH]; intros p Hfresh Hnd Hk.
    - simpl. repeat split; auto. intros [H|[]]. exact H.
    - cbn [fold_left].
      destruct (add_relevant_tx_spec h t p) as (A1 & A2 & A3 & A4 & A5).
      { apply Hfresh. left. reflexivity. }
      { intros k Hin. apply (Hk t k); [left; reflexivity|exact Hin]. }
      set (p1 := add_relevant_tx' h t p) in *.
      inversion Hnd as [|a l Hna Hnd']; subst.
      destruct (IH p1) as (B1 & B2 & B3 & B4).
      { intros t' Ht'. rewrite A3, map_app, in_app_iff. simpl. intros [H|[H|[]]].
        - apply (Hfresh t'); [right; exact Ht'|exact H].
        - apply Hna. rewrite H. apply in_map. exact Ht'. }
      { exact Hnd'. }
      { intros t' k Ht' Hin. rewrite (known_ext p1 p) by exact A1. apply (Hk t' k); [right; exact Ht'|exact Hin]. }
      split; [rewrite B1; exact A1|]. split; [rewrite B2; exact A2|]. split.
      + rewrite B3, A3, A4. reflexivity.
      + intros x. rewrite B4, A5. simpl. rewrite in_app_iff. tauto.
  Qed.

  Lemma fold_add_watched ops : forall rs,
    let rs' := fold_left (fun rs o => add_watched o rs) ops rs in
    r_scopes rs' = r_scopes rs /\ r_window rs' = r_window rs /\
    (forall o, In o (r_watched rs') <-> In o (r_watched rs) \/ In o ops).
  Proof.
    induction ops as [|a ops IH]; intros rs; simpl.
    - repeat split; auto. intros [H|[]]. exact H.
    - destruct (IH (add_watched a rs)) as (H1 & H2 & H3).
      split; [rewrite H1; reflexivity|]. split; [rewrite H2; reflexivity|].
      intros o. rewrite H3. simpl. rewrite ins_op_In. intuition (subst; auto).
  Qed.

  Lemma get_branch_scopes_ext rs1 rs2 k :
    r_scopes rs1 = r_scopes rs2 -> r_window rs1 = r_window rs2 -> get_branch k rs1 = get_branch k rs2.
  Proof. intros E1 E2. unfold get_branch, state_for_scope. rewrite E1, E2. reflexivity. Qed.

  (** ** list plumbing for the ledger *)
  Lemma txs_of_app a b : txs_of (a ++ b) = txs_of a ++ txs_of b.
  Proof. unfold txs_of. apply flat_map_app. Qed.
  Lemma txs_of_single h b : txs_of [(h, b)] = map (pair h) b.
  Proof. unfold txs_of. simpl. apply app_nil_r. Qed.
  Lemma created_app a b : created (a ++ b) = created a ++ created b.
  Proof. unfold created. apply flat_map_app. Qed.
  Lemma inputs_app a b : inputs (a ++ b) = inputs a ++ inputs b.
  Proof. unfold inputs. apply flat_map_app. Qed.
  Lemma ids_app a b : ids (a ++ b) = ids a ++ ids b.
  Proof. unfold ids. apply map_app. Qed.

  Lemma ledger_app_utxo l1 : forall l2 o,
    In o (map fst (snd (ledger (l1 ++ l2)))) ->
    In o (map fst (snd (ledger l1))) \/ In o (created l2).
  Proof.
    induction l2 as [|x l2 IH] using rev_ind; intros o Ho.
    - rewrite app_nil_r in Ho. left. exact Ho.
    - rewrite app_assoc, ledger_snoc in Ho. unfold ledger_step, ledger_tx in Ho. cbn [snd] in Ho.
      rewrite map_app, in_app_iff in Ho. rewrite created_app, in_app_iff.
      destruct Ho as [Ho|Ho].
      + assert (H : In o (map fst (snd (ledger (l1 ++ l2))))).
        { rewrite in_map_iff in *. destruct Ho as (y & Ey & Hy). apply filter_In in Hy.
          exists y. split; [exact Ey|apply Hy]. }
        apply IH in H. tauto.
      + right. right. unfold created. simpl. rewrite app_nil_r. exact Ho.
  Qed.

  Lemma ledger_rec_ids l : forall x, In x (map snd (fst (ledger l))) -> In x (ids l).
  Proof.
    induction l as [|y l IH] using rev_ind; intros x Hx; [destruct Hx|].
    rewrite ledger_snoc in Hx. unfold ledger_step in Hx. cbn [fst] in Hx.
    rewrite ids_app, in_app_iff.
    destruct (relevant _ _).
    - rewrite map_app, in_app_iff in Hx. destruct Hx as [Hx|Hx]; [left; apply IH; exact Hx|].
      right. simpl in *. tauto.
    - left. apply IH. exact Hx.
  Qed.

  Lemma existsb_ext_in {A} (f g : A -> bool) l :
    (forall x, In x l -> f x = g x) -> existsb f l = existsb g l.
  Proof.
    induction l as [|a l IH]; simpl; intros H; [reflexivity|].
    rewrite (H a (or_introl eq_refl)), IH; [reflexivity|]. intros x Hx. apply H. right. exact Hx.
  Qed.

  Lemma NoDup_snoc {A} (l : list A) x : NoDup l -> ~ In x l -> NoDup (l ++ [x]).
  Proof.
    induction l as [|a l IH]; simpl; intros Hnd Hx.
    - constructor; [intros []|constructor].
    - inversion Hnd; subst. constructor.
      + rewrite in_app_iff. simpl. intros [H|[H|[]]]; [contradiction|]. apply Hx. left. symmetry. exact H.
      + apply IH; [assumption|]. intros H. apply Hx. right. exact H.
  Qed.

  Lemma block_keys_snoc done t : block_keys (done ++ [t]) = block_keys done ++ tx_keys t.
  Proof. unfold block_keys. rewrite flat_map_app. simpl. rewrite app_nil_r. reflexivity. Qed.

  Lemma created_single h t : created [(h, t)] = map fst (wallet_outs t).
  Proof. unfold created. simpl. apply app_nil_r. Qed.

  (** ** the filter over one block agrees with the ledger *)
  Lemma filter_block_fold rs h pre b :
    (forall t k, In t b -> In k (tx_keys t) -> watched_key scopes rs k = true) ->
    (forall o, In o (map fst (snd (ledger (txs_of pre)))) -> In o (r_watched rs)) ->
    (forall o, In o (r_watched rs) -> In o (created (txs_of pre))) ->
    (forall done t rest, b = done ++ t :: rest ->
       forall o, In o (t_ins t) -> ~ In o (inputs (txs_of pre ++ map (pair h) done))) ->
    (forall done t rest, b = done ++ t :: rest -> ~ In (t_id t) (map t_id done)) ->
    let r := fold_left (filter_tx scopes rs) b empty_fresp in
    (forall x, In x (f_keys r) <-> In x (block_keys b)) /\
    (forall o, In o (f_ops r) <-> In o (created (map (pair h) b))) /\
    fold_left (force_step h) (f_txs r) (ledger (txs_of pre)) = ledger (txs_of pre ++ map (pair h) b) /\
    NoDup (map t_id (f_txs r)) /\
    (forall t, In t (f_txs r) -> In t b) /\
    (forall t, In t b -> has_keys t = true -> In t (f_txs r)).
  Proof.
    intros Hw HWa HWb Hin Hid.
    apply (fold_left_inv (filter_tx scopes rs)
      (fun done acc =>
        (forall x, In x (f_keys acc) <-> In x (block_keys done)) /\
        (forall o, In o (f_ops acc) <-> In o (created (map (pair h) done))) /\
        fold_left (force_step h) (f_txs acc) (ledger (txs_of pre)) = ledger (txs_of pre ++ map (pair h) done) /\
        NoDup (map t_id (f_txs acc)) /\
        (forall t, In t (f_txs acc) -> In t done) /\
        (forall t, In t done -> has_keys t = true -> In t (f_txs acc)))).
    - simpl. rewrite app_nil_r. split; [tauto|]. split; [tauto|]. split; [reflexivity|].
      split; [constructor|]. split; [tauto|tauto].
    - intros done t rest acc Eb (P1 & P2 & P3 & P4 & P5 & P6).
      assert (Htb : In t b) by (rewrite Eb; apply in_or_app; right; left; reflexivity).
      destruct (filter_tx_spec rs acc t (fun k Hk => Hw t k Htb Hk)) as (F1 & F2 & F3).
      set (acc' := filter_tx scopes rs acc t) in *.
      set (past := txs_of pre ++ map (pair h) done) in *.
      assert (Epast : txs_of pre ++ map (pair h) (done ++ [t]) = past ++ [(h, t)]).
      { unfold past. rewrite map_app, app_assoc. reflexivity. }
      (* the filter's spend test agrees with the ledger's *)
      assert (Hsp : existsb (fun o => mem_op o (r_watched rs) || mem_op o (f_ops acc)) (t_ins t) =
                    existsb (fun o => mem_op o (map fst (snd (ledger past)))) (t_ins t)).
      { apply existsb_ext_in. intros o Ho. apply Bool.eq_iff_eq_true.
        rewrite orb_true_iff, !mem_op_In. split.
        - intros Hwo. apply ledger_utxo_complete.
          + unfold past. rewrite created_app, in_app_iff. destruct Hwo as [Hwo|Hwo].
            * left. apply HWb. exact Hwo.
            * right. apply P2. exact Hwo.
          + apply (Hin done t rest Eb o Ho).
        - intros Hu. unfold past in Hu. apply ledger_app_utxo in Hu. destruct Hu as [Hu|Hu].
          + left. apply HWa. exact Hu.
          + right. apply P2. exact Hu. }
      assert (Hrel : existsb (fun o => mem_op o (r_watched rs) || mem_op o (f_ops acc)) (t_ins t) || has_keys t =
                     relevant (snd (ledger past)) t).
      { unfold relevant. rewrite Hsp. apply orb_comm. }
      rewrite Hrel in F3.
      split; [|split; [|split; [|split; [|split]]]].
      + intros x. rewrite F1, P1, block_keys_snoc, in_app_iff. reflexivity.
      + intros o. rewrite F2, P2, map_app, created_app, in_app_iff. simpl map. rewrite created_single. reflexivity.
      + rewrite Epast, ledger_snoc. unfold ledger_step. cbn [fst snd]. rewrite F3.
        destruct (relevant (snd (ledger past)) t) eqn:Er.
        * rewrite fold_left_app. cbn [fold_left]. rewrite P3. reflexivity.
        * rewrite P3, (ledger_tx_irrelevant _ _ Er). destruct (ledger past); reflexivity.
      + rewrite F3. destruct (relevant (snd (ledger past)) t); [|exact P4].
        rewrite map_app. simpl. apply NoDup_snoc; [exact P4|].
        intros Hx. apply (Hid done t rest Eb). apply in_map_iff in Hx. destruct Hx as (y & Ey & Hy).
        apply in_map_iff. exists y. split; [exact Ey|apply P5; exact Hy].
      + intros t'. rewrite F3, in_app_iff. destruct (relevant (snd (ledger past)) t).
        * rewrite in_app_iff. intros [H|H]; [left; apply P5; exact H|right; exact H].
        * intros H. left. apply P5. exact H.
      + intros t'. rewrite in_app_iff. intros [Ht'|[<-|[]]] Hk.
        * rewrite F3. destruct (relevant (snd (ledger past)) t); [apply in_or_app; left|]; apply P6; assumption.
        * rewrite F3. unfold relevant. rewrite Hk. simpl. apply in_or_app. right. left. reflexivity.
  Qed.

  (** * Part 8: the invariant of the recovery loop *)

  (** 1 + the highest index paid on branch [k] in the blocks [hb] (0 if none) *)
  Definition found_before (k : bkey) (hb : list (N * block)) : N :=
    fold_left (fun n x => max_next n (paid_on k (snd x))) hb 0.

  Lemma found_before_snoc k pre x :
    found_before k (pre ++ [x]) = max_next (found_before k pre) (paid_on k (snd x)).
  Proof. unfold found_before. rewrite fold_left_app. reflexivity. Qed.

  (** The look-ahead hypothesis for one block (DESIGN A.5): every index paid
      in the block is a valid child of an active scope and lies, counted in
      valid indices, less than W beyond what was paid in earlier blocks. *)
  Definition block_within (W : N) (pre : list (N * block)) (b : block) : Prop :=
    forall k i, In i (paid_on k b) ->
      In (fst k) scopes /\ valid k i = true /\ rank k i < rank k (found_before k pre) + W.

  (** consensus well-formedness of one block after [pre]: no outpoint spent
      twice, transaction ids distinct *)
  Definition block_wf (pre : list (N * block)) (h : N) (b : block) : Prop :=
    (forall done t rest, b = done ++ t :: rest ->
       forall o, In o (t_ins t) -> ~ In o (inputs (txs_of pre ++ map (pair h) done))) /\
    (forall done t rest, b = done ++ t :: rest ->
       ~ In (t_id t) (ids (txs_of pre ++ map (pair h) done))).

  (** the persistent state is what the ledger of the scanned blocks says *)
  Definition pinv (p : pstate) (pre : list (N * block)) : Prop :=
    (forall k, In (fst k) scopes -> get_next k p = found_before k pre) /\
    (forall x, In x (flat_map (fun y => block_keys (snd y)) pre) -> In x (p_used p)) /\
    (p_txs p, p_unspent p) = ledger (txs_of pre).

  Definition inv0 (W : N) (rs : rstate) (p : pstate) (pre : list (N * block)) : Prop :=
    pinv p pre /\
    (forall k, In (fst k) scopes ->
       br_ok k W (get_branch k rs) /\ b_next (get_branch k rs) = get_next k p) /\
    (forall o, In o (map fst (p_unspent p)) -> In o (r_watched rs)) /\
    (forall o, In o (r_watched rs) -> In o (created (txs_of pre))).

  Definition expanded (rs : rstate) : Prop :=
    forall k, In (fst k) scopes -> br_expanded k (get_branch k rs).

  Lemma scope_bkeys_In k : existsb (bkey_eqb k) (scope_bkeys scopes) = true <-> In (fst k) scopes.
  Proof.
    unfold scope_bkeys. rewrite existsb_exists. split.
    - intros (x & Hx & E). apply bkey_eqb_eq in E. subst x.
      apply in_app_iff in Hx. destruct Hx as [Hx|Hx]; apply in_map_iff in Hx;
        destruct Hx as (s & Es & Hs); subst k; exact Hs.
    - intros H. exists k. split; [|apply bkey_eqb_refl].
      destruct k as [s b]. simpl in H. apply in_app_iff. destruct b.
      + right. apply in_map_iff. exists s. auto.
      + left. apply in_map_iff. exists s. auto.
  Qed.

  Lemma scope_bkeys_NoDup : NoDup (scope_bkeys scopes).
  Proof.
    unfold scope_bkeys.
    assert (G : forall (b : bool) l, NoDup l -> NoDup (map (fun s : scope => (s, b)) l)).
    { intros b l Hl. induction Hl as [|a l Ha Hl IH]; simpl; constructor; [|exact IH].
      intros Hin. apply in_map_iff in Hin. destruct Hin as (s & Es & Hs). inversion Es; subst. contradiction. }
    assert (D : forall l1 l2 : list bkey, NoDup l1 -> NoDup l2 ->
                (forall x, In x l1 -> ~ In x l2) -> NoDup (l1 ++ l2)).
    { induction l1 as [|a l1 IH]; simpl; intros l2 H1 H2 Hd; [exact H2|].
      inversion H1; subst. constructor.
      - rewrite in_app_iff. intros [H|H]; [contradiction|]. apply (Hd a); [left; reflexivity|exact H].
      - apply IH; try assumption. intros x Hx. apply Hd. right. exact Hx. }
    apply D; [apply G; exact scopes_nodup|apply G; exact scopes_nodup|].
    intros x Hx Hx'. apply in_map_iff in Hx. apply in_map_iff in Hx'.
    destruct Hx as (s & Es & _), Hx' as (s' & Es' & _). subst x. inversion Es'.
  Qed.

  Lemma flat_map_nil_all {A B} (f : A -> list B) l :
    (forall x, In x l -> f x = []) -> flat_map f l = [].
  Proof.
    induction l as [|a l IH]; simpl; intros H; [reflexivity|].
    rewrite (H a (or_introl eq_refl)), IH; [reflexivity|]. intros x Hx. apply H. right. exact Hx.
  Qed.

  Lemma ids_map_pair h (l : list tx) : ids (map (pair h) l) = map t_id l.
  Proof. unfold ids. rewrite map_map. reflexivity. Qed.

  Lemma in_block_keys b t k : In t b -> In k (tx_keys t) -> In k (block_keys b).
  Proof. intros Ht Hk. unfold block_keys. apply in_flat_map. exists t. split; assumption. Qed.

  (** every path paid in a block within the window is watched by the
      expanded state *)
  Lemma watched_all W rs p pre b :
    inv0 W rs p pre -> expanded rs -> block_within W pre b ->
    forall t k, In t b -> In k (tx_keys t) -> watched_key scopes rs k = true.
  Proof.
    intros (Hp & Hbr & _ & _) Hex Hbw t [[s bb] i] Ht Hk.
    pose proof (in_block_keys b t _ Ht Hk) as Hbk.
    assert (Hpaid : In i (paid_on (s, bb) b)) by (unfold paid_on; apply found_indices_In; exact Hbk).
    destruct (Hbw (s, bb) i Hpaid) as (Hs & Hv & Hr). simpl in Hs.
    destruct (Hbr (s, bb) Hs) as ((Hw & _ & _ & H1 & _) & Hn).
    destruct (Hex (s, bb) Hs) as (_ & He).
    destruct Hp as (Hnext & _ & _). rewrite (Hnext (s, bb) Hs) in Hn.
    unfold watched_key. apply andb_true_iff. split; [apply memN_In; exact Hs|].
    unfold has_addr. apply memN_In. apply H1; [|exact Hv].
    apply (rank_lt_index (s, bb)). rewrite Hn, Hw in He. lia.
  Qed.

  Lemma txs_of_snoc pre h b : txs_of (pre ++ [(h, b)]) = txs_of pre ++ map (pair h) b.
  Proof. rewrite txs_of_app, txs_of_single. reflexivity. Qed.

  Lemma keys_snoc pre h b :
    flat_map (fun y : N * block => block_keys (snd y)) (pre ++ [(h, b)]) =
    flat_map (fun y : N * block => block_keys (snd y)) pre ++ block_keys b.
  Proof. rewrite flat_map_app. simpl. rewrite app_nil_r. reflexivity. Qed.

  (** ** a block without a match changes nothing, and the ledger agrees *)
  Lemma block_no_match W rs p pre h b :
    inv0 W rs p pre -> expanded rs -> block_within W pre b -> block_wf pre h b ->
    filter_block scopes rs b = None ->
    inv0 W rs p (pre ++ [(h, b)]).
  Proof.
    intros Hinv Hex Hbw [Hin Hid] Hnone.
    pose proof (watched_all W rs p pre b Hinv Hex Hbw) as Hw.
    destruct Hinv as ((Hnext & Hused & Hled) & Hbr & HWa & HWb).
    assert (HWa' : forall o, In o (map fst (snd (ledger (txs_of pre)))) -> In o (r_watched rs)).
    { rewrite <- Hled. exact HWa. }
    destruct (filter_block_fold rs h pre b Hw HWa' HWb Hin) as (F1 & F2 & F3 & F4 & F5 & F6).
    { intros done t rest Eb Hx. apply (Hid done t rest Eb). rewrite ids_app, in_app_iff. right.
      rewrite ids_map_pair. exact Hx. }
    unfold filter_block in Hnone.
    set (r := fold_left (filter_tx scopes rs) b empty_fresp) in *.
    destruct (f_txs r) eqn:Er; [|discriminate]. simpl in F3.
    assert (Hkeys : block_keys b = []).
    { unfold block_keys. apply flat_map_nil_all. intros t Ht.
      destruct (tx_keys t) eqn:Ek; [reflexivity|]. exfalso.
      apply (F6 t Ht). unfold has_keys. rewrite Ek. reflexivity. }
    split; [|split; [exact Hbr|split; [exact HWa|]]].
    - split; [|split].
      + intros k Hk. rewrite found_before_snoc. simpl. unfold paid_on. rewrite Hkeys. simpl. apply Hnext. exact Hk.
      + intros x. rewrite keys_snoc, Hkeys, app_nil_r. apply Hused.
      + rewrite txs_of_snoc, <- F3. exact Hled.
    - intros o Ho. rewrite txs_of_snoc, created_app. apply in_or_app. left. apply HWb. exact Ho.
  Qed.

  Definition process_response' := process_response invalid_child inv_bound scopes.

  Lemma in_block_keys_inv b k : In k (block_keys b) -> exists t, In t b /\ In k (tx_keys t).
  Proof. unfold block_keys. intros H. apply in_flat_map in H. exact H. Qed.

  (** ** a block with a match: the response is processed and the ledger agrees *)
  Lemma block_match W rs p pre h b r :
    inv0 W rs p pre -> expanded rs -> block_within W pre b -> block_wf pre h b ->
    filter_block scopes rs b = Some r ->
    let st2 := process_response' h r (rs, p) in
    inv0 W (fst st2) (snd st2) (pre ++ [(h, b)]).
  Proof.
    intros Hinv Hex Hbw [Hin Hid] Hsome.
    pose proof (watched_all W rs p pre b Hinv Hex Hbw) as Hw.
    destruct Hinv as ((Hnext & Hused & Hled) & Hbr & HWa & HWb).
    assert (HWa' : forall o, In o (map fst (snd (ledger (txs_of pre)))) -> In o (r_watched rs)).
    { rewrite <- Hled. exact HWa. }
    destruct (filter_block_fold rs h pre b Hw HWa' HWb Hin) as (F1 & F2 & F3 & F4 & F5 & F6).
    { intros done t rest Eb Hx. apply (Hid done t rest Eb). rewrite ids_app, in_app_iff. right.
      rewrite ids_map_pair. exact Hx. }
    unfold filter_block in Hsome.
    set (r0 := fold_left (filter_tx scopes rs) b empty_fresp) in *.
    assert (Er : r = r0) by (destruct (f_txs r0); [discriminate|inversion Hsome; reflexivity]).
    subst r. clear Hsome.
    (* extendFoundAddresses *)
    unfold process_response', process_response.
    destruct (efb_fold (f_keys r0) (scope_bkeys scopes) scope_bkeys_NoDup (rs, p))
      as (I1 & I2 & I3 & I4 & I5 & I6 & I7 & I8 & I9).
    fold efa in I1, I2, I3, I4, I5, I6, I7, I8, I9.
    change (fold_left (fun st k => efb k (f_keys r0) st) (scope_bkeys scopes) (rs, p))
      with (extend_found_addresses invalid_child inv_bound scopes (f_keys r0) (rs, p)) in *.
    destruct (extend_found_addresses invalid_child inv_bound scopes (f_keys r0) (rs, p)) as [rs1 p1].
    cbn [fst snd] in *.
    (* per branch facts *)
    assert (Hidx : forall k i, In i (found_indices k (f_keys r0)) <-> In i (paid_on k b)).
    { intros k i. unfold paid_on. rewrite !found_indices_In. apply F1. }
    assert (Hbranch : forall k, In (fst k) scopes ->
              br_ok k W (get_branch k rs1) /\
              b_next (get_branch k rs1) = found_before k (pre ++ [(h, b)]) /\
              get_next k p1 = found_before k (pre ++ [(h, b)])).
    { intros k Hk. destruct (Hbr k Hk) as (Hok & Hn).
      assert (Hmem : existsb (bkey_eqb k) (scope_bkeys scopes) = true) by (apply scope_bkeys_In; exact Hk).
      assert (Haddr : forall i, In i (found_indices k (f_keys r0)) -> In i (b_addrs (get_branch k rs))).
      { intros i Hi. apply Hidx in Hi. unfold paid_on in Hi. apply found_indices_In in Hi.
        destruct (in_block_keys_inv b _ Hi) as (t & Ht & Hkt).
        pose proof (Hw t _ Ht Hkt) as Hwk. destruct k as [s bb]. unfold watched_key in Hwk.
        apply andb_true_iff in Hwk. destruct Hwk as [_ Hwk]. apply memN_In. exact Hwk. }
      destruct (report_all_ok k W (found_indices k (f_keys r0)) _ Hok) as (Hok' & Hn' & _ & _).
      rewrite I1, Hmem.
      assert (Efb : max_next (b_next (get_branch k rs)) (found_indices k (f_keys r0)) =
                    found_before k (pre ++ [(h, b)])).
      { rewrite found_before_snoc. simpl. rewrite Hn, (Hnext k Hk). apply max_next_set. apply Hidx. }
      split; [exact Hok'|]. split; [rewrite Hn'; exact Efb|].
      rewrite (I3 k W Hmem Hok (eq_sym Hn) Haddr), Hn'. exact Efb. }
    (* watched outpoints and recorded transactions *)
    destruct (fold_add_watched (f_ops r0) rs1) as (W1 & W2 & W3).
    set (rs2 := fold_left (fun rs o => add_watched o rs) (f_ops r0) rs1) in *.
    assert (Hknown : forall t k, In t (f_txs r0) -> In k (tx_keys t) -> known' p1 k = true).
    { intros t [[s bb] i] Ht Hk. apply F5 in Ht.
      pose proof (in_block_keys b t _ Ht Hk) as Hbk.
      assert (Hpaid : In i (paid_on (s, bb) b)) by (unfold paid_on; apply found_indices_In; exact Hbk).
      destruct (Hbw (s, bb) i Hpaid) as (Hs & Hv & _). simpl in Hs.
      destruct (Hbranch (s, bb) Hs) as (_ & _ & Hnx).
      unfold known', known. rewrite Hnx, found_before_snoc. simpl.
      destruct (max_next_spec (paid_on (s, bb) b) (found_before (s, bb) pre)) as (_ & M2 & _).
      apply andb_true_iff. split; [apply andb_true_iff; split|].
      - apply memN_In. exact Hs.
      - apply N.ltb_lt. apply M2. exact Hpaid.
      - exact Hv. }
    destruct (record_fold h (f_txs r0) p1) as (R1 & R2 & R3 & R4).
    { intros t Ht Hx. rewrite I6 in Hx.
      assert (Hx' : In (t_id t) (ids (txs_of pre))).
      { apply ledger_rec_ids. rewrite <- Hled. exact Hx. }
      apply F5 in Ht. destruct (in_split _ _ Ht) as (done & rest & Eb).
      apply (Hid done t rest Eb). rewrite ids_app, in_app_iff. left. exact Hx'. }
    { exact F4. }
    { exact Hknown. }
    fold add_relevant_tx' in *.
    set (p2 := fold_left (fun p t => add_relevant_tx' h t p) (f_txs r0) p1) in *.
    cbn [fst snd].
    assert (Hled2 : (p_txs p2, p_unspent p2) = ledger (txs_of (pre ++ [(h, b)]))).
    { rewrite R3, I6, I7, Hled, txs_of_snoc. exact F3. }
    split; [|split; [|split]].
    - split; [|split; [|exact Hled2]].
      + intros k Hk. destruct (Hbranch k Hk) as (_ & _ & Hnx). unfold get_next in *. rewrite R1. exact Hnx.
      + intros x. rewrite keys_snoc, in_app_iff. intros [Hx|Hx].
        * apply R4. left. apply I9. left. apply Hused. exact Hx.
        * apply R4. right. destruct (in_block_keys_inv b x Hx) as (t & Ht & Hkt).
          apply in_flat_map. exists t. split; [|exact Hkt]. apply F6; [exact Ht|].
          unfold has_keys. destruct (tx_keys t); [destruct Hkt|reflexivity].
    - intros k Hk. destruct (Hbranch k Hk) as (Hok & Hn & Hnx).
      rewrite (get_branch_scopes_ext rs2 rs1 k W1 W2).
      split; [exact Hok|]. rewrite Hn. unfold get_next in *. rewrite R1. symmetry. exact Hnx.
    - intros o Ho. apply W3.
      assert (Ho' : In o (map fst (snd (ledger (txs_of pre ++ map (pair h) b))))).
      { rewrite <- txs_of_snoc, <- Hled2. exact Ho. }
      apply ledger_app_utxo in Ho'. destruct Ho' as [Ho'|Ho'].
      + left. rewrite I4. apply HWa'. exact Ho'.
      + right. apply F2. exact Ho'.
    - intros o Ho. apply W3 in Ho. rewrite txs_of_snoc, created_app, in_app_iff. destruct Ho as [Ho|Ho].
      + left. apply HWb. rewrite <- I4. exact Ho.
      + right. apply F2. exact Ho.
  Qed.

  Lemma expand_all_inv W rs p pre :
    inv0 W rs p pre -> inv0 W (expand_all' rs) p pre /\ expanded (expand_all' rs).
  Proof.
    intros (Hp & Hbr & HWa & HWb). destruct (expand_all_get rs) as (G1 & G2 & G3).
    split; [split; [exact Hp|split; [|split]]|].
    - intros k Hk. destruct (Hbr k Hk) as (Hok & Hn). rewrite G1.
      assert (Hm : memN (fst k) scopes = true) by (apply memN_In; exact Hk). rewrite Hm.
      destruct (expand_branch_ok k W _ Hok) as (Hok' & _ & Hn' & _).
      split; [exact Hok'|]. rewrite Hn'. exact Hn.
    - intros o Ho. rewrite G2. apply HWa. exact Ho.
    - intros o Ho. rewrite G2 in Ho. apply HWb. exact Ho.
    - intros k Hk. destruct (Hbr k Hk) as (Hok & Hn). rewrite G1.
      assert (Hm : memN (fst k) scopes = true) by (apply memN_In; exact Hk). rewrite Hm.
      destruct (expand_branch_ok k W _ Hok) as (_ & He & _ & _). exact He.
  Qed.

  Lemma filter_blocks_spec rs : forall batch i0,
    match filter_blocks scopes rs i0 batch with
    | None => forall x, In x batch -> filter_block scopes rs (snd x) = None
    | Some (i, h, r) =>
        exists skipped b rest, batch = skipped ++ (h, b) :: rest /\ i = (i0 + length skipped)%nat /\
          (forall x, In x skipped -> filter_block scopes rs (snd x) = None) /\
          filter_block scopes rs b = Some r
    end.
  Proof.
    induction batch as [|[h b] batch IH]; intros i0; simpl.
    - intros x [].
    - destruct (filter_block scopes rs b) as [r|] eqn:Eb.
      + exists [], b, batch. simpl. split; [reflexivity|]. split; [lia|]. split; [intros x []|exact Eb].
      + specialize (IH (S i0)). destruct (filter_blocks scopes rs (S i0) batch) as [[[i h'] r]|].
        * destruct IH as (skipped & b' & rest & E1 & E2 & E3 & E4).
          exists ((h, b) :: skipped), b', rest. simpl. split; [rewrite E1; reflexivity|].
          split; [lia|]. split; [|exact E4].
          intros x [<-|Hx]; [exact Eb|apply E3; exact Hx].
        * intros x [<-|Hx]; [exact Eb|apply IH; exact Hx].
  Qed.

  Lemma skipn_app_exact {A} (l1 : list A) x l2 : skipn (S (length l1)) (l1 ++ x :: l2) = l2.
  Proof. induction l1 as [|a l1 IH]; simpl; [reflexivity|exact IH]. Qed.

  (** hypotheses on the blocks of a batch scanned after [pre] *)
  Definition batch_ok (W : N) (pre batch : list (N * block)) : Prop :=
    forall done x rest, batch = done ++ x :: rest ->
      block_within W (pre ++ done) (snd x) /\ block_wf (pre ++ done) (fst x) (snd x).

  Lemma batch_ok_tail W pre x batch : batch_ok W pre (x :: batch) -> batch_ok W (pre ++ [x]) batch.
  Proof.
    intros H done y rest E. rewrite <- app_assoc. simpl.
    apply (H (x :: done) y rest). rewrite E. reflexivity.
  Qed.

  Lemma batch_ok_app W pre b1 b2 : batch_ok W pre (b1 ++ b2) -> batch_ok W (pre ++ b1) b2.
  Proof.
    revert pre. induction b1 as [|x b1 IH]; intros pre H; simpl.
    - rewrite app_nil_r. exact H.
    - replace (pre ++ x :: b1) with ((pre ++ [x]) ++ b1) by (rewrite <- app_assoc; reflexivity).
      apply IH. apply batch_ok_tail. exact H.
  Qed.

  Lemma batch_ok_prefix W pre b1 b2 : batch_ok W pre (b1 ++ b2) -> batch_ok W pre b1.
  Proof.
    intros H done x rest E. apply (H done x (rest ++ b2)). rewrite E, <- app_assoc. reflexivity.
  Qed.

  Lemma no_match_all W rs p : forall batch pre,
    inv0 W rs p pre -> expanded rs -> batch_ok W pre batch ->
    (forall x, In x batch -> filter_block scopes rs (snd x) = None) ->
    inv0 W rs p (pre ++ batch).
  Proof.
    induction batch as [|[h b] batch IH]; intros pre Hinv Hex Hok Hnone.
    - rewrite app_nil_r. exact Hinv.
    - destruct (Hok [] (h, b) batch eq_refl) as (Hbw & Hwf). rewrite app_nil_r in Hbw, Hwf.
      replace (pre ++ (h, b) :: batch) with ((pre ++ [(h, b)]) ++ batch) by (rewrite <- app_assoc; reflexivity).
      apply IH.
      + apply block_no_match; try assumption. apply (Hnone (h, b)). left. reflexivity.
      + exact Hex.
      + apply batch_ok_tail. exact Hok.
      + intros x Hx. apply Hnone. right. exact Hx.
  Qed.

  Definition recover_scoped' := recover_scoped invalid_child inv_bound scopes.
  Definition recover_batch' := recover_batch invalid_child inv_bound scopes.

  (** ** recoverScopedAddresses preserves the invariant over a whole batch *)
  Lemma recover_scoped_inv W : forall fuel batch pre rs p,
    (length batch <= fuel)%nat ->
    inv0 W rs p pre -> batch_ok W pre batch ->
    let st' := recover_scoped' fuel (rs, p) batch in
    inv0 W (fst st') (snd st') (pre ++ batch).
  Proof.
    induction fuel as [|f IH]; intros batch pre rs p Hlen Hinv Hok.
    - destruct batch; [|simpl in Hlen; lia]. simpl. rewrite app_nil_r. exact Hinv.
    - unfold recover_scoped'. cbn [recover_scoped fst snd]. fold expand_all'.
      destruct (expand_all_inv W rs p pre Hinv) as (Hinv1 & Hex1).
      set (rs1 := expand_all' rs) in *.
      pose proof (filter_blocks_spec rs1 batch 0) as Hfb.
      destruct (filter_blocks scopes rs1 0 batch) as [[[i h] r]|].
      + destruct Hfb as (skipped & b & rest & Eb & Ei & Hskip & Hr). simpl in Ei. subst i.
        rewrite Eb, skipn_app_exact.
        assert (Hinv2 : inv0 W rs1 p (pre ++ skipped)).
        { apply no_match_all; try assumption. rewrite Eb in Hok. eapply batch_ok_prefix. exact Hok. }
        destruct (Hok skipped (h, b) rest Eb) as (Hbw & Hwf). cbn [fst snd] in Hbw, Hwf.
        pose proof (block_match W rs1 p (pre ++ skipped) h b r Hinv2 Hex1 Hbw Hwf Hr) as Hinv3.
        cbv zeta in Hinv3. fold process_response'.
        set (st2 := process_response' h r (rs1, p)) in *.
        replace (pre ++ skipped ++ (h, b) :: rest) with (((pre ++ skipped) ++ [(h, b)]) ++ rest)
          by (rewrite <- !app_assoc; reflexivity).
        destruct rest as [|y rest].
        * rewrite app_nil_r. exact Hinv3.
        * destruct st2 as [rs2 p2]. fold recover_scoped'. apply IH.
          -- rewrite Eb, app_length in Hlen. simpl in Hlen. simpl. lia.
          -- exact Hinv3.
          -- rewrite Eb in Hok.
             replace (skipped ++ (h, b) :: y :: rest) with ((skipped ++ [(h, b)]) ++ y :: rest) in Hok
               by (rewrite <- app_assoc; reflexivity).
             apply batch_ok_app in Hok. rewrite app_assoc in Hok. exact Hok.
      + cbn [fst snd]. apply no_match_all; assumption.
  Qed.

  Lemma recover_batch_inv W batch pre rs p :
    inv0 W rs p pre -> batch_ok W pre batch ->
    let st' := recover_batch' (rs, p) batch in
    inv0 W (fst st') (snd st') (pre ++ batch).
  Proof.
    intros Hinv Hok. unfold recover_batch', recover_batch. destruct batch as [|x batch].
    - simpl. rewrite app_nil_r. exact Hinv.
    - apply (recover_scoped_inv W (length (x :: batch)) (x :: batch) pre rs p); [lia|exact Hinv|exact Hok].
  Qed.

  (** * Part 9: resumption, batches, interrupted runs *)

  Definition resurrect' := resurrect invalid_child scopes.

  Lemma fold_left_map {A B C} (g : A -> C -> A) (f : B -> C) l : forall a,
    fold_left (fun a x => g a (f x)) l a = fold_left g (map f l) a.
  Proof. induction l as [|x l IH]; intros a; simpl; [reflexivity|apply IH]. Qed.

  Lemma resurrect_inv W p pre : pinv p pre -> inv0 W (resurrect' W p) p pre.
  Proof.
    intros Hp. pose proof Hp as (Hnext & Hused & Hled).
    set (f := fun (s : scope) (ss : sstate) =>
                {| ss_ext := resurrect_branch invalid_child (s, false) (get_next (s, false) p) (ss_ext ss);
                   ss_int := resurrect_branch invalid_child (s, true) (get_next (s, true) p) (ss_int ss) |}).
    assert (E : resurrect' W p =
                fold_left (fun rs o => add_watched o rs) (map fst (p_unspent p))
                  (fold_left (fun rs s => set_scope s (f s (state_for_scope s rs)) rs) scopes (new_rstate W))).
    { unfold resurrect', resurrect. rewrite <- fold_left_map. reflexivity. }
    destruct (fold_scopes_get f scopes scopes_nodup (new_rstate W)) as (G1 & G2 & G3).
    set (rs1 := fold_left (fun rs s => set_scope s (f s (state_for_scope s rs)) rs) scopes (new_rstate W)) in *.
    destruct (fold_add_watched (map fst (p_unspent p)) rs1) as (W1 & W2 & W3).
    rewrite <- E in W1, W2, W3.
    split; [exact Hp|]. split; [|split].
    - intros [s b] Hk. simpl in Hk.
      rewrite (get_branch_scopes_ext (resurrect' W p) rs1 (s, b) W1 W2).
      unfold get_branch. cbn [fst snd]. rewrite G1.
      assert (Hm : memN s scopes = true) by (apply memN_In; exact Hk). rewrite Hm.
      unfold state_for_scope, new_rstate. cbn [assoc_scope r_scopes r_window].
      destruct b; cbn [branch f ss_ext ss_int new_sstate]; apply resurrect_branch_ok.
    - intros o Ho. apply W3. right. exact Ho.
    - intros o Ho. apply W3 in Ho. rewrite G2 in Ho. destruct Ho as [[]|Ho].
      apply ledger_utxo_created. rewrite <- Hled. exact Ho.
  Qed.

  Lemma pinv_set_synced p pre h : pinv p pre -> pinv (set_synced h p) pre.
  Proof. intros H. exact H. Qed.

  Lemma inv0_set_synced W rs p pre h : inv0 W rs p pre -> inv0 W rs (set_synced h p) pre.
  Proof. intros H. exact H. Qed.

  Definition scanned (bday : N) (hs : list (N * block)) : list (N * block) :=
    filter (fun x => bday <=? fst x) hs.

  Definition ends_with (best : N) (hs : list (N * block)) : Prop :=
    hs = [] \/ exists hs0 x, hs = hs0 ++ [x] /\ fst x = best.

  Lemma ends_with_cons best a rest :
    ends_with best (a :: rest) -> (rest = [] -> fst a = best) /\ ends_with best rest.
  Proof.
    intros [H|(hs0 & x & E & Hx)]; [discriminate|].
    destruct hs0 as [|a0 hs0]; simpl in E; injection E as E1 E2.
    - split; [intros _; rewrite E1; exact Hx|left; exact E2].
    - split; [intros H; rewrite H in E2; destruct hs0; discriminate|right; exists hs0, x; auto].
  Qed.

  Definition recovery_loop' := recovery_loop invalid_child inv_bound scopes.

  Lemma recovery_loop_inv W best bs bday : forall hs batch pre rs p,
    inv0 W rs p pre -> batch_ok W pre (batch ++ scanned bday hs) ->
    (hs = [] -> batch = []) -> ends_with best hs ->
    let st' := recovery_loop' hs best bs bday batch (rs, p) in
    inv0 W (fst st') (snd st') (pre ++ batch ++ scanned bday hs) /\
    p_synced (snd st') = match hs with [] => p_synced p | _ => best end.
  Proof.
    induction hs as [|[h blk] rest IH]; intros batch pre rs p Hinv Hok Hb Hend.
    - simpl. rewrite (Hb eq_refl). simpl. rewrite app_nil_r. split; [exact Hinv|reflexivity].
    - destruct (ends_with_cons best _ _ Hend) as (Hlast & Hend').
      unfold recovery_loop'. cbn [recovery_loop]. fold recovery_loop'. fold recover_batch'.
      set (batch1 := if bday <=? h then batch ++ [(h, blk)] else batch).
      assert (Eb : batch ++ scanned bday ((h, blk) :: rest) = batch1 ++ scanned bday rest).
      { unfold scanned, batch1. simpl. destruct (bday <=? h); [rewrite <- app_assoc; reflexivity|reflexivity]. }
      rewrite Eb in *.
      destruct (Nat.eqb (length batch1) bs || (h =? best)) eqn:Eflush.
      + pose proof (recover_batch_inv W batch1 pre rs p Hinv (batch_ok_prefix _ _ _ _ Hok)) as Hinv1.
        cbv zeta in Hinv1. set (st1 := recover_batch' (rs, p) batch1) in *.
        destruct (IH [] (pre ++ batch1) (fst st1) (set_synced h (snd st1))) as (I1 & I2).
        * apply inv0_set_synced. exact Hinv1.
        * simpl. apply batch_ok_app. exact Hok.
        * reflexivity.
        * exact Hend'.
        * simpl in I1. rewrite <- app_assoc in I1. split; [exact I1|].
          rewrite I2. destruct rest; [|reflexivity]. simpl. apply Hlast. reflexivity.
      + destruct (IH batch1 pre rs p Hinv Hok) as (I1 & I2).
        * intros Er. apply orb_false_iff in Eflush. destruct Eflush as [_ Eh].
          pose proof (Hlast Er) as Hh. simpl in Hh. rewrite Hh, N.eqb_refl in Eh. discriminate.
        * exact Hend'.
        * split; [exact I1|]. rewrite I2. destruct rest; [|reflexivity].
          apply orb_false_iff in Eflush. destruct Eflush as [_ Eh].
          pose proof (Hlast eq_refl) as Hh. simpl in Hh. rewrite Hh, N.eqb_refl in Eh. discriminate.
  Qed.

  Definition recovery' := recovery invalid_child inv_bound scopes.

  Lemma recovery_inv W bs bday best chain p pre :
    pinv p pre ->
    let hs := heights_to_scan chain (p_synced p) best in
    batch_ok W pre (scanned bday hs) -> ends_with best hs ->
    let p' := recovery' W bs bday best chain p in
    pinv p' (pre ++ scanned bday hs) /\
    p_synced p' = match hs with [] => p_synced p | _ => best end.
  Proof.
    intros Hp hs Hok Hend. unfold recovery', recovery. fold hs. fold resurrect'. fold recovery_loop'.
    destruct (recovery_loop_inv W best bs bday hs [] pre (resurrect' W p) p) as (I1 & I2).
    - apply resurrect_inv. exact Hp.
    - exact Hok.
    - reflexivity.
    - exact Hend.
    - simpl in I1. split; [apply I1|exact I2].
  Qed.

  (** ** heights, truncated chains *)
  Lemma number_from_length {A} (l : list A) : forall a, length (number_from a l) = length l.
  Proof. induction l as [|x l IH]; intros a; simpl; [reflexivity|rewrite IH; reflexivity]. Qed.

  Lemma firstn_number_last {A} (d : A) (l : list A) : forall a c,
    (c < length l)%nat ->
    firstn (S c) (number_from a l) = firstn c (number_from a l) ++ [(a + N.of_nat c, nth c l d)].
  Proof.
    induction l as [|x l IH]; intros a c Hc; simpl in Hc; [lia|].
    destruct c as [|c].
    - simpl. rewrite N.add_0_r. reflexivity.
    - cbn [number_from]. rewrite (firstn_cons (S c)). rewrite IH by lia.
      cbn [firstn app nth]. do 4 f_equal. lia.
  Qed.

  Lemma hts_empty (chain : list block) synced best :
    best <= synced -> heights_to_scan chain synced best = [].
  Proof.
    intros H. unfold heights_to_scan. apply skipn_all2.
    pose proof (firstn_le_length (N.to_nat best) (number_from 1 chain)). lia.
  Qed.

  Lemma hts_split (chain : list block) synced best :
    synced <= best ->
    firstn (N.to_nat synced) (number_from 1 chain) ++ heights_to_scan chain synced best =
    firstn (N.to_nat best) (number_from 1 chain).
  Proof.
    intros H. unfold heights_to_scan.
    rewrite <- (firstn_skipn (N.to_nat synced) (firstn (N.to_nat best) (number_from 1 chain))) at 2.
    f_equal. rewrite firstn_firstn. f_equal. lia.
  Qed.

  Lemma hts_ends (chain : list block) synced best :
    synced < best -> best <= N.of_nat (length chain) ->
    ends_with best (heights_to_scan chain synced best) /\ heights_to_scan chain synced best <> [].
  Proof.
    intros H1 H2. unfold heights_to_scan.
    destruct (N.to_nat best) as [|c] eqn:Ec; [lia|].
    rewrite (firstn_number_last (A:=block) [] chain 1 c) by lia.
    rewrite skipn_app.
    rewrite firstn_length, number_from_length.
    rewrite (Nat.min_l c (length chain)) by lia.
    replace (N.to_nat synced - c)%nat with 0%nat by lia. cbn [skipn].
    split.
    - right. eexists. eexists. split; [reflexivity|]. cbn [fst]. lia.
    - intros E. apply app_eq_nil in E. destruct E as [_ E]. discriminate.
  Qed.

  Lemma scanned_app bday a b : scanned bday (a ++ b) = scanned bday a ++ scanned bday b.
  Proof. unfold scanned. apply filter_app. Qed.

  Definition recovery_runs' := recovery_runs invalid_child inv_bound scopes.

  Lemma run_step W bs bday (chain : list block) p c :
    let L := number_from 1 chain in
    batch_ok W [] (scanned bday L) ->
    pinv p (scanned bday (firstn (N.to_nat (p_synced p)) L)) ->
    p_synced p <= N.of_nat (length chain) -> c <= N.of_nat (length chain) ->
    let p' := recovery' W bs bday c chain p in
    pinv p' (scanned bday (firstn (N.to_nat (p_synced p')) L)) /\
    p_synced p' = N.max (p_synced p) c.
  Proof.
    intros L Hok Hp Hm Hc.
    destruct (N.le_gt_cases c (p_synced p)) as [Hle|Hgt].
    - pose proof (hts_empty chain (p_synced p) c Hle) as Eh.
      destruct (recovery_inv W bs bday c chain p _ Hp) as (I1 & I2).
      + rewrite Eh. simpl. intros done x rest E. destruct done; discriminate.
      + rewrite Eh. left. reflexivity.
      + cbv zeta. rewrite Eh in I1, I2. simpl in I1. rewrite app_nil_r in I1.
        rewrite I2. split; [exact I1|lia].
    - pose proof (hts_split chain (p_synced p) c ltac:(lia)) as Es. fold L in Es.
      destruct (hts_ends chain (p_synced p) c Hgt Hc) as (He & Hne).
      set (hs := heights_to_scan chain (p_synced p) c) in *.
      destruct (recovery_inv W bs bday c chain p _ Hp) as (I1 & I2).
      + fold hs.
        assert (EL : scanned bday L = scanned bday (firstn (N.to_nat (p_synced p)) L) ++
                                      scanned bday hs ++ scanned bday (skipn (N.to_nat c) L)).
        { rewrite <- (firstn_skipn (N.to_nat c) L) at 1. rewrite <- Es, !scanned_app, <- app_assoc. reflexivity. }
        rewrite EL in Hok. apply batch_ok_app in Hok. simpl in Hok.
        eapply batch_ok_prefix. exact Hok.
      + exact He.
      + cbv zeta. fold hs in I1, I2. rewrite <- scanned_app, Es in I1.
        destruct hs; [congruence|]. rewrite I2. split; [exact I1|lia].
  Qed.

  Lemma recovery_runs_inv W bs bday (chain : list block) : forall cuts p,
    let L := number_from 1 chain in
    batch_ok W [] (scanned bday L) ->
    (forall c, In c cuts -> c <= N.of_nat (length chain)) ->
    pinv p (scanned bday (firstn (N.to_nat (p_synced p)) L)) ->
    p_synced p <= N.of_nat (length chain) ->
    let p' := recovery_runs' W bs bday cuts chain p in
    pinv p' (scanned bday (firstn (N.to_nat (p_synced p')) L)) /\
    p_synced p' = fold_left N.max cuts (p_synced p).
  Proof.
    induction cuts as [|c cuts IH]; intros p L Hok Hc Hp Hm.
    - simpl. split; [exact Hp|reflexivity].
    - unfold recovery_runs', recovery_runs. cbn [fold_left]. fold recovery'.
      destruct (run_step W bs bday chain p c Hok Hp Hm) as (S1 & S2).
      { apply Hc. left. reflexivity. }
      destruct (IH (recovery' W bs bday c chain p) Hok) as (J1 & J2).
      + intros c' Hc'. apply Hc. right. exact Hc'.
      + exact S1.
      + rewrite S2. pose proof (Hc c (or_introl eq_refl)). lia.
      + fold recovery_runs' in J1, J2 |- *. unfold recovery_runs', recovery_runs in J1, J2.
        fold recovery' in J1, J2. split; [exact J1|]. rewrite J2, S2. reflexivity.
  Qed.

  Lemma fold_max_bound cuts : forall m b,
    m <= b -> (forall c, In c cuts -> c <= b) -> fold_left N.max cuts m <= b.
  Proof.
    induction cuts as [|c cuts IH]; intros m b Hm Hc; simpl; [exact Hm|].
    apply IH; [|intros c' Hc'; apply Hc; right; exact Hc'].
    pose proof (Hc c (or_introl eq_refl)). lia.
  Qed.

  Lemma fold_max_ge cuts : forall m, m <= fold_left N.max cuts m /\ (forall c, In c cuts -> c <= fold_left N.max cuts m).
  Proof.
    induction cuts as [|c cuts IH]; intros m; simpl; [split; [lia|intros c []]|].
    destruct (IH (N.max m c)) as (H1 & H2). split; [lia|].
    intros c' [<-|Hc']; [lia|apply H2; exact Hc'].
  Qed.

  Lemma pinv_fresh : pinv fresh_pstate [].
  Proof. split; [intros k _; reflexivity|]. split; [intros x []|reflexivity]. Qed.

  (** the blocks recovery scans: from the birthday height on *)
  Definition scanned_chain (bday : N) (chain : list block) : list (N * block) :=
    scanned bday (number_from 1 chain).

  (** * Main lemma: a fresh wallet, any window, any batch size, any
      interruption points *)
  Lemma recovery_runs_complete W bs bday (chain : list block) cuts :
    batch_ok W [] (scanned_chain bday chain) ->
    (forall c, In c cuts -> c <= N.of_nat (length chain)) ->
    In (N.of_nat (length chain)) cuts ->
    let p := recovery_runs' W bs bday cuts chain fresh_pstate in
    pinv p (scanned_chain bday chain) /\ p_synced p = N.of_nat (length chain).
  Proof.
    intros Hok Hc Hlast.
    destruct (recovery_runs_inv W bs bday chain cuts fresh_pstate Hok Hc) as (I1 & I2).
    - simpl. exact pinv_fresh.
    - simpl. lia.
    - cbv zeta. simpl p_synced in I2.
      assert (E : fold_left N.max cuts 0 = N.of_nat (length chain)).
      { apply N.le_antisymm; [apply fold_max_bound; [lia|exact Hc]|apply fold_max_ge; exact Hlast]. }
      rewrite I2, E in I1. rewrite I2, E. split; [|reflexivity].
      rewrite Nat2N.id in I1. unfold scanned_chain.
      rewrite firstn_all2 in I1; [exact I1|]. rewrite number_from_length. lia.
  Qed.

  (** * Part 10: the hypotheses in chain form and the conclusions in ledger form *)

  (** DESIGN A.5: every block pays, on each branch, only valid indices of an
      active scope that lie (counted in valid indices) less than W beyond
      1 + the highest index paid on that branch in EARLIER blocks. *)
  Definition within_window (W : N) (all : list (N * block)) : Prop :=
    forall pre x post, all = pre ++ x :: post -> block_within W pre (snd x).

  (** consensus rules used: transaction ids distinct, no outpoint spent twice *)
  Definition chain_wf (all : list (N * block)) : Prop :=
    NoDup (ids (txs_of all)) /\ NoDup (inputs (txs_of all)).

  Lemma chain_wf_block all pre h b post :
    chain_wf all -> all = pre ++ (h, b) :: post -> block_wf pre h b.
  Proof.
    intros [Hid Hin] E.
    assert (Et : forall done t rest, b = done ++ t :: rest ->
              txs_of all = (txs_of pre ++ map (pair h) done) ++ (h, t) :: (map (pair h) rest ++ txs_of post)).
    { intros done t rest Eb. rewrite E, txs_of_app. unfold txs_of at 2. cbn [flat_map fst snd].
      fold (txs_of post). rewrite Eb, map_app. simpl. rewrite <- !app_assoc. reflexivity. }
    split.
    - intros done t rest Eb o Ho Hino. rewrite (Et done t rest Eb), inputs_app in Hin.
      apply (NoDup_app_disjoint _ _ o Hin Hino). unfold inputs. simpl. apply in_or_app. left. exact Ho.
    - intros done t rest Eb Hx. rewrite (Et done t rest Eb), ids_app in Hid.
      apply (NoDup_app_disjoint _ _ (t_id t) Hid Hx). left. reflexivity.
  Qed.

  Lemma batch_ok_of W all : within_window W all -> chain_wf all -> batch_ok W [] all.
  Proof.
    intros Hw Hwf done [h b] rest E. simpl. split.
    - apply (Hw done (h, b) rest E).
    - apply (chain_wf_block all done h b rest Hwf E).
  Qed.

  Lemma found_before_mono k (l : list (N * block)) : forall n,
    n <= fold_left (fun n x => max_next n (paid_on k (snd x))) l n.
  Proof.
    induction l as [|x l IH]; intros n; simpl; [lia|].
    pose proof (IH (max_next n (paid_on k (snd x)))).
    destruct (max_next_spec (paid_on k (snd x)) n) as (H1 & _). lia.
  Qed.

  Lemma found_before_gt k all x i :
    In x all -> In i (paid_on k (snd x)) -> i < found_before k all.
  Proof.
    intros Hx Hi. destruct (in_split _ _ Hx) as (l1 & l2 & E). subst all.
    unfold found_before. rewrite fold_left_app. simpl.
    pose proof (found_before_mono k l2 (max_next (fold_left (fun n y => max_next n (paid_on k (snd y))) l1 0)
                                           (paid_on k (snd x)))) as Hm.
    destruct (max_next_spec (paid_on k (snd x)) (fold_left (fun n y => max_next n (paid_on k (snd y))) l1 0))
      as (_ & H2 & _).
    specialize (H2 i Hi). lia.
  Qed.

  (** ** what the ledger's recorded list means *)
  Inductive subseq {A} : list A -> list A -> Prop :=
  | sub_nil : subseq [] []
  | sub_skip l1 l2 x : subseq l1 l2 -> subseq l1 (x :: l2)
  | sub_take l1 l2 x : subseq l1 l2 -> subseq (x :: l1) (x :: l2).

  Lemma subseq_snoc_skip {A} (l1 l2 : list A) x : subseq l1 l2 -> subseq l1 (l2 ++ [x]).
  Proof.
    induction 1; simpl.
    - apply sub_skip. constructor.
    - apply sub_skip. assumption.
    - apply sub_take. assumption.
  Qed.

  Lemma subseq_snoc_take {A} (l1 l2 : list A) x : subseq l1 l2 -> subseq (l1 ++ [x]) (l2 ++ [x]).
  Proof.
    induction 1; simpl.
    - apply sub_take. constructor.
    - apply sub_skip. assumption.
    - apply sub_take. assumption.
  Qed.

  Definition tx_tags (l : list (N * tx)) : list (N * N) := map (fun x => (fst x, t_id (snd x))) l.

  (** recorded transactions appear in chain order, each at most once *)
  Lemma ledger_rec_subseq l : subseq (fst (ledger l)) (tx_tags l).
  Proof.
    induction l as [|x l IH] using rev_ind; [constructor|].
    rewrite ledger_snoc. unfold ledger_step, tx_tags. cbn [fst]. rewrite map_app. simpl.
    destruct (relevant _ _); [apply subseq_snoc_take|apply subseq_snoc_skip]; exact IH.
  Qed.

  Lemma ledger_rec_nodup l : NoDup (ids l) -> NoDup (map snd (fst (ledger l))).
  Proof.
    induction l as [|x l IH] using rev_ind; intros Hnd; [constructor|].
    rewrite ids_app in Hnd. rewrite ledger_snoc. unfold ledger_step. cbn [fst].
    pose proof (NoDup_app_l _ _ Hnd) as Hnd1.
    destruct (relevant _ _); [|apply IH; exact Hnd1].
    rewrite map_app. simpl. apply NoDup_snoc; [apply IH; exact Hnd1|].
    intros Hx. apply ledger_rec_ids in Hx.
    apply (NoDup_app_disjoint _ _ _ Hnd Hx). left. reflexivity.
  Qed.

  Lemma ledger_rec_grows l2 : forall st r,
    In r (fst st) -> In r (fst (fold_left ledger_step l2 st)).
  Proof.
    induction l2 as [|x l2 IH]; intros st r Hr; simpl; [exact Hr|].
    apply IH. unfold ledger_step. cbn [fst]. destruct (relevant _ _); [apply in_or_app; left|]; exact Hr.
  Qed.

  (** every transaction that pays a wallet path, or spends a wallet output
      created earlier and not spent before, is recorded with its height *)
  Lemma ledger_records l1 h t l2 :
    has_keys t = true \/
    (exists o, In o (t_ins t) /\ In o (created l1) /\ ~ In o (inputs l1)) ->
    In (h, t_id t) (fst (ledger (l1 ++ (h, t) :: l2))).
  Proof.
    intros Hrel. unfold ledger. rewrite fold_left_app. cbn [fold_left]. fold (ledger l1).
    apply ledger_rec_grows. unfold ledger_step. cbn [fst snd].
    assert (E : relevant (snd (ledger l1)) t = true).
    { unfold relevant. apply orb_true_iff. destruct Hrel as [Hk|(o & Ho & Hc & Hi)]; [left; exact Hk|].
      right. apply existsb_exists. exists o. split; [exact Ho|]. apply mem_op_In.
      apply ledger_utxo_complete; assumption. }
    rewrite E. apply in_or_app. right. left. reflexivity.
  Qed.

  (** and only those *)
  Lemma ledger_records_only l : forall r, In r (fst (ledger l)) ->
    exists l1 h t l2, l = l1 ++ (h, t) :: l2 /\ r = (h, t_id t) /\
      (has_keys t = true \/ exists o, In o (t_ins t) /\ In o (created l1)).
  Proof.
    induction l as [|x l IH] using rev_ind; intros r Hr; [destruct Hr|].
    rewrite ledger_snoc in Hr. unfold ledger_step in Hr. cbn [fst] in Hr.
    assert (Hold : In r (fst (ledger l)) ->
              exists l1 h t l2, l ++ [x] = l1 ++ (h, t) :: l2 /\ r = (h, t_id t) /\
                (has_keys t = true \/ exists o, In o (t_ins t) /\ In o (created l1))).
    { intros H. destruct (IH r H) as (l1 & h & t & l2 & E & Er & Hrel).
      exists l1, h, t, (l2 ++ [x]). split; [rewrite E, <- app_assoc; reflexivity|]. split; assumption. }
    destruct (relevant (snd (ledger l)) (snd x)) eqn:Erel; [|apply Hold; exact Hr].
    apply in_app_iff in Hr. destruct Hr as [Hr|[Hr|[]]]; [apply Hold; exact Hr|].
    destruct x as [h t]. exists l, h, t, []. split; [reflexivity|]. split; [symmetry; exact Hr|].
    unfold relevant in Erel. apply orb_true_iff in Erel. destruct Erel as [Hk|Hs]; [left; exact Hk|].
    right. apply existsb_exists in Hs. destruct Hs as (o & Ho & Hm). exists o. split; [exact Ho|].
    apply ledger_utxo_created. apply mem_op_In. exact Hm.
  Qed.

  (** * The completeness theorem (fresh wallet, any window, batch size and
      interruption points) *)
  Theorem recovery_complete W bs bday (chain : list block) cuts :
    let all := scanned_chain bday chain in
    within_window W all -> chain_wf all ->
    (forall c, In c cuts -> c <= N.of_nat (length chain)) ->
    In (N.of_nat (length chain)) cuts ->
    let p := recovery_runs' W bs bday cuts chain fresh_pstate in
    (* every used address is discovered: known to the address manager and marked used *)
    (forall x k, In x all -> In k (block_keys (snd x)) -> In k (p_used p) /\ known' p k = true) /\
    (* the recorded transactions and the unspent set are the ledger's *)
    (p_txs p, p_unspent p) = ledger (txs_of all) /\
    (* each branch's next index is 1 + the highest paid index, hence above every paid index *)
    (forall k, In (fst k) scopes -> get_next k p = found_before k all) /\
    (forall x k i, In x all -> In i (paid_on k (snd x)) -> i < get_next k p) /\
    p_synced p = N.of_nat (length chain).
  Proof.
    intros all Hw Hwf Hc Hlast.
    destruct (recovery_runs_complete W bs bday chain cuts (batch_ok_of W all Hw Hwf) Hc Hlast)
      as ((Hnext & Hused & Hled) & Hs).
    cbv zeta. set (p := recovery_runs' W bs bday cuts chain fresh_pstate) in *. fold all in Hnext, Hused, Hled.
    assert (Hpaid : forall x k i, In x all -> In i (paid_on k (snd x)) ->
                      In (fst k) scopes /\ valid k i = true /\ i < get_next k p).
    { intros x k i Hx Hi. destruct (in_split _ _ Hx) as (l1 & l2 & E).
      destruct (Hw l1 x l2 E k i Hi) as (Hs1 & Hv & _).
      split; [exact Hs1|]. split; [exact Hv|]. rewrite (Hnext k Hs1). apply (found_before_gt k all x i Hx Hi). }
    split; [|split; [exact Hled|split; [exact Hnext|split; [|exact Hs]]]].
    - intros x [[s b] i] Hx Hk. split.
      + apply Hused. apply in_flat_map. exists x. split; assumption.
      + assert (Hi : In i (paid_on (s, b) (snd x))) by (unfold paid_on; apply found_indices_In; exact Hk).
        destruct (Hpaid x (s, b) i Hx Hi) as (Hs1 & Hv & Hlt). simpl in Hs1.
        unfold known', known. apply andb_true_iff. split; [apply andb_true_iff; split|].
        * apply memN_In. exact Hs1.
        * apply N.ltb_lt. exact Hlt.
        * exact Hv.
    - intros x k i Hx Hi. apply (Hpaid x k i Hx Hi).
  Qed.

  (** * Part 11: the production entry.  syncWithChain on a wallet without a
      stored birthday block sets synced-to to the located block [b] and runs
      recovery with birthday block [b]; every later start runs recovery with
      the stored block from the stored synced-to height. *)

  (** ** heights of the blocks one run looks at *)
  Lemma number_from_ge {A} (l : list A) : forall a x, In x (number_from a l) -> a <= fst x.
  Proof.
    induction l as [|y l IH]; intros a x Hx; simpl in Hx; [destruct Hx|].
    destruct Hx as [<-|Hx]; [simpl; lia|]. specialize (IH _ _ Hx). lia.
  Qed.

  Lemma number_from_lt {A} (l : list A) : forall a x,
    In x (number_from a l) -> fst x < a + N.of_nat (length l).
  Proof.
    induction l as [|y l IH]; intros a x Hx; simpl in Hx; [destruct Hx|].
    destruct Hx as [<-|Hx]; [simpl; lia|]. specialize (IH _ _ Hx). simpl length. lia.
  Qed.

  Lemma number_from_skipn {A} : forall n (l : list A) a,
    skipn n (number_from a l) = number_from (a + N.of_nat n) (skipn n l).
  Proof.
    induction n as [|n IH]; intros l a.
    - simpl. rewrite N.add_0_r. reflexivity.
    - destruct l as [|y l]; [reflexivity|]. cbn [number_from skipn]. rewrite IH. f_equal. lia.
  Qed.

  Lemma number_from_firstn {A} : forall n (l : list A) a,
    firstn n (number_from a l) = number_from a (firstn n l).
  Proof.
    induction n as [|n IH]; intros l a; [reflexivity|].
    destruct l as [|y l]; [reflexivity|]. cbn [number_from firstn]. rewrite IH. reflexivity.
  Qed.

  Lemma In_firstn_In {A} n (l : list A) x : In x (firstn n l) -> In x l.
  Proof. intros H. rewrite <- (firstn_skipn n l). apply in_or_app. left. exact H. Qed.

  Lemma hts_gt (chain : list block) synced best x :
    In x (heights_to_scan chain synced best) -> synced < fst x.
  Proof.
    unfold heights_to_scan. rewrite skipn_firstn_comm. intros H. apply In_firstn_In in H.
    rewrite number_from_skipn in H. apply number_from_ge in H. lia.
  Qed.

  (** ** the birthday height does not matter once synced-to has reached it *)
  Lemma recovery_loop_bday best bs b1 b2 : forall hs batch st,
    (forall x, In x hs -> b1 <= fst x /\ b2 <= fst x) ->
    recovery_loop' hs best bs b1 batch st = recovery_loop' hs best bs b2 batch st.
  Proof.
    unfold recovery_loop'.
    induction hs as [|[h blk] rest IH]; intros batch st H; [reflexivity|].
    cbn [recovery_loop].
    destruct (H (h, blk) (or_introl eq_refl)) as [H1 H2]. simpl in H1, H2.
    rewrite (proj2 (N.leb_le b1 h) H1), (proj2 (N.leb_le b2 h) H2).
    destruct (Nat.eqb (length (batch ++ [(h, blk)])) bs || (h =? best));
      apply IH; intros x Hx; apply H; right; exact Hx.
  Qed.

  Lemma recovery_bday W bs b1 b2 best chain p :
    b1 <= p_synced p + 1 -> b2 <= p_synced p + 1 ->
    recovery' W bs b1 best chain p = recovery' W bs b2 best chain p.
  Proof.
    intros H1 H2. unfold recovery', recovery. f_equal.
    apply (recovery_loop_bday best bs b1 b2). intros x Hx. apply hts_gt in Hx. lia.
  Qed.

  Lemma runs_bday W bs b (chain : list block) : forall cuts p,
    batch_ok W [] (scanned (b + 1) (number_from 1 chain)) ->
    (forall c, In c cuts -> c <= N.of_nat (length chain)) ->
    pinv p (scanned (b + 1) (firstn (N.to_nat (p_synced p)) (number_from 1 chain))) ->
    p_synced p <= N.of_nat (length chain) ->
    b <= p_synced p ->
    recovery_runs' W bs b cuts chain p = recovery_runs' W bs (b + 1) cuts chain p.
  Proof.
    induction cuts as [|c cuts IH]; intros p Hok Hc Hp Hm Hb; [reflexivity|].
    assert (E : forall bd, recovery_runs' W bs bd (c :: cuts) chain p =
                           recovery_runs' W bs bd cuts chain (recovery' W bs bd c chain p)) by reflexivity.
    rewrite !E. rewrite (recovery_bday W bs b (b + 1) c chain p) by lia.
    destruct (run_step W bs (b + 1) chain p c Hok Hp Hm) as (S1 & S2).
    { apply Hc. left. reflexivity. }
    apply IH.
    - exact Hok.
    - intros c' Hc'. apply Hc. right. exact Hc'.
    - exact S1.
    - rewrite S2. pose proof (Hc c (or_introl eq_refl)). lia.
    - rewrite S2. lia.
  Qed.

  (** ** the blocks after height [b], in order *)
  Definition blocks_after (b : N) (chain : list block) : list (N * block) :=
    skipn (N.to_nat b) (number_from 1 chain).

  (** ... are the chain without its first [b] blocks, numbered from [b + 1] *)
  Lemma blocks_after_numbered b (chain : list block) :
    blocks_after b chain = number_from (b + 1) (skipn (N.to_nat b) chain).
  Proof. unfold blocks_after. rewrite number_from_skipn. f_equal. lia. Qed.

  Lemma filter_none {A} (f : A -> bool) l : (forall x, In x l -> f x = false) -> filter f l = [].
  Proof.
    induction l as [|x l IH]; simpl; intros H; [reflexivity|].
    rewrite (H x (or_introl eq_refl)). apply IH. intros y Hy. apply H. right. exact Hy.
  Qed.

  Lemma scanned_before b (chain : list block) n :
    (n <= N.to_nat b)%nat -> scanned (b + 1) (firstn n (number_from 1 chain)) = [].
  Proof.
    intros Hn. unfold scanned. apply filter_none. intros x Hx.
    rewrite number_from_firstn in Hx. apply number_from_lt in Hx.
    pose proof (firstn_le_length n chain). apply N.leb_gt. lia.
  Qed.

  Lemma scanned_after b (chain : list block) : scanned_chain (b + 1) chain = blocks_after b chain.
  Proof.
    unfold scanned_chain, blocks_after.
    rewrite <- (firstn_skipn (N.to_nat b) (number_from 1 chain)) at 1.
    rewrite scanned_app, scanned_before by lia. simpl. unfold scanned. apply filter_all_true.
    intros x Hx. rewrite number_from_skipn in Hx. apply number_from_ge in Hx. apply N.leb_le. lia.
  Qed.

  (** ** what the invariant says at the end, in ledger form *)
  Lemma pinv_conclusions W all p :
    within_window W all -> pinv p all ->
    (forall x k, In x all -> In k (block_keys (snd x)) -> In k (p_used p) /\ known' p k = true) /\
    (p_txs p, p_unspent p) = ledger (txs_of all) /\
    (forall k, In (fst k) scopes -> get_next k p = found_before k all) /\
    (forall x k i, In x all -> In i (paid_on k (snd x)) -> i < get_next k p).
  Proof.
    intros Hw (Hnext & Hused & Hled).
    assert (Hpaid : forall x k i, In x all -> In i (paid_on k (snd x)) ->
                      In (fst k) scopes /\ valid k i = true /\ i < get_next k p).
    { intros x k i Hx Hi. destruct (in_split _ _ Hx) as (l1 & l2 & E).
      destruct (Hw l1 x l2 E k i Hi) as (Hs1 & Hv & _).
      split; [exact Hs1|]. split; [exact Hv|]. rewrite (Hnext k Hs1). apply (found_before_gt k all x i Hx Hi). }
    split; [|split; [exact Hled|split; [exact Hnext|]]].
    - intros x [[s b] i] Hx Hk. split.
      + apply Hused. apply in_flat_map. exists x. split; assumption.
      + assert (Hi : In i (paid_on (s, b) (snd x))) by (unfold paid_on; apply found_indices_In; exact Hk).
        destruct (Hpaid x (s, b) i Hx Hi) as (Hs1 & Hv & Hlt). simpl in Hs1.
        unfold known', known. apply andb_true_iff. split; [apply andb_true_iff; split|].
        * apply memN_In. exact Hs1.
        * apply N.ltb_lt. exact Hlt.
        * exact Hv.
    - intros x k i Hx Hi. apply (Hpaid x k i Hx Hi).
  Qed.

  (** ** the start-ups *)
  Definition startup' := startup invalid_child inv_bound scopes.
  Definition startups' := startups invalid_child inv_bound scopes.

  Lemma startups_cons W bs ts birthday c cuts chain ws :
    startups' W bs ts birthday (c :: cuts) chain ws =
    match startup' W bs ts birthday c chain ws with
    | Some s => startups' W bs ts birthday cuts chain s
    | None => None
    end.
  Proof.
    unfold startups', startups, startup'. cbn [fold_left].
    destruct (startup invalid_child inv_bound scopes W bs ts birthday c chain ws); [reflexivity|].
    induction cuts as [|c' cuts IH]; [reflexivity|exact IH].
  Qed.

  (** with a stored birthday block every start is a plain recovery run *)
  Lemma startups_stored W bs ts birthday (chain : list block) b : forall cuts p,
    startups' W bs ts birthday cuts chain {| w_bblock := Some b; w_p := p |} =
    Some {| w_bblock := Some b; w_p := recovery_runs' W bs b cuts chain p |}.
  Proof.
    induction cuts as [|c cuts IH]; intros p; [reflexivity|].
    rewrite startups_cons. unfold startup', startup. cbn [w_bblock w_p]. rewrite IH. reflexivity.
  Qed.

  (** The production entry: a wallet restored from seed (no birthday block
      stored, synced-to at genesis) started against a chain that ends at
      height [c0], on which the search returns the block at height [b], and
      started again whenever the chain has grown to the next height of
      [cuts], scans exactly the blocks after [b] ([pinv] relates the state to
      the ledger of exactly that list) and ends synced to the tip. *)
  Lemma startups_inv W bs ts birthday (chain : list block) c0 cuts hz :
    locate_birthday (firstn (S (N.to_nat c0)) ts) birthday = Some hz ->
    let b := Z.to_N hz in
    let all := blocks_after b chain in
    within_window W all -> chain_wf all ->
    (forall c, In c (c0 :: cuts) -> c <= N.of_nat (length chain)) ->
    In (N.of_nat (length chain)) (c0 :: cuts) ->
    exists p,
      startups' W bs ts birthday (c0 :: cuts) chain fresh_wstate =
        Some {| w_bblock := Some b; w_p := p |} /\
      b <= c0 /\ pinv p all /\ p_synced p = N.of_nat (length chain).
  Proof.
    intros Hloc b all Hw Hwf Hc Hlast.
    assert (Hb : b <= c0).
    { destruct (locate_birthday_bound _ _ _ Hloc) as [Hr _]. rewrite firstn_length in Hr. subst b. lia. }
    pose proof (Hc c0 (or_introl eq_refl)) as Hc0.
    assert (Hok : batch_ok W [] (scanned (b + 1) (number_from 1 chain))).
    { fold (scanned_chain (b + 1) chain). rewrite scanned_after. apply batch_ok_of; assumption. }
    set (p0 := set_synced b fresh_pstate).
    assert (Hp0 : pinv p0 (scanned (b + 1) (firstn (N.to_nat (p_synced p0)) (number_from 1 chain)))).
    { simpl p_synced. rewrite scanned_before by lia. apply pinv_set_synced. exact pinv_fresh. }
    exists (recovery_runs' W bs (b + 1) (c0 :: cuts) chain p0).
    split; [|split; [exact Hb|]].
    - rewrite startups_cons. unfold startup', startup. cbn [w_bblock w_p fresh_wstate].
      rewrite Hloc. cbv zeta. fold b. rewrite startups_stored. do 2 f_equal.
      unfold first_start. fold recovery'. fold p0.
      change (recovery_runs' W bs b cuts chain (recovery' W bs b c0 chain p0))
        with (recovery_runs' W bs b (c0 :: cuts) chain p0).
      apply runs_bday; try assumption; simpl p_synced; lia.
    - destruct (recovery_runs_inv W bs (b + 1) chain (c0 :: cuts) p0 Hok Hc Hp0) as (I1 & I2).
      { simpl p_synced. lia. }
      cbv zeta in I1, I2. simpl p_synced in I2 at 2.
      assert (E : fold_left N.max (c0 :: cuts) b = N.of_nat (length chain)).
      { apply N.le_antisymm; [apply fold_max_bound; [lia|exact Hc]|apply fold_max_ge; exact Hlast]. }
      rewrite I2, E in I1. rewrite I2, E. split; [|reflexivity].
      rewrite Nat2N.id in I1. rewrite firstn_all2 in I1 by (rewrite number_from_length; lia).
      fold (scanned_chain (b + 1) chain) in I1. rewrite scanned_after in I1. exact I1.
  Qed.

  Theorem startups_complete W bs ts birthday (chain : list block) c0 cuts hz :
    locate_birthday (firstn (S (N.to_nat c0)) ts) birthday = Some hz ->
    let b := Z.to_N hz in
    let all := blocks_after b chain in
    within_window W all -> chain_wf all ->
    (forall c, In c (c0 :: cuts) -> c <= N.of_nat (length chain)) ->
    In (N.of_nat (length chain)) (c0 :: cuts) ->
    exists p,
      startups' W bs ts birthday (c0 :: cuts) chain fresh_wstate =
        Some {| w_bblock := Some b; w_p := p |} /\
      b <= c0 /\
      (forall x k, In x all -> In k (block_keys (snd x)) -> In k (p_used p) /\ known' p k = true) /\
      (p_txs p, p_unspent p) = ledger (txs_of all) /\
      (forall k, In (fst k) scopes -> get_next k p = found_before k all) /\
      (forall x k i, In x all -> In i (paid_on k (snd x)) -> i < get_next k p) /\
      p_synced p = N.of_nat (length chain).
  Proof.
    intros Hloc b all Hw Hwf Hc Hlast.
    destruct (startups_inv W bs ts birthday chain c0 cuts hz Hloc Hw Hwf Hc Hlast) as (p & E & Hb & Hp & Hs).
    exists p. split; [exact E|]. split; [exact Hb|].
    destruct (pinv_conclusions W all p Hw Hp) as (C1 & C2 & C3 & C4).
    split; [exact C1|split; [exact C2|split; [exact C3|split; [exact C4|exact Hs]]]].
  Qed.

  (** ** which blocks a run hands to recoverScopedAddresses, and when

      [loop_flushes] lists, for the loop of [recovery], the height at which a
      batch is flushed together with that batch; it depends on the heights,
      the batch size and the birthday height only.  The loop is the fold of
      "recover the batch, then set synced-to" over that list. *)
  Fixpoint loop_flushes (hs : list (N * block)) (best : N) (bs : nat) (bday : N)
      (batch : list (N * block)) : list (N * list (N * block)) :=
    match hs with
    | [] => []
    | (h, blk) :: rest =>
        let batch1 := if bday <=? h then batch ++ [(h, blk)] else batch in
        if Nat.eqb (length batch1) bs || (h =? best)
        then (h, batch1) :: loop_flushes rest best bs bday []
        else loop_flushes rest best bs bday batch1
    end.

  Definition flush (st : rstate * pstate) (f : N * list (N * block)) : rstate * pstate :=
    let st1 := recover_batch' st (snd f) in (fst st1, set_synced (fst f) (snd st1)).

  Lemma recovery_loop_flushes best bs bday : forall hs batch st,
    recovery_loop' hs best bs bday batch st = fold_left flush (loop_flushes hs best bs bday batch) st.
  Proof.
    unfold recovery_loop'.
    induction hs as [|[h blk] rest IH]; intros batch st; [reflexivity|].
    cbn [recovery_loop loop_flushes].
    destruct (Nat.eqb (length (if bday <=? h then batch ++ [(h, blk)] else batch)) bs || (h =? best)).
    - cbn [fold_left]. rewrite IH. reflexivity.
    - apply IH.
  Qed.

  Lemma loop_flushes_concat best bs bday : forall hs batch,
    (hs = [] -> batch = []) -> ends_with best hs ->
    concat (map snd (loop_flushes hs best bs bday batch)) = batch ++ scanned bday hs.
  Proof.
    induction hs as [|[h blk] rest IH]; intros batch Hb Hend.
    - rewrite (Hb eq_refl). reflexivity.
    - destruct (ends_with_cons best _ _ Hend) as (Hlast & Hend').
      cbn [loop_flushes].
      set (batch1 := if bday <=? h then batch ++ [(h, blk)] else batch).
      assert (Eb : batch ++ scanned bday ((h, blk) :: rest) = batch1 ++ scanned bday rest).
      { unfold scanned, batch1. simpl. destruct (bday <=? h); [rewrite <- app_assoc; reflexivity|reflexivity]. }
      rewrite Eb.
      destruct (Nat.eqb (length batch1) bs || (h =? best)) eqn:Eflush.
      + cbn [map concat snd]. rewrite IH; [reflexivity|reflexivity|exact Hend'].
      + apply IH; [|exact Hend'].
        intros Er. apply orb_false_iff in Eflush. destruct Eflush as [_ Eh].
        pose proof (Hlast Er) as Hh. simpl in Hh. rewrite Hh, N.eqb_refl in Eh. discriminate.
  Qed.

  (** One run from synced-to height [synced] >= birthday height - 1 against a
      chain that has grown to [best]: the batches, concatenated in the order
      they are flushed, are the blocks at heights synced+1 .. best, each once,
      in order - whatever the batch size. *)
  Lemma run_scans bs bday best (chain : list block) synced :
    bday <= synced + 1 -> best <= N.of_nat (length chain) ->
    concat (map snd (loop_flushes (heights_to_scan chain synced best) best bs bday [])) =
    firstn (N.to_nat (best - synced)) (blocks_after synced chain).
  Proof.
    intros Hb Hbest.
    assert (Ehts : heights_to_scan chain synced best =
                   firstn (N.to_nat (best - synced)) (blocks_after synced chain)).
    { unfold heights_to_scan, blocks_after. rewrite skipn_firstn_comm. f_equal. lia. }
    destruct (N.le_gt_cases best synced) as [Hle|Hgt].
    - rewrite (hts_empty chain synced best Hle). replace (best - synced) with 0 by lia. reflexivity.
    - destruct (hts_ends chain synced best Hgt Hbest) as (He & _).
      rewrite loop_flushes_concat; [|reflexivity|exact He]. simpl. rewrite <- Ehts.
      unfold scanned. apply filter_all_true. intros x Hx. apply hts_gt in Hx. apply N.leb_le. lia.
  Qed.

  (** All runs: started at the heights [cuts] from synced-to height [synced]
      (synced-to follows the maximum, [run_step]), the scanned blocks of all
      runs, concatenated, are the blocks after [synced]. *)
  Fixpoint runs_scanned (bs : nat) (bday : N) (cuts : list N) (chain : list block) (synced : N)
    : list (N * block) :=
    match cuts with
    | [] => []
    | c :: r =>
        concat (map snd (loop_flushes (heights_to_scan chain synced c) c bs bday [])) ++
        runs_scanned bs bday r chain (N.max synced c)
    end.

  Lemma skipn_plus {A} : forall m n (l : list A), skipn (n + m) l = skipn n (skipn m l).
  Proof.
    induction m as [|m IH]; intros n l.
    - rewrite Nat.add_0_r. reflexivity.
    - destruct l as [|x l].
      + destruct n; reflexivity.
      + rewrite Nat.add_succ_r. simpl. apply IH.
  Qed.

  Lemma runs_scanned_all bs bday (chain : list block) : forall cuts synced,
    bday <= synced + 1 ->
    (forall c, In c cuts -> c <= N.of_nat (length chain)) ->
    fold_left N.max cuts synced = N.of_nat (length chain) ->
    runs_scanned bs bday cuts chain synced = blocks_after synced chain.
  Proof.
    induction cuts as [|c cuts IH]; intros synced Hb Hc Hmax.
    - simpl in Hmax. subst synced. unfold blocks_after. rewrite Nat2N.id.
      symmetry. apply skipn_all2. rewrite number_from_length. lia.
    - cbn [runs_scanned]. cbn [fold_left] in Hmax.
      rewrite run_scans by (try assumption; apply Hc; left; reflexivity).
      rewrite IH; [|lia|intros c' Hc'; apply Hc; right; exact Hc'|exact Hmax].
      destruct (N.le_gt_cases c synced) as [Hle|Hgt].
      + replace (c - synced) with 0 by lia. replace (N.max synced c) with synced by lia. reflexivity.
      + replace (N.max synced c) with c by lia. unfold blocks_after.
        replace (N.to_nat c) with (N.to_nat (c - synced) + N.to_nat synced)%nat by lia.
        rewrite skipn_plus. apply firstn_skipn.
  Qed.
End Branch.
