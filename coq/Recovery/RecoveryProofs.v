(** Proofs about the recovery model (property C16). *)
From Verif Require Import Base.Prelude Recovery.Recovery.
Local Open Scope N_scope.

(** * Part 1: the birthday block search *)

Section Birthday.
  Local Open Scope Z_scope.

  Definition ts_at (ts : list Z) (h : Z) : Z := nth (Z.to_nat h) ts 0.

  (** non-decreasing block timestamps *)
  Definition monotone_ts (ts : list Z) : Prop :=
    forall i j, 0 <= i -> i <= j -> j < Z.of_nat (length ts) -> ts_at ts i <= ts_at ts j.

  (** What a returned height satisfies: it lies on the chain and is either
      the genesis block or a block stamped no later than birthday + 2h. *)
  Lemma locate_loop_spec ts bday best :
    forall fuel left right,
      0 <= left -> left <= right -> right <= best ->
      (left = 0 \/ ts_at ts left < bday - birthday_block_delta) ->
      (Z.to_nat (right - left) < fuel)%nat ->
      exists h, locate_loop fuel ts bday best left right = Some h /\
                0 <= h <= best /\
                (h = 0 \/ ts_at ts h <= bday + birthday_block_delta).
  Proof.
    unfold birthday_block_delta.
    induction fuel as [|f IH]; intros left right Hl Hlr Hrb Hleft Hfuel; [lia|].
    simpl. unfold birthday_block_delta.
    set (mid := left + (right - left) / 2).
    assert (Hmid : left <= mid <= right).
    { subst mid. pose proof (Z.div_pos (right - left) 2 ltac:(lia) ltac:(lia)).
      pose proof (Z.div_le_upper_bound (right - left) 2 (right - left) ltac:(lia) ltac:(lia)). lia. }
    destruct ((mid =? 0) || (mid =? best) || (mid =? left)) eqn:Hstop.
    - exists mid. split; [reflexivity|]. split; [lia|].
      apply orb_true_iff in Hstop. destruct Hstop as [Hstop|Hstop].
      + apply orb_true_iff in Hstop. destruct Hstop as [Hstop|Hstop].
        * left. lia.
        * (* mid = best forces left = best *)
          assert (mid = best) by lia.
          assert (left = mid).
          { subst mid. assert (right = best) by lia. subst right.
            assert (Hd : (best - left) / 2 = best - left) by lia.
            destruct (Z.eq_dec (best - left) 0) as [|Hne]; [lia|].
            pose proof (Z.div_lt (best - left) 2 ltac:(lia) ltac:(lia)). lia. }
          destruct Hleft as [Hleft|Hleft]; [left; lia|right].
          replace mid with left by lia. lia.
      + assert (mid = left) by lia.
        destruct Hleft as [Hleft|Hleft]; [left; lia|right].
        replace mid with left by lia. lia.
    - apply orb_false_iff in Hstop. destruct Hstop as [Hstop Hml].
      apply orb_false_iff in Hstop. destruct Hstop as [Hm0 Hmb].
      assert (Hmr : mid < right).
      { subst mid. destruct (Z.eq_dec (right - left) 0) as [Hz|Hne].
        - rewrite Hz in Hml. simpl in Hml. rewrite Z.add_0_r, Z.eqb_refl in Hml. discriminate.
        - pose proof (Z.div_lt (right - left) 2 ltac:(lia) ltac:(lia)). lia. }
      fold (ts_at ts mid).
      destruct (7200 <? ts_at ts mid - bday) eqn:Hlate.
      + apply IH; lia.
      + destruct (ts_at ts mid - bday <? - 7200) eqn:Hearly.
        * apply IH; lia.
        * exists mid. split; [reflexivity|]. split; [lia|]. right. lia.
  Qed.

  (** The search always returns a block of the chain (the fuel never runs
      out), for every timestamp sequence and birthday. *)
  Lemma locate_birthday_total ts bday :
    ts <> [] ->
    exists h, locate_birthday ts bday = Some h /\ 0 <= h < Z.of_nat (length ts) /\
              (h = 0 \/ ts_at ts h <= bday + birthday_block_delta).
  Proof.
    intros Hne. unfold locate_birthday. destruct ts as [|t0 ts']; [congruence|].
    set (l := t0 :: ts').
    assert (Hlen : (0 < length l)%nat) by (subst l; simpl; lia).
    destruct (locate_loop_spec l bday (Z.of_nat (length l) - 1) (S (length l)) 0
                (Z.of_nat (length l) - 1)) as (h & Hh & Hr & Hb); try lia.
    exists h. split; [exact Hh|]. split; [lia|exact Hb].
  Qed.

  Lemma locate_birthday_bound ts bday h :
    locate_birthday ts bday = Some h ->
    0 <= h < Z.of_nat (length ts) /\ (h = 0 \/ ts_at ts h <= bday + birthday_block_delta).
  Proof.
    intros H. destruct ts as [|t0 ts']; [discriminate|].
    destruct (locate_birthday_total (t0 :: ts') bday ltac:(discriminate)) as (h' & Hh' & Hr & Hb).
    rewrite H in Hh'. inversion Hh'; subst. split; assumption.
  Qed.

  (** Hence, on a chain with non-decreasing timestamps, the returned block is
      not later than any block stamped later than birthday + 2h. *)
  Lemma locate_birthday_not_late ts bday h :
    monotone_ts ts ->
    locate_birthday ts bday = Some h ->
    forall j, 0 <= j < Z.of_nat (length ts) ->
      bday + birthday_block_delta < ts_at ts j -> h <= j.
  Proof.
    intros Hmono H j Hj Hlate.
    destruct (locate_birthday_bound ts bday h H) as [Hr [H0|Hb]]; [lia|].
    destruct (Z_le_gt_dec h j) as [|Hgt]; [assumption|].
    pose proof (Hmono j h ltac:(lia) ltac:(lia) ltac:(lia)). lia.
  Qed.
End Birthday.

(** * Part 2: small facts about the list-backed sets *)

Lemma bkey_eqb_eq a b : bkey_eqb a b = true <-> a = b.
Proof.
  destruct a as [s1 b1], b as [s2 b2]. unfold bkey_eqb. simpl.
  rewrite andb_true_iff, N.eqb_eq, Bool.eqb_true_iff. split.
  - intros [-> ->]. reflexivity.
  - intros H. inversion H. auto.
Qed.

Lemma bkey_eqb_refl a : bkey_eqb a a = true.
Proof. apply bkey_eqb_eq. reflexivity. Qed.

Lemma bkey_eqb_neq a b : bkey_eqb a b = false <-> a <> b.
Proof.
  split.
  - intros H E. apply bkey_eqb_eq in E. congruence.
  - intros H. destruct (bkey_eqb a b) eqn:E; [apply bkey_eqb_eq in E; congruence|reflexivity].
Qed.

Lemma key_eqb_eq a b : key_eqb a b = true <-> a = b.
Proof.
  destruct a as [k1 i1], b as [k2 i2]. unfold key_eqb. simpl.
  rewrite andb_true_iff, bkey_eqb_eq, N.eqb_eq. split.
  - intros [-> ->]. reflexivity.
  - intros H. inversion H. auto.
Qed.

Lemma op_eqb_eq a b : op_eqb a b = true <-> a = b.
Proof.
  destruct a as [a1 a2], b as [b1 b2]. unfold op_eqb. simpl.
  rewrite andb_true_iff, !N.eqb_eq. split.
  - intros [-> ->]. reflexivity.
  - intros H. inversion H. auto.
Qed.

Lemma memN_In i l : memN i l = true <-> In i l.
Proof.
  unfold memN. rewrite existsb_exists. split.
  - intros (x & Hx & E). apply N.eqb_eq in E. subst. exact Hx.
  - intros H. exists i. split; [exact H|apply N.eqb_refl].
Qed.

Lemma memN_false i l : memN i l = false <-> ~ In i l.
Proof.
  rewrite <- memN_In. destruct (memN i l); split; intros; congruence.
Qed.

Lemma mem_op_In o l : mem_op o l = true <-> In o l.
Proof.
  unfold mem_op. rewrite existsb_exists. split.
  - intros (x & Hx & E). apply op_eqb_eq in E. subst. exact Hx.
  - intros H. exists o. split; [exact H|apply op_eqb_eq; reflexivity].
Qed.

Lemma mem_op_false o l : mem_op o l = false <-> ~ In o l.
Proof.
  rewrite <- mem_op_In. destruct (mem_op o l); split; intros; congruence.
Qed.

Lemma mem_key_In k l : mem_key k l = true <-> In k l.
Proof.
  unfold mem_key. rewrite existsb_exists. split.
  - intros (x & Hx & E). apply key_eqb_eq in E. subst. exact Hx.
  - intros H. exists k. split; [exact H|apply key_eqb_eq; reflexivity].
Qed.

Lemma insN_In i j l : In j (insN i l) <-> j = i \/ In j l.
Proof.
  unfold insN. destruct (memN i l) eqn:E.
  - apply memN_In in E. split; [auto|]. intros [->|H]; assumption.
  - simpl. split; intros [H|H]; auto.
Qed.

Lemma insN_NoDup i l : NoDup l -> NoDup (insN i l).
Proof.
  intros H. unfold insN. destruct (memN i l) eqn:E; [exact H|].
  constructor; [apply memN_false; exact E|exact H].
Qed.

Lemma ins_op_In o x l : In x (ins_op o l) <-> x = o \/ In x l.
Proof.
  unfold ins_op. destruct (mem_op o l) eqn:E.
  - apply mem_op_In in E. split; [auto|]. intros [->|H]; assumption.
  - simpl. split; intros [H|H]; auto.
Qed.

Lemma ins_key_In k x l : In x (ins_key k l) <-> x = k \/ In x l.
Proof.
  unfold ins_key. destruct (mem_key k l) eqn:E.
  - apply mem_key_In in E. split; [auto|]. intros [->|H]; assumption.
  - simpl. split; intros [H|H]; auto.
Qed.

Lemma filter_all_true {A} (f : A -> bool) l :
  (forall x, In x l -> f x = true) -> filter f l = l.
Proof.
  induction l as [|x l IH]; simpl; intros H; [reflexivity|].
  rewrite (H x (or_introl eq_refl)). f_equal. apply IH. intros y Hy. apply H. right. exact Hy.
Qed.

Lemma NoDup_app_disjoint {A} (l1 l2 : list A) x :
  NoDup (l1 ++ l2) -> In x l1 -> In x l2 -> False.
Proof.
  induction l1 as [|a l1 IH]; simpl; intros Hnd H1 H2; [contradiction|].
  inversion Hnd; subst. destruct H1 as [->|H1].
  - apply H3. apply in_or_app. right. exact H2.
  - apply IH; assumption.
Qed.

Lemma NoDup_app_l {A} (l1 l2 : list A) : NoDup (l1 ++ l2) -> NoDup l1.
Proof.
  induction l1 as [|a l1 IH]; simpl; intros H; [constructor|].
  inversion H; subst. constructor.
  - intros Hin. apply H2. apply in_or_app. left. exact Hin.
  - apply IH. exact H3.
Qed.

(** Invariant-style reasoning for left folds. *)
Lemma fold_left_inv {A B} (f : A -> B -> A) (P : list B -> A -> Prop) l a0 :
  P [] a0 ->
  (forall done x rest a, l = done ++ x :: rest -> P done a -> P (done ++ [x]) (f a x)) ->
  P l (fold_left f l a0).
Proof.
  intros H0 Hstep.
  assert (G : forall todo done a, l = done ++ todo -> P done a ->
                                  P (done ++ todo) (fold_left f todo a)).
  { induction todo as [|x todo IH]; intros done a El Hp; simpl.
    - rewrite app_nil_r. exact Hp.
    - replace (done ++ x :: todo) with ((done ++ [x]) ++ todo) by (rewrite <- app_assoc; reflexivity).
      apply IH.
      + rewrite <- app_assoc. exact El.
      + eapply Hstep; eauto. }
  apply (G l [] a0); [reflexivity|exact H0].
Qed.
