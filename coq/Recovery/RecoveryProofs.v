(** Proofs about the recovery model (property C16). *)
From Verif Require Import Base.Prelude Recovery.Recovery.
Local Open Scope N_scope.

(** * Part 1: the birthday block search *)

Section Birthday.
  Local Open Scope Z_scope.

  Definition ts_at (ts : list Z) (h : Z) : Z := nth (Z.to_nat h) ts 0.

  (** non-decreasing block timestamps *)
  Definition monotone_ts (ts : list Z) : Prop :=
    forall i j, 0 <= i -> i <= j -> j < Z.of_nat (length ts) -> ts_at ts i <= ts_at ts j.

  (** What a returned height satisfies: it lies on the chain and is either
      the genesis block or a block stamped no later than birthday + 2h. *)
  Lemma locate_loop_spec ts bday best :
    forall fuel left right,
      0 <= left -> left <= right -> right <= best ->
      (left = 0 \/ ts_at ts left < bday - birthday_block_delta) ->
      (Z.to_nat (right - left) < fuel)%nat ->
      exists h, locate_loop fuel ts bday best left right = Some h /\
                0 <= h <= best /\
                (h = 0 \/ ts_at ts h <= bday + birthday_block_delta).
  Proof.
    unfold birthday_block_delta.
    induction fuel as [|f IH]; intros left right Hl Hlr Hrb Hleft Hfuel; [lia|].
    simpl. unfold birthday_block_delta.
    set (mid := left + (right - left) / 2).
    assert (Hmid : left <= mid <= right).
    { subst mid. pose proof (Z.div_pos (right - left) 2 ltac:(lia) ltac:(lia)).
      pose proof (Z.div_le_upper_bound (right - left) 2 (right - left) ltac:(lia) ltac:(lia)). lia. }
    destruct ((mid =? 0) || (mid =? best) || (mid =? left)) eqn:Hstop.
    - exists mid. split; [reflexivity|]. split; [lia|].
      apply orb_true_iff in Hstop. destruct Hstop as [Hstop|Hstop].
      + apply orb_true_iff in Hstop. destruct Hstop as [Hstop|Hstop].
        * left. lia.
        * (* mid = best forces left = best *)
          assert (mid = best) by lia.
          assert (left = mid).
          { subst mid. assert (right = best) by lia. subst right.
            assert (Hd : (best - left) / 2 = best - left) by lia.
            destruct (Z.eq_dec (best - left) 0) as [|Hne]; [lia|].
            pose proof (Z.div_lt (best - left) 2 ltac:(lia) ltac:(lia)). lia. }
          destruct Hleft as [Hleft|Hleft]; [left; lia|right].
          replace mid with left by lia. lia.
      + assert (mid = left) by lia.
        destruct Hleft as [Hleft|Hleft]; [left; lia|right].
        replace mid with left by lia. lia.
    - apply orb_false_iff in Hstop. destruct Hstop as [Hstop Hml].
      apply orb_false_iff in Hstop. destruct Hstop as [Hm0 Hmb].
      assert (Hmr : mid < right).
      { subst mid. destruct (Z.eq_dec (right - left) 0) as [Hz|Hne].
        - rewrite Hz in Hml. simpl in Hml. rewrite Z.add_0_r, Z.eqb_refl in Hml. discriminate.
        - pose proof (Z.div_lt (right - left) 2 ltac:(lia) ltac:(lia)). lia. }
      fold (ts_at ts mid).
      destruct (7200 <? ts_at ts mid - bday) eqn:Hlate.
      + apply IH; lia.
      + destruct (ts_at ts mid - bday <? - 7200) eqn:Hearly.
        * apply IH; lia.
        * exists mid. split; [reflexivity|]. split; [lia|]. right. lia.
  Qed.

  (** The search always returns a block of the chain (the fuel never runs
      out), for every timestamp sequence and birthday. *)
  Lemma locate_birthday_total ts bday :
    ts <> [] ->
    exists h, locate_birthday ts bday = Some h /\ 0 <= h < Z.of_nat (length ts) /\
              (h = 0 \/ ts_at ts h <= bday + birthday_block_delta).
  Proof.
    intros Hne. unfold locate_birthday. destruct ts as [|t0 ts']; [congruence|].
    set (l := t0 :: ts').
    assert (Hlen : (0 < length l)%nat) by (subst l; simpl; lia).
    destruct (locate_loop_spec l bday (Z.of_nat (length l) - 1) (S (length l)) 0
                (Z.of_nat (length l) - 1)) as (h & Hh & Hr & Hb); try lia.
    exists h. split; [exact Hh|]. split; [lia|exact Hb].
  Qed.

  Lemma locate_birthday_bound ts bday h :
    locate_birthday ts bday = Some h ->
    0 <= h < Z.of_nat (length ts) /\ (h = 0 \/ ts_at ts h <= bday + birthday_block_delta).
  Proof.
    intros H. destruct ts as [|t0 ts']; [discriminate|].
    destruct (locate_birthday_total (t0 :: ts') bday ltac:(discriminate)) as (h' & Hh' & Hr & Hb).
    rewrite H in Hh'. inversion Hh'; subst. split; assumption.
  Qed.

  (** Hence, on a chain with non-decreasing timestamps, the returned block is
      not later than any block stamped later than birthday + 2h. *)
  Lemma locate_birthday_not_late ts bday h :
    monotone_ts ts ->
    locate_birthday ts bday = Some h ->
    forall j, 0 <= j < Z.of_nat (length ts) ->
      bday + birthday_block_delta < ts_at ts j -> h <= j.
  Proof.
    intros Hmono H j Hj Hlate.
    destruct (locate_birthday_bound ts bday h H) as [Hr [H0|Hb]]; [lia|].
    destruct (Z_le_gt_dec h j) as [|Hgt]; [assumption|].
    pose proof (Hmono j h ltac:(lia) ltac:(lia) ltac:(lia)). lia.
  Qed.
End Birthday.
