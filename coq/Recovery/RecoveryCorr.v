(** Executable comparison used by the correspondence check of C16: what the
    real wallet reported after recovery (harness/cmd/c16) against the model of
    Recovery.v on the same abstract chain, and the birthday block search
    against [locate_birthday] on the same timestamps. *)
From Verif Require Import Base.Prelude Recovery.Recovery.
Local Open Scope N_scope.

(** The implementation can only be run without invalid children. *)
Definition no_invalid : scope -> bool -> index -> bool := fun _ _ _ => false.
Definition default_scopes : list scope := [0; 1; 2; 3].

Record rcase := {
  rc_w : N;
  rc_bs : nat;                          (* batch size reported by the implementation *)
  rc_len : nat;                         (* chain length (blocks after genesis) *)
  rc_blocks : list (N * block);         (* the non-empty blocks, ascending heights *)
  rc_cuts : list N;                     (* recovery is run against the chain truncated at each *)
  rc_sync : bool;                       (* true: production start-up (ClientConnected -> syncWithChain);
                                           false: the recovery hook on a wallet at height 0 *)
  rc_ts : list Z;                       (* block timestamps by height; [] = simchain's default grid *)
  rc_bday : Z;                          (* birthday block height; negative: located from rc_birthday_ts *)
  rc_birthday_ts : Z;
  (* observed *)
  rc_err : bool;
  rc_init_zero : bool;
  rc_bday_used : N;                     (* birthday block handed to recovery / stored by the first start *)
  rc_next : list N;                     (* ext, int per scope 0..3 *)
  rc_probes : list (key * bool * bool); (* path, known to the manager, used *)
  rc_recorded : list (N * Z);           (* txid, height of its record or -1 *)
  rc_balance : Z;
  rc_unspent : list (outpoint * Z);     (* sorted by outpoint *)
  rc_synced : N }.

Fixpoint mk_chain (n : nat) (h : N) (sp : list (N * block)) : list block :=
  match n with
  | O => []
  | S m =>
      match sp with
      | (h', b) :: r => if h' =? h then b :: mk_chain m (h + 1) r else [] :: mk_chain m (h + 1) sp
      | [] => [] :: mk_chain m (h + 1) []
      end
  end.

(** simchain's default time grid *)
Definition grid_ts (n : nat) : list Z := map (fun h => (1600000000 + 600 * Z.of_nat h)%Z) (seq 0 n).

Definition op_ltb (a b : outpoint) : bool :=
  (fst a <? fst b) || ((fst a =? fst b) && (snd a <? snd b)).
Fixpoint ins_sorted (x : outpoint * Z) (l : list (outpoint * Z)) :=
  match l with
  | [] => [x]
  | y :: r => if op_ltb (fst x) (fst y) then x :: l else y :: ins_sorted x r
  end.
Definition sort_unspent (l : list (outpoint * Z)) := fold_right ins_sorted [] l.

Definition unspent_eqb (a b : list (outpoint * Z)) : bool :=
  Nat.eqb (length a) (length b) &&
  forallb (fun '(x, y) => op_eqb (fst x) (fst y) && Z.eqb (snd x) (snd y)) (combine a b).

Definition listN_eqb (a b : list N) : bool :=
  Nat.eqb (length a) (length b) && forallb (fun '(x, y) => x =? y) (combine a b).

Definition recorded_height (p : pstate) (id : N) : Z :=
  match find (fun r => snd r =? id) (p_txs p) with
  | Some r => Z.of_N (fst r)
  | None => (-1)%Z
  end.

(** What the theorems about the birthday block use of a search result
    (C16_birthday_search_total): it is a block of the chain and it is the
    genesis block or stamped no later than birthday + 2h.  WHICH such block
    the search returns is not compared: the implementation's own result is
    handed to the model of recovery, after checking that it is admissible. *)
Definition admissible (ts : list Z) (bday : Z) (h : Z) : bool :=
  ((0 <=? h) && (h <? Z.of_nat (length ts)) &&
   ((h =? 0) || (nth (Z.to_nat h) ts 0 <=? bday + birthday_block_delta)))%Z.

Definition case_ts (c : rcase) : list Z :=
  match rc_ts c with [] => grid_ts (S (rc_len c)) | l => l end.

Definition case_chain (c : rcase) : list block := mk_chain (rc_len c) 1 (rc_blocks c).

(** timestamps of the chain the backend has when the search runs *)
Definition search_ts (c : rcase) : list Z :=
  match rc_cuts c with
  | [] => []
  | c0 :: _ => firstn (S (N.to_nat c0)) (case_ts c)
  end.

(** the recovery hook on a fresh wallet (synced-to at genesis) *)
Definition hook_run (c : rcase) (bday : N) : pstate :=
  recovery_runs no_invalid 0 default_scopes (rc_w c) (rc_bs c) bday (rc_cuts c)
    (case_chain c) fresh_pstate.

(** the production start-ups with the first start's search result given *)
Definition sync_run_from (c : rcase) (b : N) : pstate :=
  match rc_cuts c with
  | [] => fresh_pstate
  | c0 :: rest =>
      recovery_runs no_invalid 0 default_scopes (rc_w c) (rc_bs c) b rest (case_chain c)
        (first_start no_invalid 0 default_scopes (rc_w c) (rc_bs c) b c0 (case_chain c) fresh_pstate)
  end.

Definition model_state (c : rcase) : option pstate :=
  let bi := rc_bday_used c in
  let adm h := admissible (search_ts c) (rc_birthday_ts c) h in
  if rc_sync c then
    match startups no_invalid 0 default_scopes (rc_w c) (rc_bs c) (case_ts c) (rc_birthday_ts c)
            (rc_cuts c) (case_chain c) fresh_wstate with
    | Some ws =>
        match w_bblock ws with
        | Some bm =>
            if adm (Z.of_N bm) && adm (Z.of_N bi)
            then Some (if bm =? bi then w_p ws else sync_run_from c bi)
            else None
        | None => None
        end
    | None => None
    end
  else if (rc_bday c <? 0)%Z then
    match locate_birthday (search_ts c) (rc_birthday_ts c) with
    | Some hm => if adm hm && adm (Z.of_N bi) then Some (hook_run c bi) else None
    | None => None
    end
  else if Z.to_N (rc_bday c) =? bi then Some (hook_run c bi) else None.

Definition model_next (p : pstate) : list N :=
  flat_map (fun s => [get_next (s, false) p; get_next (s, true) p]) default_scopes.

(** pointwise [<=]: the property asks the next index to be ABOVE the highest
    used one; the model's is exactly 1 + the highest found one *)
Definition listN_leb (a b : list N) : bool :=
  Nat.eqb (length a) (length b) && forallb (fun '(x, y) => x <=? y) (combine a b).

(** Compared: no error, a fresh wallet to begin with, next indices at least
    the model's, every probed path the model knows is known to the manager,
    the Used flag of every probed path, the record (height) of every
    transaction, balance, unspent set, synced-to height. *)
Definition rcase_ok (c : rcase) : bool :=
  match model_state c with
  | None => false
  | Some p =>
      negb (rc_err c) && rc_init_zero c &&
      listN_leb (model_next p) (rc_next c) &&
      forallb (fun '(k, pres, us) =>
                 implb (known no_invalid default_scopes p k) pres &&
                 Bool.eqb (mem_key k (p_used p)) us) (rc_probes c) &&
      forallb (fun '(id, h) => Z.eqb (recorded_height p id) h) (rc_recorded c) &&
      Z.eqb (fold_left (fun a u => (a + snd u)%Z) (p_unspent p) 0%Z) (rc_balance c) &&
      unspent_eqb (sort_unspent (p_unspent p)) (rc_unspent c) &&
      (p_synced p =? rc_synced c)
  end.

(** birthday search: timestamps, searched birthday, observed height.  The
    model's search is run (it must return a block) and both results must be
    admissible. *)
Definition bcase_ok (c : list Z * Z * Z) : bool :=
  let '(ts, b, h) := c in
  match locate_birthday ts b with
  | Some m => admissible ts b m && admissible ts b h
  | None => false
  end.

(** branch state: window, calls on the real BranchRecoveryState
    ((op, arg), (r1, r2), (NextUnfound, NumInvalidInHorizon, number of
    addresses)); op 0 ExtendHorizon, 1 AddAddr, 2 ReportFound,
    3 MarkInvalidChild.  The model replays the calls and must agree on every
    returned value and on the three read-backs after every call. *)
Definition brs_op := (N * N * (N * N) * (N * N * N))%type.
Fixpoint brs_run (st : brs) (ops : list brs_op) : bool :=
  match ops with
  | [] => true
  | (op, arg, (r1, r2), (nx, ninv, nadr)) :: rest =>
    let '(st', ok) :=
      match op with
      | 0 => let '(s, (a, b)) := extend_horizon st in (s, (a =? r1) && (b =? r2))
      | 1 => (add_addr arg st, true)
      | 2 => (report_found arg st, true)
      | _ => (mark_invalid_child arg st, true)
      end in
    ok && (next_unfound st' =? nx) && (num_invalid_in_horizon st' =? ninv) &&
    (N.of_nat (length (b_addrs st')) =? nadr) && brs_run st' rest
  end.
Definition brs_ok (c : N * list brs_op) : bool := brs_run (new_brs (fst c)) (snd c).

Inductive ccase := CRec (c : rcase) | CBday (c : list Z * Z * Z) | CBrs (c : N * list brs_op).

Definition case_ok (c : ccase) : bool :=
  match c with CRec r => rcase_ok r | CBday b => bcase_ok b | CBrs b => brs_ok b end.

Fixpoint mismatches_from {A} (f : A -> bool) (i : nat) (l : list A) : list nat :=
  match l with
  | [] => []
  | c :: l' => if f c then mismatches_from f (S i) l' else i :: mismatches_from f (S i) l'
  end.

Definition mismatches := mismatches_from case_ok 0.
